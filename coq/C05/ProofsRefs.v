(* C05 — fix_reference_nodes' hand-over of a footnote's nodes (C05/Refs.v) on the heap model:
   with the definition emptied afterwards the document stays a proper tree (for every heap / tree / pair of references);
   without it (the two bookkeeping tables keyed differently) it never does. *)
From Coq Require Import List NArith Bool Arith Lia.
From MW Require Import C05.Heap C05.TreeOps C05.ProofsApi C05.Refs.
From MW Require C05.ProofsWf.
Import ListNotations.

(* ---------------------------------------------------------------- heap side *)
Lemma append_all_spec : forall cs h u, ~ In u cs -> NoDup cs ->
  get (append_all h u cs) u = option_map (wk (kids h u ++ cs)) (get h u) /\
  (forall c, In c cs -> get (append_all h u cs) c = option_map (wp (Some u)) (get h c)) /\
  (forall j, j <> u -> ~ In j cs -> get (append_all h u cs) j = get h j).
Proof.
  induction cs as [|c r IH]; intros h u Hu Hnd.
  - simpl. repeat split.
    + rewrite app_nil_r. unfold kids. destruct (get h u) as [[k q l t]|]; reflexivity.
    + intros c [].
  - simpl in Hu. assert (Huc : u <> c) by (intro F; apply Hu; left; congruence). assert (Hur : ~ In u r) by tauto.
    inversion Hnd as [|? ? Hcr Hnd']; subst.
    destruct (append_child_spec h u c Huc) as (Gu & Gc & Go).
    destruct (IH (append_child h u c) u Hur Hnd') as (A & B & C).
    unfold append_all in *. simpl. repeat split.
    + rewrite A. rewrite Gu. unfold kids at 1. rewrite Gu. unfold kids. destruct (get h u) as [nd|]; simpl; [|reflexivity].
      unfold wk. simpl. rewrite <- app_assoc. reflexivity.
    + intros c' [->|Hc'].
      * rewrite C; auto.
      * rewrite B; auto. f_equal. apply Go; intro; subst; tauto.
    + intros j Hj Hjn. simpl in Hjn. rewrite C; [|auto|tauto]. apply Go; auto.
Qed.

Lemma handover_spec : forall h d u,
  d <> u -> ~ In u (kids h d) -> ~ In d (kids h d) -> NoDup (kids h d) ->
  get (handover h d u) d = option_map (wk []) (get h d) /\
  get (handover h d u) u = option_map (wk (kids h u ++ kids h d)) (get h u) /\
  (forall c, In c (kids h d) -> get (handover h d u) c = option_map (wp (Some u)) (get h c)) /\
  (forall j, j <> d -> j <> u -> ~ In j (kids h d) -> get (handover h d u) j = get h j).
Proof.
  intros h d u Hdu Hu Hd Hnd. destruct (append_all_spec (kids h d) h u Hu Hnd) as (A & B & C).
  unfold handover, handover_noclear. repeat split; intros; rewrite get_set_kids.
  - rewrite N.eqb_refl. rewrite C; auto.
  - destruct (N.eqb_spec u d); [congruence|]. exact A.
  - destruct (N.eqb_spec c d); [subst; contradiction|]. apply B; auto.
  - destruct (N.eqb_spec j d); [contradiction|]. apply C; auto.
Qed.

(* ---------------------------------------------------------------- tree side *)
(* d loses its subtrees, the (childless) node u gets them *)
Fixpoint t_hand (d u : N) (ks : list tree) (t : tree) : tree :=
  let 'T i ts := t in
  if N.eqb i d then T i [] else if N.eqb i u then T i ks else T i (map (t_hand d u ks) ts).

Lemma tid_t_hand : forall d u ks t, tid (t_hand d u ks t) = tid t.
Proof. intros d u ks [i ts]. simpl. destruct (N.eqb i d); [reflexivity|]. destruct (N.eqb i u); reflexivity. Qed.

Lemma hand_repr : forall h h' d u ks,
  d <> u ->
  get h' d = option_map (wk []) (get h d) ->
  get h' u = option_map (wk (map tid ks)) (get h u) ->
  (forall j, j <> d -> j <> u -> ~ In j (map tid ks) -> get h' j = get h j) ->
  Forall (repr h' (Some u)) ks ->
  clsof h u <> c_Text ->
  (forall j, In j (map tid ks) -> par h j = Some d) ->
  forall t q, repr h q t -> ~ In (tid t) (map tid ks) -> repr h' q (t_hand d u ks t).
Proof.
  intros h h' d u ks Hdu Gd Gu Go Hks Hcls Hpar.
  induction t as [i ts IH] using tree_ind'. intros q Hr Hin. simpl in Hin.
  assert (Hch : forall x, In x ts -> par h (tid x) = Some i).
  { intros x Hx. apply repr_root_par. eapply repr_child; eauto. }
  apply repr_inv in Hr. destruct Hr as (nd & Hg & Hp & Hcd & Htx & Hf).
  rewrite Forall_forall in Hf, IH. simpl.
  destruct (N.eqb_spec i d) as [E|E].
  - subst i. rewrite Hg in Gd. simpl in Gd.
    eapply repr_T with (nd := wk [] nd); [exact Gd | exact Hp | reflexivity | auto | constructor].
  - destruct (N.eqb_spec i u) as [F|F].
    + subst i. rewrite Hg in Gu. simpl in Gu.
      eapply repr_T with (nd := wk (map tid ks) nd); [exact Gu | exact Hp | reflexivity | | exact Hks].
      simpl. intro Hc. exfalso. apply Hcls. unfold clsof. rewrite Hg. exact Hc.
    + eapply repr_T with (nd := nd); auto.
      * rewrite Go; auto.
      * rewrite map_map. rewrite Hcd. apply map_ext. intros. rewrite tid_t_hand. reflexivity.
      * intro Hc. apply Htx in Hc. subst ts. reflexivity.
      * rewrite Forall_forall. intros x' Hx'. apply in_map_iff in Hx'. destruct Hx' as (x & <- & Hx).
        apply IH; auto. intro Hxin. apply Hpar in Hxin. rewrite (Hch x Hx) in Hxin. congruence.
Qed.

Lemma t_hand_as_replace : forall d u ks, d <> u -> forall t, tid t <> d -> tid t <> u ->
  t_hand d u ks t = t_replace u [T u ks] (t_replace d [T d []] t).
Proof.
  intros d u ks Hdu. induction t as [i ts IH] using tree_ind'. intros Hd Hu. simpl in Hd, Hu. simpl.
  destruct (N.eqb_spec i d); [contradiction|]. destruct (N.eqb_spec i u); [contradiction|]. f_equal.
  clear Hd Hu n n0. induction ts as [|x r IHr]; [reflexivity|].
  inversion IH as [|? ? Px Pr]; subst. simpl. rewrite flat_map_app. rewrite <- IHr by auto. clear IHr.
  replace (flat_map (fun x0 => if N.eqb (tid x0) u then [T u ks] else [t_replace u [T u ks] x0])
                    (if N.eqb (tid x) d then [T d []] else [t_replace d [T d []] x]))
    with [t_hand d u ks x]; [reflexivity|].
  destruct x as [j js]. simpl tid. destruct (N.eqb_spec j d) as [E|E].
  - subst j. simpl. rewrite N.eqb_refl. destruct (N.eqb_spec d u); [contradiction|]. reflexivity.
  - simpl flat_map. rewrite app_nil_r. destruct (N.eqb_spec j u) as [F|F].
    + subst j. simpl. destruct (N.eqb_spec u d); [congruence|]. rewrite N.eqb_refl. reflexivity.
    + f_equal. apply Px; auto.
Qed.

Lemma cnt_tids_below : forall x ts,
  cnt x (flat_map ids ts) = cnt x (map tid ts) + cnt x (flat_map (fun y => flat_map ids (tkids y)) ts).
Proof.
  intros x. induction ts as [|y r IH]; [reflexivity|].
  simpl map. rewrite !cnt_flat_map_cons, cnt_cons, IH, cnt_ids_root. lia.
Qed.

(* ---------------------------------------------------------------- the theorem *)
Theorem handover_preserves_WF : forall h r t d u sd,
  tid t = r -> repr h None t -> NoDup (ids t) ->
  d <> r -> u <> r -> d <> u ->
  t_find d t = Some sd -> In u (ids t) -> ~ In u (ids sd) ->
  kids h u = [] -> clsof h u <> c_Text ->
  WF (handover h d u) r.
Proof.
  intros h r t d u sd Er Hr Hnd Hdr Hur Hdu Hfd Hu Husd Hku Hcls.
  destruct (t_find_some _ _ _ Hfd) as [Esd Bsd].
  destruct sd as [d' ks]. simpl in Esd. subst d'.
  destruct (t_find_repr _ _ _ _ _ Hr Hfd) as [qd Hrd].
  pose proof (repr_kids _ _ _ _ Hrd) as Hkd.
  pose proof (t_find_NoDup _ _ _ Hnd Hfd) as Hndsd. simpl in Hndsd.
  apply NoDup_cons_iff in Hndsd. destruct Hndsd as [Hdk Hndk].
  assert (Hdk' : ~ In d (map tid ks)) by (intro F; apply Hdk; apply tids_incl; exact F).
  assert (Huk : ~ In u (map tid ks)) by (intro F; apply Husd; simpl; right; apply tids_incl; exact F).
  destruct (handover_spec h d u Hdu) as (Gd & Gu & Gc & Go); try (rewrite Hkd; auto).
  { apply NoDup_tids; auto. }
  rewrite Hku, Hkd in Gu. simpl in Gu. rewrite Hkd in Gc, Go.
  assert (Hpk : forall j, In j (map tid ks) -> par h j = Some d).
  { intros j Hj. apply in_map_iff in Hj. destruct Hj as (x & <- & Hx). apply repr_root_par. eapply repr_child; eauto. }
  assert (Hks : Forall (repr (handover h d u) (Some u)) ks).
  { rewrite Forall_forall. intros x Hx. pose proof (repr_child _ _ _ _ _ Hrd Hx) as Hrx.
    destruct x as [c xs]. eapply repr_reroot; [exact Hrx | | ].
    - apply Gc. apply in_map_iff. exists (T c xs). auto.
    - intros j Hj.
      assert (Hjk : In j (flat_map (fun y => flat_map ids (tkids y)) ks)) by (apply in_flat_map; exists (T c xs); auto).
      assert (Hjf : In j (flat_map ids ks)) by (apply in_flat_map; exists (T c xs); split; [auto | simpl; auto]).
      apply Go.
      + intro F. subst j. contradiction.
      + intro F. subst j. apply Husd. simpl. auto.
      + intro F. apply In_cnt in F. apply In_cnt in Hjk. rewrite NoDup_cnt in Hndk. specialize (Hndk j).
        rewrite cnt_tids_below in Hndk. lia. }
  assert (Hrn : ~ In (tid t) (map tid ks)).
  { intro F. apply Hpk in F. rewrite (repr_root_par _ _ _ Hr) in F. discriminate. }
  exists (t_hand d u ks t). split; [rewrite tid_t_hand; exact Er|]. split.
  - eapply hand_repr; eauto.
  - rewrite t_hand_as_replace by (auto; congruence).
    assert (Htd : tid t <> d) by congruence. assert (Htu : tid t <> u) by congruence.
    pose proof (cnt_replace d [T d []] t (T d ks) Hnd Htd Hfd) as E1.
    set (t1 := t_replace d [T d []] t) in *.
    assert (F1 : forall x, cnt x (ids t1) + cnt x (flat_map ids ks) = cnt x (ids t)).
    { intro x. specialize (E1 x). change (flat_map ids [T d []]) with [d] in E1.
      change (ids (T d ks)) with (d :: flat_map ids ks) in E1. rewrite !cnt_cons, cnt_nil in E1. lia. }
    clear E1.
    assert (Hnd1 : NoDup (ids t1)).
    { apply NoDup_cnt. intro x. specialize (F1 x). rewrite NoDup_cnt in Hnd. specialize (Hnd x). lia. }
    assert (Huks : ~ In u (flat_map ids ks)) by (intro F; apply Husd; simpl; auto).
    assert (Hu1 : In u (ids t1)).
    { apply In_cnt. specialize (F1 u). apply In_cnt in Hu. apply notIn_cnt in Huks. lia. }
    destruct (t_find_ex _ _ Hu1) as [su Hsu].
    assert (Ht1u : tid t1 <> u) by (unfold t1; rewrite tid_t_replace; exact Htu).
    pose proof (cnt_replace u [T u ks] t1 su Hnd1 Ht1u Hsu) as E2.
    destruct (t_find_some _ _ _ Hsu) as [Esu _].
    apply NoDup_cnt. intro x. specialize (F1 x). specialize (E2 x).
    rewrite NoDup_cnt in Hnd. specialize (Hnd x).
    pose proof (cnt_ids_root x su) as E3. rewrite Esu in E3.
    change (flat_map ids [T u ks]) with ((u :: flat_map ids ks) ++ []) in E2.
    rewrite app_nil_r, cnt_cons in E2.
    destruct (N.eqb u x); lia.
Qed.

(* ---------------------------------------------------------------- the loop WITHOUT emptying the definition *)
Lemma reach_mono : forall h h', (forall j, incl (kids h j) (kids h' j)) ->
  forall a b, reach h a b -> reach h' a b.
Proof.
  intros h h' Hk a b H. induction H as [a|a b c Hab IH Hc].
  - apply reach_refl.
  - eapply reach_step; [exact IH | apply Hk; exact Hc].
Qed.

Lemma kids_wp : forall h h' j p, get h' j = option_map (wp p) (get h j) -> kids h' j = kids h j.
Proof. intros h h' j p H. unfold kids. rewrite H. destruct (get h j); reflexivity. Qed.

Theorem handover_noclear_breaks_WF : forall h r t d u c,
  tid t = r -> repr h None t -> NoDup (ids t) ->
  In d (ids t) -> In u (ids t) -> d <> u -> ~ In u (kids h d) -> In c (kids h d) ->
  ~ WF (handover_noclear h d u) r.
Proof.
  intros h r t d u c Er Hr Hnd Hd Hu Hdu Hukd Hc Hwf.
  assert (W0 : WF h r) by (exists t; auto).
  destruct (ProofsWf.WF_first_order h r W0) as (_ & _ & Nk & _ & _ & Nc & _).
  assert (Rd : reach h r d) by (rewrite <- Er; eapply ProofsWf.ids_reach; eauto).
  assert (Ru : reach h r u) by (rewrite <- Er; eapply ProofsWf.ids_reach; eauto).
  assert (Hdd : ~ In d (kids h d)).
  { intro F. apply (Nc d Rd). eapply reach1_intro; [apply reach_refl | exact F]. }
  destruct (append_all_spec (kids h d) h u Hukd (Nk d Rd)) as (A & B & C).
  fold (handover_noclear h d u) in A, B, C.
  destruct (repr_get _ _ _ _ Hr Hu) as [ndu Gu].
  assert (Ku : kids (handover_noclear h d u) u = kids h u ++ kids h d).
  { unfold kids at 1. rewrite A, Gu. reflexivity. }
  assert (Kd : kids (handover_noclear h d u) d = kids h d).
  { unfold kids at 1. rewrite C; auto. }
  assert (Hinc : forall j, incl (kids h j) (kids (handover_noclear h d u) j)).
  { intros j. destruct (N.eq_dec j u) as [->|Hju].
    - rewrite Ku. apply incl_appl, incl_refl.
    - destruct (in_dec N.eq_dec j (kids h d)) as [I|I].
      + rewrite (kids_wp _ _ _ _ (B j I)). apply incl_refl.
      + unfold kids at 2. rewrite C; auto. apply incl_refl. }
  destruct (ProofsWf.WF_first_order _ r Hwf) as (_ & _ & _ & Uq & _).
  apply Hdu. apply (Uq d u c).
  - eapply reach_mono; eauto.
  - eapply reach_mono; eauto.
  - rewrite Kd. exact Hc.
  - rewrite Ku. apply in_or_app. right. exact Hc.
Qed.

(* ---------------------------------------------------------------- non-vacuity *)
(* Section 1 lists <ref name=x/> (2, no content) and <ref name=x>w10 w11</ref> (3) *)
Definition h_ref : heap :=
  [ (1, mkNode c_Section None [2; 3] []);
    (2, mkNode c_Reference (Some 1) [] []);
    (3, mkNode c_Reference (Some 1) [4; 5] []);
    (4, mkNode c_Text (Some 3) [] [10]);
    (5, mkNode c_Text (Some 3) [] [11]) ]%N.
Definition t_ref : tree := (T 1 [T 2 []; T 3 [T 4 []; T 5 []]])%N.

Example handover_example :
  (tid t_ref = 1 /\ repr h_ref None t_ref /\ NoDup (ids t_ref) /\ 3 <> 1 /\ 2 <> 1 /\ 3 <> 2 /\
   t_find 3 t_ref = Some (T 3 [T 4 []; T 5 []]) /\ In 2 (ids t_ref) /\ ~ In 2 (ids (T 3 [T 4 []; T 5 []])) /\
   kids h_ref 2 = [] /\ clsof h_ref 2 <> c_Text /\ ~ In 2 (kids h_ref 3) /\ In 4 (kids h_ref 3))%N /\
  (wfb (handover h_ref 3 2) 1 = true /\ words (handover h_ref 3 2) 1 = [10; 11] /\
   wfb (handover_noclear h_ref 3 2) 1 = false)%N.
Proof.
  split.
  - split; [reflexivity|]. split; [unfold t_ref, h_ref; prove_repr|]. split; [prove_nodup|].
    repeat split; try discriminate; try reflexivity; try (simpl; tauto); try (simpl; intuition discriminate).
  - vm_compute. repeat split.
Qed.
