(* C05 — the tree API of mwlib.parser.advtree (append_child, replace_child, remove_child, move_to,
   copy) : characterisation of each operation on represented trees, preservation of WF, and
   preservation along arbitrary sequences of operations whose stated preconditions hold.
   Self-contained: depends only on C05/Heap.v and C05/TreeOps.v. *)
From Coq Require Import List NArith Bool Arith Lia.
From MW Require Import C05.Heap C05.TreeOps.
Import ListNotations.

Definition disj (l1 l2 : list N) : Prop := forall x, In x l1 -> ~ In x l2.

(* ================================================================ 1. heap cells *)
Definition wp (p : option N) (nd : node) : node := mkNode (cls nd) p (children nd) (text nd).
Definition wk (l : list N) (nd : node) : node := mkNode (cls nd) (parent nd) l (text nd).

Lemma get_set : forall h i nd j, get (set h i nd) j = if N.eqb j i then Some nd else get h j.
Proof. reflexivity. Qed.

Lemma get_set_same : forall h i nd, get (set h i nd) i = Some nd.
Proof. intros. rewrite get_set, N.eqb_refl. reflexivity. Qed.

Lemma get_set_other : forall h i nd j, j <> i -> get (set h i nd) j = get h j.
Proof. intros. rewrite get_set. destruct (N.eqb_spec j i); congruence. Qed.

Lemma get_set_parent : forall h i p j,
  get (set_parent h i p) j = if N.eqb j i then option_map (wp p) (get h i) else get h j.
Proof.
  intros. unfold set_parent. destruct (get h i) eqn:E.
  - rewrite get_set. reflexivity.
  - destruct (N.eqb_spec j i); subst; auto.
Qed.

Lemma get_set_kids : forall h i l j,
  get (set_kids h i l) j = if N.eqb j i then option_map (wk l) (get h i) else get h j.
Proof.
  intros. unfold set_kids. destruct (get h i) eqn:E.
  - rewrite get_set. reflexivity.
  - destruct (N.eqb_spec j i); subst; auto.
Qed.

Lemma wp_wp : forall p q o, option_map (wp p) (option_map (wp q) o) = option_map (wp p) o.
Proof. intros. destruct o; reflexivity. Qed.

Lemma wp_id : forall nd p, parent nd = p -> wp p nd = nd.
Proof. intros [c q k t] p H. simpl in H. subst. reflexivity. Qed.

Lemma get_fold_set_parent : forall p news h j,
  get (fold_left (fun hh n => set_parent hh n (Some p)) news h) j =
  if memb j news then option_map (wp (Some p)) (get h j) else get h j.
Proof.
  intros p. induction news as [|n r IH]; intros h j; simpl.
  - reflexivity.
  - rewrite IH. rewrite get_set_parent.
    destruct (N.eqb_spec j n) as [->|Hn]; simpl.
    + rewrite wp_wp. destruct (memb n r); reflexivity.
    + reflexivity.
Qed.

Lemma memb_In : forall x l, memb x l = true <-> In x l.
Proof.
  induction l as [|y r IH]; simpl.
  - split; [discriminate | tauto].
  - rewrite orb_true_iff, IH. destruct (N.eqb_spec x y); intuition congruence.
Qed.

Lemma memb_false : forall x l, ~ In x l -> memb x l = false.
Proof. intros. destruct (memb x l) eqn:E; auto. apply memb_In in E. contradiction. Qed.

(* ================================================================ 2. counting occurrences *)
Definition cnt (x : N) (l : list N) : nat := count_occ N.eq_dec l x.

Lemma cnt_nil : forall x, cnt x [] = 0.
Proof. reflexivity. Qed.
Lemma cnt_cons : forall x y l, cnt x (y :: l) = (if N.eqb y x then 1 else 0) + cnt x l.
Proof.
  intros. unfold cnt. simpl.
  destruct (N.eq_dec y x); destruct (N.eqb_spec y x); try congruence; reflexivity.
Qed.
Lemma cnt_app : forall x l1 l2, cnt x (l1 ++ l2) = cnt x l1 + cnt x l2.
Proof.
  induction l1 as [|a l1 IH]; intros; [reflexivity|].
  change ((a :: l1) ++ l2) with (a :: (l1 ++ l2)). rewrite !cnt_cons, IH. lia.
Qed.
Arguments cnt : simpl never.

Lemma NoDup_cnt : forall l, NoDup l <-> forall x, cnt x l <= 1.
Proof. intros. apply (NoDup_count_occ N.eq_dec). Qed.
Lemma In_cnt : forall x l, In x l <-> cnt x l >= 1.
Proof. intros. unfold cnt. rewrite (count_occ_In N.eq_dec). lia. Qed.
Lemma notIn_cnt : forall x l, ~ In x l <-> cnt x l = 0.
Proof. intros. apply (count_occ_not_In N.eq_dec). Qed.

Lemma cnt_flat_map_cons : forall {A} (f : A -> list N) x a l,
  cnt x (flat_map f (a :: l)) = cnt x (f a) + cnt x (flat_map f l).
Proof. intros. simpl. apply cnt_app. Qed.

Lemma cnt_flat_map_in : forall {A} (f : A -> list N) x a l,
  In a l -> cnt x (f a) <= cnt x (flat_map f l).
Proof.
  induction l as [|b l IH]; intros H; [destruct H|].
  rewrite cnt_flat_map_cons. destruct H as [->|H]; [lia|]. apply IH in H. lia.
Qed.

Lemma cnt_flat_map_app : forall {A} (f : A -> list N) x l1 l2,
  cnt x (flat_map f (l1 ++ l2)) = cnt x (flat_map f l1) + cnt x (flat_map f l2).
Proof. intros. rewrite flat_map_app. apply cnt_app. Qed.

Lemma disj_cnt : forall l1 l2, NoDup l1 -> NoDup l2 -> disj l1 l2 ->
  forall x, cnt x l1 + cnt x l2 <= 1.
Proof.
  intros l1 l2 H1 H2 D x. rewrite NoDup_cnt in H1, H2. specialize (H1 x). specialize (H2 x).
  destruct (in_dec N.eq_dec x l1) as [I|I].
  - apply D in I. apply notIn_cnt in I. lia.
  - apply notIn_cnt in I. lia.
Qed.

Lemma cnt_disj : forall l1 l2, (forall x, cnt x l1 + cnt x l2 <= 1) -> disj l1 l2.
Proof.
  intros l1 l2 H x I1 I2. apply In_cnt in I1. apply In_cnt in I2. specialize (H x). lia.
Qed.

Lemma cnt_ids_root : forall x t, cnt x (ids t) = (if N.eqb (tid t) x then 1 else 0) + cnt x (flat_map ids (tkids t)).
Proof. intros x [i ts]. simpl. apply cnt_cons. Qed.

Lemma cnt_tids_le : forall x ts, cnt x (map tid ts) <= cnt x (flat_map ids ts).
Proof.
  induction ts as [|y r IH]; [apply Nat.le_refl|].
  rewrite cnt_flat_map_cons. simpl map. rewrite cnt_cons, cnt_ids_root. lia.
Qed.

Lemma NoDup_tids : forall ts, NoDup (flat_map ids ts) -> NoDup (map tid ts).
Proof.
  intros ts H. rewrite NoDup_cnt in *. intro x. specialize (H x).
  pose proof (cnt_tids_le x ts). lia.
Qed.

(* ================================================================ 3. trees, repr *)
Lemma tree_ind' (P : tree -> Prop) :
  (forall i ts, Forall P ts -> P (T i ts)) -> forall t, P t.
Proof.
  intros H. fix IH 1. intros [i ts]. apply H.
  induction ts as [|x r IHr]; constructor; [apply IH | apply IHr].
Qed.

Lemma repr_inv : forall h p i ts, repr h p (T i ts) ->
  exists nd, get h i = Some nd /\ parent nd = p /\ children nd = map tid ts /\
             (cls nd = c_Text -> ts = []) /\ Forall (repr h (Some i)) ts.
Proof. intros h p i ts H. inversion H; subst. eauto 10. Qed.

(* induction principle for repr through the nested Forall *)
Lemma repr_ind' (h : heap) (P : option N -> tree -> Prop) :
  (forall p i ts nd, get h i = Some nd -> parent nd = p -> children nd = map tid ts ->
                     (cls nd = c_Text -> ts = []) -> Forall (repr h (Some i)) ts ->
                     Forall (P (Some i)) ts -> P p (T i ts)) ->
  forall p t, repr h p t -> P p t.
Proof.
  intros H p t. revert p. induction t as [i ts IH] using tree_ind'. intros p Hr.
  apply repr_inv in Hr. destruct Hr as (nd & Hg & Hp & Hc & Ht & Hf).
  eapply H; eauto. rewrite Forall_forall in *. intros x Hx. apply IH; auto.
Qed.

Lemma repr_root_par : forall h q t, repr h q t -> par h (tid t) = q.
Proof. intros h q [i ts] H. apply repr_inv in H. destruct H as (nd & Hg & Hp & _). simpl. unfold par. rewrite Hg. auto. Qed.

Lemma repr_kids : forall h q i ts, repr h q (T i ts) -> kids h i = map tid ts.
Proof. intros h q i ts H. apply repr_inv in H. destruct H as (nd & Hg & _ & Hc & _). unfold kids. rewrite Hg. auto. Qed.

Lemma repr_child : forall h q i ts x, repr h q (T i ts) -> In x ts -> repr h (Some i) x.
Proof. intros h q i ts x H Hx. apply repr_inv in H. destruct H as (nd & _ & _ & _ & _ & Hf). rewrite Forall_forall in Hf. auto. Qed.

(* FRAME *)
Lemma repr_frame : forall h h' t p,
  (forall i, In i (ids t) -> get h' i = get h i) -> repr h p t -> repr h' p t.
Proof.
  intros h h'. induction t as [i ts IH] using tree_ind'. intros p Hag Hr.
  apply repr_inv in Hr. destruct Hr as (nd & Hg & Hp & Hc & Ht & Hf).
  eapply repr_T with (nd := nd); auto.
  - rewrite Hag; auto. simpl. auto.
  - rewrite Forall_forall in *. intros x Hx. apply IH; auto.
    intros j Hj. apply Hag. simpl. right. apply in_flat_map. eauto.
Qed.

(* re-parenting the root of a subtree, everything below it unchanged *)
Lemma repr_reroot : forall h h' q q' i ts,
  repr h q (T i ts) ->
  get h' i = option_map (wp q') (get h i) ->
  (forall j, In j (flat_map ids ts) -> get h' j = get h j) ->
  repr h' q' (T i ts).
Proof.
  intros h h' q q' i ts Hr Hi Hb.
  apply repr_inv in Hr. destruct Hr as (nd & Hg & Hp & Hc & Ht & Hf).
  rewrite Hg in Hi. simpl in Hi.
  eapply repr_T with (nd := wp q' nd); auto.
  rewrite Forall_forall in *. intros x Hx. apply repr_frame with (h := h); auto.
  intros j Hj. apply Hb. apply in_flat_map. eauto.
Qed.

Lemma repr_par_below : forall h q t j, repr h q t -> In j (flat_map ids (tkids t)) ->
  exists k, par h j = Some k.
Proof.
  intros h. intros q t j Hr. revert j. induction Hr as [p i ts nd Hg Hp Hc Ht Hf IH] using repr_ind'.
  intros j Hj. simpl in Hj. apply in_flat_map in Hj. destruct Hj as (x & Hx & Hj).
  rewrite Forall_forall in *. destruct x as [k ks]. simpl in Hj. destruct Hj as [<-|Hj].
  - exists i. apply (repr_root_par h (Some i) (T k ks)). auto.
  - apply (IH _ Hx). auto.
Qed.

Lemma repr_par_in : forall h q t n, repr h q t -> In n (ids t) -> n <> tid t ->
  exists pn, par h n = Some pn /\ In pn (ids t) /\ In n (kids h pn).
Proof.
  intros h q t n Hr. revert n. induction Hr as [p i ts nd Hg Hp Hc Ht Hf IH] using repr_ind'.
  intros n Hn Hne. simpl in Hn, Hne. destruct Hn as [Hn|Hn]; [congruence|].
  apply in_flat_map in Hn. destruct Hn as (x & Hx & Hn).
  rewrite Forall_forall in *. destruct (N.eq_dec n (tid x)) as [->|Hd].
  - exists i. split; [apply (repr_root_par h (Some i) x); auto|]. split; [simpl; auto|].
    unfold kids. rewrite Hg, Hc. apply in_map. auto.
  - destruct (IH _ Hx n Hn Hd) as (pn & H1 & H2 & H3). exists pn. split; auto. split; auto.
    simpl. right. apply in_flat_map. eauto.
Qed.

Lemma repr_get : forall h q t j, repr h q t -> In j (ids t) -> exists nd, get h j = Some nd.
Proof.
  intros h q t j Hr. revert j. induction Hr as [p i ts nd Hg Hp Hc Ht Hf IH] using repr_ind'.
  intros j [<-|Hj]; eauto. apply in_flat_map in Hj. destruct Hj as (x & Hx & Hj).
  rewrite Forall_forall in IH. eauto.
Qed.

(* a heap represents at most one tree below a node *)
Lemma repr_inj : forall h t q t' q', repr h q t -> repr h q' t' -> tid t = tid t' -> t = t'.
Proof.
  intros h. induction t as [i ts IH] using tree_ind'. intros q [i' ts'] q' H1 H2 E. simpl in E. subst i'.
  apply repr_inv in H1. apply repr_inv in H2.
  destruct H1 as (nd & Hg & _ & Hc & _ & Hf). destruct H2 as (nd' & Hg' & _ & Hc' & _ & Hf').
  rewrite Hg in Hg'. inversion Hg'; subst nd'. rewrite Hc in Hc'. clear Hg Hg' Hc.
  f_equal. revert ts' Hc' Hf'. induction ts as [|x r IHr]; intros [|x' r'] Hm Hf'; simpl in Hm; try discriminate; auto.
  inversion Hm. inversion IH; subst. inversion Hf; subst. inversion Hf'; subst.
  f_equal; eauto.
Qed.

(* ================================================================ 4. t_find *)
Fixpoint f_find (c : N) (l : list tree) : option tree :=
  match l with
  | [] => None
  | x :: r => match t_find c x with Some s => Some s | None => f_find c r end
  end.

Lemma t_find_eq : forall c i ts,
  t_find c (T i ts) = if N.eqb i c then Some (T i ts) else f_find c ts.
Proof.
  intros. simpl. destruct (N.eqb i c); auto.
  induction ts as [|a r IH]; simpl; auto. destruct (t_find c a); auto.
Qed.

Lemma t_find_root : forall t, t_find (tid t) t = Some t.
Proof. intros [i ts]. rewrite t_find_eq. simpl. rewrite N.eqb_refl. auto. Qed.

Lemma t_find_some : forall c t s, t_find c t = Some s ->
  tid s = c /\ forall x, cnt x (ids s) <= cnt x (ids t).
Proof.
  intros c. induction t as [i ts IH] using tree_ind'. intros s H. rewrite t_find_eq in H.
  destruct (N.eqb_spec i c) as [E|E].
  - inversion H; subst. split; auto.
  - assert (tid s = c /\ forall x, cnt x (ids s) <= cnt x (flat_map ids ts)) as [A B].
    { clear E. induction ts as [|y r IHr]; simpl in H; [discriminate|].
      inversion IH; subst. destruct (t_find c y) eqn:Ey.
      - inversion H; subst. destruct (H2 _ eq_refl) as [A B]. split; auto.
        intro x. rewrite cnt_flat_map_cons. specialize (B x). lia.
      - destruct (IHr H3 H) as [A B]. split; auto.
        intro x. rewrite cnt_flat_map_cons. specialize (B x). lia. }
    split; auto. intro x. simpl. rewrite cnt_cons. specialize (B x). lia.
Qed.

Lemma t_find_none : forall c t, t_find c t = None -> ~ In c (ids t).
Proof.
  intros c. induction t as [i ts IH] using tree_ind'. intros H. rewrite t_find_eq in H.
  destruct (N.eqb_spec i c) as [E|E]; [discriminate|].
  simpl. intros [F|F]; [congruence|].
  induction ts as [|y r IHr]; simpl in *; auto.
  inversion IH; subst. destruct (t_find c y) eqn:Ey; [discriminate|].
  apply in_app_or in F. destruct F as [F|F]; [apply (H2 eq_refl F) | apply (IHr H3 H F)].
Qed.

Lemma t_find_ex : forall c t, In c (ids t) -> exists s, t_find c t = Some s.
Proof. intros c t H. destruct (t_find c t) eqn:E; eauto. apply t_find_none in E. contradiction. Qed.

Lemma t_find_repr : forall h c t q s, repr h q t -> t_find c t = Some s -> exists q', repr h q' s.
Proof.
  intros h c. induction t as [i ts IH] using tree_ind'. intros q s Hr H. rewrite t_find_eq in H.
  destruct (N.eqb_spec i c) as [E|E].
  - inversion H; subst. eauto.
  - apply repr_inv in Hr. destruct Hr as (nd & _ & _ & _ & _ & Hf). clear E.
    induction ts as [|y r IHr]; simpl in H; [discriminate|].
    inversion IH; subst. inversion Hf; subst. destruct (t_find c y) eqn:Ey.
    + inversion H; subst. eauto.
    + eauto.
Qed.

Lemma t_find_NoDup : forall c t s, NoDup (ids t) -> t_find c t = Some s -> NoDup (ids s).
Proof.
  intros c t s Hn H. apply t_find_some in H. destruct H as [_ B].
  rewrite NoDup_cnt in *. intro x. specialize (Hn x). specialize (B x). lia.
Qed.

Lemma t_find_incl : forall c t s, t_find c t = Some s -> incl (ids s) (ids t).
Proof.
  intros c t s H x Hx. apply t_find_some in H. destruct H as [_ B].
  apply In_cnt. apply In_cnt in Hx. specialize (B x). lia.
Qed.

(* the node p of a represented tree *)
Lemma find_node : forall h q t p, repr h q t -> In p (ids t) ->
  exists q' ts, t_find p t = Some (T p ts) /\ repr h q' (T p ts).
Proof.
  intros h q t p Hr Hp. destruct (t_find_ex _ _ Hp) as [s Hs].
  destruct (t_find_repr _ _ _ _ _ Hr Hs) as [q' Hq'].
  destruct (t_find_some _ _ _ Hs) as [E _]. destruct s as [i ts]. simpl in E. subst i. eauto.
Qed.

(* ================================================================ 5. index_of, splice, insert_at *)
Lemma index_of_In : forall c l, In c l -> exists k, index_of c l = Some k.
Proof.
  induction l as [|x r IH]; intros H; [destruct H|]. simpl.
  destruct (N.eqb_spec c x); eauto.
  destruct H as [H|H]; [congruence|]. destruct (IH H) as [k ->]. eauto.
Qed.

Lemma index_of_Some_In : forall c l k, index_of c l = Some k -> In c l.
Proof.
  induction l as [|x r IH]; intros k H; simpl in *; [discriminate|].
  destruct (N.eqb_spec c x); auto. destruct (index_of c r); [|discriminate]. eauto.
Qed.

Lemma index_of_split : forall c l k, index_of c l = Some k ->
  firstn (S k) l = firstn k l ++ [c] /\ skipn k l = c :: skipn (S k) l.
Proof.
  induction l as [|x r IH]; intros k H; simpl in H; [discriminate|].
  destruct (N.eqb_spec c x) as [->|E].
  - inversion H; subst. simpl. auto.
  - destruct (index_of c r) eqn:Ei; [|discriminate]. inversion H; subst.
    destruct (IH _ eq_refl) as [A B]. split.
    + change (firstn (S (S n)) (x :: r)) with (x :: firstn (S n) r). rewrite A. reflexivity.
    + exact B.
Qed.

Lemma flat_map_single : forall {A B} (f : A -> list B) (g : A -> B) l,
  (forall x, In x l -> f x = [g x]) -> flat_map f l = map g l.
Proof.
  induction l as [|a l IH]; intros H; simpl; auto.
  rewrite H by (simpl; auto). simpl. f_equal. apply IH. intros. apply H. simpl; auto.
Qed.

Lemma Forall_flat_map_intro : forall {A B} (P : B -> Prop) (f : A -> list B) l,
  (forall x, In x l -> Forall P (f x)) -> Forall P (flat_map f l).
Proof.
  intros. rewrite Forall_forall. intros y Hy. apply in_flat_map in Hy. destruct Hy as (x & Hx & Hy).
  specialize (H x Hx). rewrite Forall_forall in H. auto.
Qed.

Lemma splice_flat : forall c ns (g : tree -> tree), (forall x, tid (g x) = tid x) ->
  forall ts idx, NoDup (map tid ts) -> index_of c (map tid ts) = Some idx ->
  splice (map tid ts) idx (map tid ns) =
  map tid (flat_map (fun x => if N.eqb (tid x) c then ns else [g x]) ts).
Proof.
  intros c ns g Hg. induction ts as [|y r IH]; intros idx Hnd Hi; simpl in *; [discriminate|].
  inversion Hnd; subst. destruct (N.eqb_spec c (tid y)) as [E|E].
  - inversion Hi; subst idx. rewrite <- E in *. rewrite N.eqb_refl. unfold splice. simpl.
    rewrite map_app. f_equal.
    rewrite flat_map_single with (g := g).
    + rewrite map_map. apply map_ext. auto.
    + intros x Hx. destruct (N.eqb_spec (tid x) c) as [F|F]; auto.
      exfalso. apply H1. rewrite <- F. apply in_map. auto.
  - destruct (index_of c (map tid r)) eqn:Ei; [|discriminate]. inversion Hi; subst idx.
    destruct (N.eqb_spec (tid y) c); [congruence|]. simpl. rewrite Hg.
    unfold splice in *. simpl. f_equal. apply IH; auto.
Qed.

(* ================================================================ 6. t_replace *)
Lemma tid_t_replace : forall c ns t, tid (t_replace c ns t) = tid t.
Proof. intros c ns [i ts]. reflexivity. Qed.

Lemma t_replace_notin : forall c ns t, ~ In c (ids t) -> t_replace c ns t = t.
Proof.
  intros c ns. induction t as [i ts IH] using tree_ind'. intros H.
  assert (Hc : ~ In c (flat_map ids ts)) by (simpl in H; tauto). clear H.
  simpl. f_equal.
  induction ts as [|y r IHr]; [reflexivity|]. inversion IH as [|? ? Py Pr]; subst.
  simpl in Hc. rewrite in_app_iff in Hc. simpl flat_map.
  destruct (N.eqb_spec (tid y) c) as [E|E].
  - exfalso. apply Hc. left. destruct y; simpl in *; auto.
  - simpl. f_equal; [apply Py; tauto | apply IHr; tauto].
Qed.

Lemma f_replace_notin : forall c ns ts, ~ In c (flat_map ids ts) ->
  flat_map (fun x => if N.eqb (tid x) c then ns else [t_replace c ns x]) ts = ts.
Proof.
  intros c ns. induction ts as [|y r IHr]; intros H; [reflexivity|].
  simpl in H. rewrite in_app_iff in H. simpl flat_map.
  destruct (N.eqb_spec (tid y) c) as [E|E].
  - exfalso. apply H. left. destruct y; simpl in *; auto.
  - simpl. f_equal; [apply t_replace_notin; tauto | apply IHr; tauto].
Qed.

(* counting the ids of t_replace c ns t when c occurs once, strictly below the root *)
Lemma cnt_replace : forall c ns t s, NoDup (ids t) -> tid t <> c -> t_find c t = Some s ->
  forall x, cnt x (ids (t_replace c ns t)) + cnt x (ids s) = cnt x (ids t) + cnt x (flat_map ids ns).
Proof.
  intros c ns. induction t as [i ts IH] using tree_ind'. intros s Hnd Hic Hf x.
  rewrite t_find_eq in Hf. simpl in Hic. destruct (N.eqb_spec i c); [congruence|].
  simpl. rewrite !cnt_cons. simpl in Hnd. inversion Hnd as [|? ? _ Hnd']; subst.
  enough (cnt x (flat_map ids (flat_map (fun x0 => if N.eqb (tid x0) c then ns else [t_replace c ns x0]) ts))
          + cnt x (ids s) = cnt x (flat_map ids ts) + cnt x (flat_map ids ns)) by lia.
  clear Hnd Hic n. induction ts as [|y r IHr]; simpl in Hf; [discriminate|].
  inversion IH as [|? ? Py Pr]; subst.
  assert (Hy : NoDup (ids y) /\ NoDup (flat_map ids r) /\ forall z, cnt z (ids y) + cnt z (flat_map ids r) <= 1).
  { rewrite !NoDup_cnt. rewrite NoDup_cnt in Hnd'. repeat split; intro z; specialize (Hnd' z);
      rewrite cnt_flat_map_cons in Hnd'; lia. }
  destruct Hy as (Ny & Nr & D).
  simpl flat_map at 2. rewrite cnt_flat_map_app, !cnt_flat_map_cons.
  destruct (t_find c y) eqn:Ey.
  - inversion Hf; subst t. destruct (t_find_some _ _ _ Ey) as [Es Bs].
    assert (Hcr : ~ In c (flat_map ids r)).
    { apply notIn_cnt. specialize (D c). specialize (Bs c).
      assert (cnt c (ids s) >= 1). { apply In_cnt. destruct s; simpl in *; auto. } lia. }
    rewrite (f_replace_notin c ns r Hcr).
    destruct (N.eqb_spec (tid y) c) as [E|E].
    + assert (s = y). { destruct y as [j js]. rewrite t_find_eq in Ey. simpl in E. subst j. rewrite N.eqb_refl in Ey. congruence. }
      subst s. lia.
    + simpl flat_map. rewrite app_nil_r. specialize (Py s Ny E eq_refl x). lia.
  - assert (Hcy : ~ In c (ids y)) by (apply t_find_none; auto).
    destruct (N.eqb_spec (tid y) c) as [E|E].
    + exfalso. apply Hcy. destruct y; simpl in *; auto.
    + rewrite (t_replace_notin c ns y Hcy). simpl flat_map. rewrite app_nil_r.
      specialize (IHr Pr Hf Nr). lia.
Qed.

(* generic surgery: the heap h' is h where the children list of p has the entry c replaced by the
   roots of ns, and the trees ns hang under p in h'. *)
Lemma surgery_repr :
  forall h h' p c ns idx,
    p <> c ->
    index_of c (kids h p) = Some idx ->
    NoDup (kids h p) ->
    par h c = Some p ->
    get h' p = option_map (wk (splice (kids h p) idx (map tid ns))) (get h p) ->
    (forall j, j <> p -> j <> c -> ~ In j (map tid ns) -> get h' j = get h j) ->
    Forall (repr h' (Some p)) ns ->
    (forall j k, In j (map tid ns) -> j <> c -> par h j = Some k -> k = c) ->
    forall t q, repr h q t -> tid t <> c -> ~ In (tid t) (map tid ns) ->
                repr h' q (t_replace c ns t).
Proof.
  intros h h' p c ns idx Hpc Hidx Hnd Hparc Hp Ho Hns Hnp.
  induction t as [i ts IH] using tree_ind'. intros q Hr Hic Hin. simpl in Hic, Hin.
  pose proof (repr_kids _ _ _ _ Hr) as Hk.
  assert (Hch : forall x, In x ts -> par h (tid x) = Some i).
  { intros x Hx. apply repr_root_par. eapply repr_child; eauto. }
  assert (Hkn : forall x, In x ts -> tid x <> c -> ~ In (tid x) (map tid ns)).
  { intros x Hx Hxc Hxin. pose proof (Hch x Hx) as Hpx. apply (Hnp _ _ Hxin Hxc) in Hpx. congruence. }
  apply repr_inv in Hr. destruct Hr as (nd & Hg & Hpar & Hcd & Htx & Hf).
  rewrite Forall_forall in Hf, IH.
  simpl. destruct (N.eq_dec i p) as [->|Hip].
  - rewrite Hg in Hp. simpl in Hp.
    eapply repr_T with (nd := wk _ nd); [exact Hp | exact Hpar | | | ].
    + simpl. rewrite Hk. apply splice_flat.
      * intros. apply tid_t_replace.
      * rewrite <- Hk. auto.
      * rewrite <- Hk. auto.
    + simpl. intro Hc. apply Htx in Hc. subst ts. reflexivity.
    + apply Forall_flat_map_intro. intros x Hx. destruct (N.eqb_spec (tid x) c) as [E|E]; auto.
  - assert (Hnc : forall x, In x ts -> tid x <> c).
    { intros x Hx E. apply Hch in Hx. rewrite E in Hx. congruence. }
    rewrite flat_map_single with (g := t_replace c ns).
    2:{ intros x Hx. destruct (N.eqb_spec (tid x) c) as [E|E]; auto. exfalso. eapply Hnc; eauto. }
    eapply repr_T with (nd := nd); auto.
    + rewrite Ho; auto.
    + rewrite map_map. rewrite Hcd. apply map_ext. intros. rewrite tid_t_replace. auto.
    + intro Hc. apply Htx in Hc. subst ts. reflexivity.
    + rewrite Forall_forall. intros x' Hx'. apply in_map_iff in Hx'. destruct Hx' as (x & <- & Hx).
      apply IH; auto.
Qed.

(* ================================================================ 7. replace_child / remove_child *)
Lemma replace_child_spec : forall h p c news idx,
  index_of c (kids h p) = Some idx -> p <> c -> ~ In p news -> ~ In c news ->
  exists h', replace_child h p c news = Ok h' /\
    get h' p = option_map (wk (splice (kids h p) idx news)) (get h p) /\
    get h' c = option_map (wp None) (get h c) /\
    (forall j, In j news -> get h' j = option_map (wp (Some p)) (get h j)) /\
    (forall j, j <> p -> j <> c -> ~ In j news -> get h' j = get h j).
Proof.
  intros h p c news idx Hi Hpc Hpn Hcn. unfold replace_child. rewrite Hi.
  eexists. split; [reflexivity|].
  repeat split; intros; rewrite get_fold_set_parent, get_set_parent, !get_set_kids.
  - rewrite (memb_false _ _ Hpn). destruct (N.eqb_spec p c); [congruence|]. rewrite N.eqb_refl. auto.
  - rewrite (memb_false _ _ Hcn). rewrite N.eqb_refl. destruct (N.eqb_spec c p); [congruence|]. auto.
  - pose proof H as H'. apply memb_In in H'. rewrite H'.
    destruct (N.eqb_spec j c); [subst; contradiction|]. destruct (N.eqb_spec j p); [subst; contradiction|]. auto.
  - rewrite (memb_false _ _ H1).
    destruct (N.eqb_spec j c); [contradiction|]. destruct (N.eqb_spec j p); [contradiction|]. auto.
Qed.

Lemma tids_incl : forall j ns, In j (map tid ns) -> In j (flat_map ids ns).
Proof.
  intros j ns H. apply in_map_iff in H. destruct H as (n & <- & Hn).
  apply in_flat_map. exists n. split; auto. destruct n; simpl; auto.
Qed.

Lemma tid_in_ids : forall t, In (tid t) (ids t).
Proof. intros [i ts]. simpl. auto. Qed.

(* everything we know about a listed child c of a node p of a proper tree *)
Lemma child_setup : forall h t p c,
  repr h None t -> NoDup (ids t) -> In p (ids t) -> In c (kids h p) ->
  exists s idx,
    index_of c (kids h p) = Some idx /\ NoDup (kids h p) /\ par h c = Some p /\
    t_find c t = Some s /\ repr h (Some p) s /\ tid s = c /\ NoDup (ids s) /\
    p <> c /\ ~ In p (ids s) /\ tid t <> c /\ In c (ids t) /\ incl (ids s) (ids t).
Proof.
  intros h t p c Hr Hnd Hp Hc.
  destruct (find_node _ _ _ _ Hr Hp) as (q' & ts & Hfp & Hrp).
  pose proof (repr_kids _ _ _ _ Hrp) as Hk. rewrite Hk in Hc.
  apply in_map_iff in Hc. destruct Hc as (x & Hxc & Hx).
  pose proof (repr_child _ _ _ _ _ Hrp Hx) as Hrx.
  pose proof (repr_root_par _ _ _ Hrx) as Hpar. rewrite Hxc in Hpar.
  pose proof (t_find_NoDup _ _ _ Hnd Hfp) as Hndp. simpl in Hndp. inversion Hndp as [|? ? Hpn Hndts]; subst.
  assert (Hix : incl (ids x) (flat_map ids ts)). { intros j Hj. apply in_flat_map. eauto. }
  assert (Hcx : In (tid x) (ids x)) by apply tid_in_ids.
  assert (Hct : In (tid x) (ids t)).
  { eapply t_find_incl; eauto. simpl. right. auto. }
  destruct (t_find_ex _ _ Hct) as [s Hs].
  destruct (t_find_repr _ _ _ _ _ Hr Hs) as [q'' Hrs].
  destruct (t_find_some _ _ _ Hs) as [Es _].
  assert (s = x) by (eapply repr_inj; eauto). subst s.
  destruct (index_of_In (tid x) (kids h p)) as [idx Hidx].
  { rewrite Hk. apply in_map. auto. }
  exists x, idx. repeat split; auto.
  - rewrite Hk. apply NoDup_tids. auto.
  - eapply t_find_NoDup; eauto.
  - intro E. apply Hpn. rewrite E. auto.
  - intro E. pose proof (repr_root_par _ _ _ Hr) as Hroot. rewrite E in Hroot. congruence.
  - eapply t_find_incl; eauto.
Qed.

Lemma replace_child_repr : forall h t p c ns,
  repr h None t -> NoDup (ids t) -> In p (ids t) -> In c (kids h p) ->
  Forall (repr h None) ns -> NoDup (flat_map ids ns) -> disj (ids t) (flat_map ids ns) ->
  exists h', replace_child h p c (map tid ns) = Ok h' /\
             repr h' None (t_replace c ns t) /\ NoDup (ids (t_replace c ns t)) /\
             (forall s, t_find c t = Some s -> repr h' None s).
Proof.
  intros h t p c ns Hr Hnd Hp Hc Hns Hndn Hd.
  destruct (child_setup _ _ _ _ Hr Hnd Hp Hc)
    as (s & idx & Hidx & Hndk & Hparc & Hfs & Hrs & Ets & Hnds & Hpc & Hps & Htc & Hct & Hst).
  assert (Hpn : ~ In p (map tid ns)). { intro F. apply tids_incl in F. exact (Hd _ Hp F). }
  assert (Hcn : ~ In c (map tid ns)). { intro F. apply tids_incl in F. exact (Hd _ Hct F). }
  destruct (replace_child_spec h p c (map tid ns) idx Hidx Hpc Hpn Hcn) as (h' & Hrc & Gp & Gc & Gn & Go).
  rewrite Forall_forall in Hns.
  assert (Hroots : forall j, In j (map tid ns) -> par h j = None).
  { intros j Hj. apply in_map_iff in Hj. destruct Hj as (n & <- & Hn). apply repr_root_par. auto. }
  exists h'. split; [exact Hrc|]. split; [|split].
  - refine (surgery_repr h h' p c ns idx Hpc Hidx Hndk Hparc Gp Go _ _ t None Hr Htc _).
    + rewrite Forall_forall. intros [k ks] Hn. pose proof (Hns _ Hn) as Hrn.
      eapply repr_reroot; eauto.
      * apply Gn. apply in_map_iff. exists (T k ks). auto.
      * intros j Hj.
        assert (Hjn : In j (flat_map ids ns)).
        { apply in_flat_map. exists (T k ks). split; auto. simpl. auto. }
        apply Go.
        -- intro E. subst j. exact (Hd _ Hp Hjn).
        -- intro E. subst j. exact (Hd _ Hct Hjn).
        -- intro F. apply Hroots in F.
           destruct (repr_par_below _ _ _ j Hrn Hj) as [k' Hk']. congruence.
    + intros j k Hj _ Hk. apply Hroots in Hj. congruence.
    + intro F. apply tids_incl in F. exact (Hd _ (tid_in_ids t) F).
  - apply NoDup_cnt. intro x. pose proof (cnt_replace c ns t s Hnd Htc Hfs x).
    pose proof (disj_cnt _ _ Hnd Hndn Hd x). lia.
  - intros s' Hs'. rewrite Hfs in Hs'. inversion Hs'; subst s'. destruct s as [c' cs]. simpl in Ets. subst c'.
    eapply repr_reroot; eauto.
    intros j Hj. assert (Hjs : In j (ids (T c cs))) by (simpl; auto).
    apply Go.
    + intro E. subst j. contradiction.
    + intro E. subst j. simpl in Hnds. inversion Hnds; contradiction.
    + intro F. apply tids_incl in F. exact (Hd _ (Hst _ Hjs) F).
Qed.

Lemma remove_child_repr : forall h t p c,
  repr h None t -> NoDup (ids t) -> In p (ids t) -> In c (kids h p) ->
  exists h', remove_child h p c = Ok h' /\
             repr h' None (t_replace c [] t) /\ NoDup (ids (t_replace c [] t)) /\
             (forall s, t_find c t = Some s ->
                        repr h' None s /\ disj (ids (t_replace c [] t)) (ids s)).
Proof.
  intros h t p c Hr Hnd Hp Hc.
  destruct (replace_child_repr h t p c [] Hr Hnd Hp Hc) as (h' & H1 & H2 & H3 & H4).
  - constructor.
  - constructor.
  - intros x _ F. exact F.
  - exists h'. unfold remove_child. split; [exact H1|]. split; auto. split; auto.
    intros s Hs. split; auto.
    destruct (child_setup _ _ _ _ Hr Hnd Hp Hc)
      as (s0 & idx & _ & _ & _ & Hfs & _ & _ & _ & _ & _ & Htc & _ & _).
    rewrite Hfs in Hs. inversion Hs; subst s0.
    apply cnt_disj. intro x. pose proof (cnt_replace c [] t s Hnd Htc Hfs x) as E.
    rewrite NoDup_cnt in Hnd. specialize (Hnd x). simpl in E. rewrite cnt_nil in E. lia.
Qed.

(* ================================================================ 8. node.parent.replace_child(node, node.children) *)
Lemma dissolve_repr : forall h t p c cs,
  repr h None t -> NoDup (ids t) -> In p (ids t) -> In c (kids h p) ->
  t_find c t = Some (T c cs) ->
  exists h', replace_child h p c (kids h c) = Ok h' /\
             repr h' None (t_replace c cs t) /\ NoDup (ids (t_replace c cs t)).
Proof.
  intros h t p c cs Hr Hnd Hp Hc Hf.
  destruct (child_setup _ _ _ _ Hr Hnd Hp Hc)
    as (s & idx & Hidx & Hndk & Hparc & Hfs & Hrs & Ets & Hnds & Hpc & Hps & Htc & Hct & Hst).
  rewrite Hf in Hfs. inversion Hfs; subst s. clear Hfs.
  rewrite (repr_kids _ _ _ _ Hrs).
  simpl in Hnds. inversion Hnds as [|? ? Hccs Hndcs]; subst.
  assert (Hpn : ~ In p (map tid cs)). { intro F. apply tids_incl in F. apply Hps. simpl. auto. }
  assert (Hcn : ~ In c (map tid cs)). { intro F. apply tids_incl in F. contradiction. }
  destruct (replace_child_spec h p c (map tid cs) idx Hidx Hpc Hpn Hcn) as (h' & Hrc & Gp & Gc & Gn & Go).
  assert (Hroots : forall j, In j (map tid cs) -> par h j = Some c).
  { intros j Hj. apply in_map_iff in Hj. destruct Hj as (n & <- & Hn). apply repr_root_par.
    eapply repr_child; eauto. }
  exists h'. split; [exact Hrc|]. split.
  - refine (surgery_repr h h' p c cs idx Hpc Hidx Hndk Hparc Gp Go _ _ t None Hr Htc _).
    + rewrite Forall_forall. intros [k ks] Hn.
      pose proof (repr_child _ _ _ _ _ Hrs Hn) as Hrn.
      assert (Hndy : NoDup (ids (T k ks))).
      { rewrite NoDup_cnt in *. intro x. specialize (Hndcs x).
        pose proof (cnt_flat_map_in ids x _ _ Hn). lia. }
      eapply repr_reroot; eauto.
      * apply Gn. apply in_map_iff. exists (T k ks). auto.
      * intros j Hj.
        assert (Hjy : In j (ids (T k ks))) by (simpl; auto).
        assert (Hjn : In j (flat_map ids cs)).
        { apply in_flat_map. exists (T k ks). split; auto. }
        apply Go.
        -- intro E. subst j. apply Hps. simpl. auto.
        -- intro E. subst j. contradiction.
        -- intro F. apply Hroots in F.
           assert (Hjk : j <> tid (T k ks)).
           { simpl. intro E. subst j. simpl in Hndy. inversion Hndy; contradiction. }
           destruct (repr_par_in _ _ _ j Hrn Hjy Hjk) as (pn & Hpn1 & Hpn2 & _).
           rewrite F in Hpn1. inversion Hpn1; subst pn.
           apply Hccs. apply in_flat_map. exists (T k ks). auto.
    + intros j k Hj _ Hk. apply Hroots in Hj. congruence.
    + intro F. apply Hroots in F. rewrite (repr_root_par _ _ _ Hr) in F. discriminate.
  - apply NoDup_cnt. intro x. pose proof (cnt_replace c cs t (T c cs) Hnd Htc Hf x) as E.
    rewrite NoDup_cnt in Hnd. specialize (Hnd x). simpl in E. rewrite cnt_cons in E. lia.
Qed.

(* ================================================================ 9. append_child *)
Lemma NoDup_flat_map_in : forall (ts : list tree) x, NoDup (flat_map ids ts) -> In x ts -> NoDup (ids x).
Proof.
  intros ts x H Hx. rewrite NoDup_cnt in *. intro z. specialize (H z).
  pose proof (cnt_flat_map_in ids z _ _ Hx). lia.
Qed.

Lemma tid_t_append : forall p s t, tid (t_append p s t) = tid t.
Proof. intros p s [i ts]. simpl. destruct (N.eqb i p); reflexivity. Qed.

Lemma t_append_notin : forall p s t, ~ In p (ids t) -> t_append p s t = t.
Proof.
  intros p s. induction t as [i ts IH] using tree_ind'. intros H. simpl in H. simpl.
  destruct (N.eqb_spec i p) as [E|E]; [tauto|]. f_equal.
  assert (Hc : ~ In p (flat_map ids ts)) by tauto. clear H E.
  induction ts as [|y r IHr]; [reflexivity|]. inversion IH as [|? ? Py Pr]; subst.
  simpl in Hc. rewrite in_app_iff in Hc. simpl. f_equal; [apply Py; tauto | apply IHr; tauto].
Qed.

Lemma cnt_append : forall p s t, NoDup (ids t) -> In p (ids t) ->
  forall x, cnt x (ids (t_append p s t)) = cnt x (ids t) + cnt x (ids s).
Proof.
  intros p s. induction t as [i ts IH] using tree_ind'. intros Hnd Hp x. simpl.
  destruct (N.eqb_spec i p) as [E|E].
  - simpl. rewrite !cnt_cons, cnt_flat_map_app. simpl. rewrite app_nil_r. lia.
  - simpl. rewrite !cnt_cons. simpl in Hp. destruct Hp as [Hp|Hp]; [congruence|].
    simpl in Hnd. inversion Hnd as [|? ? _ Hnd']; subst.
    enough (cnt x (flat_map ids (map (t_append p s) ts)) = cnt x (flat_map ids ts) + cnt x (ids s)) by lia.
    clear Hnd E. induction ts as [|y r IHr]; [destruct Hp|].
    inversion IH as [|? ? Py Pr]; subst.
    assert (Hy : NoDup (ids y) /\ NoDup (flat_map ids r) /\ forall z, cnt z (ids y) + cnt z (flat_map ids r) <= 1).
    { rewrite !NoDup_cnt. rewrite NoDup_cnt in Hnd'. repeat split; intro z; specialize (Hnd' z);
        rewrite cnt_flat_map_cons in Hnd'; lia. }
    destruct Hy as (Ny & Nr & D).
    simpl map. rewrite !cnt_flat_map_cons.
    destruct (in_dec N.eq_dec p (ids y)) as [I|I].
    + assert (Hpr : ~ In p (flat_map ids r)).
      { apply notIn_cnt. apply In_cnt in I. specialize (D p). lia. }
      assert (Er : map (t_append p s) r = r).
      { clear - Hpr. induction r as [|z r IHr]; [reflexivity|]. simpl in Hpr. rewrite in_app_iff in Hpr.
        simpl. f_equal; [apply t_append_notin; tauto | apply IHr; tauto]. }
      rewrite Er. rewrite (Py Ny I x). lia.
    + rewrite (t_append_notin p s y I).
      simpl in Hp. rewrite in_app_iff in Hp. destruct Hp as [Hp|Hp]; [contradiction|].
      rewrite (IHr Pr Hp Nr). lia.
Qed.

Lemma append_child_spec : forall h p c, p <> c ->
  get (append_child h p c) p = option_map (wk (kids h p ++ [c])) (get h p) /\
  get (append_child h p c) c = option_map (wp (Some p)) (get h c) /\
  (forall j, j <> p -> j <> c -> get (append_child h p c) j = get h j).
Proof.
  intros h p c Hpc. unfold append_child. repeat split; intros; rewrite get_set_parent, !get_set_kids.
  - destruct (N.eqb_spec p c); [congruence|]. rewrite N.eqb_refl. auto.
  - rewrite N.eqb_refl. destruct (N.eqb_spec c p); [congruence|]. auto.
  - destruct (N.eqb_spec j c); [contradiction|]. destruct (N.eqb_spec j p); [contradiction|]. auto.
Qed.

Lemma append_repr_gen : forall h s p,
  repr h None s -> NoDup (ids s) -> clsof h p <> c_Text -> p <> tid s ->
  forall t q, repr h q t -> NoDup (ids t) -> disj (ids t) (ids s) ->
              repr (append_child h p (tid s)) q (t_append p s t).
Proof.
  intros h s p Hrs Hnds Hcls Hps.
  induction t as [i ts IH] using tree_ind'. intros q Hr Hnd Hd.
  assert (His : i <> tid s). { intro E. apply (Hd i); [simpl; auto | rewrite E; apply tid_in_ids]. }
  apply repr_inv in Hr. destruct Hr as (nd & Hg & Hpar & Hcd & Htx & Hf).
  rewrite Forall_forall in Hf, IH. simpl in Hnd. apply NoDup_cons_iff in Hnd. destruct Hnd as [Hin Hnd'].
  simpl. destruct (N.eqb_spec i p) as [E|E].
  - subst i. destruct (append_child_spec h p (tid s) His) as (Gp & Gc & Go).
    rewrite Hg in Gp. simpl in Gp.
    eapply repr_T with (nd := wk _ nd); [exact Gp | exact Hpar | | | ].
    + simpl. unfold kids. rewrite Hg, Hcd, map_app. reflexivity.
    + simpl. intro Hc. exfalso. apply Hcls. unfold clsof. rewrite Hg. auto.
    + apply Forall_app. split.
      * rewrite Forall_forall. intros x Hx. apply repr_frame with (h := h); auto.
        intros j Hj. apply Go.
        -- intro F. subst j. apply Hin. apply in_flat_map. eauto.
        -- intro F. subst j. apply (Hd (tid s)); [simpl; right; apply in_flat_map; eauto | apply tid_in_ids].
      * constructor; [|constructor]. destruct s as [k ks]. simpl in *.
        eapply repr_reroot; eauto. intros j Hj. apply Go.
        -- intro F. subst j. apply (Hd p); simpl; auto.
        -- intro F. subst j. inversion Hnds; contradiction.
  - destruct (append_child_spec h p (tid s) Hps) as (Gp & Gc & Go).
    eapply repr_T with (nd := nd); auto.
    + rewrite Go; auto.
    + rewrite map_map. rewrite Hcd. apply map_ext. intros. rewrite tid_t_append. auto.
    + intro Hc. apply Htx in Hc. subst ts. reflexivity.
    + rewrite Forall_forall. intros x' Hx'. apply in_map_iff in Hx'. destruct Hx' as (x & <- & Hx).
      apply IH; auto.
      * eapply NoDup_flat_map_in; eauto.
      * intros j Hj. apply Hd. simpl. right. apply in_flat_map. eauto.
Qed.

(* (A), with an arbitrary parent q above the root of t *)
Lemma append_child_repr_gen : forall h t s p q,
  repr h q t -> NoDup (ids t) -> In p (ids t) -> clsof h p <> c_Text ->
  repr h None s -> NoDup (ids s) -> disj (ids t) (ids s) ->
  repr (append_child h p (tid s)) q (t_append p s t) /\ NoDup (ids (t_append p s t)).
Proof.
  intros h t s p q Hr Hnd Hp Hcls Hrs Hnds Hd. split.
  - apply append_repr_gen; auto. intro E. apply (Hd p Hp). rewrite E. apply tid_in_ids.
  - apply NoDup_cnt. intro x. rewrite cnt_append by auto. apply disj_cnt; auto.
Qed.

Lemma append_child_repr : forall h t s p,
  repr h None t -> NoDup (ids t) -> In p (ids t) -> clsof h p <> c_Text ->
  repr h None s -> NoDup (ids s) -> disj (ids t) (ids s) ->
  repr (append_child h p (tid s)) None (t_append p s t) /\ NoDup (ids (t_append p s t)).
Proof. intros. apply append_child_repr_gen; auto. Qed.

(* ================================================================ 10. move_to *)
Lemma flat_map_ext_in : forall {A B} (f g : A -> list B) l,
  (forall x, In x l -> f x = g x) -> flat_map f l = flat_map g l.
Proof.
  induction l as [|a l IH]; intros H; simpl; auto.
  rewrite H by (simpl; auto). f_equal. apply IH. intros. apply H. simpl; auto.
Qed.

Lemma tid_t_insert : forall tgt b s t, tid (t_insert tgt b s t) = tid t.
Proof. intros tgt b s [i ts]. reflexivity. Qed.

(* inserting next to tgt = replacing the subtree at tgt by itself and s *)
Lemma t_insert_as_replace : forall h tgt b s xt q0,
  repr h q0 xt -> tid xt = tgt ->
  forall t q, repr h q t ->
    t_insert tgt b s t = t_replace tgt (if b then [s; xt] else [xt; s]) t.
Proof.
  intros h tgt b s xt q0 Hxt Ext.
  induction t as [i ts IH] using tree_ind'. intros q Hr. simpl. f_equal.
  rewrite Forall_forall in IH. apply flat_map_ext_in. intros x Hx.
  pose proof (repr_child _ _ _ _ _ Hr Hx) as Hrx.
  destruct (N.eqb_spec (tid x) tgt) as [E|E].
  - assert (x = xt) by (eapply repr_inj; eauto; congruence). subst x. destruct b; reflexivity.
  - f_equal. eapply IH; eauto.
Qed.

Lemma insert_heap_spec : forall h tp l n, tp <> n ->
  let h2 := set_parent (set_kids h tp l) n (Some tp) in
  get h2 tp = option_map (wk l) (get h tp) /\
  get h2 n = option_map (wp (Some tp)) (get h n) /\
  (forall j, j <> tp -> j <> n -> get h2 j = get h j).
Proof.
  intros h tp l n Hne h2. unfold h2. repeat split; intros; rewrite get_set_parent, !get_set_kids.
  - destruct (N.eqb_spec tp n); [congruence|]. rewrite N.eqb_refl. auto.
  - rewrite N.eqb_refl. destruct (N.eqb_spec n tp); [congruence|]. auto.
  - destruct (N.eqb_spec j n); [contradiction|]. destruct (N.eqb_spec j tp); [contradiction|]. auto.
Qed.

Lemma insert_repr : forall h t s tgt (b : bool) tp idx,
  repr h None t -> NoDup (ids t) -> In tp (ids t) ->
  repr h None s -> NoDup (ids s) -> disj (ids t) (ids s) ->
  par h tgt = Some tp -> index_of tgt (kids h tp) = Some idx ->
  let h2 := set_parent (set_kids h tp (insert_at (kids h tp) (if b then idx else S idx) (tid s)))
                       (tid s) (Some tp) in
  repr h2 None (t_insert tgt b s t) /\ NoDup (ids (t_insert tgt b s t)).
Proof.
  intros h t s tgt b tp idx Hr Hnd Htp Hrs Hnds Hd Hpar Hidx h2.
  pose proof (index_of_Some_In _ _ _ Hidx) as Hc.
  destruct (child_setup _ _ _ _ Hr Hnd Htp Hc)
    as (xt & idx' & Hidx' & Hndk & _ & Hfx & Hrx & Etx & Hndx & Hpc & Hpx & Htc & Hct & Hxt).
  rewrite Hidx in Hidx'. inversion Hidx'; subst idx'. clear Hidx'.
  assert (Hns : tp <> tid s). { intro E. apply (Hd tp Htp). rewrite E. apply tid_in_ids. }
  destruct (insert_heap_spec h tp (insert_at (kids h tp) (if b then idx else S idx) (tid s)) (tid s) Hns)
    as (Gp & Gn & Go). fold h2 in Gp, Gn, Go.
  set (ns := if b then [s; xt] else [xt; s]).
  assert (Hmap : forall j, In j (map tid ns) <-> j = tid s \/ j = tgt).
  { intro j. unfold ns. destruct b; simpl; rewrite Etx; intuition. }
  assert (Hfl : forall x, cnt x (flat_map ids ns) = cnt x (ids s) + cnt x (ids xt)).
  { intro x. unfold ns. destruct b; simpl; rewrite app_nil_r, cnt_app; lia. }
  rewrite (t_insert_as_replace h tgt b s xt (Some tp) Hrx Etx t None Hr). fold ns.
  split.
  - refine (surgery_repr h h2 tp tgt ns idx Hpc Hidx Hndk Hpar _ _ _ _ t None Hr Htc _).
    + rewrite Gp. f_equal. f_equal. destruct (index_of_split _ _ _ Hidx) as [A B].
      unfold ns, insert_at, splice. destruct b.
      * rewrite B. cbn [map app]. rewrite Etx. reflexivity.
      * rewrite A, <- app_assoc. cbn [map app]. rewrite Etx. reflexivity.
    + intros j H1 H2 H3. apply Go; auto. intro E. apply H3. apply Hmap. auto.
    + assert (R1 : repr h2 (Some tp) s).
      { destruct s as [k ks]. simpl in *. eapply repr_reroot; eauto. intros j Hj. apply Go.
        - intro F. subst j. apply (Hd tp Htp). simpl. auto.
        - intro F. subst j. inversion Hnds; contradiction. }
      assert (R2 : repr h2 (Some tp) xt).
      { apply repr_frame with (h := h); auto. intros j Hj. apply Go.
        - intro F. subst j. contradiction.
        - intro F. subst j. apply (Hd (tid s)); [apply Hxt; auto | apply tid_in_ids]. }
      unfold ns. destruct b; repeat constructor; auto.
    + intros j k Hj Hjc Hk. apply Hmap in Hj. destruct Hj as [Hj|Hj]; [|contradiction].
      subst j. rewrite (repr_root_par _ _ _ Hrs) in Hk. discriminate.
    + intro F. apply Hmap in F. destruct F as [F|F]; [|contradiction].
      apply (Hd (tid t)); [apply tid_in_ids | rewrite F; apply tid_in_ids].
  - apply NoDup_cnt. intro x. pose proof (cnt_replace tgt ns t xt Hnd Htc Hfx x) as E.
    rewrite Hfl in E. pose proof (disj_cnt _ _ Hnd Hnds Hd x). lia.
Qed.

Lemma move_to_repr : forall h t n tgt b s,
  repr h None t -> NoDup (ids t) -> In n (ids t) -> n <> tid t ->
  In tgt (ids t) -> tgt <> tid t -> t_find n t = Some s -> ~ In tgt (ids s) ->
  exists h', move_to h n tgt b = Ok h' /\
             repr h' None (t_insert tgt b s (t_replace n [] t)) /\
             NoDup (ids (t_insert tgt b s (t_replace n [] t))).
Proof.
  intros h t n tgt b s Hr Hnd Hn Hnr Htg Htr Hfs Hts.
  destruct (repr_par_in _ _ _ _ Hr Hn Hnr) as (pn & Hpar & Hpn & Hnk).
  destruct (remove_child_repr h t pn n Hr Hnd Hpn Hnk) as (h1 & Hrm & Hr1 & Hnd1 & Hs1).
  destruct (Hs1 _ Hfs) as [Hrs1 Hd1].
  destruct (t_find_some _ _ _ Hfs) as [Ets _].
  pose proof (t_find_NoDup _ _ _ Hnd Hfs) as Hnds.
  set (t1 := t_replace n [] t) in *.
  assert (Htg1 : In tgt (ids t1)).
  { apply In_cnt. assert (Hne : tid t <> n) by congruence.
    pose proof (cnt_replace n [] t s Hnd Hne Hfs tgt) as E. fold t1 in E.
    simpl in E. rewrite cnt_nil in E. apply notIn_cnt in Hts. apply In_cnt in Htg. lia. }
  assert (Htr1 : tgt <> tid t1) by (unfold t1; rewrite tid_t_replace; auto).
  destruct (repr_par_in _ _ _ _ Hr1 Htg1 Htr1) as (tp & Hpar1 & Htp1 & Htk1).
  destruct (index_of_In _ _ Htk1) as [idx Hidx].
  unfold move_to. rewrite Hpar, Hrm, Hpar1, Hidx.
  eexists. split; [reflexivity|].
  rewrite <- Ets.
  apply insert_repr; auto.
Qed.

(* ================================================================ 11. copy *)
Lemma tsize_ids : forall t, tsize t = length (ids t).
Proof.
  induction t as [i ts IH] using tree_ind'. simpl. f_equal.
  induction ts as [|y r IHr]; [reflexivity|]. inversion IH as [|? ? Py Pr]; subst.
  simpl. rewrite app_length, Py, (IHr Pr). reflexivity.
Qed.

Lemma map_opt_cons : forall {A B} (f : A -> option B) x r,
  map_opt f (x :: r) = match f x with
                       | Some y => match map_opt f r with Some ys => Some (y :: ys) | None => None end
                       | None => None
                       end.
Proof. reflexivity. Qed.

Lemma build_S : forall f h i,
  build (S f) h i = match get h i with
                    | None => None
                    | Some nd => match map_opt (build f h) (children nd) with
                                 | Some ts => Some (T i ts)
                                 | None => None
                                 end
                    end.
Proof. reflexivity. Qed.

Lemma build_complete_fuel : forall h t p, repr h p t ->
  forall fuel, tsize t <= fuel -> build fuel h (tid t) = Some t.
Proof.
  intros h. induction t as [i ts IH] using tree_ind'. intros p Hr fuel Hf.
  destruct fuel as [|f]; [simpl in Hf; lia|].
  apply repr_inv in Hr. destruct Hr as (nd & Hg & _ & Hc & _ & Hfa).
  simpl tid. rewrite build_S, Hg, Hc.
  assert (map_opt (build f h) (map tid ts) = Some ts) as ->; [|reflexivity].
  simpl in Hf. assert (Hs : list_sum (map tsize ts) <= f) by lia. clear Hf Hg Hc.
  induction ts as [|y r IHr]; [reflexivity|].
  inversion IH as [|? ? Py Pr]; subst. inversion Hfa as [|? ? Ry Rr]; subst. simpl in Hs.
  simpl map. rewrite map_opt_cons. rewrite (Py _ Ry) by lia. rewrite IHr; auto. lia.
Qed.

Lemma get_In_keys : forall h j nd, get h j = Some nd -> In j (map fst h).
Proof.
  induction h as [|[k v] h IH]; intros j nd H; simpl in *; [discriminate|].
  destruct (N.eqb_spec j k); eauto.
Qed.

Lemma build_complete : forall h p s, repr h p s -> NoDup (ids s) ->
  build (S (length h)) h (tid s) = Some s.
Proof.
  intros h p s Hr Hnd. apply build_complete_fuel with (p := p); auto.
  rewrite tsize_ids. rewrite <- (map_length fst h).
  apply Nat.le_trans with (length (map fst h)); [|lia].
  apply NoDup_incl_length; auto.
  intros j Hj. destruct (repr_get _ _ _ _ Hr Hj) as [nd Hg]. eapply get_In_keys; eauto.
Qed.

Lemma nodupb_true : forall l, NoDup l -> nodupb l = true.
Proof.
  induction 1 as [|x l Hx Hl IH]; [reflexivity|]. simpl. rewrite IH, (memb_false _ _ Hx). reflexivity.
Qed.

Lemma opt_eqb_refl : forall a, opt_eqb a a = true.
Proof. intros [x|]; simpl; auto. apply N.eqb_refl. Qed.

Lemma checkp_true : forall h p s, repr h p s -> checkp h p s = true.
Proof.
  intros h p s Hr. induction Hr as [p i ts nd Hg Hp Hc Ht Hf IH] using repr_ind'.
  simpl. rewrite Hg, Hp, opt_eqb_refl. simpl.
  assert (negb (N.eqb (cls nd) c_Text) || is_nil ts = true) as ->.
  { destruct (N.eqb_spec (cls nd) c_Text) as [E|E]; [rewrite (Ht E)|]; reflexivity. }
  simpl. apply forallb_forall. rewrite Forall_forall in IH. auto.
Qed.

Lemma fold_max_ge : forall l a,
  (a <= fold_left N.max l a)%N /\ forall x, In x l -> (x <= fold_left N.max l a)%N.
Proof.
  induction l as [|b l IH]; intros a; simpl.
  - split; [lia | tauto].
  - destruct (IH (N.max a b)) as [A B]. split; [lia|]. intros x [<-|H]; [lia | auto].
Qed.

Lemma fresh_gt : forall h j nd, get h j = Some nd -> (j < fresh h)%N.
Proof.
  intros h j nd H. apply get_In_keys in H. unfold fresh.
  destruct (fold_max_ge (map fst h) 0%N) as [_ B]. specialize (B _ H). lia.
Qed.

Lemma ren_in : forall l nx i, In i l ->
  exists k, index_of i l = Some k /\ ren l nx i = (nx + N.of_nat k)%N.
Proof.
  intros l nx i H. destruct (index_of_In _ _ H) as [k Hk]. exists k. split; auto.
  unfold ren. rewrite Hk. reflexivity.
Qed.

Lemma index_of_inj : forall l a b k, index_of a l = Some k -> index_of b l = Some k -> a = b.
Proof.
  induction l as [|x r IH]; intros a b k Ha Hb; simpl in *; [discriminate|].
  destruct (N.eqb_spec a x), (N.eqb_spec b x); subst; auto.
  - destruct (index_of b r); inversion Ha; subst; discriminate.
  - destruct (index_of a r); inversion Hb; subst; discriminate.
  - destruct (index_of a r) eqn:Ea, (index_of b r) eqn:Eb; try discriminate.
    inversion Ha; inversion Hb; subst. inversion H1; subst. eauto.
Qed.

Lemma ren_ge : forall l nx i, In i l -> (nx <= ren l nx i)%N.
Proof. intros l nx i H. destruct (ren_in l nx i H) as (k & _ & ->). lia. Qed.

Lemma ren_inj : forall l nx a b, In a l -> In b l -> ren l nx a = ren l nx b -> a = b.
Proof.
  intros l nx a b Ha Hb E.
  destruct (ren_in l nx a Ha) as (ka & Ia & Ra). destruct (ren_in l nx b Hb) as (kb & Ib & Rb).
  rewrite Ra, Rb in E. assert (ka = kb) by lia. subst kb. eapply index_of_inj; eauto.
Qed.

Definition ccell (h : heap) (l : list N) (nx root i : N) : node :=
  mkNode (clsof h i) (if N.eqb i root then None else option_map (ren l nx) (par h i))
         (map (ren l nx) (kids h i)) (textof h i).

Lemma get_copy_cells_gen : forall h l nx root l' j,
  get (fold_right (fun i acc => set acc (ren l nx i) (ccell h l nx root i)) h l') j =
  match find (fun i => N.eqb j (ren l nx i)) l' with
  | Some i => Some (ccell h l nx root i)
  | None => get h j
  end.
Proof.
  induction l' as [|a l' IH]; intros j; simpl; [reflexivity|].
  destruct (N.eqb j (ren l nx a)); auto.
Qed.

Lemma find_hit : forall (r : N -> N) l' i0, In i0 l' ->
  (forall a b, In a l' -> In b l' -> r a = r b -> a = b) ->
  find (fun i => N.eqb (r i0) (r i)) l' = Some i0.
Proof.
  induction l' as [|a l' IH]; intros i0 Hi Hinj; [destruct Hi|]. simpl.
  destruct (N.eqb_spec (r i0) (r a)) as [E|E].
  - f_equal. symmetry. apply Hinj; simpl; auto.
  - destruct Hi as [->|Hi]; [congruence|]. apply IH; auto.
    intros; apply Hinj; simpl; auto.
Qed.

Lemma find_miss : forall (r : N -> N) l' j, (forall i, In i l' -> r i <> j) ->
  find (fun i => N.eqb j (r i)) l' = None.
Proof.
  induction l' as [|a l' IH]; intros j H; [reflexivity|]. simpl.
  destruct (N.eqb_spec j (r a)) as [E|E].
  - exfalso. apply (H a); simpl; auto.
  - apply IH. intros; apply H; simpl; auto.
Qed.

Lemma copy_cells_get_new : forall h l root i, In i l ->
  get (copy_cells h l (fresh h) root) (ren l (fresh h) i) = Some (ccell h l (fresh h) root i).
Proof.
  intros h l root i Hi. unfold copy_cells.
  change (get (fold_right (fun i acc => set acc (ren l (fresh h) i) (ccell h l (fresh h) root i)) h l)
              (ren l (fresh h) i) = Some (ccell h l (fresh h) root i)).
  rewrite get_copy_cells_gen. rewrite find_hit; auto.
  intros a b Ha Hb. apply ren_inj; auto.
Qed.

Lemma copy_cells_get_old : forall h l root j nd, get h j = Some nd ->
  get (copy_cells h l (fresh h) root) j = get h j.
Proof.
  intros h l root j nd Hj. unfold copy_cells.
  change (get (fold_right (fun i acc => set acc (ren l (fresh h) i) (ccell h l (fresh h) root i)) h l) j
          = get h j).
  rewrite get_copy_cells_gen. rewrite find_miss; auto.
  intros i Hi E. pose proof (ren_ge l (fresh h) i Hi). pose proof (fresh_gt _ _ _ Hj). lia.
Qed.

Lemma tid_t_map : forall f t, tid (t_map f t) = f (tid t).
Proof. intros f [i ts]. reflexivity. Qed.

Lemma ids_t_map : forall f t, ids (t_map f t) = map f (ids t).
Proof.
  intros f. induction t as [i ts IH] using tree_ind'. simpl. f_equal.
  induction ts as [|y r IHr]; [reflexivity|]. inversion IH as [|? ? Py Pr]; subst.
  simpl. rewrite map_app, Py, (IHr Pr). reflexivity.
Qed.

Lemma copy_sub : forall h l root x q,
  repr h (Some q) x -> incl (ids x) l -> ~ In root (ids x) ->
  repr (copy_cells h l (fresh h) root) (Some (ren l (fresh h) q)) (t_map (ren l (fresh h)) x).
Proof.
  intros h l root. induction x as [i ts IH] using tree_ind'. intros q Hr Hi Hroot.
  pose proof (repr_kids _ _ _ _ Hr) as Hk. pose proof (repr_root_par _ _ _ Hr) as Hp. simpl in Hp.
  apply repr_inv in Hr. destruct Hr as (nd & Hg & Hpar & Hcd & Htx & Hf).
  rewrite Forall_forall in Hf, IH.
  assert (Hil : In i l) by (apply Hi; simpl; auto).
  simpl. eapply repr_T with (nd := ccell h l (fresh h) root i).
  - apply copy_cells_get_new; auto.
  - simpl. destruct (N.eqb_spec i root) as [E|E]; [exfalso; apply Hroot; simpl; auto|].
    rewrite Hp. reflexivity.
  - simpl. rewrite Hk, !map_map. apply map_ext. intros. rewrite tid_t_map. reflexivity.
  - simpl. intro Hc. unfold clsof in Hc. rewrite Hg in Hc. rewrite (Htx Hc). reflexivity.
  - rewrite Forall_forall. intros x' Hx'. apply in_map_iff in Hx'. destruct Hx' as (x & <- & Hx).
    apply IH; auto.
    + intros j Hj. apply Hi. simpl. right. apply in_flat_map. eauto.
    + intro F. apply Hroot. simpl. right. apply in_flat_map. eauto.
Qed.

Lemma flat_map_map : forall {A B C} (f : B -> list C) (g : A -> B) l,
  flat_map f (map g l) = flat_map (fun x => f (g x)) l.
Proof. induction l as [|a l IH]; simpl; auto. rewrite IH. reflexivity. Qed.

Lemma words_copy : forall h l root x, incl (ids x) l ->
  words_t (copy_cells h l (fresh h) root) (t_map (ren l (fresh h)) x) = words_t h x.
Proof.
  intros h l root. induction x as [i ts IH] using tree_ind'. intros Hi. simpl. f_equal.
  - unfold textof at 1. rewrite copy_cells_get_new by (apply Hi; simpl; auto). reflexivity.
  - rewrite flat_map_map. apply flat_map_ext_in. intros x Hx. rewrite Forall_forall in IH.
    apply IH; auto. intros j Hj. apply Hi. simpl. right. apply in_flat_map. eauto.
Qed.

Lemma NoDup_map_inj_in : forall (f : N -> N) l, NoDup l ->
  (forall a b, In a l -> In b l -> f a = f b -> a = b) -> NoDup (map f l).
Proof.
  induction 1 as [|x l Hx Hl IH]; intros Hinj; simpl; constructor.
  - intro F. apply in_map_iff in F. destruct F as (y & E & Hy).
    assert (y = x) by (apply Hinj; simpl; auto). subst y. contradiction.
  - apply IH. intros; apply Hinj; simpl; auto.
Qed.

Lemma copy_repr : forall h t n s, repr h None t -> NoDup (ids t) -> t_find n t = Some s ->
  exists h' k, copy h n = Some (h', k) /\ repr h' None t /\
    (exists s', tid s' = k /\ repr h' None s' /\ NoDup (ids s') /\ disj (ids t) (ids s') /\
                words_t h' s' = words_t h s).
Proof.
  intros h t n s Hr Hnd Hfs.
  destruct (t_find_repr _ _ _ _ _ Hr Hfs) as [q Hrs].
  destruct (t_find_some _ _ _ Hfs) as [Ets _].
  pose proof (t_find_NoDup _ _ _ Hnd Hfs) as Hnds.
  pose proof (repr_root_par _ _ _ Hrs) as Hq. rewrite Ets in Hq.
  pose proof (build_complete _ _ _ Hrs Hnds) as Hb. rewrite Ets in Hb.
  exists (copy_cells h (ids s) (fresh h) n), (fresh h).
  split.
  { unfold copy. rewrite Hb, (nodupb_true _ Hnds), Hq, (checkp_true _ _ _ Hrs). reflexivity. }
  set (l := ids s). set (h' := copy_cells h l (fresh h) n). set (r := ren l (fresh h)).
  assert (Hold : forall j, In j (ids t) -> get h' j = get h j).
  { intros j Hj. destruct (repr_get _ _ _ _ Hr Hj) as [nd Hg]. eapply copy_cells_get_old; eauto. }
  split; [apply repr_frame with (h := h); auto|].
  exists (t_map r s). destruct s as [n' ts]. simpl in Ets. subst n'.
  assert (Hnl : In n l) by (unfold l; simpl; auto).
  assert (Hrn : r n = fresh h).
  { unfold r, ren, l. simpl. rewrite N.eqb_refl. simpl. lia. }
  split; [rewrite tid_t_map; exact Hrn|]. split; [|split; [|split]].
  - pose proof (repr_kids _ _ _ _ Hrs) as Hk.
    apply repr_inv in Hrs. destruct Hrs as (nd & Hg & Hpar & Hcd & Htx & Hf).
    rewrite Forall_forall in Hf. simpl in Hnds. apply NoDup_cons_iff in Hnds. destruct Hnds as [Hn0 _].
    simpl. eapply repr_T with (nd := ccell h l (fresh h) n n).
    + apply copy_cells_get_new; auto.
    + simpl. rewrite N.eqb_refl. reflexivity.
    + simpl. rewrite Hk, !map_map. apply map_ext. intros. rewrite tid_t_map. reflexivity.
    + simpl. intro Hc. unfold clsof in Hc. rewrite Hg in Hc. rewrite (Htx Hc). reflexivity.
    + rewrite Forall_forall. intros x' Hx'. apply in_map_iff in Hx'. destruct Hx' as (x & <- & Hx).
      apply copy_sub; auto.
      * intros j Hj. unfold l. simpl. right. apply in_flat_map. eauto.
      * intro F. apply Hn0. apply in_flat_map. eauto.
  - rewrite ids_t_map. apply NoDup_map_inj_in; auto.
    intros a b Ha Hb'. apply ren_inj; auto.
  - intros j Hj F. rewrite ids_t_map in F. apply in_map_iff in F. destruct F as (i & E & Hi).
    destruct (repr_get _ _ _ _ Hr Hj) as [nd Hg]. pose proof (fresh_gt _ _ _ Hg).
    pose proof (ren_ge l (fresh h) i Hi). unfold r in E. lia.
  - apply words_copy. apply incl_refl.
Qed.

(* ================================================================ 12. WF is preserved (F) *)
Theorem append_child_preserves_WF : forall h r t p s,
  tid t = r -> repr h None t -> NoDup (ids t) -> In p (ids t) -> clsof h p <> c_Text ->
  repr h None s -> NoDup (ids s) -> disj (ids t) (ids s) ->
  WF (append_child h p (tid s)) r.
Proof.
  intros h r t p s Er Hr Hnd Hp Hc Hrs Hnds Hd.
  destruct (append_child_repr h t s p Hr Hnd Hp Hc Hrs Hnds Hd) as [A B].
  exists (t_append p s t). rewrite tid_t_append. auto.
Qed.

Theorem replace_child_preserves_WF : forall h r t p c ns,
  tid t = r -> repr h None t -> NoDup (ids t) -> In p (ids t) -> In c (kids h p) ->
  Forall (repr h None) ns -> NoDup (flat_map ids ns) -> disj (ids t) (flat_map ids ns) ->
  exists h', replace_child h p c (map tid ns) = Ok h' /\ WF h' r /\ WFsub h' None c.
Proof.
  intros h r t p c ns Er Hr Hnd Hp Hc Hns Hndn Hd.
  destruct (replace_child_repr h t p c ns Hr Hnd Hp Hc Hns Hndn Hd) as (h' & H1 & H2 & H3 & H4).
  destruct (child_setup _ _ _ _ Hr Hnd Hp Hc)
    as (s & idx & _ & _ & _ & Hfs & _ & Ets & Hnds & _).
  exists h'. split; auto. split.
  - exists (t_replace c ns t). rewrite tid_t_replace. auto.
  - exists s. auto.
Qed.

Theorem remove_child_preserves_WF : forall h r t p c,
  tid t = r -> repr h None t -> NoDup (ids t) -> In p (ids t) -> In c (kids h p) ->
  exists h', remove_child h p c = Ok h' /\ WF h' r /\ WFsub h' None c.
Proof.
  intros h r t p c Er Hr Hnd Hp Hc.
  destruct (replace_child_preserves_WF h r t p c [] Er Hr Hnd Hp Hc) as (h' & H1 & H2).
  - constructor.
  - constructor.
  - intros x _ F. exact F.
  - exists h'. auto.
Qed.

Theorem dissolve_preserves_WF : forall h r t p c,
  tid t = r -> repr h None t -> NoDup (ids t) -> In p (ids t) -> In c (kids h p) ->
  exists h', replace_child h p c (kids h c) = Ok h' /\ WF h' r.
Proof.
  intros h r t p c Er Hr Hnd Hp Hc.
  destruct (child_setup _ _ _ _ Hr Hnd Hp Hc)
    as (s & idx & _ & _ & _ & Hfs & _ & Ets & _).
  destruct s as [c' cs]. simpl in Ets. subst c'.
  destruct (dissolve_repr h t p c cs Hr Hnd Hp Hc Hfs) as (h' & H1 & H2 & H3).
  exists h'. split; auto. exists (t_replace c cs t). rewrite tid_t_replace. auto.
Qed.

Theorem move_to_preserves_WF : forall h r t n tgt b s,
  tid t = r -> repr h None t -> NoDup (ids t) -> In n (ids t) -> n <> r ->
  In tgt (ids t) -> tgt <> r -> t_find n t = Some s -> ~ In tgt (ids s) ->
  exists h', move_to h n tgt b = Ok h' /\ WF h' r.
Proof.
  intros h r t n tgt b s Er Hr Hnd Hn Hnr Htg Htr Hfs Hts. subst r.
  destruct (move_to_repr h t n tgt b s Hr Hnd Hn Hnr Htg Htr Hfs Hts) as (h' & H1 & H2 & H3).
  exists h'. split; auto. exists (t_insert tgt b s (t_replace n [] t)).
  rewrite tid_t_insert, tid_t_replace. auto.
Qed.

Theorem copy_preserves_WF : forall h r t n,
  tid t = r -> repr h None t -> NoDup (ids t) -> In n (ids t) ->
  exists h' k, copy h n = Some (h', k) /\ WF h' r /\ WFsub h' None k /\ words h' k = words h n.
Proof.
  intros h r t n Er Hr Hnd Hn.
  destruct (t_find_ex _ _ Hn) as [s Hfs].
  destruct (copy_repr h t n s Hr Hnd Hfs) as (h' & k & H1 & H2 & s' & E' & R' & N' & D' & W').
  exists h', k. split; auto. split; [exists t; auto|]. split; [exists s'; auto|].
  destruct (t_find_repr _ _ _ _ _ Hr Hfs) as [q Hrs].
  destruct (t_find_some _ _ _ Hfs) as [Ets _].
  pose proof (t_find_NoDup _ _ _ Hnd Hfs) as Hnds.
  unfold words. rewrite <- E', <- Ets.
  rewrite (build_complete _ _ _ R' N'), (build_complete _ _ _ Hrs Hnds). exact W'.
Qed.

(* ================================================================ 13. sequences of operations (G) *)
Inductive op :=
| OAppend (p c : N)
| ORemove (p c : N)
| OReplace (p c : N) (news : list N)
| ODissolve (p c : N)
| OMove (n tgt : N) (prefix : bool)
| OCopy (n : N).

Definition apply (h : heap) (o : op) : res :=
  match o with
  | OAppend p c => Ok (append_child h p c)
  | ORemove p c => remove_child h p c
  | OReplace p c news => replace_child h p c news
  | ODissolve p c => replace_child h p c (kids h c)
  | OMove n tgt b => move_to h n tgt b
  | OCopy n => match copy h n with Some (h', _) => Ok h' | None => Err end
  end.

(* the stated preconditions of each call, on a heap whose document (root r) is the proper tree t *)
Definition pre (h : heap) (r : N) (o : op) : Prop :=
  exists t, tid t = r /\ repr h None t /\ NoDup (ids t) /\
  match o with
  | OAppend p c =>
      In p (ids t) /\ clsof h p <> c_Text /\
      exists s, tid s = c /\ repr h None s /\ NoDup (ids s) /\ disj (ids t) (ids s)
  | ORemove p c => In p (ids t) /\ In c (kids h p)
  | OReplace p c news =>
      In p (ids t) /\ In c (kids h p) /\
      exists ns, map tid ns = news /\ Forall (repr h None) ns /\ NoDup (flat_map ids ns) /\
                 disj (ids t) (flat_map ids ns)
  | ODissolve p c => In p (ids t) /\ In c (kids h p)
  | OMove n tgt b =>
      In n (ids t) /\ n <> r /\ In tgt (ids t) /\ tgt <> r /\
      exists s, t_find n t = Some s /\ ~ In tgt (ids s)
  | OCopy n => In n (ids t)
  end.

Fixpoint pre_all (h : heap) (r : N) (ops : list op) : Prop :=
  match ops with
  | [] => True
  | o :: rest => pre h r o /\ forall h', apply h o = Ok h' -> pre_all h' r rest
  end.

Definition step (a : res) (o : op) : res := match a with Ok h => apply h o | Err => Err end.

Lemma apply_preserves_WF : forall h r o, pre h r o -> exists h', apply h o = Ok h' /\ WF h' r.
Proof.
  intros h r o (t & Er & Hr & Hnd & Hside). destruct o as [p c|p c|p c news|p c|n tgt b|n]; simpl.
  - destruct Hside as (Hp & Hc & s & Es & Hrs & Hnds & Hd). subst c.
    eexists. split; [reflexivity|]. eapply append_child_preserves_WF; eauto.
  - destruct Hside as (Hp & Hc).
    destruct (remove_child_preserves_WF h r t p c Er Hr Hnd Hp Hc) as (h' & H1 & H2 & _). eauto.
  - destruct Hside as (Hp & Hc & ns & En & Hns & Hndn & Hd). subst news.
    destruct (replace_child_preserves_WF h r t p c ns Er Hr Hnd Hp Hc Hns Hndn Hd) as (h' & H1 & H2 & _). eauto.
  - destruct Hside as (Hp & Hc).
    destruct (dissolve_preserves_WF h r t p c Er Hr Hnd Hp Hc) as (h' & H1 & H2). eauto.
  - destruct Hside as (Hn & Hnr & Htg & Htr & s & Hfs & Hts).
    destruct (move_to_preserves_WF h r t n tgt b s Er Hr Hnd Hn Hnr Htg Htr Hfs Hts) as (h' & H1 & H2). eauto.
  - destruct (copy_preserves_WF h r t n Er Hr Hnd Hside) as (h' & k & H1 & H2 & _).
    rewrite H1. eauto.
Qed.

Lemma fold_step_Err : forall ops, fold_left step ops Err = Err.
Proof. induction ops; simpl; auto. Qed.

Theorem C05_api_preserves_WF_seq : forall ops h r,
  WF h r -> pre_all h r ops -> exists h', fold_left step ops (Ok h) = Ok h' /\ WF h' r.
Proof.
  induction ops as [|o rest IH]; intros h r Hwf Hpre; simpl.
  - eauto.
  - destruct Hpre as [Hp Hrest].
    destruct (apply_preserves_WF h r o Hp) as (h1 & E & Hwf1).
    rewrite E. apply IH; auto.
Qed.

(* every intermediate heap of the sequence is WF as well *)
Theorem C05_api_preserves_WF_prefix : forall ops1 ops2 h r,
  WF h r -> pre_all h r (ops1 ++ ops2) ->
  exists h1, fold_left step ops1 (Ok h) = Ok h1 /\ WF h1 r /\ pre_all h1 r ops2.
Proof.
  induction ops1 as [|o rest IH]; intros ops2 h r Hwf Hpre; simpl in *.
  - eauto.
  - destruct Hpre as [Hp Hrest].
    destruct (apply_preserves_WF h r o Hp) as (h1 & E & Hwf1).
    rewrite E. apply IH; auto.
Qed.

(* ---------------------------------------------------------------- non-vacuity *)
Lemma pre_all_cons : forall h r o rest h1,
  apply h o = Ok h1 -> pre h r o -> pre_all h1 r rest -> pre_all h r (o :: rest).
Proof.
  intros h r o rest h1 E Hp Hr. simpl. split; auto.
  intros h' E'. rewrite E in E'. inversion E'; subst. auto.
Qed.

Lemma nodupb_NoDup : forall l, nodupb l = true -> NoDup l.
Proof.
  induction l as [|x l IH]; intros H; constructor; simpl in H; apply andb_true_iff in H; destruct H as [A B].
  - intro F. apply memb_In in F. rewrite F in A. discriminate.
  - auto.
Qed.

Definition h0 : heap :=
  [ (1, mkNode c_Section None [2; 3] []);
    (2, mkNode c_Paragraph (Some 1) [] [10]);
    (3, mkNode c_Paragraph (Some 1) [4] []);
    (4, mkNode c_Text (Some 3) [] [11; 12]);
    (5, mkNode c_Text None [] [13]) ]%N.

Definition ops0 : list op :=
  [OAppend 2 5; OMove 4 2 false; ODissolve 1 3; OCopy 2; ORemove 1 2]%N.

Ltac prove_repr :=
  repeat first
    [ eapply repr_T;
      [ reflexivity | reflexivity | reflexivity
      | (let H := fresh in intro H; first [reflexivity | discriminate H]) | ]
    | constructor ].
Ltac prove_nodup := apply nodupb_NoDup; reflexivity.
Ltac prove_in := simpl; tauto.
Ltac prove_disj :=
  let x := fresh in let H1 := fresh in let H2 := fresh in
  intros x H1 H2; simpl in H1, H2; intuition (subst; discriminate).

Example api_example_run :
  exists h1, fold_left step ops0 (Ok h0) = Ok h1 /\ wfb h1 1 = true /\ words h1 1 = [11; 12]%N.
Proof. eexists. vm_compute. repeat split. Qed.

Example api_example_WF0 : WF h0 1.
Proof.
  exists (T 1 [T 2 []; T 3 [T 4 []]])%N. split; [reflexivity|]. split; [prove_repr | prove_nodup].
Qed.

Example api_example_pre : pre_all h0 1 ops0.
Proof.
  unfold ops0.
  eapply pre_all_cons; [vm_compute; reflexivity | | ].
  { exists (T 1 [T 2 []; T 3 [T 4 []]])%N. split; [reflexivity|]. split; [prove_repr|]. split; [prove_nodup|].
    split; [prove_in|]. split; [vm_compute; discriminate|].
    exists (T 5 [])%N. split; [reflexivity|]. split; [prove_repr|]. split; [prove_nodup | prove_disj]. }
  eapply pre_all_cons; [vm_compute; reflexivity | | ].
  { exists (T 1 [T 2 [T 5 []]; T 3 [T 4 []]])%N. split; [reflexivity|]. split; [prove_repr|]. split; [prove_nodup|].
    split; [prove_in|]. split; [discriminate|]. split; [prove_in|]. split; [discriminate|].
    exists (T 4 [])%N. split; [reflexivity|]. simpl. intuition discriminate. }
  eapply pre_all_cons; [vm_compute; reflexivity | | ].
  { exists (T 1 [T 2 [T 5 []]; T 4 []; T 3 []])%N. split; [reflexivity|]. split; [prove_repr|]. split; [prove_nodup|].
    split; [prove_in | vm_compute; tauto]. }
  eapply pre_all_cons; [vm_compute; reflexivity | | ].
  { exists (T 1 [T 2 [T 5 []]; T 4 []])%N. split; [reflexivity|]. split; [prove_repr|]. split; [prove_nodup|].
    prove_in. }
  eapply pre_all_cons; [vm_compute; reflexivity | | ].
  { exists (T 1 [T 2 [T 5 []]; T 4 []])%N. split; [reflexivity|]. split; [prove_repr|]. split; [prove_nodup|].
    split; [prove_in | vm_compute; tauto]. }
  exact I.
Qed.

(* the theorem applied to the example *)
Example api_example : exists h1, fold_left step ops0 (Ok h0) = Ok h1 /\ WF h1 1.
Proof. apply C05_api_preserves_WF_seq; [exact api_example_WF0 | exact api_example_pre]. Qed.

(* ================================================================ 14. link to the executable checker *)
Lemma api_WF_wfb : forall h r, WF h r -> wfb h r = true.
Proof.
  intros h r (t & E & Hr & Hnd). unfold wfb.
  rewrite <- E, (build_complete _ _ _ Hr Hnd), (nodupb_true _ Hnd), (checkp_true _ _ _ Hr). reflexivity.
Qed.

Corollary C05_api_seq_wfb : forall ops h r,
  WF h r -> pre_all h r ops -> exists h', fold_left step ops (Ok h) = Ok h' /\ wfb h' r = true.
Proof.
  intros ops h r Hwf Hpre.
  destruct (C05_api_preserves_WF_seq ops h r Hwf Hpre) as (h' & E & W).
  exists h'. split; auto. apply api_WF_wfb; auto.
Qed.
