(* C05/C06/C07 — shared executable model: the node heap of mwlib.parser.advtree.
   Definitions only (the lemmas are in C05/Proofs.v, C06/Proofs.v, C07/Proofs.v).

   A Python AdvancedNode object = one heap cell  id |-> {cls; parent; children; text}.
   `children` is the Python list node.children (object identities), `parent` the attribute
   node.parent (None / a node), `cls` a small code for node.__class__, `text` the visible words the
   node itself contributes (tokenised by the harness: Text.caption.split() etc.; words are numbered).
   The tree API below restates advtree.py:94-150 line by line. *)
From Coq Require Import List NArith Bool Arith.
Import ListNotations.

Record node := mkNode { cls : N; parent : option N; children : list N; text : list N }.
Definition heap := list (N * node).            (* association list, first binding wins *)

(* class codes (vt/harness/c05_snap.py CLS uses the same numbers) *)
Definition c_Text : N := 1.      Definition c_Table : N := 2.    Definition c_Row : N := 3.
Definition c_Cell : N := 4.      Definition c_Caption : N := 5.  Definition c_ItemList : N := 6.
Definition c_Item : N := 7.      Definition c_Section : N := 8.  Definition c_Reference : N := 9.
Definition c_Paragraph : N := 10. Definition c_BR : N := 11.

Fixpoint get (h : heap) (i : N) : option node :=
  match h with
  | [] => None
  | (j, nd) :: r => if N.eqb i j then Some nd else get r i
  end.
Definition set (h : heap) (i : N) (nd : node) : heap := (i, nd) :: h.

Definition kids (h : heap) (i : N) : list N := match get h i with Some nd => children nd | None => [] end.
Definition par (h : heap) (i : N) : option N := match get h i with Some nd => parent nd | None => None end.
Definition clsof (h : heap) (i : N) : N := match get h i with Some nd => cls nd | None => 0%N end.
Definition textof (h : heap) (i : N) : list N := match get h i with Some nd => text nd | None => [] end.

Definition set_parent (h : heap) (i : N) (p : option N) : heap :=
  match get h i with Some nd => set h i (mkNode (cls nd) p (children nd) (text nd)) | None => h end.
Definition set_kids (h : heap) (i : N) (l : list N) : heap :=
  match get h i with Some nd => set h i (mkNode (cls nd) (parent nd) l (text nd)) | None => h end.

(* ---------------------------------------------------------------- the tree API (advtree.py) *)
Inductive res := Ok (h : heap) | Err.          (* Err = the Python call raises (ValueError / AttributeError) *)

(* _id_index (advtree.py:62-68): index of the first occurrence, by identity *)
Fixpoint index_of (c : N) (l : list N) : option nat :=
  match l with
  | [] => None
  | x :: r => if N.eqb c x then Some O else match index_of c r with Some k => Some (S k) | None => None end
  end.
Definition splice (l : list N) (idx : nat) (news : list N) : list N := firstn idx l ++ news ++ skipn (S idx) l.
Definition insert_at (l : list N) (idx : nat) (x : N) : list N := firstn idx l ++ x :: skipn idx l.

(* append_child (advtree.py:131-133): self.children.append(child); child.parent = self.
   NB: it does NOT detach child from a previous parent. *)
Definition append_child (h : heap) (p c : N) : heap :=
  set_parent (set_kids h p (kids h p ++ [c])) c (Some p).

(* replace_child (advtree.py:140-150): idx = _id_index(...) (ValueError when absent);
   self.children[idx:idx+1] = newchildren; child.parent = None; (has_child(child) is then always
   False because child.parent is None, so "child not removed" is never raised);
   for new_child in newchildren: new_child.parent = self *)
Definition replace_child (h : heap) (p c : N) (news : list N) : res :=
  match index_of c (kids h p) with
  | None => Err
  | Some idx =>
      let h1 := set_kids h p (splice (kids h p) idx news) in
      let h2 := set_parent h1 c None in
      Ok (fold_left (fun hh n => set_parent hh n (Some p)) news h2)
  end.

(* remove_child (advtree.py:135-138) = replace_child(child, []); child.parent is None afterwards *)
Definition remove_child (h : heap) (p c : N) : res := replace_child h p c [].

(* move_to (advtree.py:104-119) *)
Definition move_to (h : heap) (n tgt : N) (prefix : bool) : res :=
  match (match par h n with Some p => remove_child h p n | None => Ok h end) with
  | Err => Err
  | Ok h1 =>
      match par h1 tgt with
      | None => Err                                   (* target_parent is None: AttributeError *)
      | Some tp =>
          match index_of tgt (kids h1 tp) with
          | None => Err
          | Some idx =>
              let idx' := if prefix then idx else S idx in
              Ok (set_parent (set_kids h1 tp (insert_at (kids h1 tp) idx' n)) n (Some tp))
          end
      end
  end.

(* ---------------------------------------------------------------- trees represented by a heap *)
Inductive tree := T : N -> list tree -> tree.
Definition tid (t : tree) : N := let 'T i _ := t in i.
Definition tkids (t : tree) : list tree := let 'T _ ts := t in ts.
Fixpoint ids (t : tree) : list N := let 'T i ts := t in i :: flat_map ids ts.
Fixpoint tsize (t : tree) : nat := let 'T _ ts := t in S (list_sum (map tsize ts)).

Definition map_opt {A B} (f : A -> option B) : list A -> option (list B) :=
  fix go l := match l with
              | [] => Some []
              | x :: r => match f x with
                          | Some y => match go r with Some ys => Some (y :: ys) | None => None end
                          | None => None
                          end
              end.

(* unfold the heap below node i; fuel bounds the depth (a cyclic heap exhausts it) *)
Fixpoint build (fuel : nat) (h : heap) (i : N) : option tree :=
  match fuel with
  | O => None
  | S f => match get h i with
           | None => None
           | Some nd => match map_opt (build f h) (children nd) with
                        | Some ts => Some (T i ts)
                        | None => None
                        end
           end
  end.

Definition opt_eqb (a b : option N) : bool :=
  match a, b with Some x, Some y => N.eqb x y | None, None => true | _, _ => false end.
Definition is_nil {A} (l : list A) : bool := match l with [] => true | _ => false end.
Fixpoint memb (x : N) (l : list N) : bool := match l with [] => false | y :: r => N.eqb x y || memb x r end.
Fixpoint nodupb (l : list N) : bool := match l with [] => true | x :: r => negb (memb x r) && nodupb r end.

(* parent links and text leaves, along the unfolded tree *)
Fixpoint checkp (h : heap) (p : option N) (t : tree) : bool :=
  let 'T i ts := t in
  match get h i with
  | None => false
  | Some nd => opt_eqb (parent nd) p
               && (negb (N.eqb (cls nd) c_Text) || is_nil ts)
               && forallb (checkp h (Some i)) ts
  end.

(* THE CHECKER: the heap, read from root r, is a proper tree *)
Definition wfb (h : heap) (r : N) : bool :=
  match build (S (length h)) h r with
  | None => false
  | Some t => nodupb (ids t) && checkp h None t
  end.

(* ---------------------------------------------------------------- the writers' contract *)
Definition is_caption (c : N) : bool := N.eqb c c_Caption.
(* may a node of class pc list a child of class cc ? *)
Definition edge_ok (pc cc : N) : bool :=
  (negb (N.eqb pc c_Table) || N.eqb cc c_Row || is_caption cc)
  && (negb (N.eqb pc c_Row) || N.eqb cc c_Cell)
  && (negb (N.eqb pc c_ItemList) || N.eqb cc c_Item)
  && (negb (N.eqb cc c_Cell) || N.eqb pc c_Row)
  && (negb (N.eqb cc c_Row) || N.eqb pc c_Table)
  && (negb (N.eqb cc c_Item) || N.eqb pc c_ItemList).
Definition root_ok (c : N) : bool := negb (N.eqb c c_Cell || N.eqb c c_Row || N.eqb c c_Item).

Fixpoint contract_t (h : heap) (t : tree) : bool :=
  let 'T i ts := t in
  forallb (fun s => edge_ok (clsof h i) (clsof h (tid s)) && contract_t h s) ts.

Definition contractb (h : heap) (r : N) : bool :=
  match build (S (length h)) h r with
  | None => false
  | Some t => root_ok (clsof h r) && contract_t h t
  end.

(* ---------------------------------------------------------------- visible words *)
Fixpoint words_t (h : heap) (t : tree) : list N :=
  let 'T i ts := t in textof h i ++ flat_map (words_t h) ts.

Definition words (h : heap) (r : N) : list N :=
  match build (S (length h)) h r with Some t => words_t h t | None => [] end.

(* words with their context: (word, nearest enclosing Section, number of enclosing Items,
   nearest enclosing Reference, nearest enclosing Table); 0 = none (ids start at 1) *)
Record ctx := mkCtx { x_sec : N; x_depth : N; x_ref : N; x_tbl : N }.
Definition enter (h : heap) (i : N) (c : ctx) : ctx :=
  let k := clsof h i in
  mkCtx (if N.eqb k c_Section then i else x_sec c)
        (if N.eqb k c_Item then N.succ (x_depth c) else x_depth c)
        (if N.eqb k c_Reference then i else x_ref c)
        (if N.eqb k c_Table then i else x_tbl c).
Fixpoint cwords_t (h : heap) (c : ctx) (t : tree) : list (N * ctx) :=
  let 'T i ts := t in
  let c' := enter h i c in
  map (fun w => (w, c')) (textof h i) ++ flat_map (cwords_t h c') ts.
Definition cwords (h : heap) (r : N) : list (N * ctx) :=
  match build (S (length h)) h r with Some t => cwords_t h (mkCtx 0 0 0 0) t | None => [] end.

(* rows and columns of a table node: (number of Row children, max number of Cell children of a row) *)
Definition table_dims (h : heap) (t : N) : nat * nat :=
  let rows := filter (fun r => N.eqb (clsof h r) c_Row) (kids h t) in
  (length rows,
   fold_left Nat.max (map (fun r => length (filter (fun c => N.eqb (clsof h c) c_Cell) (kids h r))) rows) O).

(* ---------------------------------------------------------------- copy (advtree.py:94-102) *)
(* deepcopy of the subtree below n with n.parent temporarily None: one fresh cell per node of the
   subtree, numbered in preorder from `fresh h`; defined for a subtree that is itself a proper tree
   (a stale parent link pointing out of the subtree would make deepcopy copy more: None). *)
Definition ren (l : list N) (next : N) (i : N) : N :=
  match index_of i l with Some k => (next + N.of_nat k)%N | None => 0%N end.
Definition copy_cells (h : heap) (l : list N) (next root : N) : heap :=
  fold_right (fun i acc =>
                set acc (ren l next i)
                    (mkNode (clsof h i)
                            (if N.eqb i root then None else option_map (ren l next) (par h i))
                            (map (ren l next) (kids h i)) (textof h i)))
             h l.
Definition fresh (h : heap) : N := N.succ (fold_left N.max (map fst h) 0%N).

Definition copy (h : heap) (n : N) : option (heap * N) :=
  match build (S (length h)) h n with
  | None => None
  | Some t => if nodupb (ids t) && checkp h (par h n) t
              then Some (copy_cells h (ids t) (fresh h) n, fresh h)
              else None
  end.

(* ================================================================ declarative specifications *)
(* "the heap, read below node i, IS the finite tree t, hanging under parent p":
   every node of t is a heap cell whose children list is exactly the list of its subtrees' roots,
   whose parent link is the node that lists it (p for the root of t), and text leaves are childless.
   A finite inductive tree cannot be cyclic. *)
Inductive repr (h : heap) : option N -> tree -> Prop :=
| repr_T : forall p i ts nd,
    get h i = Some nd -> parent nd = p -> children nd = map tid ts ->
    (cls nd = c_Text -> ts = []) ->
    Forall (repr h (Some i)) ts ->
    repr h p (T i ts).

(* the subtree below n is a proper tree hanging under p (p = None: detached) *)
Definition WFsub (h : heap) (p : option N) (n : N) : Prop :=
  exists t, tid t = n /\ repr h p t /\ NoDup (ids t).

(* C05, first sentence: the document read from the root r is a proper tree: every node occurs
   exactly once (NoDup (ids t)), each child's parent link points to the node that lists it, the root
   has no parent, no cycles, text leaves have no children. *)
Definition WF (h : heap) (r : N) : Prop := WFsub h None r.

(* reachability along children lists *)
Inductive reach (h : heap) : N -> N -> Prop :=
| reach_refl : forall a, reach h a a
| reach_step : forall a b c, reach h a b -> In c (kids h b) -> reach h a c.
(* at least one step *)
Inductive reach1 (h : heap) : N -> N -> Prop :=
| reach1_intro : forall a b c, reach h a b -> In c (kids h b) -> reach1 h a c.

(* C05, second sentence: tables contain only rows and captions, rows only cells, lists only items,
   and cells/rows/items only occur inside their containers *)
Definition contract (h : heap) (r : N) : Prop :=
  root_ok (clsof h r) = true /\
  forall n c, reach h r n -> In c (kids h n) -> edge_ok (clsof h n) (clsof h c) = true.
