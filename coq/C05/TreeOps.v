(* C05/C06/C07 — tree-level counterparts of the heap API (definitions only).
   The API lemmas (ProofsApi.v) say: if the heap represents t then the heap after the Python-level
   operation represents <tree op> t.  C06/C07 reason about these tree functions. *)
From Coq Require Import List NArith Bool Arith.
From MW Require Import C05.Heap.
Import ListNotations.

(* the subtree rooted at c (first in preorder) *)
Fixpoint t_find (c : N) (t : tree) : option tree :=
  let 'T i ts := t in
  if N.eqb i c then Some t
  else (fix go l := match l with
                    | [] => None
                    | x :: r => match t_find c x with Some s => Some s | None => go r end
                    end) ts.

(* replace every subtree rooted at c strictly below the root by the list news
   (news = [] : remove_child;  news = children of c : the replace_child(n, n.children) idiom) *)
Fixpoint t_replace (c : N) (news : list tree) (t : tree) : tree :=
  let 'T i ts := t in
  T i (flat_map (fun x => if N.eqb (tid x) c then news else [t_replace c news x]) ts).

(* append s as last child of node p *)
Fixpoint t_append (p : N) (s : tree) (t : tree) : tree :=
  let 'T i ts := t in
  if N.eqb i p then T i (ts ++ [s]) else T i (map (t_append p s) ts).

(* insert s as a sibling of node tgt: before it (prefix = true) or right behind it *)
Fixpoint t_insert (tgt : N) (prefix : bool) (s : tree) (t : tree) : tree :=
  let 'T i ts := t in
  T i (flat_map (fun x => if N.eqb (tid x) tgt
                          then (if prefix then [s; x] else [x; s])
                          else [t_insert tgt prefix s x]) ts).

(* rename all ids *)
Fixpoint t_map (f : N -> N) (t : tree) : tree :=
  let 'T i ts := t in T (f i) (map (t_map f) ts).

(* sum of the depths of all nodes (root at depth d) *)
Fixpoint sdepth (d : nat) (t : tree) : nat :=
  let 'T _ ts := t in d + list_sum (map (sdepth (S d)) ts).
