(* C05 — the hand-over of a footnote's nodes in TreeCleaner.fix_reference_nodes (definitions only).

   treecleaner.py:1374-1404.  name2children[name] is the LIVE child list of the defining <ref name=x>..</ref> (node d).
   A content-less <ref name=x/> (node u) that comes first receives them:
       for child in name2children[name]: ref_node.append_child(child)          (1385-1387)
   (append_child does not detach: after the loop every child is listed by d AND by u, its parent link says u), and when the
   loop reaches the definition the same bookkeeping entry empties it:
       if ref_defined.get(name): ref_node.children = []                        (1379-1380)
   Both steps must be driven by the SAME key: if the second does not happen the nodes stay listed twice. *)
From Coq Require Import List NArith.
From MW Require Import C05.Heap.
Import ListNotations.

(* for child in cs: u.append_child(child) *)
Definition append_all (h : heap) (u : N) (cs : list N) : heap :=
  fold_left (fun hh c => append_child hh u c) cs h.

(* the loop alone (what remains when the definition is NOT emptied) *)
Definition handover_noclear (h : heap) (d u : N) : heap := append_all h u (kids h d).

(* the loop, then d.children = [] *)
Definition handover (h : heap) (d u : N) : heap := set_kids (handover_noclear h d u) d [].
