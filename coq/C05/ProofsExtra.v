(* C05 — small concrete witnesses *)
From Coq Require Import List NArith Bool.
From MW Require Import C05.Heap.
From MW Require C05.ProofsWf.
Import ListNotations.

Definition h_att : heap :=
  [(1, mkNode 0 None [2; 3] []); (2, mkNode 0 (Some 1) [] []); (3, mkNode 0 (Some 1) [] [])]%N.

(* append_child on an ATTACHED node (here 3, child of 1, appended to 2) leaves 3 listed twice *)
Lemma append_attached_refuted : exists h, WF h 1 /\ wfb (append_child h 2 3) 1 = false.
Proof.
  exists h_att. split; [apply ProofsWf.wfb_spec; vm_compute; reflexivity | vm_compute; reflexivity].
Qed.
