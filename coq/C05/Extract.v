From Coq Require Import Extraction ExtrOcamlBasic.
From MW Require Import C05.Heap C05.Refs.
Extraction "../ocaml/c05/c05_model.ml" wfb contractb words cwords table_dims
  append_child replace_child remove_child move_to copy get kids par clsof handover.
