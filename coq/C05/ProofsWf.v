(* C05 — the checker wfb decides the declarative well-formedness WF; first-order reading of WF;
   the contract checker contractb decides contract (under WF).  Model and specs: C05/Heap.v. *)
From Coq Require Import List NArith Bool Arith Lia Permutation.
From MW Require Import C05.Heap.
Import ListNotations.

(* ================================================================ 1. induction principles *)
Lemma tree_ind' : forall P : tree -> Prop,
  (forall i ts, Forall P ts -> P (T i ts)) -> forall t, P t.
Proof.
  intros P H. fix IH 1. intros [i ts]. apply H.
  induction ts as [|t ts IHts].
  - constructor.
  - constructor.
    + apply IH.
    + exact IHts.
Qed.

Lemma repr_inv : forall h p i ts, repr h p (T i ts) ->
  exists nd, get h i = Some nd /\ parent nd = p /\ children nd = map tid ts /\
             (cls nd = c_Text -> ts = []) /\ Forall (repr h (Some i)) ts.
Proof.
  intros h p i ts H. inversion H as [p' i' ts' nd Hg Hp Hc Htx Hf]; subst.
  exists nd. repeat split; auto.
Qed.

Lemma repr_ind' : forall h (P : option N -> tree -> Prop),
  (forall p i ts nd, get h i = Some nd -> parent nd = p -> children nd = map tid ts ->
     (cls nd = c_Text -> ts = []) -> Forall (repr h (Some i)) ts ->
     Forall (P (Some i)) ts -> P p (T i ts)) ->
  forall p t, repr h p t -> P p t.
Proof.
  intros h P H p t. revert p. induction t as [i ts IH] using tree_ind'.
  intros p Hr. apply repr_inv in Hr. destruct Hr as (nd & Hg & Hp & Hc & Htx & Hf).
  apply (H p i ts nd); auto.
  rewrite Forall_forall in *. intros s Hs. apply IH; auto.
Qed.

(* ================================================================ small reusable lemmas *)
Lemma get_set_same : forall h i nd, get (set h i nd) i = Some nd.
Proof. intros h i nd. unfold set. simpl. rewrite N.eqb_refl. reflexivity. Qed.

Lemma get_set_other : forall h i j nd, i <> j -> get (set h i nd) j = get h j.
Proof.
  intros h i j nd Hij. unfold set. simpl.
  destruct (N.eqb j i) eqn:E; auto. apply N.eqb_eq in E. congruence.
Qed.

Lemma get_in_keys : forall h i nd, get h i = Some nd -> In i (map fst h).
Proof.
  induction h as [|[j n] h IH]; intros i nd Hg; simpl in *.
  - discriminate.
  - destruct (N.eqb i j) eqn:E.
    + apply N.eqb_eq in E. left. auto.
    + right. eapply IH; eauto.
Qed.

Lemma ids_T : forall i ts, ids (T i ts) = i :: flat_map ids ts.
Proof. reflexivity. Qed.

Lemma tid_in_ids : forall t, In (tid t) (ids t).
Proof. intros [i ts]. simpl. auto. Qed.

Lemma opt_eqb_eq : forall a b, opt_eqb a b = true <-> a = b.
Proof.
  intros [x|] [y|]; simpl; try rewrite N.eqb_eq; split; intro H; try congruence; auto.
Qed.

Lemma memb_spec : forall x l, memb x l = true <-> In x l.
Proof.
  intros x l. induction l as [|y l IH]; simpl.
  - split; [discriminate | tauto].
  - rewrite orb_true_iff, IH, N.eqb_eq. intuition congruence.
Qed.

Lemma nodupb_spec : forall l, nodupb l = true <-> NoDup l.
Proof.
  induction l as [|x l IH]; simpl.
  - split; intros; [constructor | reflexivity].
  - rewrite andb_true_iff, negb_true_iff, IH. split.
    + intros [Hm Hn]. constructor; auto. intro Hin. apply memb_spec in Hin. congruence.
    + intro Hn. inversion Hn as [|? ? Hnin Hnd]; subst. split; auto.
      destruct (memb x l) eqn:E; auto. apply memb_spec in E. contradiction.
Qed.

Lemma NoDup_app_iff {A} (l1 l2 : list A) :
  NoDup (l1 ++ l2) <-> NoDup l1 /\ NoDup l2 /\ (forall x, In x l1 -> ~ In x l2).
Proof.
  induction l1 as [|a l1 IH]; simpl.
  - split.
    + intro H. repeat split; auto. constructor.
    + intros (_ & H & _). exact H.
  - split.
    + intro H. inversion H as [|? ? Hnin Hnd]; subst. apply IH in Hnd.
      destruct Hnd as (Ha & Hb & Hc). rewrite in_app_iff in Hnin. split.
      * constructor; auto.
      * split; auto. intros x [Hx|Hx]; subst; auto.
    + intros (Ha & Hb & Hc). inversion Ha as [|? ? Hnin Hnd]; subst. constructor.
      * rewrite in_app_iff. intros [H|H]; auto. apply (Hc a); auto.
      * apply IH. repeat split; auto.
Qed.

Lemma NoDup_flat_map_in {A B} (f : A -> list B) : forall l x,
  NoDup (flat_map f l) -> In x l -> NoDup (f x).
Proof.
  induction l as [|a l IH]; simpl; intros x Hn Hx.
  - contradiction.
  - apply NoDup_app_iff in Hn. destruct Hn as (Ha & Hb & _). destruct Hx as [Hx|Hx].
    + subst. exact Ha.
    + apply IH; auto.
Qed.

(* ---------------------------------------------------------------- map_opt *)
Lemma map_opt_nil {A B} (f : A -> option B) : map_opt f [] = Some [].
Proof. reflexivity. Qed.

Lemma map_opt_cons {A B} (f : A -> option B) x r :
  map_opt f (x :: r) =
  match f x with
  | Some y => match map_opt f r with Some ys => Some (y :: ys) | None => None end
  | None => None
  end.
Proof. reflexivity. Qed.

Lemma map_opt_Forall2 {A B} (f : A -> option B) : forall l ys,
  map_opt f l = Some ys <-> Forall2 (fun x y => f x = Some y) l ys.
Proof.
  induction l as [|x r IH]; intros ys.
  - rewrite map_opt_nil. split; intro H.
    + inversion H. constructor.
    + inversion H. reflexivity.
  - rewrite map_opt_cons. split; intro H.
    + destruct (f x) as [y|] eqn:Ef; [|discriminate].
      destruct (map_opt f r) as [ys'|] eqn:Er; [|discriminate].
      inversion H; subst. constructor; auto. apply IH; auto.
    + inversion H as [|? y ? ys' Hfx Hr]; subst. rewrite Hfx.
      apply IH in Hr. rewrite Hr. reflexivity.
Qed.

Lemma Forall2_In_r {A B} (R : A -> B -> Prop) : forall l ys y,
  Forall2 R l ys -> In y ys -> exists x, In x l /\ R x y.
Proof.
  intros l ys y H. induction H as [|a b l ys Hab Hf IH]; simpl; intro Hin.
  - contradiction.
  - destruct Hin as [Hin|Hin].
    + subst. exists a. auto.
    + destruct (IH Hin) as (x & Hx & Hr). exists x. auto.
Qed.

(* ---------------------------------------------------------------- build / checkp unfoldings *)
Lemma build_S : forall f h i,
  build (S f) h i =
  match get h i with
  | None => None
  | Some nd => match map_opt (build f h) (children nd) with
               | Some ts => Some (T i ts)
               | None => None
               end
  end.
Proof. reflexivity. Qed.

Lemma checkp_T : forall h p i ts,
  checkp h p (T i ts) =
  match get h i with
  | None => false
  | Some nd => opt_eqb (parent nd) p
               && (negb (N.eqb (cls nd) c_Text) || is_nil ts)
               && forallb (checkp h (Some i)) ts
  end.
Proof. reflexivity. Qed.

Lemma build_tid : forall f h i t, build f h i = Some t -> tid t = i.
Proof.
  intros [|f] h i t H.
  - discriminate.
  - rewrite build_S in H. destruct (get h i) as [nd|]; [|discriminate].
    destruct (map_opt (build f h) (children nd)) as [ts|]; [|discriminate].
    inversion H. reflexivity.
Qed.

Lemma build_kids_tid : forall f h l ts,
  Forall2 (fun x y => build f h x = Some y) l ts -> map tid ts = l.
Proof.
  intros f h l ts H. induction H as [|a b l ts Hab Hf IH]; simpl.
  - reflexivity.
  - rewrite IH. apply build_tid in Hab. rewrite Hab. reflexivity.
Qed.

(* ================================================================ 2. wfb_spec *)
(* soundness of build + checkp *)
Lemma build_sound : forall f h i t,
  build f h i = Some t -> forall p, checkp h p t = true -> repr h p t.
Proof.
  induction f as [|f IH]; intros h i t Hb p Hc.
  - discriminate.
  - rewrite build_S in Hb. destruct (get h i) as [nd|] eqn:Hg; [|discriminate].
    destruct (map_opt (build f h) (children nd)) as [ts|] eqn:Hm; [|discriminate].
    inversion Hb; subst t. clear Hb.
    rewrite checkp_T, Hg in Hc.
    apply andb_true_iff in Hc. destruct Hc as [Hc Hfa].
    apply andb_true_iff in Hc. destruct Hc as [Hpar Htx].
    apply map_opt_Forall2 in Hm.
    apply repr_T with (nd := nd); auto.
    + apply opt_eqb_eq. exact Hpar.
    + symmetry. eapply build_kids_tid; eauto.
    + intro Hcls. rewrite Hcls, N.eqb_refl in Htx. simpl in Htx.
      destruct ts; [reflexivity | discriminate].
    + rewrite Forall_forall. intros s Hs. rewrite forallb_forall in Hfa.
      destruct (Forall2_In_r _ _ _ _ Hm Hs) as (x & Hx & Hbx).
      eapply IH; eauto.
Qed.

Fixpoint depth (t : tree) : nat :=
  let 'T _ ts := t in S (fold_right Nat.max 0 (map depth ts)).

Lemma depth_T : forall i ts, depth (T i ts) = S (fold_right Nat.max 0 (map depth ts)).
Proof. reflexivity. Qed.

Lemma build_complete_fuel : forall h p t,
  repr h p t -> forall f, depth t <= f -> build f h (tid t) = Some t.
Proof.
  intros h.
  apply (repr_ind' h (fun p t => forall f, depth t <= f -> build f h (tid t) = Some t)).
  intros p i ts nd Hg Hp Hc Htx Hf IH f Hd.
  rewrite depth_T in Hd.
  destruct f as [|f]; [lia|].
  apply le_S_n in Hd.
  rewrite build_S. simpl tid. rewrite Hg, Hc.
  assert (map_opt (build f h) (map tid ts) = Some ts) as Hm.
  { clear - IH Hd. induction ts as [|s ts IHts].
    - reflexivity.
    - simpl in Hd. simpl map. rewrite map_opt_cons.
      inversion IH as [|? ? Hs Hts]; subst.
      rewrite Hs by lia. rewrite IHts; auto. lia. }
  rewrite Hm. reflexivity.
Qed.

Lemma depth_le_ids : forall t, depth t <= length (ids t).
Proof.
  induction t as [i ts IH] using tree_ind'.
  rewrite depth_T, ids_T. simpl length. apply le_n_S.
  induction IH as [|s ts Hs Hts IHts]; simpl.
  - lia.
  - rewrite app_length. lia.
Qed.

Lemma repr_tid : forall h p t, repr h p t ->
  exists nd, get h (tid t) = Some nd /\ parent nd = p /\ children nd = map tid (tkids t)
             /\ (cls nd = c_Text -> tkids t = []).
Proof.
  intros h p [i ts] Hr. apply repr_inv in Hr.
  destruct Hr as (nd & Hg & Hp & Hc & Htx & _). exists nd. simpl. auto.
Qed.

Lemma repr_ids_in_heap : forall h p t, repr h p t ->
  forall i, In i (ids t) -> exists nd, get h i = Some nd.
Proof.
  intros h.
  apply (repr_ind' h (fun p t => forall n, In n (ids t) -> exists nd, get h n = Some nd)).
  intros p i ts nd Hg Hp Hc Htx Hf IH n Hn.
  simpl in Hn. destruct Hn as [Hn|Hn].
  - subst. eauto.
  - apply in_flat_map in Hn. destruct Hn as (s & Hs & Hn).
    rewrite Forall_forall in IH. eapply IH; eauto.
Qed.

Lemma repr_ids_in_keys : forall h p t, repr h p t ->
  forall i, In i (ids t) -> In i (map fst h).
Proof.
  intros h p t Hr i Hi. destruct (repr_ids_in_heap _ _ _ Hr _ Hi) as (nd & Hg).
  eapply get_in_keys; eauto.
Qed.

Lemma repr_build : forall h p t, repr h p t -> NoDup (ids t) ->
  build (S (length h)) h (tid t) = Some t.
Proof.
  intros h p t Hr Hnd. eapply build_complete_fuel; eauto.
  assert (length (ids t) <= length h) as Hl.
  { rewrite <- (map_length fst h). apply NoDup_incl_length; auto.
    intros x Hx. eapply repr_ids_in_keys; eauto. }
  pose proof (depth_le_ids t). lia.
Qed.

Lemma build_complete : forall h r, WF h r ->
  exists t, build (S (length h)) h r = Some t /\ tid t = r /\ repr h None t /\ NoDup (ids t).
Proof.
  intros h r (t & Ht & Hr & Hnd). exists t. repeat split; auto.
  subst r. eapply repr_build; eauto.
Qed.

Lemma repr_checkp : forall h p t, repr h p t -> checkp h p t = true.
Proof.
  intros h. apply (repr_ind' h (fun p t => checkp h p t = true)).
  intros p i ts nd Hg Hp Hc Htx Hf IH.
  rewrite checkp_T, Hg. rewrite !andb_true_iff. repeat split.
  - apply opt_eqb_eq. exact Hp.
  - destruct (N.eqb (cls nd) c_Text) eqn:E; simpl; auto.
    apply N.eqb_eq in E. rewrite (Htx E). reflexivity.
  - apply forallb_forall. rewrite Forall_forall in IH. exact IH.
Qed.

Theorem wfb_spec : forall h r, wfb h r = true <-> WF h r.
Proof.
  intros h r. split.
  - unfold wfb. intro H.
    destruct (build (S (length h)) h r) as [t|] eqn:Hb; [|discriminate].
    apply andb_true_iff in H. destruct H as [Hn Hc].
    exists t. split; [eapply build_tid; eauto|]. split.
    + eapply build_sound; eauto.
    + apply nodupb_spec. exact Hn.
  - intro Hwf. destruct (build_complete h r Hwf) as (t & Hb & Ht & Hr & Hnd).
    unfold wfb. rewrite Hb. apply andb_true_iff. split.
    + apply nodupb_spec. exact Hnd.
    + apply repr_checkp. exact Hr.
Qed.

(* ================================================================ 3. reach = ids *)
Lemma kids_repr : forall h p i ts, repr h p (T i ts) -> kids h i = map tid ts.
Proof.
  intros h p i ts Hr. apply repr_inv in Hr. destruct Hr as (nd & Hg & _ & Hc & _).
  unfold kids. rewrite Hg. exact Hc.
Qed.

Lemma ids_closed : forall h p t, repr h p t ->
  forall b c, In b (ids t) -> In c (kids h b) -> In c (ids t).
Proof.
  intros h.
  apply (repr_ind' h (fun p t => forall b c, In b (ids t) -> In c (kids h b) -> In c (ids t))).
  intros p i ts nd Hg Hp Hc Htx Hf IH b c Hb Hcin.
  rewrite ids_T in Hb |- *. destruct Hb as [Hb|Hb].
  - subst b. unfold kids in Hcin. rewrite Hg, Hc in Hcin.
    apply in_map_iff in Hcin. destruct Hcin as (s & Hs & Hin).
    right. apply in_flat_map. exists s. split; auto. subst c. apply tid_in_ids.
  - apply in_flat_map in Hb. destruct Hb as (s & Hs & Hb).
    right. apply in_flat_map. exists s. split; auto.
    rewrite Forall_forall in IH. eapply IH; eauto.
Qed.

Lemma reach_trans : forall h a b c, reach h a b -> reach h b c -> reach h a c.
Proof.
  intros h a b c Hab Hbc. induction Hbc as [b|b x y Hbx IH Hy].
  - exact Hab.
  - apply reach_step with (b := x); auto.
Qed.

Lemma reach_in_ids : forall h a n, reach h a n ->
  forall p t, repr h p t -> In a (ids t) -> In n (ids t).
Proof.
  intros h a n Hr. induction Hr as [a|a b c Hab IH Hc]; intros p t Hrep Ha.
  - exact Ha.
  - apply (ids_closed h p t Hrep b c); auto. apply (IH p t); auto.
Qed.

Lemma ids_reach : forall h p t, repr h p t -> forall n, In n (ids t) -> reach h (tid t) n.
Proof.
  intros h.
  apply (repr_ind' h (fun p t => forall n, In n (ids t) -> reach h (tid t) n)).
  intros p i ts nd Hg Hp Hc Htx Hf IH n Hn.
  simpl tid. rewrite ids_T in Hn. destruct Hn as [Hn|Hn].
  - subst. apply reach_refl.
  - apply in_flat_map in Hn. destruct Hn as (s & Hs & Hn).
    rewrite Forall_forall in IH. specialize (IH s Hs n Hn).
    eapply reach_trans; [|exact IH].
    eapply reach_step; [apply reach_refl|].
    unfold kids. rewrite Hg, Hc. apply in_map. exact Hs.
Qed.

Lemma reach_iff_ids : forall h p t, repr h p t -> forall n, reach h (tid t) n <-> In n (ids t).
Proof.
  intros h p t Hr n. split.
  - intro H. eapply reach_in_ids; eauto. apply tid_in_ids.
  - apply ids_reach with (p := p). exact Hr.
Qed.

(* ================================================================ 4. first-order reading of WF *)
(* every node of a represented tree roots a represented subtree *)
Lemma repr_subtree : forall h p t, repr h p t -> NoDup (ids t) ->
  forall n, In n (ids t) ->
  exists q s, repr h q s /\ tid s = n /\ NoDup (ids s) /\ incl (ids s) (ids t).
Proof.
  intros h.
  apply (repr_ind' h (fun p t => NoDup (ids t) -> forall n, In n (ids t) ->
     exists q s, repr h q s /\ tid s = n /\ NoDup (ids s) /\ incl (ids s) (ids t))).
  intros p i ts nd Hg Hp Hc Htx Hf IH Hnd n Hn.
  rewrite ids_T in Hn. destruct Hn as [Hn|Hn].
  - subst n. exists p, (T i ts). repeat split; auto.
    + eapply repr_T; eauto.
    + apply incl_refl.
  - apply in_flat_map in Hn. destruct Hn as (s & Hs & Hn).
    rewrite ids_T in Hnd. inversion Hnd as [|? ? Hnin Hnd']; subst.
    assert (NoDup (ids s)) as Hnds by (eapply NoDup_flat_map_in; eauto).
    rewrite Forall_forall in IH.
    destruct (IH s Hs Hnds n Hn) as (q & s' & Hr' & Ht' & Hnd'' & Hincl).
    exists q, s'. repeat split; auto.
    intros x Hx. rewrite ids_T. right. apply in_flat_map. exists s. split; auto.
Qed.

Lemma repr_edge : forall h p t, repr h p t ->
  forall n c, In n (ids t) -> In c (kids h n) -> get h c <> None /\ par h c = Some n.
Proof.
  intros h.
  apply (repr_ind' h (fun p t => forall n c, In n (ids t) -> In c (kids h n) ->
     get h c <> None /\ par h c = Some n)).
  intros p i ts nd Hg Hp Hc Htx Hf IH n c Hn Hcin.
  rewrite ids_T in Hn. destruct Hn as [Hn|Hn].
  - subst n. unfold kids in Hcin. rewrite Hg, Hc in Hcin.
    apply in_map_iff in Hcin. destruct Hcin as (s & Hs & Hin).
    rewrite Forall_forall in Hf. specialize (Hf s Hin).
    apply repr_tid in Hf. destruct Hf as (nd' & Hg' & Hp' & _).
    subst c. unfold par. rewrite Hg'. split; [discriminate | exact Hp'].
  - apply in_flat_map in Hn. destruct Hn as (s & Hs & Hn).
    rewrite Forall_forall in IH. eapply IH; eauto.
Qed.

Lemma NoDup_flat_ids_tid : forall ts, NoDup (flat_map ids ts) -> NoDup (map tid ts).
Proof.
  induction ts as [|a ts IH]; simpl; intro H.
  - constructor.
  - apply NoDup_app_iff in H. destruct H as (Ha & Hb & Hc). constructor; auto.
    intro Hin. apply in_map_iff in Hin. destruct Hin as (s & Hs & Hin).
    apply (Hc (tid a)).
    + apply tid_in_ids.
    + apply in_flat_map. exists s. split; auto. rewrite <- Hs. apply tid_in_ids.
Qed.

(* one or more steps from the root of a represented tree land in a strict subtree *)
Lemma reach1_strict : forall h q n ts, repr h q (T n ts) ->
  forall x, reach1 h n x -> In x (flat_map ids ts).
Proof.
  intros h q n ts Hr x H1.
  inversion H1 as [a b c Hab Hc]; subst.
  assert (In b (ids (T n ts))) as Hb.
  { eapply reach_in_ids; eauto. simpl. auto. }
  rewrite ids_T in Hb. destruct Hb as [Hb|Hb].
  - subst b. rewrite (kids_repr _ _ _ _ Hr) in Hc.
    apply in_map_iff in Hc. destruct Hc as (s & Hs & Hin).
    apply in_flat_map. exists s. split; auto. subst x. apply tid_in_ids.
  - apply in_flat_map in Hb. destruct Hb as (s & Hs & Hb).
    apply repr_inv in Hr. destruct Hr as (nd & _ & _ & _ & _ & Hf).
    rewrite Forall_forall in Hf. specialize (Hf s Hs).
    apply in_flat_map. exists s. split; auto. eapply ids_closed; eauto.
Qed.

Theorem WF_first_order : forall h r, WF h r ->
  par h r = None /\
  (forall n c, reach h r n -> In c (kids h n) -> get h c <> None /\ par h c = Some n) /\
  (forall n, reach h r n -> NoDup (kids h n)) /\
  (forall n1 n2 c, reach h r n1 -> reach h r n2 -> In c (kids h n1) -> In c (kids h n2) -> n1 = n2) /\
  (forall n, reach h r n -> ~ In r (kids h n)) /\
  (forall n, reach h r n -> ~ reach1 h n n) /\
  (forall n, reach h r n -> clsof h n = c_Text -> kids h n = []).
Proof.
  intros h r (t & Ht & Hr & Hnd). subst r.
  assert (par h (tid t) = None) as Hroot.
  { destruct (repr_tid _ _ _ Hr) as (nd & Hg & Hp & _). unfold par. rewrite Hg. exact Hp. }
  assert (forall n c, reach h (tid t) n -> In c (kids h n) ->
                      get h c <> None /\ par h c = Some n) as Hedge.
  { intros n c Hn Hc. eapply repr_edge; eauto. apply (reach_iff_ids _ _ _ Hr). exact Hn. }
  assert (forall n, reach h (tid t) n ->
            exists q ts, repr h q (T n ts) /\ NoDup (ids (T n ts))) as Hsub.
  { intros n Hn. apply (reach_iff_ids _ _ _ Hr) in Hn.
    destruct (repr_subtree _ _ _ Hr Hnd n Hn) as (q & [j ts] & Hr' & Ht' & Hnd' & _).
    simpl in Ht'. subst j. exists q, ts. auto. }
  split; [exact Hroot|]. split; [exact Hedge|]. split; [|split; [|split; [|split]]].
  - intros n Hn. destruct (Hsub n Hn) as (q & ts & Hr' & Hnd').
    rewrite (kids_repr _ _ _ _ Hr'). apply NoDup_flat_ids_tid.
    rewrite ids_T in Hnd'. inversion Hnd'; auto.
  - intros n1 n2 c H1 H2 Hc1 Hc2.
    destruct (Hedge n1 c H1 Hc1) as (_ & Hp1). destruct (Hedge n2 c H2 Hc2) as (_ & Hp2).
    congruence.
  - intros n Hn Hin. destruct (Hedge n _ Hn Hin) as (_ & Hp). congruence.
  - intros n Hn H1. destruct (Hsub n Hn) as (q & ts & Hr' & Hnd').
    pose proof (reach1_strict _ _ _ _ Hr' _ H1) as Hin.
    rewrite ids_T in Hnd'. inversion Hnd'; auto.
  - intros n Hn Hcls. destruct (Hsub n Hn) as (q & ts & Hr' & Hnd').
    rewrite (kids_repr _ _ _ _ Hr').
    apply repr_inv in Hr'. destruct Hr' as (nd & Hg & _ & _ & Htx & _).
    unfold clsof in Hcls. rewrite Hg in Hcls. rewrite (Htx Hcls). reflexivity.
Qed.

(* ================================================================ 5. contract *)
Lemma contract_T : forall h i ts,
  contract_t h (T i ts) =
  forallb (fun s => edge_ok (clsof h i) (clsof h (tid s)) && contract_t h s) ts.
Proof. reflexivity. Qed.

Lemma contract_t_spec : forall h p t, repr h p t ->
  (contract_t h t = true <->
   forall n c, In n (ids t) -> In c (kids h n) -> edge_ok (clsof h n) (clsof h c) = true).
Proof.
  intros h.
  apply (repr_ind' h (fun p t => contract_t h t = true <->
     forall n c, In n (ids t) -> In c (kids h n) -> edge_ok (clsof h n) (clsof h c) = true)).
  intros p i ts nd Hg Hp Hc Htx Hf IH.
  rewrite Forall_forall in IH.
  rewrite contract_T, forallb_forall. split.
  - intros H n c Hn Hcin. rewrite ids_T in Hn. destruct Hn as [Hn|Hn].
    + subst n. unfold kids in Hcin. rewrite Hg, Hc in Hcin.
      apply in_map_iff in Hcin. destruct Hcin as (s & Hs & Hin).
      specialize (H s Hin). apply andb_true_iff in H. destruct H as [H _].
      subst c. exact H.
    + apply in_flat_map in Hn. destruct Hn as (s & Hs & Hn).
      specialize (H s Hs). apply andb_true_iff in H. destruct H as [_ H].
      pose proof (IH s Hs) as IHs. cbv beta in IHs. destruct IHs as [IH1 _].
      apply (IH1 H); auto.
  - intros H s Hs. apply andb_true_iff. split.
    + apply H.
      * rewrite ids_T. left. reflexivity.
      * unfold kids. rewrite Hg, Hc. apply in_map. exact Hs.
    + pose proof (IH s Hs) as IHs. cbv beta in IHs. destruct IHs as [_ IH2].
      apply IH2. intros n c Hn Hcin. apply H; auto.
      rewrite ids_T. right. apply in_flat_map. exists s. split; auto.
Qed.

Theorem contract_spec : forall h r, WF h r -> (contractb h r = true <-> contract h r).
Proof.
  intros h r Hwf. destruct (build_complete h r Hwf) as (t & Hb & Ht & Hr & Hnd).
  unfold contractb, contract. rewrite Hb. rewrite andb_true_iff.
  rewrite (contract_t_spec _ _ _ Hr). subst r.
  split; intros [H1 H2]; split; auto.
  - intros n c Hn Hc. apply H2; auto. apply (reach_iff_ids _ _ _ Hr). exact Hn.
  - intros n c Hn Hc. apply H2; auto. apply (reach_iff_ids _ _ _ Hr). exact Hn.
Qed.
