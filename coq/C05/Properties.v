(* C05 — property theorems only.  Each is closed by `exact <lemma>` and followed by Print Assumptions;
   the check re-compiles this file on every run.
   Model: C05/Heap.v (node heap + the AdvancedNode tree API of advtree.py:94-150).
   NOT proved here: that each of the ~58 cleaner passes preserves WF / establishes the contract - that is
   decided by the verified monitor (the extracted wfb / contractb below, run on the real tree). *)
From Coq Require Import List NArith Bool.
From MW Require Import C05.Heap C05.TreeOps.
From MW Require C05.ProofsWf C05.ProofsApi C05.ProofsExtra C05.Refs C05.ProofsRefs.
Import ListNotations.

(* The executable checker run by the monitor decides the declarative notion "the heap read from r is a
   finite tree with pairwise distinct nodes, every child's parent link pointing to the node that lists
   it, a parentless root, childless text leaves". *)
Theorem C05_wfb_spec : forall h r, wfb h r = true <-> WF h r.
Proof. exact ProofsWf.wfb_spec. Qed.
Print Assumptions C05_wfb_spec.

(* What WF says in first-order terms over reachability along children lists: the root has no parent;
   every listed child exists and its parent link is the lister; no node is listed twice by one node, nor
   by two nodes, nor is the root listed (every node occurs exactly once); no node reaches itself (no
   cycles); text nodes are childless. *)
Theorem C05_WF_first_order : forall h r, WF h r ->
  par h r = None /\
  (forall n c, reach h r n -> In c (kids h n) -> get h c <> None /\ par h c = Some n) /\
  (forall n, reach h r n -> NoDup (kids h n)) /\
  (forall n1 n2 c, reach h r n1 -> reach h r n2 -> In c (kids h n1) -> In c (kids h n2) -> n1 = n2) /\
  (forall n, reach h r n -> ~ In r (kids h n)) /\
  (forall n, reach h r n -> ~ reach1 h n n) /\
  (forall n, reach h r n -> clsof h n = c_Text -> kids h n = []).
Proof. exact ProofsWf.WF_first_order. Qed.
Print Assumptions C05_WF_first_order.

(* The writers' contract checker decides: tables list only rows/captions, rows only cells, lists only
   items, and cells/rows/items are listed only by rows/tables/lists (and are not the root). *)
Theorem C05_contract_spec : forall h r, WF h r -> (contractb h r = true <-> contract h r).
Proof. exact ProofsWf.contract_spec. Qed.
Print Assumptions C05_contract_spec.

(* ---- the tree API preserves well-formedness under its stated preconditions (all heaps) *)
(* append_child(p, c) does NOT detach c: c must be the root of a detached proper tree disjoint from the
   document, and p a non-text node of the document. *)
Theorem C05_append_child_preserves_WF : forall h r t p s,
  tid t = r -> repr h None t -> NoDup (ids t) -> In p (ids t) -> clsof h p <> c_Text ->
  repr h None s -> NoDup (ids s) -> ProofsApi.disj (ids t) (ids s) ->
  WF (append_child h p (tid s)) r.
Proof. exact ProofsApi.append_child_preserves_WF. Qed.
Print Assumptions C05_append_child_preserves_WF.

Theorem C05_remove_child_preserves_WF : forall h r t p c,
  tid t = r -> repr h None t -> NoDup (ids t) -> In p (ids t) -> In c (kids h p) ->
  exists h', remove_child h p c = Ok h' /\ WF h' r /\ WFsub h' None c.
Proof. exact ProofsApi.remove_child_preserves_WF. Qed.
Print Assumptions C05_remove_child_preserves_WF.

(* replace_child(c, news) with detached, pairwise disjoint new subtrees *)
Theorem C05_replace_child_preserves_WF : forall h r t p c ns,
  tid t = r -> repr h None t -> NoDup (ids t) -> In p (ids t) -> In c (kids h p) ->
  Forall (repr h None) ns -> NoDup (flat_map ids ns) -> ProofsApi.disj (ids t) (flat_map ids ns) ->
  exists h', replace_child h p c (map tid ns) = Ok h' /\ WF h' r /\ WFsub h' None c.
Proof. exact ProofsApi.replace_child_preserves_WF. Qed.
Print Assumptions C05_replace_child_preserves_WF.

(* the cleaner's idiom node.parent.replace_child(node, node.children): the children are re-parented *)
Theorem C05_dissolve_preserves_WF : forall h r t p c,
  tid t = r -> repr h None t -> NoDup (ids t) -> In p (ids t) -> In c (kids h p) ->
  exists h', replace_child h p c (kids h c) = Ok h' /\ WF h' r.
Proof. exact ProofsApi.dissolve_preserves_WF. Qed.
Print Assumptions C05_dissolve_preserves_WF.

(* move_to(n, tgt): neither is the root, and tgt does not lie inside the moved subtree *)
Theorem C05_move_to_preserves_WF : forall h r t n tgt b s,
  tid t = r -> repr h None t -> NoDup (ids t) -> In n (ids t) -> n <> r ->
  In tgt (ids t) -> tgt <> r -> t_find n t = Some s -> ~ In tgt (ids s) ->
  exists h', move_to h n tgt b = Ok h' /\ WF h' r.
Proof. exact ProofsApi.move_to_preserves_WF. Qed.
Print Assumptions C05_move_to_preserves_WF.

(* copy(): the document is untouched, the copy is a detached proper tree with the same words *)
Theorem C05_copy_preserves_WF : forall h r t n,
  tid t = r -> repr h None t -> NoDup (ids t) -> In n (ids t) ->
  exists h' k, copy h n = Some (h', k) /\ WF h' r /\ WFsub h' None k /\ words h' k = words h n.
Proof. exact ProofsApi.copy_preserves_WF. Qed.
Print Assumptions C05_copy_preserves_WF.

(* ... and for every sequence of API calls each of which meets its precondition in the heap it is
   applied to (ProofsApi.pre), no call raises and the document stays a proper tree. *)
Theorem C05_api_preserves_WF : forall ops h r,
  WF h r -> ProofsApi.pre_all h r ops ->
  exists h', fold_left ProofsApi.step ops (Ok h) = Ok h' /\ WF h' r.
Proof. exact ProofsApi.C05_api_preserves_WF_seq. Qed.
Print Assumptions C05_api_preserves_WF.

Theorem C05_api_preserves_WF_every_prefix : forall ops1 ops2 h r,
  WF h r -> ProofsApi.pre_all h r (ops1 ++ ops2) ->
  exists h1, fold_left ProofsApi.step ops1 (Ok h) = Ok h1 /\ WF h1 r /\ ProofsApi.pre_all h1 r ops2.
Proof. exact ProofsApi.C05_api_preserves_WF_prefix. Qed.
Print Assumptions C05_api_preserves_WF_every_prefix.

(* Non-vacuity: a concrete heap and op sequence meeting all preconditions. *)
Example C05_api_example :
  WF ProofsApi.h0 1 /\ ProofsApi.pre_all ProofsApi.h0 1 ProofsApi.ops0 /\
  exists h1, fold_left ProofsApi.step ProofsApi.ops0 (Ok ProofsApi.h0) = Ok h1 /\ wfb h1 1 = true /\ words h1 1 = [11; 12]%N.
Proof. exact (conj ProofsApi.api_example_WF0 (conj ProofsApi.api_example_pre ProofsApi.api_example_run)). Qed.
Print Assumptions C05_api_example.

(* append_child on an ATTACHED node breaks the tree (why the precondition matters): node 3 listed twice *)
Example C05_append_attached_refuted :
  exists h, WF h 1 /\ wfb (append_child h 2 3) 1 = false.
Proof. exact ProofsExtra.append_attached_refuted. Qed.
Print Assumptions C05_append_attached_refuted.

(* ---- fix_reference_nodes (treecleaner.py:1374-1404): the content-less <ref name=x/> u receives the nodes of the defining
   <ref name=x>..</ref> d by append_child (which does not detach), then d is emptied - C05/Refs.v.  For every heap that is a
   proper tree, every pair of distinct non-root nodes d, u with u childless, not a text leaf and outside d's subtree: the
   document is a proper tree again. *)
Theorem C05_refs_handover_preserves_WF : forall h r t d u sd,
  tid t = r -> repr h None t -> NoDup (ids t) ->
  d <> r -> u <> r -> d <> u ->
  TreeOps.t_find d t = Some sd -> In u (ids t) -> ~ In u (ids sd) ->
  kids h u = [] -> clsof h u <> c_Text ->
  WF (Refs.handover h d u) r.
Proof. exact ProofsRefs.handover_preserves_WF. Qed.
Print Assumptions C05_refs_handover_preserves_WF.

(* ... and when the definition is NOT emptied (the two bookkeeping tables of the pass indexed by different keys) the document
   is never a proper tree, whatever non-empty definition d and other node u *)
Theorem C05_refs_handover_without_emptying_breaks_WF : forall h r t d u c,
  tid t = r -> repr h None t -> NoDup (ids t) ->
  In d (ids t) -> In u (ids t) -> d <> u -> ~ In u (kids h d) -> In c (kids h d) ->
  ~ WF (Refs.handover_noclear h d u) r.
Proof. exact ProofsRefs.handover_noclear_breaks_WF. Qed.
Print Assumptions C05_refs_handover_without_emptying_breaks_WF.

(* non-vacuity: the hypotheses of both theorems hold of a section with <ref name=x/> and <ref name=x>w10 w11</ref> *)
Example C05_refs_example :
  (tid ProofsRefs.t_ref = 1 /\ repr ProofsRefs.h_ref None ProofsRefs.t_ref /\ NoDup (ids ProofsRefs.t_ref) /\
   3 <> 1 /\ 2 <> 1 /\ 3 <> 2 /\
   TreeOps.t_find 3 ProofsRefs.t_ref = Some (T 3 [T 4 []; T 5 []]) /\ In 2 (ids ProofsRefs.t_ref) /\
   ~ In 2 (ids (T 3 [T 4 []; T 5 []])) /\
   kids ProofsRefs.h_ref 2 = [] /\ clsof ProofsRefs.h_ref 2 <> c_Text /\ ~ In 2 (kids ProofsRefs.h_ref 3) /\
   In 4 (kids ProofsRefs.h_ref 3))%N /\
  (wfb (Refs.handover ProofsRefs.h_ref 3 2) 1 = true /\ words (Refs.handover ProofsRefs.h_ref 3 2) 1 = [10; 11] /\
   wfb (Refs.handover_noclear ProofsRefs.h_ref 3 2) 1 = false)%N.
Proof. exact ProofsRefs.handover_example. Qed.
Print Assumptions C05_refs_example.
