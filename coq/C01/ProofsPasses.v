(* C01 — termination/totality of the index-walking loops of the refinement passes (models: C01/Passes.v).
   For every pass: an explicit measure `mu` on the loop state, the lemma "one iteration strictly decreases mu
   and raises nothing" under an explicit invariant, hence `run (fuel_of toks) toks = POk (r, iters)` with
   `fuel_of` linear in `length toks` and iters < fuel_of toks. *)
From Coq Require Import List NArith Arith Bool Lia.
From MW Require Import C01.Passes.
Import ListNotations.

(* ------------------------------------------------------------------------------------------ generic *)

Section IterTerm.
  Context {St R : Type}.
  Variable step : St -> stepres St R.
  Variable Inv : St -> Prop.
  Variable mu : St -> nat.
  Hypothesis Hstep : forall s, Inv s ->
    match step s with
    | Continue s' => Inv s' /\ mu s' < mu s
    | Done _ => True
    | Fail _ => False
    end.

  Lemma iter_terminates : forall fuel n s, Inv s -> mu s < fuel ->
    exists r k, iter step fuel n s = POk (r, k) /\ k <= n + mu s.
  Proof.
    induction fuel as [|f IH]; intros n s Hi Hm; [lia|].
    cbn [iter]. pose proof (Hstep s Hi) as H.
    destruct (step s) as [s'|r|e].
    - destruct H as [Hi' Hlt].
      destruct (IH (S n) s' Hi') as (r & k & Hr & Hk); [lia|].
      exists r, k. split; [exact Hr|lia].
    - exists r, n. split; [reflexivity|lia].
    - contradiction.
  Qed.
End IterTerm.

(* ------------------------------------------------------------------------------------------ lists *)

Lemma set_nth_length : forall A n (x : A) l, length (set_nth n x l) = length l.
Proof.
  intros A n x l. unfold set_nth. destruct (n <? length l) eqn:E; [|reflexivity].
  apply Nat.ltb_lt in E. rewrite app_length, firstn_length. cbn [length]. rewrite skipn_length. lia.
Qed.

Lemma splice_length : forall A a b (x l : list A), a <= b -> b <= length l ->
  length (splice a b x l) = a + length x + (length l - b).
Proof.
  intros A a b x l Hab Hb. unfold splice. rewrite !app_length, firstn_length, skipn_length.
  rewrite Nat.max_r by lia. lia.
Qed.

Lemma del_nth_length : forall A n (l : list A), n < length l -> length (del_nth n l) = length l - 1.
Proof.
  intros A n l H. unfold del_nth. rewrite app_length, firstn_length, skipn_length. lia.
Qed.

Lemma nth_error_in_range : forall A (l : list A) i, i < length l -> exists x, nth_error l i = Some x.
Proof.
  intros A l i H. destruct (nth_error l i) eqn:E; [eauto|]. apply nth_error_None in E. lia.
Qed.

(* ================================================================================================
   ParseSections
   ================================================================================================ *)

(* measure: every iteration advances the index, except a successful create(), which keeps
   len(tokens) - index and resets `current` *)
Definition sec_mu (s : sstate) : nat :=
  2 * (length (s_toks s) - s_i s)
  + match c_start (s_cur s), c_endtitle (s_cur s) with Some _, Some _ => 1 | _, _ => 0 end.

Definition has_count (toks : list tok) (k : nat) : Prop :=
  exists t n, nth_error toks k = Some t /\ eqcount t = Some n.
Definition idx_ok (toks : list tok) (i : nat) (o : option nat) : Prop :=
  match o with None => True | Some k => k < i /\ has_count toks k end.
(* current.start / current.endtitle point to section / section_end tokens before the index *)
Definition sec_inv (s : sstate) : Prop :=
  s_i s <= length (s_toks s)
  /\ idx_ok (s_toks s) (s_i s) (c_start (s_cur s))
  /\ idx_ok (s_toks s) (s_i s) (c_endtitle (s_cur s)).

Lemma pop_from_length : forall rest level top toks p0,
  length (snd (pop_from level top rest toks p0)) = length toks.
Proof.
  induction rest as [|p rest IH]; intros level top toks p0; cbn [pop_from];
    destruct (level <=? sect_level top); cbn [snd]; try reflexivity.
  - apply set_nth_length.
  - apply IH.
Qed.

Lemma pop_sections_length : forall level stack toks p0,
  length (snd (pop_sections level stack toks p0)) = length toks.
Proof.
  intros level [|top rest] toks p0; cbn [pop_sections snd]; [reflexivity|apply pop_from_length].
Qed.

Lemma create_spec : forall c toks stack p0 index,
  index <= length toks -> idx_ok toks index (c_start c) -> idx_ok toks index (c_endtitle c) ->
  match create c toks stack p0 index with
  | PRaise _ => False
  | POk None => c_start c = None \/ c_endtitle c = None
  | POk (Some r) =>
      (exists x y, c_start c = Some x /\ c_endtitle c = Some y)
      /\ sc_index r <= length (sc_toks r)
      /\ length (sc_toks r) - sc_index r = length toks - index
  end.
Proof.
  intros [cs ce] toks stack p0 index Hidx Hs He. unfold create. cbn [c_start c_endtitle] in *.
  destruct cs as [st|]; [|left; reflexivity].
  destruct ce as [et|]; [|right; reflexivity].
  destruct Hs as (Hst & ts & sc & Hts & Hsc). destruct He as (Het & te & ec & Hte & Hec).
  rewrite Hts, Hte, Hsc, Hec.
  set (sect := Tok _ _ _).
  destruct (pop_sections (Nat.min sc ec) stack (splice st index [sect] toks) p0) as [stack1 toks2] eqn:Ep.
  assert (Hl : length toks2 = st + 1 + (length toks - index)).
  { pose proof (pop_sections_length (Nat.min sc ec) stack (splice st index [sect] toks) p0) as H.
    rewrite Ep in H. cbn [snd] in H. rewrite H. rewrite splice_length by lia. cbn [length]. lia. }
  destruct stack1 as [|s1 stack1']; cbn [sc_index sc_toks].
  - split; [eauto|]. lia.
  - split; [eauto|]. rewrite del_nth_length by lia. lia.
Qed.

Lemma has_count_at : forall toks i t n, nth_error toks i = Some t -> eqcount t = Some n -> has_count toks i.
Proof. intros toks i t n H1 H2. exists t, n. auto. Qed.

Lemma idx_ok_S : forall toks i o, idx_ok toks i o -> idx_ok toks (S i) o.
Proof. intros toks i [k|] H; cbn in *; [destruct H; split; [lia|assumption]|exact I]. Qed.

Lemma sec_step_ok : forall s, sec_inv s ->
  match sec_step s with
  | Continue s' => sec_inv s' /\ sec_mu s' < sec_mu s
  | Done _ => True
  | Fail _ => False
  end.
Proof.
  intros [i toks stack p0 c] (Hi & Hs & He). unfold sec_step. cbn [s_i s_toks s_stack s_p0 s_cur] in *.
  destruct (i <? length toks) eqn:Elt.
  - apply Nat.ltb_lt in Elt.
    destruct (nth_error_in_range _ toks i Elt) as [t Ht]. rewrite Ht.
    assert (Hother : sec_inv (mksstate (S i) toks stack p0 c)
                     /\ sec_mu (mksstate (S i) toks stack p0 c) < sec_mu (mksstate i toks stack p0 c)).
    { split.
      - unfold sec_inv; cbn [s_i s_toks s_cur]; split; [|split]; [lia|apply idx_ok_S; assumption|apply idx_ok_S; assumption].
      - unfold sec_mu; cbn [s_i s_toks s_cur]. lia. }
    destruct t as [k id ks]. destruct k; cbn [tkind]; try exact Hother.
    + (* t_section *)
      pose proof (create_spec c toks stack p0 i (Nat.lt_le_incl _ _ Elt) Hs He) as Hc.
      destruct (create c toks stack p0 i) as [[r|]|e]; [| |contradiction].
      * destruct Hc as ((x & y & Hx & Hy) & Hle & Heq). split.
        -- unfold sec_inv; cbn [s_i s_toks s_cur nocur c_start c_endtitle idx_ok]; auto.
        -- unfold sec_mu; cbn [s_i s_toks s_cur nocur c_start c_endtitle]. rewrite Hx, Hy. lia.
      * split.
        -- unfold sec_inv; cbn [s_i s_toks s_cur c_start c_endtitle]; split; [|split]; [lia| |apply idx_ok_S; assumption].
           cbn [idx_ok]. split; [lia|]. eapply has_count_at; [exact Ht|reflexivity].
        -- unfold sec_mu; cbn [s_i s_toks s_cur c_start c_endtitle].
           destruct Hc as [Hc|Hc]; rewrite Hc; [destruct (c_endtitle c)|]; lia.
    + (* t_section_end *)
      split.
      * unfold sec_inv; cbn [s_i s_toks s_cur c_start c_endtitle]; split; [|split]; [lia|apply idx_ok_S; assumption|].
        cbn [idx_ok]. split; [lia|]. eapply has_count_at; [exact Ht|reflexivity].
      * unfold sec_mu; cbn [s_i s_toks s_cur c_start c_endtitle].
        destruct (c_start c); destruct (c_endtitle c); lia.
  - apply Nat.ltb_ge in Elt.
    assert (Hlen : length toks <= length toks) by lia.
    assert (Hs' : idx_ok toks (length toks) (c_start c)).
    { destruct (c_start c); cbn in *; [destruct Hs; split; [lia|assumption]|exact I]. }
    assert (He' : idx_ok toks (length toks) (c_endtitle c)).
    { destruct (c_endtitle c); cbn in *; [destruct He; split; [lia|assumption]|exact I]. }
    pose proof (create_spec c toks stack p0 (length toks) Hlen Hs' He') as Hc.
    destruct (create c toks stack p0 (length toks)) as [[r|]|e]; [exact I|exact I|contradiction].
Qed.

Lemma sec_inv_init : forall toks, sec_inv (sec_init toks).
Proof. intros toks. unfold sec_inv; cbn. split; [lia|split; exact I]. Qed.

(* ParseSections: within fuel 2*len+1 the loop ends, nothing is raised, at most 2*len iterations *)
Theorem sec_run_total : forall toks,
  exists r iters, sec_run (sec_fuel toks) toks = POk (r, iters) /\ iters <= 2 * length toks.
Proof.
  intros toks. unfold sec_run, sec_fuel.
  destruct (iter_terminates sec_step sec_inv sec_mu sec_step_ok (2 * length toks + 1) 0 (sec_init toks)
              (sec_inv_init toks)) as (r & k & Hr & Hk).
  - unfold sec_mu; cbn. lia.
  - exists r, k. split; [exact Hr|]. unfold sec_mu in Hk; cbn in Hk. lia.
Qed.

(* ================================================================================================
   ParseLines.run
   ================================================================================================ *)

(* potential of a token still to be visited: t_item / t_colon tokens start a line *)
Definition tw (t : tok) : nat := match tkind t with KItem _ | KColon _ => 4 | _ => 1 end.
Fixpoint sumw (l : list tok) : nat := match l with [] => 0 | t :: r => tw t + sumw r end.

Lemma sumw_app : forall a b, sumw (a ++ b) = sumw a + sumw b.
Proof. induction a as [|t a IH]; intros b; cbn [sumw app]; [reflexivity|rewrite IH; lia]. Qed.

Lemma sumw_le : forall l, sumw l <= 4 * length l.
Proof.
  induction l as [|t l IH]; cbn [sumw length]; [lia|].
  assert (tw t <= 4) by (unfold tw; destruct (tkind t); lia). lia.
Qed.

Lemma sumw_ones : forall l, Forall (fun t => tw t = 1) l -> sumw l = length l.
Proof. induction 1 as [|t l Ht _ IH]; cbn [sumw length]; lia. Qed.

Lemma skipn_cons_nth : forall A (l : list A) i t, nth_error l i = Some t -> skipn i l = t :: skipn (S i) l.
Proof.
  induction l as [|x l IH]; intros [|i] t H; cbn in *; try discriminate.
  - inversion H. reflexivity.
  - apply IH. exact H.
Qed.

Lemma skipn_app_exact : forall A (l1 l2 : list A) n, length l1 = n -> skipn n (l1 ++ l2) = l2.
Proof. induction l1 as [|x l1 IH]; intros l2 [|n] H; cbn in *; try discriminate; auto. Qed.

Lemma Forall_firstn_ : forall A (P : A -> Prop) n l, Forall P l -> Forall P (firstn n l).
Proof.
  intros A P n l H. rewrite <- (firstn_skipn n l) in H. apply Forall_app in H. tauto.
Qed.
Lemma Forall_skipn_ : forall A (P : A -> Prop) n l, Forall P l -> Forall P (skipn n l).
Proof.
  intros A P n l H. rewrite <- (firstn_skipn n l) in H. apply Forall_app in H. tauto.
Qed.

Definition pfx_ok (p : list pch) : bool := forallb (fun c => negb (pch_eqb c PcOther)) p.
(* the scanner only produces t_item / t_colon tokens over [:;#*]  (_uscan.re:233, utoken.py:237) *)
Definition tok_ok (t : tok) : Prop := pfx_ok (item_pfx t) = true.
Definition line_ok (t : tok) : Prop := match tkind t with KLine p _ => pfx_ok p = true | _ => False end.

(* measure: potential of the tokens from the index on, + 3 per collected line, + 3 for an open line.
   Every iteration advances the index or (analyze + splice, index := first_token) trades k >= 1 collected lines
   for at most 2k produced nodes of weight 1. *)
Definition lin_mu (s : lstate) : nat :=
  sumw (skipn (l_i s) (l_toks s)) + 3 * length (l_lines s) + match l_start s with Some _ => 3 | None => 0 end.

Definition lin_inv (s : lstate) : Prop :=
  l_i s <= length (l_toks s)
  /\ (forall sl, l_start s = Some sl -> sl < l_i s)
  /\ (forall ft, l_first s = Some ft -> ft <= l_i s)
  /\ Forall tok_ok (l_toks s)
  /\ Forall line_ok (l_lines s).

Section LinesRunProof.
  Variable analyze_f : list tok -> pres (list tok).
  (* what ParseLines.run needs of self.analyze: no exception on well-formed lines, at most two nodes per line,
     none of them a raw t_item/t_colon token *)
  Hypothesis Hana : forall L, L <> [] -> Forall line_ok L ->
    exists out, analyze_f L = POk out /\ length out <= 2 * length L /\ Forall (fun t => tw t = 1) out.

  Lemma tw1_tok_ok : forall t, tw t = 1 -> tok_ok t.
  Proof. intros [k i ks]; unfold tw, tok_ok, item_pfx; destruct k; cbn; intros H; try reflexivity; discriminate. Qed.

  Lemma new_line_ok : forall it kids, tok_ok it -> line_ok (Tok (KLine (item_pfx it) false) 0%N kids).
  Proof. intros it kids H. exact H. Qed.

  Lemma lin_splice_ok : forall s L,
    l_i s <= length (l_toks s) -> (forall ft, l_first s = Some ft -> ft <= l_i s) ->
    Forall tok_ok (l_toks s) -> L <> [] -> Forall line_ok L ->
    match lin_splice analyze_f s L with
    | Continue s' => lin_inv s' /\ lin_mu s' < sumw (skipn (l_i s) (l_toks s)) + 3 * length L
    | Done _ => True
    | Fail _ => False
    end.
  Proof.
    intros [i toks lines start first] L Hi Hf Hok HL HLok. unfold lin_splice. cbn [l_i l_toks l_first] in *.
    destruct (Hana L HL HLok) as (out & Ho & Hlen & Hw). rewrite Ho.
    destruct first as [ft|]; cbn [nat_of_opt].
    - specialize (Hf ft eq_refl).
      assert (Hsk : skipn ft (splice ft i out toks) = out ++ skipn i toks).
      { unfold splice. rewrite Nat.max_r by lia. apply skipn_app_exact. rewrite firstn_length. lia. }
      split.
      + unfold lin_inv. cbn [l_i l_toks l_lines l_start l_first].
        split; [rewrite splice_length by lia; lia|].
        split; [intros sl H; discriminate|].
        split; [intros ft' H; inversion H; lia|].
        split; [|constructor].
        unfold splice. apply Forall_app. split; [apply Forall_firstn_; exact Hok|].
        apply Forall_app. split; [|apply Forall_skipn_; exact Hok].
        eapply Forall_impl; [|exact Hw]. exact tw1_tok_ok.
      + unfold lin_mu. cbn [l_i l_toks l_lines l_start length]. rewrite Hsk, sumw_app, (sumw_ones out Hw).
        destruct L; [contradiction|]. cbn [length] in *. lia.
    - cbn. exact I.
  Qed.

  Lemma lin_step_ok : forall s, lin_inv s ->
    match lin_step analyze_f s with
    | Continue s' => lin_inv s' /\ lin_mu s' < lin_mu s
    | Done _ => True
    | Fail _ => False
    end.
  Proof.
    intros [i toks lines start first] (Hi & Hs & Hf & Hok & Hlok). unfold lin_step.
    cbn [l_i l_toks l_lines l_start l_first] in *.
    destruct (i <? length toks) eqn:Elt.
    - apply Nat.ltb_lt in Elt.
      destruct (nth_error_in_range _ toks i Elt) as [t Ht]. rewrite Ht.
      pose proof (skipn_cons_nth _ toks i t Ht) as Hsk.
      (* the branch `else` of the loop body *)
      assert (Hother : tw t = 1 ->
        match (match start, lines with
               | None, _ :: _ => lin_splice analyze_f (mklstate i toks lines start first) lines
               | _, _ => Continue (mklstate (S i) toks lines start first)
               end) with
        | Continue s' => lin_inv s' /\ lin_mu s' < lin_mu (mklstate i toks lines start first)
        | Done _ => True
        | Fail _ => False
        end).
      { intros Hw.
        assert (Hadv : lin_inv (mklstate (S i) toks lines start first)
                       /\ lin_mu (mklstate (S i) toks lines start first) < lin_mu (mklstate i toks lines start first)).
        { split.
          - unfold lin_inv; cbn [l_i l_toks l_lines l_start l_first].
            split; [lia|]. split; [intros sl H; specialize (Hs sl H); lia|].
            split; [intros ft H; specialize (Hf ft H); lia|]. split; assumption.
          - unfold lin_mu; cbn [l_i l_toks l_lines l_start]. rewrite Hsk. cbn [sumw]. lia. }
        destruct start as [sl|]; [exact Hadv|].
        destruct lines as [|l ls]; [exact Hadv|].
        pose proof (lin_splice_ok (mklstate i toks (l :: ls) None first) (l :: ls)) as Hsp.
        cbn [l_i l_toks l_first] in Hsp.
        specialize (Hsp (Nat.lt_le_incl _ _ Elt) Hf Hok ltac:(discriminate) Hlok).
        destruct (lin_splice analyze_f (mklstate i toks (l :: ls) None first) (l :: ls)); [|exact I|contradiction].
        destruct Hsp as [H1 H2]. split; [exact H1|].
        unfold lin_mu at 2. cbn [l_i l_toks l_lines l_start]. lia. }
      assert (Htok : tok_ok t).
      { rewrite Forall_forall in Hok. apply Hok. eapply nth_error_In; exact Ht. }
      (* item / colon *)
      assert (Hitem : tw t = 4 ->
        lin_inv (mklstate (S i) toks lines (Some i) (match first with None => Some i | Some f => Some f end))
        /\ lin_mu (mklstate (S i) toks lines (Some i) (match first with None => Some i | Some f => Some f end))
           < lin_mu (mklstate i toks lines start first)).
      { intros Hw. split.
        - unfold lin_inv; cbn [l_i l_toks l_lines l_start l_first].
          split; [lia|]. split; [intros sl H; inversion H; lia|].
          split; [|split; assumption].
          intros ft H. destruct first as [f|]; inversion H; subst; [specialize (Hf ft eq_refl); lia|lia].
        - unfold lin_mu; cbn [l_i l_toks l_lines l_start]. rewrite Hsk. cbn [sumw]. destruct start; lia. }
      (* the line ending at a newline / break *)
      assert (Hline : forall sl b, start = Some sl ->
                exists it, nth_error toks sl = Some it
                           /\ line_ok (Tok (KLine (item_pfx it) false) 0%N (slice (sl + 1) b toks))).
      { intros sl b H. specialize (Hs sl H).
        destruct (nth_error_in_range _ toks sl ltac:(lia)) as [it Hit]. exists it. split; [exact Hit|].
        apply new_line_ok. rewrite Forall_forall in Hok. apply Hok. eapply nth_error_In; exact Hit. }
      destruct t as [k id ks]. destruct k; cbn [tkind]; try (apply Hother; reflexivity); try (apply Hitem; reflexivity).
      + (* newline *)
        destruct start as [sl|]; [|apply Hother; reflexivity].
        destruct (Hline sl (i + 1) eq_refl) as (it & Hit & Hlk). rewrite Hit. split.
        * unfold lin_inv; cbn [l_i l_toks l_lines l_start l_first].
          split; [lia|]. split; [intros sl' H; discriminate|].
          split; [intros ft H; specialize (Hf ft H); lia|]. split; [assumption|].
          apply Forall_app. split; [assumption|]. constructor; [exact Hlk|constructor].
        * unfold lin_mu; cbn [l_i l_toks l_lines l_start]. rewrite Hsk, app_length. cbn [sumw tw tkind length]. lia.
      + (* break *)
        destruct start as [sl|].
        * destruct (Hline sl i eq_refl) as (it & Hit & Hlk). rewrite Hit.
          set (ln := Tok (KLine _ _) _ _) in *.
          destruct (lines ++ [ln]) as [|l ls] eqn:El; [destruct lines; discriminate|].
          pose proof (lin_splice_ok (mklstate i toks (l :: ls) None first) (l :: ls)) as Hsp.
          cbn [l_i l_toks l_first] in Hsp.
          assert (Hall : Forall line_ok (l :: ls)).
          { rewrite <- El. apply Forall_app. split; [assumption|]. constructor; [exact Hlk|constructor]. }
          specialize (Hsp (Nat.lt_le_incl _ _ Elt) Hf Hok ltac:(discriminate) Hall).
          destruct (lin_splice analyze_f (mklstate i toks (l :: ls) None first) (l :: ls)); [|exact I|contradiction].
          destruct Hsp as [H1 H2]. split; [exact H1|].
          unfold lin_mu at 2. cbn [l_i l_toks l_lines l_start].
          assert (length (l :: ls) = length lines + 1) by (rewrite <- El, app_length; cbn; lia). lia.
        * destruct lines as [|l ls].
          -- split.
             ++ unfold lin_inv; cbn [l_i l_toks l_lines l_start l_first].
                split; [lia|]. split; [intros sl H; discriminate|]. split; [intros ft H; discriminate|].
                split; [assumption|constructor].
             ++ unfold lin_mu; cbn [l_i l_toks l_lines l_start]. rewrite Hsk. cbn [sumw tw tkind length]. lia.
          -- pose proof (lin_splice_ok (mklstate i toks (l :: ls) None first) (l :: ls)) as Hsp.
             cbn [l_i l_toks l_first] in Hsp.
             specialize (Hsp (Nat.lt_le_incl _ _ Elt) Hf Hok ltac:(discriminate) Hlok).
             clear Hother Hitem.
             destruct (lin_splice analyze_f (mklstate i toks (l :: ls) None first) (l :: ls)); [|exact I|contradiction].
             destruct Hsp as [H1 H2]. split; [exact H1|].
             unfold lin_mu at 2. cbn [l_i l_toks l_lines l_start]. lia.
    - (* after the loop *)
      apply Nat.ltb_ge in Elt. unfold lin_post.
      assert (Hl1 : exists L, (match start with
                | Some sl => match nth_error toks sl with
                             | None => PRaise PIndex
                             | Some it => POk (lines ++ [Tok (KLine (item_pfx it) false) 0%N (skipn (sl + 1) toks)])
                             end
                | None => POk lines end) = POk L /\ Forall line_ok L).
      { destruct start as [sl|].
        - specialize (Hs sl eq_refl).
          destruct (nth_error_in_range _ toks sl ltac:(lia)) as [it Hit]. rewrite Hit. eexists. split; [reflexivity|].
          apply Forall_app. split; [assumption|]. constructor; [|constructor].
          apply new_line_ok. rewrite Forall_forall in Hok. apply Hok. eapply nth_error_In; exact Hit.
        - eexists. split; [reflexivity|assumption]. }
      destruct Hl1 as (L & HL & HLok). rewrite HL.
      destruct L as [|l ls]; [exact I|].
      destruct (Hana (l :: ls) ltac:(discriminate) HLok) as (out & Ho & _). rewrite Ho. exact I.
  Qed.

  Lemma lin_inv_init : forall toks, Forall tok_ok toks -> lin_inv (lin_init toks).
  Proof.
    intros toks H. unfold lin_inv, lin_init; cbn [l_i l_toks l_lines l_start l_first].
    split; [lia|]. split; [intros sl E; discriminate|]. split; [intros ft E; discriminate|]. split; [exact H|constructor].
  Qed.

  (* ParseLines.run: within fuel 4*len+1 the loop ends and nothing is raised, given the above of analyze *)
  Theorem lin_run_total_given_analyze : forall toks, Forall tok_ok toks ->
    exists r iters, iter (lin_step analyze_f) (lin_fuel toks) 0 (lin_init toks) = POk (r, iters)
                    /\ iters <= 4 * length toks.
  Proof.
    intros toks Hok. unfold lin_fuel.
    destruct (iter_terminates (lin_step analyze_f) lin_inv lin_mu lin_step_ok (4 * length toks + 1) 0 (lin_init toks)
                (lin_inv_init toks Hok)) as (r & k & Hr & Hk).
    - unfold lin_mu, lin_init; cbn [l_i l_toks l_lines l_start skipn length]. pose proof (sumw_le toks). lia.
    - exists r, k. split; [exact Hr|].
      unfold lin_mu, lin_init in Hk; cbn [l_i l_toks l_lines l_start skipn length] in Hk. pose proof (sumw_le toks). lia.
  Qed.
End LinesRunProof.

(* ================================================================================================
   ParseParagraphs.run
   ================================================================================================ *)

(* measure: an iteration advances i, or (blocknode after collected tokens) wraps tokens[first:i] into a
   paragraph and sets i := first := first+1, which keeps len - i but makes first = i *)
Definition par_mu (s : pstate) : nat :=
  2 * (length (p_toks s) - p_i s) + (if p_first s <? p_i s then 1 else 0).
Definition par_inv (s : pstate) : Prop := p_first s <= p_i s /\ p_i s <= length (p_toks s).

Lemma para_create_length : forall toks first i delta, first <= i -> i + delta <= length toks ->
  length (para_create toks first i delta)
  = if first <? i then first + 1 + (length toks - (i + delta)) else length toks.
Proof.
  intros toks first i delta Hf Hi. unfold para_create.
  assert (Hs : length (slice first i toks) = i - first).
  { unfold slice. rewrite firstn_length, skipn_length. lia. }
  destruct (slice first i toks) as [|x sub] eqn:E; cbn [length] in Hs.
  - destruct (first <? i) eqn:E2; [apply Nat.ltb_lt in E2; lia|reflexivity].
  - destruct (first <? i) eqn:E2; [|apply Nat.ltb_ge in E2; lia].
    rewrite splice_length by lia. cbn [length]. lia.
Qed.

Lemma par_step_ok : forall s, par_inv s ->
  match par_step s with
  | Continue s' => par_inv s' /\ par_mu s' < par_mu s
  | Done _ => True
  | Fail _ => False
  end.
Proof.
  intros [i first toks] [Hf Hi]. unfold par_step. cbn [p_i p_first p_toks] in *.
  destruct (i <? length toks) eqn:Elt.
  - apply Nat.ltb_lt in Elt.
    destruct (nth_error_in_range _ toks i Elt) as [t Ht]. rewrite Ht.
    assert (Hcreate : forall delta, delta <= 1 ->
              par_inv (mkpstate (S first) (S first) (para_create toks first i delta))
              /\ par_mu (mkpstate (S first) (S first) (para_create toks first i delta)) < par_mu (mkpstate i first toks)).
    { intros delta Hd. unfold par_inv, par_mu. cbn [p_i p_first p_toks].
      rewrite para_create_length by lia. rewrite Nat.ltb_irrefl.
      destruct (first <? i) eqn:E2; [apply Nat.ltb_lt in E2|apply Nat.ltb_ge in E2]; lia. }
    assert (Hadv : par_inv (mkpstate (S i) first toks) /\ par_mu (mkpstate (S i) first toks) < par_mu (mkpstate i first toks)).
    { unfold par_inv, par_mu. cbn [p_i p_first p_toks].
      destruct (first <? S i) eqn:E1; destruct (first <? i) eqn:E2; lia. }
    destruct t as [k id ks].
    destruct k; cbn [tkind]; try (apply Hcreate; lia);
      (destruct (blocknode _); [apply Hcreate; lia|exact Hadv]).
  - destruct first; exact I.
Qed.

(* ParseParagraphs.run: within fuel 2*len+1 the loop ends, nothing is raised *)
Theorem par_run_total : forall toks,
  exists r iters, par_run (par_fuel toks) toks = POk (r, iters) /\ iters <= 2 * length toks.
Proof.
  intros toks. unfold par_run, par_fuel.
  destruct (iter_terminates par_step par_inv par_mu par_step_ok (2 * length toks + 1) 0 (par_init toks))
    as (r & k & Hr & Hk).
  - unfold par_inv, par_init; cbn. lia.
  - unfold par_mu, par_init; cbn. lia.
  - exists r, k. split; [exact Hr|]. unfold par_mu, par_init in Hk; cbn in Hk. lia.
Qed.

(* ================================================================================================
   ParseUrls.run
   ================================================================================================ *)

(* potential of a token still to be visited: a urllink may open a named url (start := i), a `]]` is rewritten to `]`
   and visited again together with the new named_url node *)
Definition uw (t : tok) : nat := match tkind t with KUrl => 2 | K2Close => 3 | _ => 1 end.
Fixpoint usum (l : list tok) : nat := match l with [] => 0 | t :: r => uw t + usum r end.

Lemma usum_le : forall l, usum l <= 3 * length l.
Proof.
  induction l as [|t l IH]; cbn [usum length]; [lia|].
  assert (uw t <= 3) by (unfold uw; destruct (tkind t); lia). lia.
Qed.

Definition url_mu (s : ustate) : nat :=
  usum (skipn (u_i s) (u_toks s)) + match u_start s with Some _ => 1 | None => 0 end.
Definition url_inv (s : ustate) : Prop :=
  u_i s <= length (u_toks s) /\ (forall st, u_start s = Some st -> st < u_i s).

Lemma skipn_set_nth : forall A i (x : A) l, i < length l -> skipn i (set_nth i x l) = x :: skipn (S i) l.
Proof.
  intros A i x l H. unfold set_nth. apply Nat.ltb_lt in H. rewrite H. apply Nat.ltb_lt in H.
  apply skipn_app_exact. rewrite firstn_length. lia.
Qed.

Lemma skipn_splice : forall A a b (x l : list A), a <= b -> a <= length l ->
  skipn a (splice a b x l) = x ++ skipn b l.
Proof.
  intros A a b x l Hab Ha. unfold splice. rewrite Nat.max_r by lia.
  apply skipn_app_exact. rewrite firstn_length. lia.
Qed.

Lemma url_step_ok : forall s, url_inv s ->
  match url_step s with
  | Continue s' => url_inv s' /\ url_mu s' < url_mu s
  | Done _ => True
  | Fail _ => False
  end.
Proof.
  intros [i toks start] [Hi Hs]. unfold url_step. cbn [u_i u_toks u_start] in *.
  destruct (i <? length toks) eqn:Elt; [|exact I].
  apply Nat.ltb_lt in Elt.
  destruct (nth_error_in_range _ toks i Elt) as [t Ht]. rewrite Ht.
  pose proof (skipn_cons_nth _ toks i t Ht) as Hsk.
  assert (Hnext : url_inv (mkustate (S i) toks start) /\ url_mu (mkustate (S i) toks start) < url_mu (mkustate i toks start)).
  { split.
    - unfold url_inv; cbn [u_i u_toks u_start]. split; [lia|]. intros st H. specialize (Hs st H). lia.
    - unfold url_mu; cbn [u_i u_toks u_start]. rewrite Hsk. cbn [usum].
      assert (1 <= uw t) by (unfold uw; destruct (tkind t); lia). lia. }
  destruct t as [k id ks]. destruct k; cbn [tkind]; try (destruct start; exact Hnext).
  - (* urllink *)
    destruct start as [st|]; [exact Hnext|]. split.
    + unfold url_inv; cbn [u_i u_toks u_start]. split; [lia|]. intros st H. inversion H. lia.
    + unfold url_mu; cbn [u_i u_toks u_start]. rewrite Hsk. cbn [usum uw tkind]. lia.
  - (* "]" *)
    destruct start as [st|]; [|exact Hnext]. specialize (Hs st eq_refl).
    destruct (nth_error_in_range _ toks st ltac:(lia)) as [u Hu]. rewrite Hu. split.
    + unfold url_inv; cbn [u_i u_toks u_start]. split; [|intros st' H; discriminate].
      rewrite splice_length by lia. lia.
    + unfold url_mu; cbn [u_i u_toks u_start]. rewrite skipn_splice by lia. rewrite Hsk.
      replace (i + 1) with (S i) by lia. cbn [usum uw tkind app]. lia.
  - (* "]]" *)
    destruct start as [st|]; [|exact Hnext]. specialize (Hs st eq_refl).
    set (toks1 := set_nth i (Tok KClose id ks) toks).
    assert (Hl1 : length toks1 = length toks) by apply set_nth_length.
    destruct (nth_error_in_range _ toks1 st ltac:(lia)) as [u Hu]. cbn [tid tkids]. fold toks1. rewrite Hu. split.
    + unfold url_inv; cbn [u_i u_toks u_start]. split; [|intros st' H; discriminate].
      rewrite splice_length by lia. lia.
    + unfold url_mu; cbn [u_i u_toks u_start]. rewrite skipn_splice by lia.
      unfold toks1. rewrite skipn_set_nth by lia. rewrite Hsk. cbn [usum uw tkind app]. lia.
Qed.

(* ParseUrls.run: within fuel 3*len+1 the loop ends, nothing is raised *)
Theorem url_run_total : forall toks,
  exists r iters, url_run (url_fuel toks) toks = POk (r, iters) /\ iters <= 3 * length toks.
Proof.
  intros toks. unfold url_run, url_fuel.
  destruct (iter_terminates url_step url_inv url_mu url_step_ok (3 * length toks + 1) 0 (url_init toks))
    as (r & k & Hr & Hk).
  - unfold url_inv, url_init; cbn [u_i u_toks u_start]. split; [lia|intros st H; discriminate].
  - unfold url_mu, url_init; cbn [u_i u_toks u_start skipn]. pose proof (usum_le toks). lia.
  - exists r, k. split; [exact Hr|].
    unfold url_mu, url_init in Hk; cbn [u_i u_toks u_start skipn] in Hk. pose proof (usum_le toks). lia.
Qed.

(* ================================================================================================
   ParseSingleQuote.run
   ================================================================================================ *)

Definition qtok_ok (t : tok) : Prop := match tkind t with KQuote n => 2 <= n | _ => True end.  (* "'" "'"+ : _uscan.re:307 *)

Lemma map_nth_ok : forall A (f : A -> A) l n, n < length l ->
  exists x, nth_error l n = Some x /\ map_nth n f l = POk (firstn n l ++ f x :: skipn (S n) l).
Proof.
  intros A f l n H. destruct (nth_error_in_range _ l n H) as [x Hx]. exists x. split; [exact Hx|].
  unfold map_nth. rewrite Hx. reflexivity.
Qed.

Lemma apply_state_ok : forall last st t, qtok_ok (apply_state last st t).
Proof.
  intros last st [k i ks]. unfold apply_state.
  destruct (q_bold st && q_ital st); [exact I|]. destruct (q_bold st); [exact I|]. destruct (q_ital st); exact I.
Qed.

Lemma finish_loop_ok : forall states styles last toks,
  length states = length styles -> Forall (fun ix => ix < length toks) styles -> Forall qtok_ok toks ->
  exists toks', finish_loop states styles last toks = POk toks' /\ length toks' = length toks /\ Forall qtok_ok toks'.
Proof.
  induction states as [|st states IH]; intros styles last toks Hlen Hix Hok; cbn [finish_loop].
  - exists toks. auto.
  - destruct styles as [|ix styles]; [discriminate|]. cbn [length] in Hlen.
    inversion Hix as [|? ? Hix1 Hix2]; subst.
    destruct (map_nth_ok _ (apply_state last st) toks ix Hix1) as (x & Hx & Hm). rewrite Hm.
    set (toks1 := firstn ix toks ++ apply_state last st x :: skipn (S ix) toks).
    assert (Hl1 : length toks1 = length toks).
    { unfold toks1. rewrite app_length, firstn_length. cbn [length]. rewrite skipn_length. lia. }
    destruct (IH styles (q_apo st) toks1) as (toks' & Hr & Hl & Hq).
    + lia.
    + rewrite Hl1. exact Hix2.
    + unfold toks1. apply Forall_app. split; [apply Forall_firstn_; exact Hok|].
      constructor; [apply apply_state_ok|apply Forall_skipn_; exact Hok].
    + exists toks'. split; [exact Hr|]. split; [lia|exact Hq].
Qed.

Section SingleQuoteProof.
  Variable cpath : list nat -> pres (list qst).
  (* styleanalyzer.compute_path: one state per count, no exception (C01_compute_path_bounded) *)
  Hypothesis Hcpath : forall counts, Forall (fun c => 2 <= c) counts ->
    exists states, cpath counts = POk states /\ length states = length counts.

  Lemma finish_ok : forall counts styles toks,
    length counts = length styles -> Forall (fun c => 2 <= c) counts ->
    Forall (fun ix => ix < length toks) styles -> Forall qtok_ok toks ->
    exists toks', finish cpath counts styles toks = POk toks' /\ length toks' = length toks /\ Forall qtok_ok toks'.
  Proof.
    intros counts styles toks Hlen Hc Hix Hok. unfold finish.
    rewrite Hlen, Nat.eqb_refl. cbn [negb].
    destruct (Hcpath counts Hc) as (states & Hs & Hsl). rewrite Hs.
    apply finish_loop_ok; [lia|exact Hix|exact Hok].
  Qed.

  (* measure: an iteration advances pos, or closes the open style (start := None) keeping len - pos *)
  Definition sq_mu (s : qstate) : nat :=
    2 * (length (q_toks s) - q_pos s) + match q_start s with Some _ => 1 | None => 0 end.
  Definition sq_bound (s : qstate) : nat := match q_start s with Some st => st | None => q_pos s end.
  Definition sq_inv (s : qstate) : Prop :=
    q_pos s <= length (q_toks s)
    /\ (forall st, q_start s = Some st -> st < q_pos s)
    /\ length (q_counts s) = length (q_styles s) + match q_start s with Some _ => 1 | None => 0 end
    /\ Forall (fun ix => ix < sq_bound s) (q_styles s)
    /\ Forall (fun c => 2 <= c) (q_counts s)
    /\ Forall qtok_ok (q_toks s).

  Lemma close_style_length : forall toks st pos, st < pos -> pos <= length toks ->
    length (close_style toks st pos) = st + 1 + (length toks - pos).
  Proof. intros toks st pos H1 H2. unfold close_style. rewrite splice_length by lia. cbn [length]. lia. Qed.

  Lemma close_style_ok : forall toks st pos, Forall qtok_ok toks -> Forall qtok_ok (close_style toks st pos).
  Proof.
    intros toks st pos H. unfold close_style, splice. apply Forall_app. split; [apply Forall_firstn_; exact H|].
    apply Forall_app. split; [constructor; [exact I|constructor]|apply Forall_skipn_; exact H].
  Qed.

  Lemma Forall_lt_weaken : forall (l : list nat) a b, a <= b -> Forall (fun ix => ix < a) l -> Forall (fun ix => ix < b) l.
  Proof. intros l a b Hab H. eapply Forall_impl; [|exact H]. cbn. intros; lia. Qed.

  Lemma sq_step_ok : forall s, sq_inv s ->
    match sq_step cpath s with
    | Continue s' => sq_inv s' /\ sq_mu s' < sq_mu s
    | Done _ => True
    | Fail _ => False
    end.
  Proof.
    intros [pos toks start counts styles] (Hp & Hs & Hcs & Hst & Hc & Hok). unfold sq_step.
    unfold sq_bound in Hst. cbn [q_pos q_toks q_start q_counts q_styles] in *.
    destruct (pos <? length toks) eqn:Elt.
    - apply Nat.ltb_lt in Elt.
      destruct (nth_error_in_range _ toks pos Elt) as [t Ht]. rewrite Ht.
      assert (Htok : qtok_ok t). { rewrite Forall_forall in Hok. apply Hok. eapply nth_error_In; exact Ht. }
      assert (Hadv : sq_inv (mkqstate (S pos) toks start counts styles)
                     /\ sq_mu (mkqstate (S pos) toks start counts styles) < sq_mu (mkqstate pos toks start counts styles)).
      { split.
        - unfold sq_inv, sq_bound; cbn [q_pos q_toks q_start q_counts q_styles].
          split; [lia|]. split; [intros st H; specialize (Hs st H); lia|]. split; [exact Hcs|].
          split; [|split; assumption].
          destruct start; [exact Hst|]. eapply Forall_lt_weaken; [|exact Hst]. lia.
        - unfold sq_mu; cbn [q_pos q_toks q_start]. lia. }
      destruct t as [k id ks]. destruct k; cbn [tkind]; try exact Hadv.
      + (* newline *)
        destruct start as [st|].
        * specialize (Hs st eq_refl).
          pose proof (close_style_length toks st pos Hs Hp) as Hl1.
          pose proof (close_style_ok toks st pos Hok) as Hok1.
          destruct counts as [|c counts]; [cbn [length] in Hcs; lia|].
          destruct (finish_ok (c :: counts) (styles ++ [st]) (close_style toks st pos)) as (toks2 & Hf & Hl2 & Hok2).
          { rewrite app_length. cbn [length] in *. lia. }
          { exact Hc. }
          { apply Forall_app. split; [eapply Forall_lt_weaken; [|exact Hst]; lia|]. constructor; [lia|constructor]. }
          { exact Hok1. }
          rewrite Hf. split.
          -- unfold sq_inv, sq_bound; cbn [q_pos q_toks q_start q_counts q_styles length].
             split; [lia|]. split; [intros st' H; discriminate|]. split; [reflexivity|].
             split; [constructor|]. split; [constructor|exact Hok2].
          -- unfold sq_mu; cbn [q_pos q_toks q_start]. lia.
        * destruct counts as [|c counts].
          -- destruct styles as [|x styles]; [|cbn [length] in Hcs; lia]. split.
             ++ unfold sq_inv, sq_bound; cbn [q_pos q_toks q_start q_counts q_styles length].
                split; [lia|]. split; [intros st' H; discriminate|]. split; [reflexivity|].
                split; [constructor|]. split; [constructor|exact Hok].
             ++ unfold sq_mu; cbn [q_pos q_toks q_start]. lia.
          -- destruct (finish_ok (c :: counts) styles toks) as (toks2 & Hf & Hl2 & Hok2).
             { lia. } { exact Hc. } { eapply Forall_lt_weaken; [|exact Hst]; lia. } { exact Hok. }
             rewrite Hf. split.
             ++ unfold sq_inv, sq_bound; cbn [q_pos q_toks q_start q_counts q_styles length].
                split; [lia|]. split; [intros st' H; discriminate|]. split; [reflexivity|].
                split; [constructor|]. split; [constructor|exact Hok2].
             ++ unfold sq_mu; cbn [q_pos q_toks q_start]. lia.
      + (* singlequote *)
        destruct start as [st|].
        * specialize (Hs st eq_refl).
          pose proof (close_style_length toks st pos Hs Hp) as Hl1. split.
          -- unfold sq_inv, sq_bound; cbn [q_pos q_toks q_start q_counts q_styles].
             split; [lia|]. split; [intros st' H; discriminate|].
             split; [rewrite app_length; cbn [length]; lia|].
             split; [|split; [exact Hc|apply close_style_ok; exact Hok]].
             apply Forall_app. split; [eapply Forall_lt_weaken; [|exact Hst]; lia|]. constructor; [lia|constructor].
          -- unfold sq_mu; cbn [q_pos q_toks q_start]. lia.
        * split.
          -- unfold sq_inv, sq_bound; cbn [q_pos q_toks q_start q_counts q_styles].
             split; [lia|]. split; [intros st' H; inversion H; lia|].
             split; [rewrite app_length; cbn [length]; lia|].
             split; [exact Hst|]. split; [|exact Hok].
             apply Forall_app. split; [exact Hc|]. constructor; [exact Htok|constructor].
          -- unfold sq_mu; cbn [q_pos q_toks q_start]. lia.
    - (* after the loop *)
      apply Nat.ltb_ge in Elt.
      destruct start as [st|].
      + specialize (Hs st eq_refl).
        pose proof (close_style_length toks st pos Hs Hp) as Hl1.
        destruct counts as [|c counts]; [exact I|].
        destruct (finish_ok (c :: counts) (styles ++ [st]) (close_style toks st pos)) as (toks2 & Hf & _).
        { rewrite app_length. cbn [length] in *. lia. }
        { exact Hc. }
        { apply Forall_app. split; [eapply Forall_lt_weaken; [|exact Hst]; lia|]. constructor; [lia|constructor]. }
        { apply close_style_ok; exact Hok. }
        rewrite Hf. exact I.
      + destruct counts as [|c counts]; [exact I|].
        destruct (finish_ok (c :: counts) styles toks) as (toks2 & Hf & _).
        { lia. } { exact Hc. } { eapply Forall_lt_weaken; [|exact Hst]; lia. } { exact Hok. }
        rewrite Hf. exact I.
  Qed.

  (* ParseSingleQuote.run: within fuel 2*len+1 the loop ends, nothing is raised (ValueError of finish(),
     IndexError of self.styles[i] included), given one state per count from compute_path *)
  Theorem sq_run_total : forall toks, Forall qtok_ok toks ->
    exists r iters, sq_run cpath (sq_fuel toks) toks = POk (r, iters) /\ iters <= 2 * length toks.
  Proof.
    intros toks Hok. unfold sq_run, sq_fuel.
    destruct (iter_terminates (sq_step cpath) sq_inv sq_mu sq_step_ok (2 * length toks + 1) 0 (sq_init toks))
      as (r & k & Hr & Hk).
    - unfold sq_inv, sq_bound, sq_init; cbn [q_pos q_toks q_start q_counts q_styles length].
      split; [lia|]. split; [intros st H; discriminate|]. split; [reflexivity|].
      split; [constructor|]. split; [constructor|exact Hok].
    - unfold sq_mu, sq_init; cbn [q_pos q_toks q_start]. lia.
    - exists r, k. split; [exact Hr|]. unfold sq_mu, sq_init in Hk; cbn [q_pos q_toks q_start] in Hk. lia.
  Qed.
End SingleQuoteProof.
