(* C01 — termination/totality of the loops of the table parser (models: C01/PassesTable.v).
   TableCellParser.run / TableRowParser.run: measure len(tokens) - index; an iteration advances the index, or closes
   the open cell / row: tokens[start:index] (or [start:index+1]) is replaced by one node and index := start+2
   (resp. start+1) — len(tokens) - index shrinks by exactly one.  Invariant: `start` points before the index, at a
   cell start token (so tokens[start].text is a string), and after a close at the token that ended the cell / row.
   TableParser.run: measure 2*(len(tokens) - index) + len(stack); a table start pushes the index, a table end pops and
   replaces tokens[start:index+1] by the table node; `while stack: make_table()` pops once per iteration.  Invariant:
   the stack is strictly increasing (top largest), below the index, and holds positions of table start tokens.
   The nested calls (TableCellParser on the children of a row, TableRowParser on the children of a table) are total by
   the theorems for the inner passes. *)
From Coq Require Import List NArith Arith Bool Lia.
From MW Require Import C01.Passes C01.ProofsPasses C01.PassesPre C01.PassesTable.
Import ListNotations.

(* ------------------------------------------------------------------------------------------ lists *)

Lemma splice_length_gen : forall A a b (x l : list A), a <= length l ->
  length (splice a b x l) = a + length x + (length l - Nat.max a b).
Proof.
  intros A a b x l Ha. unfold splice. rewrite !app_length, firstn_length, skipn_length. lia.
Qed.

Lemma nth_error_skipn0 : forall A n (l : list A), nth_error (skipn n l) 0 = nth_error l n.
Proof.
  induction n as [|n IH]; intros l.
  - destruct l; reflexivity.
  - destruct l as [|x l]; [reflexivity|]. cbn [skipn nth_error]. apply IH.
Qed.

Lemma nth_error_firstn_lt : forall A n (l : list A) e, e < n -> nth_error (firstn n l) e = nth_error l e.
Proof.
  induction n as [|n IH]; intros l e H; [lia|].
  destruct l as [|x l]; [destruct e; reflexivity|].
  destruct e as [|e]; cbn [firstn nth_error]; [reflexivity|]. apply IH. lia.
Qed.

Lemma nth_error_splice_before : forall A a b (x l : list A) e, e < a -> a <= length l ->
  nth_error (splice a b x l) e = nth_error l e.
Proof.
  intros A a b x l e He Ha. unfold splice.
  rewrite nth_error_app1 by (rewrite firstn_length; lia). apply nth_error_firstn_lt. exact He.
Qed.

(* the element that follows the single new node is the one that was at b *)
Lemma nth_error_splice_next : forall A a b (x : A) (l : list A), a <= b -> a <= length l ->
  nth_error (splice a b [x] l) (a + 1) = nth_error l b.
Proof.
  intros A a b x l Hab Ha. unfold splice. rewrite Nat.max_r by lia.
  rewrite nth_error_app2 by (rewrite firstn_length; lia).
  rewrite firstn_length. replace (a + 1 - Nat.min a (length l)) with 1 by lia.
  cbn [app nth_error]. apply nth_error_skipn0.
Qed.

(* ================================================================================================
   TableCellParser.run
   ================================================================================================ *)

Lemma cell_start_has_text : forall t : ttok, is_cell_start t = true -> text_none t = false.
Proof. intros [k i ks]. unfold is_cell_start, text_none. cbn [gkind]. destruct k; intros H; try discriminate; reflexivity. Qed.

Definition cell_mu (s : cstate) : nat := length (tc_toks s) - tc_i s.
Definition cell_inv (s : cstate) : Prop :=
  tc_i s <= length (tc_toks s)
  /\ (forall st, tc_start s = Some st ->
        st < tc_i s /\ exists t, nth_error (tc_toks s) st = Some t /\ is_cell_start t = true).

Lemma make_cell_spec : forall toks st index sk hdr s, st < index -> index <= length toks ->
  nth_error toks st = Some s -> is_cell_start s = true ->
  exists toks' hdr', make_cell toks st index sk hdr = POk (toks', hdr')
    /\ length toks' = st + 1 + (length toks - index)
    /\ nth_error toks' (st + 1) = nth_error toks index.
Proof.
  intros toks st index sk hdr s Hst Hidx Hs Hcs. unfold make_cell. rewrite Hs, (cell_start_has_text s Hcs).
  do 2 eexists. split; [reflexivity|]. split.
  - rewrite splice_length by lia. cbn [length]. lia.
  - apply nth_error_splice_next; lia.
Qed.

Lemma cell_step_ok : forall s, cell_inv s ->
  match cell_step s with
  | Continue s' => cell_inv s' /\ cell_mu s' < cell_mu s
  | Done _ => True
  | Fail _ => False
  end.
Proof.
  intros [i start hdr toks] [Hi Hs]. unfold cell_step. cbn [tc_i tc_start tc_hdr tc_toks] in *.
  destruct (i <? length toks) eqn:Elt.
  - apply Nat.ltb_lt in Elt.
    destruct (nth_error_in_range _ toks i Elt) as [t Ht]. rewrite Ht.
    assert (Hadv : forall start' hdr',
              (forall st, start' = Some st -> st < S i /\ exists t, nth_error toks st = Some t /\ is_cell_start t = true) ->
              cell_inv (mkcstate (S i) start' hdr' toks)
              /\ cell_mu (mkcstate (S i) start' hdr' toks) < cell_mu (mkcstate i start hdr toks)).
    { intros start' hdr' H'. split.
      - unfold cell_inv; cbn [tc_i tc_start tc_toks]. split; [lia|exact H'].
      - unfold cell_mu; cbn [tc_i tc_toks]. lia. }
    assert (Hnone : forall st : nat, @None nat = Some st ->
              st < S i /\ exists t, nth_error toks st = Some t /\ is_cell_start t = true) by (intros st H; discriminate).
    assert (Hkeep : forall st, start = Some st ->
              st < S i /\ exists t, nth_error toks st = Some t /\ is_cell_start t = true).
    { intros st H. destruct (Hs st H) as [H1 H2]. split; [lia|exact H2]. }
    destruct (is_cell_start t) eqn:Ecs.
    + (* a cell start *)
      destruct start as [st|].
      * destruct (Hs st eq_refl) as (Hlt & s0 & Hs0 & Hcs0).
        destruct (make_cell_spec toks st i 0 hdr s0 Hlt (Nat.lt_le_incl _ _ Elt) Hs0 Hcs0) as (toks' & hdr' & Hm & Hl & Hn).
        rewrite Hm. split.
        -- unfold cell_inv; cbn [tc_i tc_start tc_toks]. split; [lia|].
           intros st' H. inversion H; subst st'. split; [lia|]. exists t. rewrite Hn. split; [exact Ht|exact Ecs].
        -- unfold cell_mu; cbn [tc_i tc_toks]. lia.
      * apply Hadv. intros st H. inversion H; subst st. split; [lia|]. exists t. split; [exact Ht|exact Ecs].
    + destruct (is_cell_end t) eqn:Ece.
      * (* a cell end *)
        destruct start as [st|]; [|apply Hadv; exact Hnone].
        destruct (Hs st eq_refl) as (Hlt & s0 & Hs0 & Hcs0).
        destruct (make_cell_spec toks st (i + 1) 1 hdr s0 ltac:(lia) ltac:(lia) Hs0 Hcs0) as (toks' & hdr' & Hm & Hl & _).
        rewrite Hm. split.
        -- unfold cell_inv; cbn [tc_i tc_start tc_toks]. split; [lia|intros st' H; discriminate].
        -- unfold cell_mu; cbn [tc_i tc_toks]. lia.
      * apply Hadv. exact Hkeep.
  - (* after the loop *)
    apply Nat.ltb_ge in Elt.
    destruct start as [st|]; [|exact I].
    destruct (Hs st eq_refl) as (Hlt & s0 & Hs0 & Hcs0).
    assert (Hi' : i = length toks) by lia.
    destruct (make_cell_spec toks st i 0 hdr s0 Hlt Hi Hs0 Hcs0) as (toks' & hdr' & Hm & _).
    rewrite Hm. exact I.
Qed.

Lemma cell_inv_init : forall toks, cell_inv (cell_init toks).
Proof. intros toks. unfold cell_inv, cell_init; cbn [tc_i tc_start tc_toks]. split; [lia|intros st H; discriminate]. Qed.

(* TableCellParser.run: within fuel len+1 the loop ends, nothing is raised (tokens[start].text is never None) *)
Theorem cell_run_total : forall toks,
  exists r iters, cell_run (cell_fuel toks) toks = POk (r, iters) /\ iters <= 1 * length toks.
Proof.
  intros toks. unfold cell_run, cell_fuel.
  destruct (iter_terminates cell_step cell_inv cell_mu cell_step_ok (length toks + 1) 0 (cell_init toks) (cell_inv_init toks))
    as (r & k & Hr & Hk).
  - unfold cell_mu, cell_init; cbn [tc_i tc_toks]. lia.
  - exists r, k. split; [exact Hr|]. unfold cell_mu, cell_init in Hk; cbn [tc_i tc_toks] in Hk. lia.
Qed.

Lemma cell_full_total : forall toks, exists r, cell_full toks = POk r.
Proof.
  intros toks. destruct (cell_run_total toks) as (r & k & Hr & _). exists r. unfold cell_full. rewrite Hr. reflexivity.
Qed.

(* ================================================================================================
   TableRowParser.run
   ================================================================================================ *)

Lemma row_node_total : forall children rbt, exists row, row_node children rbt = POk row.
Proof.
  intros children rbt. unfold row_node.
  destruct (cell_full_total (if should_find rbt then row_mod children else children)) as [kids Hk].
  rewrite Hk. eexists. reflexivity.
Qed.

Definition row_mu (s : rstate) : nat := length (r_toks s) - r_i s.
Definition row_inv (s : rstate) : Prop :=
  r_i s <= length (r_toks s) /\ (forall st, r_start s = Some st -> st < r_i s).

Lemma row_step_ok : forall s, row_inv s ->
  match row_step s with
  | Continue s' => row_inv s' /\ row_mu s' < row_mu s
  | Done _ => True
  | Fail _ => False
  end.
Proof.
  intros [i start rs rbt toks] [Hi Hs]. unfold row_step. cbn [r_i r_start r_rs r_rbt r_toks] in *.
  destruct (i <? length toks) eqn:Elt.
  - apply Nat.ltb_lt in Elt.
    destruct (nth_error_in_range _ toks i Elt) as [t Ht]. rewrite Ht.
    assert (Hadv : forall start' rs' rbt', (forall st, start' = Some st -> st < S i) ->
              row_inv (mkrstate (S i) start' rs' rbt' toks)
              /\ row_mu (mkrstate (S i) start' rs' rbt' toks) < row_mu (mkrstate i start rs rbt toks)).
    { intros start' rs' rbt' H'. split.
      - unfold row_inv; cbn [r_i r_start r_toks]. split; [lia|exact H'].
      - unfold row_mu; cbn [r_i r_toks]. lia. }
    assert (Hnone : forall st : nat, @None nat = Some st -> st < S i) by (intros st H; discriminate).
    assert (Hhere : forall st : nat, Some i = Some st -> st < S i) by (intros st H; inversion H; lia).
    destruct start as [st|].
    + specialize (Hs st eq_refl).
      destruct (is_row_start t) eqn:Ers.
      * (* a row start closes the open row *)
        destruct (row_node_total (slice (st + rs) i toks) rbt) as [row Hrow]. rewrite Hrow.
        rewrite nth_error_splice_next by lia. rewrite Ht. split.
        -- unfold row_inv; cbn [r_i r_start r_toks]. rewrite splice_length by lia. cbn [length].
           split; [lia|]. intros st' H. inversion H. lia.
        -- unfold row_mu; cbn [r_i r_toks]. rewrite splice_length by lia. cbn [length]. lia.
      * destruct (is_row_end t) eqn:Ere.
        -- (* a row end *)
           destruct (row_node_total (slice (st + rs) i toks) rbt) as [row Hrow]. rewrite Hrow. split.
           ++ unfold row_inv; cbn [r_i r_start r_toks]. rewrite splice_length by lia. cbn [length].
              split; [lia|intros st' H; discriminate].
           ++ unfold row_mu; cbn [r_i r_toks]. rewrite splice_length by lia. cbn [length]. lia.
        -- apply Hadv. intros st' H. inversion H. lia.
    + destruct (is_cell_start t); [apply Hadv; exact Hhere|].
      destruct (is_row_start t); [apply Hadv; exact Hhere|apply Hadv; exact Hnone].
  - destruct start as [st|]; [|exact I].
    destruct (row_node_total (skipn (st + rs) toks) rbt) as [row Hrow]. rewrite Hrow. exact I.
Qed.

Lemma row_inv_init : forall toks, row_inv (row_init toks).
Proof. intros toks. unfold row_inv, row_init; cbn [r_i r_start r_toks]. split; [lia|intros st H; discriminate]. Qed.

(* TableRowParser.run (with the nested TableCellParser runs): within fuel len+1 the loop ends, nothing is raised *)
Theorem row_run_total : forall toks,
  exists r iters, row_run (row_fuel toks) toks = POk (r, iters) /\ iters <= 1 * length toks.
Proof.
  intros toks. unfold row_run, row_fuel.
  destruct (iter_terminates row_step row_inv row_mu row_step_ok (length toks + 1) 0 (row_init toks) (row_inv_init toks))
    as (r & k & Hr & Hk).
  - unfold row_mu, row_init; cbn [r_i r_toks]. lia.
  - exists r, k. split; [exact Hr|]. unfold row_mu, row_init in Hk; cbn [r_i r_toks] in Hk. lia.
Qed.

Lemma row_full_total : forall toks, exists r, row_full toks = POk r.
Proof.
  intros toks. destruct (row_run_total toks) as (r & k & Hr & _). exists r. unfold row_full. rewrite Hr. reflexivity.
Qed.

(* ================================================================================================
   TableParser.run
   ================================================================================================ *)

Lemma table_start_has_text : forall t : ttok, is_table_start t = true -> text_none t = false.
Proof. intros [k i ks]. unfold is_table_start, text_none. cbn [gkind]. destruct k; intros H; try discriminate; reflexivity. Qed.

(* the stack (top first) below `bound`: strictly decreasing positions of table start tokens *)
Fixpoint stack_ok (bound : nat) (toks : list ttok) (stack : list nat) : Prop :=
  match stack with
  | [] => True
  | st :: rest =>
    st < bound /\ (exists t, nth_error toks st = Some t /\ is_table_start t = true) /\ stack_ok st toks rest
  end.

Lemma stack_ok_transfer : forall rest b b' toks toks',
  stack_ok b toks rest -> b <= b' -> (forall e, e < b -> nth_error toks' e = nth_error toks e) ->
  stack_ok b' toks' rest.
Proof.
  induction rest as [|st rest IH]; intros b b' toks toks' H Hb Hsame; cbn [stack_ok] in *; [exact I|].
  destruct H as (Hlt & (t & Ht & Hts) & Hrest).
  split; [lia|]. split.
  - exists t. rewrite Hsame by exact Hlt. auto.
  - apply (IH st st toks toks' Hrest (Nat.le_refl _)). intros e He. apply Hsame. lia.
Qed.

Definition tab_mu (s : tstate) : nat := 2 * (length (t_toks s) - t_i s) + length (t_stack s).
Definition tab_inv (s : tstate) : Prop := stack_ok (t_i s) (t_toks s) (t_stack s).

Lemma make_table_spec : forall toks st index s, nth_error toks st = Some s -> is_table_start s = true -> st < index ->
  exists toks', make_table toks st index = POk toks'
    /\ length toks' = st + 1 + (length toks - (index + 1))
    /\ forall e, e < st -> nth_error toks' e = nth_error toks e.
Proof.
  intros toks st index s Hs Hts Hlt. unfold make_table. rewrite Hs, (table_start_has_text s Hts).
  assert (Hst : st < length toks) by (apply nth_error_Some; rewrite Hs; discriminate).
  destruct (row_full_total (match gkind s with TBegin => table_mod (slice (st + 1) index toks)
                                          | _ => slice (st + 1) index toks end)) as [rows Hr].
  rewrite Hr. eexists. split; [reflexivity|]. split.
  - rewrite splice_length_gen by lia. cbn [length]. lia.
  - intros e He. apply nth_error_splice_before; lia.
Qed.

Lemma tab_step_ok : forall s, tab_inv s ->
  match tab_step s with
  | Continue s' => tab_inv s' /\ tab_mu s' < tab_mu s
  | Done _ => True
  | Fail _ => False
  end.
Proof.
  intros [i stack toks] Hinv. unfold tab_inv in Hinv. unfold tab_step. cbn [t_i t_stack t_toks] in *.
  destruct (i <? length toks) eqn:Elt.
  - apply Nat.ltb_lt in Elt.
    destruct (nth_error_in_range _ toks i Elt) as [t Ht]. rewrite Ht.
    assert (Hadv : tab_inv (mktstate (S i) stack toks)
                   /\ tab_mu (mktstate (S i) stack toks) < tab_mu (mktstate i stack toks)).
    { split.
      - unfold tab_inv; cbn [t_i t_stack t_toks]. apply (stack_ok_transfer stack i (S i) toks toks Hinv); [lia|auto].
      - unfold tab_mu; cbn [t_i t_stack t_toks]. lia. }
    destruct (is_table_start t) eqn:Ets.
    + (* a table start is pushed *)
      split.
      * unfold tab_inv; cbn [t_i t_stack t_toks stack_ok]. split; [lia|]. split; [exists t; auto|exact Hinv].
      * unfold tab_mu; cbn [t_i t_stack t_toks length]. lia.
    + destruct (is_table_end t) eqn:Ete; [|exact Hadv].
      destruct stack as [|st rest]; [exact Hadv|].
      cbn [stack_ok] in Hinv. destruct Hinv as (Hlt & (s0 & Hs0 & Hts0) & Hrest).
      destruct (make_table_spec toks st i s0 Hs0 Hts0 Hlt) as (toks' & Hm & Hl & Hsame). rewrite Hm. split.
      * unfold tab_inv; cbn [t_i t_stack t_toks]. apply (stack_ok_transfer rest st (st + 1) toks toks' Hrest); [lia|exact Hsame].
      * unfold tab_mu; cbn [t_i t_stack t_toks length]. lia.
  - (* `while stack: make_table()` *)
    apply Nat.ltb_ge in Elt.
    destruct stack as [|st rest]; [exact I|].
    cbn [stack_ok] in Hinv. destruct Hinv as (Hlt & (s0 & Hs0 & Hts0) & Hrest).
    destruct (make_table_spec toks st i s0 Hs0 Hts0 Hlt) as (toks' & Hm & Hl & Hsame). rewrite Hm. split.
    + unfold tab_inv; cbn [t_i t_stack t_toks]. apply (stack_ok_transfer rest st i toks toks' Hrest); [lia|exact Hsame].
    + unfold tab_mu; cbn [t_i t_stack t_toks length]. lia.
Qed.

(* TableParser.run (main loop + `while stack`, with the nested row / cell parsers and find_caption): within fuel
   2*len+1 all loops end, nothing is raised *)
Theorem tab_run_total : forall toks,
  exists r iters, tab_run (tab_fuel toks) toks = POk (r, iters) /\ iters <= 2 * length toks.
Proof.
  intros toks. unfold tab_run, tab_fuel.
  destruct (iter_terminates tab_step tab_inv tab_mu tab_step_ok (2 * length toks + 1) 0 (tab_init toks))
    as (r & k & Hr & Hk).
  - unfold tab_inv, tab_init; cbn [t_i t_stack t_toks stack_ok]. exact I.
  - unfold tab_mu, tab_init; cbn [t_i t_stack t_toks length]. lia.
  - exists r, k. split; [exact Hr|]. unfold tab_mu, tab_init in Hk; cbn [t_i t_stack t_toks length] in Hk. lia.
Qed.

(* non-vacuity:  {| ¶ |- ¶ | x || y ¶ |}  becomes table(newline, row(newline, cell(x), cell(y, newline))) in 10 iterations
   (9 loop iterations + 1 of `while stack`);
   a cell whose start token had text None would raise in the model *)
Lemma table_examples :
  tab_run 19 [GTok TBegin 1%N []; GTok TNewline 2%N []; GTok TRow 3%N []; GTok TNewline 4%N [];
              GTok (TColumn MBar) 5%N []; GTok (TOther false) 6%N []; GTok (TColumn M2Bar) 7%N [];
              GTok (TOther false) 8%N []; GTok TNewline 9%N []]
  = POk ([GTok TTable 0%N [GTok TNewline 2%N [];
            GTok TRowNode 0%N [GTok TNewline 4%N []; GTok (TCell false) 0%N [GTok (TOther false) 6%N []];
                               GTok (TCell false) 0%N [GTok (TOther false) 8%N []; GTok TNewline 9%N []]]]], 10)
  /\ cell_run 4 [GTok (TColumn MBang) 1%N []; GTok (TOther false) 2%N []; GTok TBar 3%N []]
     = POk ([GTok (TCell true) 0%N []], 3)
  /\ make_cell [GTok TRowNode 1%N []; GTok (TOther false) 2%N []] 0 2 0 false = PRaise PAttr.
Proof. split; [vm_compute; reflexivity|]. split; vm_compute; reflexivity. Qed.
