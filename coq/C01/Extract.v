From Coq Require Import Extraction ExtrOcamlBasic.
From MW Require Import Common.Str C01.Model C01.Gen_resolve.
Extraction "../ocaml/c01/c01_model.ml" resolve_entity caught_numeric surrogate_guard compute_path_work stable_sort antistable_sort is_successor init_st score.
