(* C01 — ParseLines.analyze / collect_items (models: C01/Passes.v): the nested loops end within their fuel, raise
   nothing on well-formed lines, and produce at most two nodes per line — the hypothesis `Hana` of
   ProofsPasses.lin_run_total_given_analyze; hence ParseLines.run is total.

   The list `lines` is viewed as  done ++ rest ++ [guard]  with startpos = length done.
   Measure of every loop: csum rest, where a line costs 2 if its lineprefix is non-empty and 1 otherwise
   (a line is deleted, or — `</ul>` inside a `*` line — replaced by a line without prefix). *)
From Coq Require Import List NArith Arith Bool Lia.
From MW Require Import C01.Passes C01.ProofsPasses.
Import ListNotations.

(* ------------------------------------------------------------------------------------------ lists *)

Lemma nth_error_mid : forall A (d : list A) x r, nth_error (d ++ x :: r) (length d) = Some x.
Proof. induction d as [|y d IH]; intros x r; cbn; auto. Qed.

Lemma firstn_mid : forall A (d r : list A), firstn (length d) (d ++ r) = d.
Proof. induction d as [|y d IH]; intros r; cbn; [destruct r; reflexivity|rewrite IH; reflexivity]. Qed.

Lemma skipn_mid : forall A (d r : list A), skipn (length d) (d ++ r) = r.
Proof. intros A d r. apply skipn_app_exact. reflexivity. Qed.

Lemma del_nth_mid : forall A (d : list A) x r, del_nth (length d) (d ++ x :: r) = d ++ r.
Proof.
  intros A d x r. unfold del_nth. rewrite firstn_mid.
  replace (d ++ x :: r) with ((d ++ [x]) ++ r) by (rewrite <- app_assoc; reflexivity).
  replace (S (length d)) with (length (d ++ [x])) by (rewrite app_length; cbn; lia).
  rewrite skipn_mid. reflexivity.
Qed.

Lemma set_nth_mid : forall A (d : list A) x y r, set_nth (length d) y (d ++ x :: r) = d ++ y :: r.
Proof.
  intros A d x y r. unfold set_nth.
  assert (H : length d <? length (d ++ x :: r) = true).
  { apply Nat.ltb_lt. rewrite app_length. cbn. lia. }
  rewrite H, firstn_mid.
  replace (d ++ x :: r) with ((d ++ [x]) ++ r) by (rewrite <- app_assoc; reflexivity).
  replace (S (length d)) with (length (d ++ [x])) by (rewrite app_length; cbn; lia).
  rewrite skipn_mid. reflexivity.
Qed.

Lemma loop_test : forall A (d rest : list A) g,
  (length d <? length (d ++ rest ++ [g]) - 1) = match rest with [] => false | _ :: _ => true end.
Proof.
  intros A d rest g. rewrite !app_length. cbn [length].
  destruct rest; cbn [length]; [apply Nat.ltb_ge|apply Nat.ltb_lt]; lia.
Qed.

(* ------------------------------------------------------------------------------------------ lines *)

Definition lcost (t : tok) : nat := match line_pfx t with [] => 1 | _ :: _ => 2 end.
Fixpoint csum (l : list tok) : nat := match l with [] => 0 | t :: r => lcost t + csum r end.

Lemma csum_le : forall l, csum l <= 2 * length l.
Proof.
  induction l as [|t l IH]; cbn [csum length]; [lia|].
  assert (lcost t <= 2) by (unfold lcost; destruct (line_pfx t); lia). lia.
Qed.

Lemma csum_app : forall a b, csum (a ++ b) = csum a + csum b.
Proof. induction a as [|t a IH]; intros b; cbn [csum app]; [reflexivity|rewrite IH; lia]. Qed.

Definition lineD (D : nat) (t : tok) : Prop := line_ok t /\ length (line_pfx t) <= D.
Definition kidD (D : nat) (t : tok) : Prop := line_ok t /\ 1 <= length (line_pfx t) <= D.

Lemma line_ok_inv : forall t, line_ok t -> exists p tg i ks, t = Tok (KLine p tg) i ks /\ pfx_ok p = true.
Proof.
  intros [k i ks] H. unfold line_ok in H. cbn [tkind] in H. destruct k; try contradiction. do 4 eexists. split; [reflexivity|exact H].
Qed.

Definition pline (a : list tok) : tok := Tok (KLine [] true) 0%N a.
Lemma pline_lineD : forall D a, lineD D (pline a).
Proof. intros D a. split; [reflexivity|cbn; lia]. Qed.

(* append_line on  d ++ ln :: rest ++ [g]  at index length d *)
Lemma append_line_spec : forall d ln rest g kids endtag,
  exists rest' ln',
    append_line (d ++ (ln :: rest) ++ [g]) (length d) kids endtag = POk (d ++ rest' ++ [g], kids ++ [ln'])
    /\ tkind ln' = tkind ln
    /\ (rest' = rest \/ (endtag <> None /\ exists a, rest' = pline a :: rest)).
Proof.
  intros d ln rest g kids endtag. unfold append_line. cbn [app]. rewrite nth_error_mid.
  destruct endtag as [ol|].
  - destruct (find_endtag ol (tkids ln)) as [[before after]|].
    + exists (pline after :: rest), (Tok (tkind ln) (tid ln) before).
      rewrite set_nth_mid. split; [reflexivity|]. split; [reflexivity|].
      right. split; [discriminate|]. eauto.
    + exists rest, ln. rewrite del_nth_mid. auto.
  - exists rest, ln. rewrite del_nth_mid. auto.
Qed.

Lemma same_kind_lineD : forall D a b, tkind a = tkind b -> lineD D b -> lineD D a.
Proof. intros D a b H [H1 H2]. unfold lineD, line_ok, line_pfx in *. rewrite H. auto. Qed.

Lemma same_kind_lcost : forall a b, tkind a = tkind b -> lcost a = lcost b.
Proof. intros a b H. unfold lcost, line_pfx. rewrite H. reflexivity. Qed.

(* absorb: inner while of collect_items *)
Lemma absorb_spec : forall D prefix endtag fuel d rest g kids,
  Forall (lineD D) rest -> csum rest < fuel -> Forall (kidD D) kids ->
  exists rest' kids',
    absorb fuel (d ++ rest ++ [g]) (length d) prefix endtag kids = POk (d ++ rest' ++ [g], kids')
    /\ Forall (lineD D) rest' /\ csum rest' <= csum rest /\ Forall (kidD D) kids'.
Proof.
  intros D prefix endtag. induction fuel as [|f IH]; intros d rest g kids Hr Hf Hk; [lia|].
  cbn [absorb]. rewrite loop_test.
  destruct rest as [|ln rest]; [exists [], kids; auto|].
  cbn [app]. rewrite nth_error_mid.
  inversion Hr as [|? ? [Hln HlnD] Hr']; subst.
  destruct (line_ok_inv ln Hln) as (p & tg & i & ks & -> & Hp).
  cbn [getchar tkind line_pfx] in *.
  destruct (is_char (hd_error p) prefix && (1 <? length p)) eqn:E.
  - apply andb_true_iff in E. destruct E as [_ E]. apply Nat.ltb_lt in E.
    destruct (append_line_spec d (Tok (KLine p tg) i ks) rest g kids endtag) as (rest1 & ln1 & Ha & Hk1 & Hr1).
    cbn [app] in Ha. rewrite Ha.
    assert (Hc : lcost (Tok (KLine p tg) i ks) = 2).
    { unfold lcost. cbn [line_pfx tkind]. destruct p; [cbn in E; lia|reflexivity]. }
    assert (Hr1' : Forall (lineD D) rest1 /\ csum rest1 <= 1 + csum rest).
    { destruct Hr1 as [->|(_ & a & ->)]; [split; [assumption|lia]|].
      split; [constructor; [apply pline_lineD|assumption]|]. cbn [csum]. unfold lcost. cbn. lia. }
    destruct Hr1' as [HrD Hrc]. cbn [csum] in Hf. rewrite Hc in Hf.
    destruct (IH d rest1 g (kids ++ [ln1]) HrD ltac:(lia)) as (rest' & kids' & Hab & H1 & H2 & H3).
    { apply Forall_app. split; [assumption|]. constructor; [|constructor].
      unfold kidD, line_ok, line_pfx. rewrite Hk1. cbn [tkind]. split; [exact Hp|]. cbn [line_pfx tkind] in HlnD. lia. }
    exists rest', kids'. split; [exact Hab|]. split; [exact H1|]. split; [|exact H3].
    cbn [csum]. rewrite Hc. lia.
  - exists (Tok (KLine p tg) i ks :: rest), kids. cbn [app]. auto.
Qed.

Definition dd_ok (dd : option tok) : Prop := forall x, dd = Some x -> tw x = 1.
Definition phi (rest : list tok) (dd : option tok) : nat := csum rest + match dd with Some _ => 1 | None => 0 end.
Definition head_match (rest : list tok) (prefix : pch) : bool :=
  match rest with ln :: _ => is_char (hd_error (line_pfx ln)) prefix | [] => false end.

Lemma split_dl_inv : forall prefix itemk kids3 item' dx,
  split_dl prefix itemk kids3 = Some (item', dx) -> prefix = PcSemi /\ tw dx = 1.
Proof.
  intros prefix itemk kids3 item' dx H. unfold split_dl in H.
  destruct prefix; try discriminate.
  destruct kids3 as [|[k0 i0 ks0] restk]; try discriminate.
  destruct k0; try discriminate.
  destruct (find_spcolon ks0) as [[b a]|]; try discriminate.
  inversion H; subst. split; reflexivity.
Qed.

Lemma dd_after_cases : forall prefix kids3 dd, dd_after prefix kids3 dd = dd \/ dd_after prefix kids3 dd = None.
Proof.
  intros prefix kids3 dd. unfold dd_after. destruct prefix; auto.
  destruct kids3 as [|[k0 i0 ks0] restk]; auto. destruct k0; auto.
Qed.

Lemma strip1_lineD : forall D t, kidD D t -> lineD (D - 1) (strip1 t).
Proof.
  intros D t [Hl [H1 H2]]. destruct (line_ok_inv t Hl) as (p & tg & i & ks & -> & Hp).
  cbn [line_pfx tkind] in *. cbn [strip1]. unfold lineD, line_ok. cbn [tkind line_pfx].
  destruct p as [|c p]; [cbn in H1; lia|]. cbn [tl]. cbn [pfx_ok forallb] in Hp.
  apply andb_true_iff in Hp. destruct Hp as [_ Hp]. split; [exact Hp|]. cbn [length] in H2. lia.
Qed.

Section AnalyzeProof.
  Variable D : nat.
  Variable rec : list tok -> pres (list tok).
  Hypothesis Hrec : forall K, Forall (lineD (D - 1)) K -> K <> [] -> 1 <= D -> exists out, rec K = POk out.

  Section Group.
    Variables (prefix : pch) (itemk : kind) (endtag : option bool).
    Hypothesis Hsemi : prefix = PcSemi -> endtag = None.

    Lemma collect_spec : forall fuel d rest g nkids dd,
      Forall (lineD D) rest -> csum rest < fuel -> dd_ok dd ->
      exists rest' nkids' dd' broke,
        collect_items rec fuel (d ++ rest ++ [g]) (length d) prefix itemk endtag nkids dd
          = POk (d ++ rest' ++ [g], nkids', dd', broke)
        /\ Forall (lineD D) rest' /\ dd_ok dd' /\ phi rest' dd' <= phi rest dd
        /\ (head_match rest prefix = true -> phi rest' dd' + 1 <= phi rest dd).
    Proof.
      induction fuel as [|f IH]; intros d rest g nkids dd Hr Hf Hdd; [lia|].
      cbn [collect_items]. rewrite loop_test.
      destruct rest as [|ln rest].
      { exists [], nkids, dd, false. cbn [head_match]. repeat split; auto. discriminate. }
      cbn [app]. rewrite nth_error_mid.
      inversion Hr as [|? ? [Hln HlnD] Hr']; subst.
      destruct (line_ok_inv ln Hln) as (p & tg & i & ks & -> & Hp).
      cbn [getchar tkind line_pfx head_match] in *.
      destruct (is_char (hd_error p) prefix) eqn:E.
      2:{ exists (Tok (KLine p tg) i ks :: rest), nkids, dd, false. cbn [app]. repeat split; auto. discriminate. }
      assert (Hc : lcost (Tok (KLine p tg) i ks) = 2 /\ 1 <= length p).
      { unfold lcost. cbn [line_pfx tkind]. destruct p; [cbn in E; discriminate|]. cbn [length]. split; [reflexivity|lia]. }
      destruct Hc as [Hc Hp1].
      destruct (append_line_spec d (Tok (KLine p tg) i ks) rest g [] endtag) as (rest1 & ln1 & Ha & Hk1 & Hr1).
      cbn [app] in Ha. rewrite Ha.
      assert (Hr1' : Forall (lineD D) rest1 /\ csum rest1 <= 1 + csum rest /\ (endtag = None -> csum rest1 = csum rest)).
      { destruct Hr1 as [->|(Hne & a & ->)]; [split; [assumption|split; [lia|reflexivity]]|].
        split; [constructor; [apply pline_lineD|assumption]|]. cbn [csum]. unfold lcost. cbn.
        split; [lia|]. intros H; contradiction. }
      destruct Hr1' as (HrD & Hrc & Hrn).
      cbn [csum] in Hf. rewrite Hc in Hf.
      assert (Hk0 : Forall (kidD D) [ln1]).
      { constructor; [|constructor]. unfold kidD, line_ok, line_pfx. rewrite Hk1. cbn [tkind].
        split; [exact Hp|]. cbn [line_pfx tkind] in HlnD. lia. }
      destruct (absorb_spec D prefix endtag (2 * length (d ++ rest1 ++ [g]) + 1) d rest1 g [ln1] HrD) as
          (rest2 & kids2 & Hab & Hr2D & Hr2c & Hk2); [|exact Hk0|].
      { pose proof (csum_le rest1). rewrite !app_length. lia. }
      rewrite Hab.
      assert (Hk2ne : kids2 <> [] /\ 1 <= D).
      { (* absorb only appends; we only need that kids2 is non-empty and D >= 1: use the first kid *)
        split.
        - intro Hn. subst kids2.
          (* absorb never drops kids: prove via a length argument on the spec is not available, so use the definition *)
          clear - Hab.
          assert (Hlen : forall fuel lines sp kids lines' kids',
                     absorb fuel lines sp prefix endtag kids = POk (lines', kids') -> length kids <= length kids').
          { induction fuel as [|f IH]; intros lines sp kids lines' kids' H; cbn [absorb] in H; [discriminate|].
            destruct (sp <? length lines - 1); [|inversion H; subst; lia].
            destruct (nth_error lines sp) as [ln|]; [|discriminate].
            destruct (getchar ln) as [c|e]; [|discriminate].
            destruct (is_char c prefix && (1 <? length (line_pfx ln))); [|inversion H; subst; lia].
            unfold append_line in H. destruct (nth_error lines sp) as [ln'|]; [|discriminate].
            destruct endtag as [ol|].
            - destruct (find_endtag ol (tkids ln')) as [[b a]|]; apply IH in H; rewrite app_length in H; cbn in H; lia.
            - apply IH in H; rewrite app_length in H; cbn in H; lia. }
          apply Hlen in Hab. cbn in Hab. lia.
        - cbn [line_pfx tkind] in HlnD. lia. }
      destruct Hk2ne as [Hk2ne HD1].
      destruct (Hrec (map strip1 kids2)) as (kids3 & Hk3); [| |exact HD1|].
      { rewrite Forall_map. eapply Forall_impl; [|exact Hk2]. intros a Ha'. apply strip1_lineD. exact Ha'. }
      { destruct kids2; [contradiction|discriminate]. }
      rewrite Hk3. cbv zeta.
      destruct (split_dl prefix itemk kids3) as [[item' dx]|] eqn:Esp.
      - destruct (split_dl_inv _ _ _ _ _ Esp) as [Hsemi' Hdx].
        specialize (Hrn (Hsemi Hsemi')).
        exists rest2, (nkids ++ [item']), (Some dx), true. split; [reflexivity|].
        split; [exact Hr2D|]. split; [intros x Hx; inversion Hx; subst; exact Hdx|].
        unfold phi. cbn [csum]. rewrite Hc. destruct dd; split; intros; lia.
      - pose proof (dd_after_cases prefix kids3 dd) as Hda.
        assert (Hdd' : dd_ok (dd_after prefix kids3 dd) /\ phi rest2 (dd_after prefix kids3 dd) + 1 <= phi (Tok (KLine p tg) i ks :: rest) dd).
        { unfold phi. cbn [csum]. rewrite Hc.
          destruct Hda as [->| ->]; (split; [try exact Hdd; intros x Hx; discriminate|]); destruct dd; lia. }
        destruct Hdd' as [Hddok Hphi].
        destruct (match prefix with PcColon | PcSemi => true | _ => false end).
        + exists rest2, (nkids ++ [Tok itemk 0%N kids3]), (dd_after prefix kids3 dd), true.
          split; [reflexivity|]. split; [exact Hr2D|]. split; [exact Hddok|]. split; intros; lia.
        + destruct (IH d rest2 g (nkids ++ [Tok itemk 0%N kids3]) (dd_after prefix kids3 dd) Hr2D ltac:(lia) Hddok)
            as (rest' & nkids' & dd' & broke & Hci & H1 & H2 & H3 & _).
          exists rest', nkids', dd', broke. split; [exact Hci|]. split; [exact H1|]. split; [exact H2|].
          split; intros; lia.
    Qed.

    Lemma group_spec : forall fuel d rest g nkids dd,
      Forall (lineD D) rest -> phi rest dd < fuel -> dd_ok dd ->
      exists rest' nkids' dd',
        group_loop rec fuel (d ++ rest ++ [g]) (length d) prefix itemk endtag nkids dd = POk (d ++ rest' ++ [g], nkids', dd')
        /\ Forall (lineD D) rest' /\ dd_ok dd' /\ phi rest' dd' <= phi rest dd
        /\ (head_match rest prefix = true -> phi rest' dd' + 1 <= phi rest dd).
    Proof.
      induction fuel as [|f IH]; intros d rest g nkids dd Hr Hf Hdd; [lia|].
      cbn [group_loop]. rewrite loop_test.
      destruct rest as [|ln rest].
      { exists [], nkids, dd. cbn [head_match]. repeat split; auto. discriminate. }
      cbn [app]. rewrite nth_error_mid.
      inversion Hr as [|? ? [Hln HlnD] Hr']; subst.
      destruct (line_ok_inv ln Hln) as (p & tg & i & ks & -> & Hp).
      cbn [getchar tkind line_pfx head_match] in *.
      destruct (is_char (hd_error p) prefix) eqn:E.
      2:{ exists (Tok (KLine p tg) i ks :: rest), nkids, dd. cbn [app]. repeat split; auto. discriminate. }
      set (ln := Tok (KLine p tg) i ks) in *.
      destruct (collect_spec (2 * length (d ++ (ln :: rest) ++ [g]) + 1) d (ln :: rest) g nkids dd Hr) as
          (rest1 & nkids1 & dd1 & broke & Hci & H1 & H2 & H3 & H4); [|exact Hdd|].
      { pose proof (csum_le (ln :: rest)). rewrite !app_length. lia. }
      cbn [app] in Hci. rewrite Hci.
      assert (Hm : head_match (ln :: rest) prefix = true) by exact E.
      specialize (H4 Hm).
      destruct broke.
      - exists rest1, nkids1, dd1. split; [reflexivity|]. split; [exact H1|]. split; [exact H2|]. split; intros; lia.
      - assert (Hlt : phi rest1 dd1 < f) by lia.
        destruct (IH d rest1 g nkids1 dd1 H1 Hlt H2) as (rest' & nkids' & dd' & Hg & G1 & G2 & G3 & _).
        exists rest', nkids', dd'. split; [exact Hg|]. split; [exact G1|]. split; [exact G2|]. split; intros; lia.
    Qed.
  End Group.

  Lemma node_and_item_semi : forall prefix nodek itemk endtag,
    node_and_item prefix = Some (nodek, itemk, endtag) ->
    (prefix = PcSemi -> endtag = None) /\ tw (Tok nodek 0%N []) = 1.
  Proof.
    intros prefix nodek itemk endtag H. destruct prefix; cbn in H; inversion H; subst; split; auto; discriminate.
  Qed.

  (* outer loop of analyze: state (startpos, lines) with lines = done ++ rest ++ [guard] *)
  Definition an_inv (n : nat) (s : nat * list tok) : Prop :=
    exists d rest g, snd s = d ++ rest ++ [g] /\ fst s = length d
                     /\ Forall (lineD D) rest /\ Forall (fun t => tw t = 1) d /\ length d + csum rest <= n.
  Definition an_mu (s : nat * list tok) : nat := csum (skipn (fst s) (snd s)).
  Definition an_post (n : nat) (out : list tok) : Prop := length out <= n /\ Forall (fun t => tw t = 1) out.

  Lemma tw_kind : forall k i ks i' ks', tw (Tok k i ks) = tw (Tok k i' ks').
  Proof. reflexivity. Qed.

  Lemma analyze_step_ok : forall n s, an_inv n s ->
    match analyze_step rec s with
    | Continue s' => an_inv n s' /\ an_mu s' < an_mu s
    | Done r => an_post n r
    | Fail _ => False
    end.
  Proof.
    intros n [sp lines] (d & rest & g & Hl & Hsp & Hr & Hd & Hn). cbn [fst snd] in *. subst sp lines.
    unfold analyze_step. rewrite loop_test.
    destruct rest as [|ln rest].
    { cbn [app]. rewrite removelast_last. split; [cbn [csum] in Hn; lia|exact Hd]. }
    cbn [app]. rewrite nth_error_mid.
    inversion Hr as [|? ? [Hln HlnD] Hr']; subst.
    destruct (line_ok_inv ln Hln) as (p & tg & i & ks & -> & Hp).
    cbn [getchar tkind line_pfx] in *.
    destruct p as [|prefix p]; cbn [hd_error].
    - (* no prefix *)
      split; [|unfold an_mu; cbn [fst snd]; rewrite set_nth_mid;
               replace (d ++ no_prefix (Tok (KLine [] tg) i ks) :: rest ++ [g])
                 with ((d ++ [no_prefix (Tok (KLine [] tg) i ks)]) ++ rest ++ [g]) by (rewrite <- app_assoc; reflexivity);
               replace (S (length d)) with (length (d ++ [no_prefix (Tok (KLine [] tg) i ks)])) by (rewrite app_length; cbn; lia);
               rewrite !skipn_mid; cbn [csum app]; unfold lcost; cbn [line_pfx tkind]; lia].
      exists (d ++ [no_prefix (Tok (KLine [] tg) i ks)]), rest, g. cbn [fst snd].
      split; [rewrite set_nth_mid, <- app_assoc; reflexivity|].
      split; [rewrite app_length; cbn; lia|]. split; [exact Hr'|].
      split; [apply Forall_app; split; [exact Hd|constructor; [destruct tg; reflexivity|constructor]]|].
      rewrite app_length. cbn [length csum] in *. unfold lcost in Hn. cbn in Hn. lia.
    - cbn [pfx_ok forallb] in Hp. apply andb_true_iff in Hp. destruct Hp as [Hpc Hp].
      destruct (node_and_item prefix) as [[[nodek itemk] endtag]|] eqn:En; [|destruct prefix; cbn in *; discriminate].
      destruct (node_and_item_semi _ _ _ _ En) as [Hsemi Hnodew].
      set (ln := Tok (KLine (prefix :: p) tg) i ks) in *.
      assert (Hr0 : Forall (lineD D) (ln :: rest)).
      { constructor; [split; [|exact HlnD]|exact Hr']. unfold line_ok, ln. cbn [tkind pfx_ok forallb]. rewrite Hpc, Hp. reflexivity. }
      destruct (group_spec prefix itemk endtag Hsemi (2 * length (d ++ (ln :: rest) ++ [g]) + 1) d (ln :: rest) g [] None Hr0)
        as (rest1 & nkids & dd & Hg & G1 & G2 & _ & G4).
      { pose proof (csum_le (ln :: rest)). unfold phi. rewrite !app_length. cbn [length] in *. lia. }
      { intros x Hx; discriminate. }
      cbn [app] in Hg. rewrite Hg.
      assert (Hm : head_match (ln :: rest) prefix = true).
      { cbn [head_match line_pfx tkind ln hd_error is_char]. destruct prefix; reflexivity. }
      specialize (G4 Hm). unfold phi in G4. cbn [csum] in *.
      rewrite firstn_mid, skipn_mid.
      assert (Hnw : tw (Tok nodek 0%N nkids) = 1) by exact Hnodew.
      destruct dd as [dx|].
      + assert (Heq : firstn (S (length d)) (d ++ Tok nodek 0%N nkids :: rest1 ++ [g]) ++ dx :: skipn (S (length d)) (d ++ Tok nodek 0%N nkids :: rest1 ++ [g])
                      = (d ++ [Tok nodek 0%N nkids; dx]) ++ rest1 ++ [g]).
        { replace (d ++ Tok nodek 0%N nkids :: rest1 ++ [g]) with ((d ++ [Tok nodek 0%N nkids]) ++ rest1 ++ [g])
            by (rewrite <- app_assoc; reflexivity).
          replace (S (length d)) with (length (d ++ [Tok nodek 0%N nkids])) by (rewrite app_length; cbn; lia).
          rewrite firstn_mid, skipn_mid. rewrite <- !app_assoc. reflexivity. }
        rewrite Heq.
        split; [|unfold an_mu; cbn [fst snd];
                 replace (S (S (length d))) with (length (d ++ [Tok nodek 0%N nkids; dx])) by (rewrite app_length; cbn; lia);
                 rewrite !skipn_mid; cbn [csum]; rewrite !csum_app; cbn [csum]; lia].
        exists (d ++ [Tok nodek 0%N nkids; dx]), rest1, g. cbn [fst snd].
        split; [reflexivity|].
        split; [rewrite app_length; cbn; lia|]. split; [exact G1|].
        split; [apply Forall_app; split; [exact Hd|constructor; [exact Hnw|constructor; [apply G2; reflexivity|constructor]]]|].
        rewrite app_length. cbn [length]. lia.
      + split; [|unfold an_mu; cbn [fst snd];
                 replace (d ++ Tok nodek 0%N nkids :: rest1 ++ [g]) with ((d ++ [Tok nodek 0%N nkids]) ++ rest1 ++ [g])
                   by (rewrite <- app_assoc; reflexivity);
                 replace (S (length d)) with (length (d ++ [Tok nodek 0%N nkids])) by (rewrite app_length; cbn; lia);
                 rewrite !skipn_mid; cbn [csum]; rewrite !csum_app; cbn [csum]; lia].
        exists (d ++ [Tok nodek 0%N nkids]), rest1, g. cbn [fst snd].
        split; [rewrite <- app_assoc; reflexivity|].
        split; [rewrite app_length; cbn; lia|]. split; [exact G1|].
        split; [apply Forall_app; split; [exact Hd|constructor; [exact Hnw|constructor]]|].
        rewrite app_length. cbn [length]. lia.
  Qed.
End AnalyzeProof.

Section IterPost.
  Context {St R : Type}.
  Variable step : St -> stepres St R.
  Variable Inv : St -> Prop.
  Variable mu : St -> nat.
  Variable Post : R -> Prop.
  Hypothesis Hstep : forall s, Inv s ->
    match step s with
    | Continue s' => Inv s' /\ mu s' < mu s
    | Done r => Post r
    | Fail _ => False
    end.

  Lemma iter_terminates_post : forall fuel n s, Inv s -> mu s < fuel ->
    exists r k, iter step fuel n s = POk (r, k) /\ Post r.
  Proof.
    induction fuel as [|f IH]; intros n s Hi Hm; [lia|].
    cbn [iter]. pose proof (Hstep s Hi) as H.
    destruct (step s) as [s'|r|e].
    - destruct H as [Hi' Hlt]. apply IH; [exact Hi'|lia].
    - exists r, n. split; [reflexivity|exact H].
    - contradiction.
  Qed.
End IterPost.

Lemma analyze_core : forall D rec,
  (forall K, Forall (lineD (D - 1)) K -> K <> [] -> 1 <= D -> exists out, rec K = POk out) ->
  forall L, Forall (lineD D) L ->
  exists out k, iter (analyze_step rec) (2 * length L + 3) 0 (0, L ++ [guard_line]) = POk (out, k)
                /\ an_post (2 * length L) out.
Proof.
  intros D rec Hrec L HL.
  apply (iter_terminates_post (analyze_step rec) (an_inv D (2 * length L)) an_mu (an_post (2 * length L))
           (analyze_step_ok D rec Hrec (2 * length L))).
  - exists [], L, guard_line. cbn [fst snd app length]. split; [reflexivity|]. split; [reflexivity|].
    split; [exact HL|]. split; [constructor|]. pose proof (csum_le L). lia.
  - unfold an_mu. cbn [fst snd skipn]. rewrite csum_app. cbn [csum]. unfold lcost. cbn [line_pfx tkind guard_line].
    pose proof (csum_le L). lia.
Qed.

Lemma analyze_S : forall d L,
  analyze (S d) L = match iter (analyze_step (analyze d)) (2 * length L + 3) 0 (0, L ++ [guard_line]) with
                    | POk (r, _) => POk r
                    | PRaise e => PRaise e
                    end.
Proof. reflexivity. Qed.

(* analyze with recursion depth D+1 on lines whose prefixes are at most D long *)
Lemma analyze_spec : forall D L, Forall (lineD D) L ->
  exists out, analyze (S D) L = POk out /\ length out <= 2 * length L /\ Forall (fun t => tw t = 1) out.
Proof.
  induction D as [|D IH]; intros L HL; rewrite analyze_S.
  - destruct (analyze_core 0 (analyze 0)) with (L := L) as (out & k & Hr & Hp1 & Hp2); [intros; lia|exact HL|].
    rewrite Hr. exists out. auto.
  - destruct (analyze_core (S D) (analyze (S D))) with (L := L) as (out & k & Hr & Hp1 & Hp2); [|exact HL|].
    + intros K HK _ _. replace (S D - 1) with D in HK by lia.
      destruct (IH K HK) as (out & Ho & _). exists out. exact Ho.
    + rewrite Hr. exists out. auto.
Qed.

Lemma max_pfx_ge : forall L l, In l L -> length (line_pfx l) <= max_pfx L.
Proof.
  induction L as [|x L IH]; intros l H; [contradiction|]. cbn [max_pfx].
  destruct H as [->|H]; [lia|]. specialize (IH l H). lia.
Qed.

(* the hypothesis Hana of lin_run_total_given_analyze, for the model of analyze *)
Lemma analyze_full_ok : forall L, L <> [] -> Forall line_ok L ->
  exists out, analyze_full L = POk out /\ length out <= 2 * length L /\ Forall (fun t => tw t = 1) out.
Proof.
  intros L _ HL. unfold analyze_full.
  replace (max_pfx L + 2) with (S (max_pfx L + 1)) by lia.
  apply analyze_spec. rewrite Forall_forall in *. intros l Hl. split; [apply HL; exact Hl|].
  pose proof (max_pfx_ge L l Hl). lia.
Qed.

(* ParseLines.analyze: no exception, no fuel exhaustion, at most two nodes per line *)
Theorem analyze_total : forall L, Forall line_ok L ->
  exists out, analyze_full L = POk out /\ length out <= 2 * length L.
Proof.
  intros L HL. destruct L as [|l L'].
  - unfold analyze_full. replace (max_pfx [] + 2) with (S (max_pfx [] + 1)) by lia.
    destruct (analyze_spec (max_pfx [] + 1) []) as (out & Ho & Hl & _); [constructor|]. exists out. auto.
  - destruct (analyze_full_ok (l :: L') ltac:(discriminate) HL) as (out & Ho & Hl & _). exists out. auto.
Qed.

(* ParseLines.run (with analyze / collect_items): within fuel 4*len+1 the loop ends, nothing is raised *)
Theorem lin_run_total : forall toks, Forall tok_ok toks ->
  exists r iters, lin_run (lin_fuel toks) toks = POk (r, iters) /\ iters <= 4 * length toks.
Proof. exact (lin_run_total_given_analyze analyze_full analyze_full_ok). Qed.

(* non-vacuity: a well-formed list; the model results on it; an ill-formed prefix does raise in the model
   (AttributeError of `node.children = []` with node = None, core.py:484/416 — not producible by the scanner) *)
Lemma passes_examples :
  Forall tok_ok [Tok (KItem [PcStar]) 1%N []; Tok KOther 2%N []; Tok KNewline 3%N []]
  /\ lin_run 13 [Tok (KItem [PcStar]) 1%N []; Tok KOther 2%N []; Tok KNewline 3%N []]
     = POk ([Tok (KTag Tul false) 0%N [Tok (KTag Tli true) 0%N [Tok (KNode false) 0%N [Tok KOther 2%N []; Tok KNewline 3%N []]]]], 3)
  /\ lin_run 9 [Tok (KItem [PcOther]) 1%N []; Tok KNewline 2%N []] = PRaise PAttr
  /\ sec_run 9 [Tok (KSection 2) 1%N []; Tok KOther 2%N []; Tok (KSectionEnd 2) 3%N []; Tok KOther 4%N []]
     = POk ([Tok (KSect 2) 0%N [Tok (KNode false) 0%N [Tok KOther 2%N []]; Tok (KNode false) 0%N [Tok KOther 4%N []]]], 4).
Proof.
  split; [repeat (constructor; try reflexivity)|]. split; [vm_compute; reflexivity|]. split; vm_compute; reflexivity.
Qed.
