(* C01 — property theorems only (each closed by `exact <lemma>` and followed by Print Assumptions). *)
From Coq Require Import List NArith ZArith Bool Permutation.
From MW Require Import Common.Str C01.Model C01.Proofs C01.Gen_resolve C01.ProofsGen C01.Passes C01.ProofsPasses C01.ProofsPassesAnalyze.
Import ListNotations.

(* resolve_entity (util.py:212) with the except clause read from /repo on this run: for EVERY int() (any function
   that either raises ValueError or returns an integer of any size), every name table with valid code points and
   every entity string '&' body ';' (the only shape the scanner rule and the regex &[^;]*; produce), the call
   returns a string; no ValueError/OverflowError/IndexError/KeyError escapes. *)
Theorem C01_resolve_entity_total :
  forall (pyint : Z -> str -> option Z) (name2cp : str -> option Z),
  (forall s z, name2cp s = Some z -> (0 <= z < 1114112)%Z) ->
  forall body, exists s,
    resolve_entity pyint name2cp caught_numeric surrogate_guard (38%N :: body ++ [59%N]) = Ok s.
Proof. exact resolve_entity_total_gen. Qed.
Print Assumptions C01_resolve_entity_total.

(* the original defect: catching ValueError only lets an OverflowError escape for some digit string *)
Theorem C01_resolve_entity_valueerror_only_refuted :
  exists e, resolve_entity ascii_int (fun _ => None) [EValue] false e = Raise EOverflow.
Proof. exact resolve_entity_valueerror_only_escapes. Qed.
Print Assumptions C01_resolve_entity_valueerror_only_refuted.

Example C01_resolve_entity_example :
  let e := [38;35;57;57;57;57;57;57;57;57;57;57;57;59]%N in
  resolve_entity ascii_int (fun _ => None) caught_numeric surrogate_guard e = Ok e /\
  resolve_entity ascii_int (fun _ => None) caught_numeric surrogate_guard [38;35;54;53;59]%N = Ok [65%N] /\
  resolve_entity ascii_int (fun _ => None) caught_numeric surrogate_guard [38;35;120;49;49;48;48;48;48;59]%N
    = Ok [38;35;120;49;49;48;48;48;48;59]%N.
Proof. exact resolve_entity_example. Qed.
Print Assumptions C01_resolve_entity_example.

(* styleanalyzer.compute_path (styleanalyzer.py:90): for every list of apostrophe-run lengths >= 2 and EVERY
   tie-breaking order of sort_states (any sorter that permutes its input; the real one orders equal scores by id()),
   the call returns Ok with exactly one state per count (InconsistentPathLengthException, IndexError, ValueError
   never raised), at most 6*32 = 192 successor states are generated per step, hence at most 192*n in total. *)
Theorem C01_compute_path_bounded :
  forall sorter : list pst -> list pst, (forall l, Permutation (sorter l) l) ->
  forall counts, Forall (fun c => 2 <= c) counts ->
  exists path work, compute_path_work sorter counts = Ok (path, work) /\
    length path = length counts /\ length work = length counts /\
    Forall (fun k => k <= 192) work /\ fold_right plus 0 work <= 192 * length counts.
Proof. exact compute_path_bounded. Qed.
Print Assumptions C01_compute_path_bounded.

Example C01_compute_path_example :
  compute_path stable_sort [2; 3; 3; 2] =
    Ok [mkst 0 false true; mkst 0 true true; mkst 0 false true; mkst 0 false false] /\
  compute_path stable_sort [3; 2] = Ok [mkst 1 false true; mkst 1 false false] /\
  compute_path stable_sort [1] = Raise EValue.
Proof. exact compute_path_example. Qed.
Print Assumptions C01_compute_path_example.

(* ------------------------------------------------------------------------------------------------------------------
   The index-walking loops of the refinement passes (core.py; models in C01/Passes.v, one `step` per loop iteration, list
   splices by firstn/skipn, tied to the real passes on abstract token lists by vt/harness/c01_passtie.py).  Each theorem:
   for EVERY token list the fuelled loop returns a result — it never runs out of fuel (explicit measure that decreases
   with every iteration: the loop either advances or shrinks the list), never raises — within a linear number of
   iterations. *)
Theorem C01_ParseSections_total : forall toks,
  exists r iters, sec_run (sec_fuel toks) toks = POk (r, iters) /\ iters <= 2 * length toks.
Proof. exact sec_run_total. Qed.
Print Assumptions C01_ParseSections_total.

(* tok_ok: item/colon prefixes are over : * # ; (what the scanner rules _uscan.re t_item and utoken.py t_colon produce) *)
Theorem C01_ParseLines_total : forall toks, Forall tok_ok toks ->
  exists r iters, lin_run (lin_fuel toks) toks = POk (r, iters) /\ iters <= 4 * length toks.
Proof. exact lin_run_total. Qed.
Print Assumptions C01_ParseLines_total.

Theorem C01_ParseLines_analyze_total : forall L, Forall line_ok L ->
  exists out, analyze_full L = POk out /\ length out <= 2 * length L.
Proof. exact analyze_total. Qed.
Print Assumptions C01_ParseLines_analyze_total.

Theorem C01_ParseParagraphs_total : forall toks,
  exists r iters, par_run (par_fuel toks) toks = POk (r, iters) /\ iters <= 2 * length toks.
Proof. exact par_run_total. Qed.
Print Assumptions C01_ParseParagraphs_total.

(* compute_path is a parameter: any function that returns one state per count for counts >= 2 — which is what
   C01_compute_path_bounded proves of the model of styleanalyzer.compute_path; qtok_ok: apostrophe runs have length >= 2 *)
Theorem C01_ParseSingleQuote_total : forall cpath : list nat -> pres (list qst),
  (forall counts, Forall (fun c => 2 <= c) counts ->
     exists states, cpath counts = POk states /\ length states = length counts) ->
  forall toks, Forall qtok_ok toks ->
  exists r iters, sq_run cpath (sq_fuel toks) toks = POk (r, iters) /\ iters <= 2 * length toks.
Proof. exact sq_run_total. Qed.
Print Assumptions C01_ParseSingleQuote_total.

Theorem C01_ParseUrls_total : forall toks,
  exists r iters, url_run (url_fuel toks) toks = POk (r, iters) /\ iters <= 3 * length toks.
Proof. exact url_run_total. Qed.
Print Assumptions C01_ParseUrls_total.

(* non-vacuity: a well-formed list and the model's results; a prefix outside : * # ; does raise in the model *)
Example C01_passes_examples :
  Forall tok_ok [Tok (KItem [PcStar]) 1%N []; Tok KOther 2%N []; Tok KNewline 3%N []]
  /\ lin_run 13 [Tok (KItem [PcStar]) 1%N []; Tok KOther 2%N []; Tok KNewline 3%N []]
     = POk ([Tok (KTag Tul false) 0%N [Tok (KTag Tli true) 0%N [Tok (KNode false) 0%N [Tok KOther 2%N []; Tok KNewline 3%N []]]]], 3)
  /\ lin_run 9 [Tok (KItem [PcOther]) 1%N []; Tok KNewline 2%N []] = PRaise PAttr
  /\ sec_run 9 [Tok (KSection 2) 1%N []; Tok KOther 2%N []; Tok (KSectionEnd 2) 3%N []; Tok KOther 4%N []]
     = POk ([Tok (KSect 2) 0%N [Tok (KNode false) 0%N [Tok KOther 2%N []]; Tok (KNode false) 0%N [Tok KOther 4%N []]]], 4).
Proof. exact passes_examples. Qed.
Print Assumptions C01_passes_examples.
