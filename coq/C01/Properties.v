(* C01 — property theorems only (each closed by `exact <lemma>` and followed by Print Assumptions). *)
From Coq Require Import List NArith ZArith Bool Permutation.
From MW Require Import Common.Str C01.Model C01.Proofs C01.Gen_resolve C01.ProofsGen C01.Passes C01.ProofsPasses C01.ProofsPassesAnalyze C01.PassesPre C01.ProofsPassesPre C01.PassesTable C01.ProofsPassesTable C01.PassesPost C01.ProofsPassesPost C01.Gen_post C01.ProofsPostGen.
Import ListNotations.

(* resolve_entity (util.py:212) with the except clause read from /repo on this run: for EVERY int() (any function
   that either raises ValueError or returns an integer of any size), every name table with valid code points and
   every entity string '&' body ';' (the only shape the scanner rule and the regex &[^;]*; produce), the call
   returns a string; no ValueError/OverflowError/IndexError/KeyError escapes. *)
Theorem C01_resolve_entity_total :
  forall (pyint : Z -> str -> option Z) (name2cp : str -> option Z),
  (forall s z, name2cp s = Some z -> (0 <= z < 1114112)%Z) ->
  forall body, exists s,
    resolve_entity pyint name2cp caught_numeric surrogate_guard (38%N :: body ++ [59%N]) = Ok s.
Proof. exact resolve_entity_total_gen. Qed.
Print Assumptions C01_resolve_entity_total.

(* the original defect: catching ValueError only lets an OverflowError escape for some digit string *)
Theorem C01_resolve_entity_valueerror_only_refuted :
  exists e, resolve_entity ascii_int (fun _ => None) [EValue] false e = Raise EOverflow.
Proof. exact resolve_entity_valueerror_only_escapes. Qed.
Print Assumptions C01_resolve_entity_valueerror_only_refuted.

Example C01_resolve_entity_example :
  let e := [38;35;57;57;57;57;57;57;57;57;57;57;57;59]%N in
  resolve_entity ascii_int (fun _ => None) caught_numeric surrogate_guard e = Ok e /\
  resolve_entity ascii_int (fun _ => None) caught_numeric surrogate_guard [38;35;54;53;59]%N = Ok [65%N] /\
  resolve_entity ascii_int (fun _ => None) caught_numeric surrogate_guard [38;35;120;49;49;48;48;48;48;59]%N
    = Ok [38;35;120;49;49;48;48;48;48;59]%N.
Proof. exact resolve_entity_example. Qed.
Print Assumptions C01_resolve_entity_example.

(* styleanalyzer.compute_path (styleanalyzer.py:90): for every list of apostrophe-run lengths >= 2 and EVERY
   tie-breaking order of sort_states (any sorter that permutes its input; the real one orders equal scores by id()),
   the call returns Ok with exactly one state per count (InconsistentPathLengthException, IndexError, ValueError
   never raised), at most 6*32 = 192 successor states are generated per step, hence at most 192*n in total. *)
Theorem C01_compute_path_bounded :
  forall sorter : list pst -> list pst, (forall l, Permutation (sorter l) l) ->
  forall counts, Forall (fun c => 2 <= c) counts ->
  exists path work, compute_path_work sorter counts = Ok (path, work) /\
    length path = length counts /\ length work = length counts /\
    Forall (fun k => k <= 192) work /\ fold_right plus 0 work <= 192 * length counts.
Proof. exact compute_path_bounded. Qed.
Print Assumptions C01_compute_path_bounded.

Example C01_compute_path_example :
  compute_path stable_sort [2; 3; 3; 2] =
    Ok [mkst 0 false true; mkst 0 true true; mkst 0 false true; mkst 0 false false] /\
  compute_path stable_sort [3; 2] = Ok [mkst 1 false true; mkst 1 false false] /\
  compute_path stable_sort [1] = Raise EValue.
Proof. exact compute_path_example. Qed.
Print Assumptions C01_compute_path_example.

(* ------------------------------------------------------------------------------------------------------------------
   The index-walking loops of the refinement passes (core.py; models in C01/Passes.v, one `step` per loop iteration, list
   splices by firstn/skipn, tied to the real passes on abstract token lists by vt/harness/c01_passtie.py).  Each theorem:
   for EVERY token list the fuelled loop returns a result — it never runs out of fuel (explicit measure that decreases
   with every iteration: the loop either advances or shrinks the list), never raises — within a linear number of
   iterations. *)
Theorem C01_ParseSections_total : forall toks,
  exists r iters, sec_run (sec_fuel toks) toks = POk (r, iters) /\ iters <= 2 * length toks.
Proof. exact sec_run_total. Qed.
Print Assumptions C01_ParseSections_total.

(* tok_ok: item/colon prefixes are over : * # ; (what the scanner rules _uscan.re t_item and utoken.py t_colon produce) *)
Theorem C01_ParseLines_total : forall toks, Forall tok_ok toks ->
  exists r iters, lin_run (lin_fuel toks) toks = POk (r, iters) /\ iters <= 4 * length toks.
Proof. exact lin_run_total. Qed.
Print Assumptions C01_ParseLines_total.

Theorem C01_ParseLines_analyze_total : forall L, Forall line_ok L ->
  exists out, analyze_full L = POk out /\ length out <= 2 * length L.
Proof. exact analyze_total. Qed.
Print Assumptions C01_ParseLines_analyze_total.

Theorem C01_ParseParagraphs_total : forall toks,
  exists r iters, par_run (par_fuel toks) toks = POk (r, iters) /\ iters <= 2 * length toks.
Proof. exact par_run_total. Qed.
Print Assumptions C01_ParseParagraphs_total.

(* compute_path is a parameter: any function that returns one state per count for counts >= 2 — which is what
   C01_compute_path_bounded proves of the model of styleanalyzer.compute_path; qtok_ok: apostrophe runs have length >= 2 *)
Theorem C01_ParseSingleQuote_total : forall cpath : list nat -> pres (list qst),
  (forall counts, Forall (fun c => 2 <= c) counts ->
     exists states, cpath counts = POk states /\ length states = length counts) ->
  forall toks, Forall qtok_ok toks ->
  exists r iters, sq_run cpath (sq_fuel toks) toks = POk (r, iters) /\ iters <= 2 * length toks.
Proof. exact sq_run_total. Qed.
Print Assumptions C01_ParseSingleQuote_total.

Theorem C01_ParseUrls_total : forall toks,
  exists r iters, url_run (url_fuel toks) toks = POk (r, iters) /\ iters <= 3 * length toks.
Proof. exact url_run_total. Qed.
Print Assumptions C01_ParseUrls_total.

(* non-vacuity: a well-formed list and the model's results; a prefix outside : * # ; does raise in the model *)
Example C01_passes_examples :
  Forall tok_ok [Tok (KItem [PcStar]) 1%N []; Tok KOther 2%N []; Tok KNewline 3%N []]
  /\ lin_run 13 [Tok (KItem [PcStar]) 1%N []; Tok KOther 2%N []; Tok KNewline 3%N []]
     = POk ([Tok (KTag Tul false) 0%N [Tok (KTag Tli true) 0%N [Tok (KNode false) 0%N [Tok KOther 2%N []; Tok KNewline 3%N []]]]], 3)
  /\ lin_run 9 [Tok (KItem [PcOther]) 1%N []; Tok KNewline 2%N []] = PRaise PAttr
  /\ sec_run 9 [Tok (KSection 2) 1%N []; Tok KOther 2%N []; Tok (KSectionEnd 2) 3%N []; Tok KOther 4%N []]
     = POk ([Tok (KSect 2) 0%N [Tok (KNode false) 0%N [Tok KOther 2%N []]; Tok (KNode false) 0%N [Tok KOther 4%N []]]], 4).
Proof. exact passes_examples. Qed.
Print Assumptions C01_passes_examples.

(* ------------------------------------------------------------------------------------------------------------------
   ParsePreformatted.run (core.py:365-385; model in C01/PassesPre.v): for EVERY token list the loop ends within
   len(tokens) iterations (measure len(tokens) - i) and raises nothing (tokens[start - 1] is always in range). *)
Theorem C01_ParsePreformatted_total : forall toks,
  exists r iters, pre_run (pre_fuel toks) toks = POk (r, iters) /\ iters <= 1 * length toks.
Proof. exact pre_run_total. Qed.
Print Assumptions C01_ParsePreformatted_total.

(* non-vacuity: two " " lines become one preformatted node in 6 iterations (fuel 7 = pre_fuel); a block node cancels the
   open line; one unit of fuel less than pre_fuel is not enough *)
Example C01_ParsePreformatted_examples :
  pre_run 7 [GTok XPre 1%N []; GTok XOther 2%N []; GTok XNewline 3%N [];
             GTok XPre 4%N []; GTok XOther 5%N []; GTok XNewline 6%N []]
  = POk ([GTok XPreformatted 0%N [GTok XOther 2%N []; GTok XNewline 3%N []; GTok XOther 5%N []; GTok XNewline 6%N []]], 6)
  /\ pre_run 4 [GTok XPre 1%N []; GTok XBlock 2%N []; GTok XNewline 3%N []]
     = POk ([GTok XPre 1%N []; GTok XBlock 2%N []; GTok XNewline 3%N []], 3)
  /\ pre_run 3 [GTok XPre 1%N []; GTok XBlock 2%N []; GTok XNewline 3%N []] = PRaise PFuel.
Proof. exact pre_examples. Qed.
Print Assumptions C01_ParsePreformatted_examples.

(* ------------------------------------------------------------------------------------------------------------------
   The table parser (parse_table.py; models in C01/PassesTable.v).  For EVERY token list:
   TableCellParser.run (l.75-103, make_cell, replace_tablecaption, find_modifier) ends within len(tokens) iterations
   (measure len(tokens) - index) and raises nothing (tokens[start] is always a cell start token, its text a string). *)
Theorem C01_TableCellParser_total : forall toks,
  exists r iters, cell_run (cell_fuel toks) toks = POk (r, iters) /\ iters <= 1 * length toks.
Proof. exact cell_run_total. Qed.
Print Assumptions C01_TableCellParser_total.

(* TableRowParser.run (l.183-223) including the nested TableCellParser run on the children of every row *)
Theorem C01_TableRowParser_total : forall toks,
  exists r iters, row_run (row_fuel toks) toks = POk (r, iters) /\ iters <= 1 * length toks.
Proof. exact row_run_total. Qed.
Print Assumptions C01_TableRowParser_total.

(* TableParser.run (l.303-346): the main loop and `while stack: make_table()` together take at most 2*len(tokens)
   iterations (measure 2*(len(tokens) - index) + len(stack)); make_table (find_modifier, the nested TableRowParser /
   TableCellParser runs, find_caption) raises nothing: every stack entry is the position of a table start token *)
Theorem C01_TableParser_total : forall toks,
  exists r iters, tab_run (tab_fuel toks) toks = POk (r, iters) /\ iters <= 2 * length toks.
Proof. exact tab_run_total. Qed.
Print Assumptions C01_TableParser_total.

(* non-vacuity:  {| NL |- NL | x || y NL  (unclosed)  becomes table(NL, row(NL, cell(x), cell(y, NL))) in 10 iterations with
   fuel 19 = tab_fuel; "! x |" is a header cell whose modifier part is cut; make_cell on a start token without text
   does raise in the model (excluded by the invariant of the loop, not by the model) *)
Example C01_table_examples :
  tab_run 19 [GTok TBegin 1%N []; GTok TNewline 2%N []; GTok TRow 3%N []; GTok TNewline 4%N [];
              GTok (TColumn MBar) 5%N []; GTok (TOther false) 6%N []; GTok (TColumn M2Bar) 7%N [];
              GTok (TOther false) 8%N []; GTok TNewline 9%N []]
  = POk ([GTok TTable 0%N [GTok TNewline 2%N [];
            GTok TRowNode 0%N [GTok TNewline 4%N []; GTok (TCell false) 0%N [GTok (TOther false) 6%N []];
                               GTok (TCell false) 0%N [GTok (TOther false) 8%N []; GTok TNewline 9%N []]]]], 10)
  /\ cell_run 4 [GTok (TColumn MBang) 1%N []; GTok (TOther false) 2%N []; GTok TBar 3%N []]
     = POk ([GTok (TCell true) 0%N []], 3)
  /\ make_cell [GTok TRowNode 1%N []; GTok (TOther false) 2%N []] 0 2 0 false = PRaise PAttr.
Proof. exact table_examples. Qed.
Print Assumptions C01_table_examples.

(* ------------------------------------------------------------------------------------------------------------------
   The post-processor remove_boilerplate (post_processors.py:31-49; model in C01/PassesPost.v), run by parse_string on
   the finished article (uparser.py:102).  post_cfg = the attribute through which the class of a <div> is looked up
   and the exception classes of the except clause, both read from /repo on this run (vt/gen/c01_post.py, fail-closed).
   For EVERY article tree - any nesting, any mix of node kinds, <div> nodes whose class is absent, an int (parse_params
   stores int(value) whenever int() accepts the text) or a str with or without 'boilerplate' - the call returns a tree:
   neither the TypeError of `'boilerplate' in <int>` nor the AttributeError of the lookup escapes, and the recursion
   is bounded by the height of the tree. *)
Theorem C01_remove_boilerplate_total : forall n, exists n', rb post_cfg (height n) n = ROk n'.
Proof. exact remove_boilerplate_total_gen. Qed.
Print Assumptions C01_remove_boilerplate_total.

(* the same for every configuration the translator can produce that passes the computed test cfg_safe *)
Theorem C01_remove_boilerplate_total_safe_cfg : forall c, cfg_safe c = true ->
  forall n, exists n', rb c (height n) n = ROk n'.
Proof. exact rb_total. Qed.
Print Assumptions C01_remove_boilerplate_total_safe_cfg.

(* the root keeps its kind and never gains children *)
Theorem C01_remove_boilerplate_root : forall c f k ch n', rb c (S f) (Node k ch) = ROk n' ->
  exists ch', n' = Node k ch' /\ length ch' <= length ch.
Proof. exact rb_root. Qed.
Print Assumptions C01_remove_boilerplate_root.

(* looking the class up in the attribute dict (child.vlist) makes the function partial whatever the except clause
   catches, because the `in` test is outside the try: <div class=5> three levels down raises TypeError *)
Theorem C01_remove_boilerplate_vlist_refuted : forall caught,
  let n := Node KOtherNode [Node KOtherNode [Node (KDiv (Some AInt)) [Node KText []]]] in
  rb {| cfg_lookup := LVlist; cfg_caught := caught |} (height n) n = RRaise PTypeError.
Proof. exact rb_vlist_raises. Qed.
Print Assumptions C01_remove_boilerplate_vlist_refuted.

(* non-vacuity: as the code stands nothing is deleted; with the attribute dict a boilerplate div goes with its subtree
   and a numeric class raises; fuel below the height runs out *)
Example C01_remove_boilerplate_examples :
  let t := Node KOtherNode [Node (KDiv (Some (AStr true))) [Node KText []]; Node KText [];
                        Node KTagNode [Node (KDiv (Some AInt)) []]] in
  let t2 := Node KOtherNode [Node (KDiv (Some (AStr true))) [Node KText []]; Node KText []] in
  rb {| cfg_lookup := LAbsent; cfg_caught := [PAttributeError] |} (height t) t = ROk t /\
  rb {| cfg_lookup := LVlist; cfg_caught := [PAttributeError] |} (height t2) t2 = ROk (Node KOtherNode [Node KText []]) /\
  rb {| cfg_lookup := LVlist; cfg_caught := [PAttributeError] |} (height t) t = RRaise PTypeError /\
  rb {| cfg_lookup := LAbsent; cfg_caught := [PAttributeError] |} 2 t = RFuel.
Proof. exact rb_examples. Qed.
Print Assumptions C01_remove_boilerplate_examples.
