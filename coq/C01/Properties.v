(* C01 — property theorems only (each closed by `exact <lemma>` and followed by Print Assumptions). *)
From Coq Require Import List NArith ZArith Bool Permutation.
From MW Require Import Common.Str C01.Model C01.Proofs C01.Gen_resolve C01.ProofsGen.
Import ListNotations.

(* resolve_entity (util.py:212) with the except clause read from /repo on this run: for EVERY int() (any function
   that either raises ValueError or returns an integer of any size), every name table with valid code points and
   every entity string '&' body ';' (the only shape the scanner rule and the regex &[^;]*; produce), the call
   returns a string; no ValueError/OverflowError/IndexError/KeyError escapes. *)
Theorem C01_resolve_entity_total :
  forall (pyint : Z -> str -> option Z) (name2cp : str -> option Z),
  (forall s z, name2cp s = Some z -> (0 <= z < 1114112)%Z) ->
  forall body, exists s,
    resolve_entity pyint name2cp caught_numeric surrogate_guard (38%N :: body ++ [59%N]) = Ok s.
Proof. exact resolve_entity_total_gen. Qed.
Print Assumptions C01_resolve_entity_total.

(* the original defect: catching ValueError only lets an OverflowError escape for some digit string *)
Theorem C01_resolve_entity_valueerror_only_refuted :
  exists e, resolve_entity ascii_int (fun _ => None) [EValue] false e = Raise EOverflow.
Proof. exact resolve_entity_valueerror_only_escapes. Qed.
Print Assumptions C01_resolve_entity_valueerror_only_refuted.

Example C01_resolve_entity_example :
  let e := [38;35;57;57;57;57;57;57;57;57;57;57;57;59]%N in
  resolve_entity ascii_int (fun _ => None) caught_numeric surrogate_guard e = Ok e /\
  resolve_entity ascii_int (fun _ => None) caught_numeric surrogate_guard [38;35;54;53;59]%N = Ok [65%N] /\
  resolve_entity ascii_int (fun _ => None) caught_numeric surrogate_guard [38;35;120;49;49;48;48;48;48;59]%N
    = Ok [38;35;120;49;49;48;48;48;48;59]%N.
Proof. exact resolve_entity_example. Qed.
Print Assumptions C01_resolve_entity_example.

(* styleanalyzer.compute_path (styleanalyzer.py:90): for every list of apostrophe-run lengths >= 2 and EVERY
   tie-breaking order of sort_states (any sorter that permutes its input; the real one orders equal scores by id()),
   the call returns Ok with exactly one state per count (InconsistentPathLengthException, IndexError, ValueError
   never raised), at most 6*32 = 192 successor states are generated per step, hence at most 192*n in total. *)
Theorem C01_compute_path_bounded :
  forall sorter : list pst -> list pst, (forall l, Permutation (sorter l) l) ->
  forall counts, Forall (fun c => 2 <= c) counts ->
  exists path work, compute_path_work sorter counts = Ok (path, work) /\
    length path = length counts /\ length work = length counts /\
    Forall (fun k => k <= 192) work /\ fold_right plus 0 work <= 192 * length counts.
Proof. exact compute_path_bounded. Qed.
Print Assumptions C01_compute_path_bounded.

Example C01_compute_path_example :
  compute_path stable_sort [2; 3; 3; 2] =
    Ok [mkst 0 false true; mkst 0 true true; mkst 0 false true; mkst 0 false false] /\
  compute_path stable_sort [3; 2] = Ok [mkst 1 false true; mkst 1 false false] /\
  compute_path stable_sort [1] = Raise EValue.
Proof. exact compute_path_example. Qed.
Print Assumptions C01_compute_path_example.
