(* C01 — model of the post-processor remove_boilerplate (src/mwlib/parser/post_processors.py:31-49), run by
   uparser.parse_string on the finished article tree (uparser.py:102-105): an exception here aborts the whole parse.

       def remove_boilerplate(node, **kwargs):
           i = 0
           while i < len(node.children):                                  (* loop *)
               child = node.children[i]
               if isinstance(child, parser.TagNode) and child.caption == 'div':
                   try:
                       klass = child.<ATTR>.get('class', '')              (* ATTR: read from the source on every run *)
                   except <CAUGHT>:                                       (* CAUGHT: read from the source on every run *)
                       klass = ''
                   if 'boilerplate' in klass:                             (* OUTSIDE the try *)
                       del node.children[i]
                       continue
               i += 1
           for child_node in node.children:
               remove_boilerplate(child_node)

   The only partial operations are the attribute lookup and the `in` test: util.parse_params (util.py:24-41) stores
   int(value) under every key but `style` whenever int() accepts the text of the value (quoted or not), so the value
   found under 'class' is an int or a str; `'boilerplate' in <int>` raises TypeError.  Tree nodes never have an
   attribute called `values` (nodes.py; compat.py sets `vlist`, a dict, on every TagNode: compat.py:111-112), so
   `child.values` raises AttributeError.

   Model only (no proofs).  Nodes are abstracted to what the function branches on. *)
From Coq Require Import List Bool Arith.
Import ListNotations.

(* what parse_params can have stored under 'class' *)
Inductive aval :=
| AInt                       (* int() accepted the text: 5, "2024", " 5 ", 5_0, Arabic-Indic digits ... *)
| AStr (has_bp : bool).      (* a str; has_bp = it contains the substring 'boilerplate' *)

Inductive nkind :=
| KDiv (cls : option aval)   (* TagNode with caption 'div'; cls = vlist.get('class') *)
| KTagNode                       (* any other TagNode *)
| KText
| KOtherNode.                    (* Article, Paragraph, Section, Table, Item ... *)

Inductive node := Node (k : nkind) (children : list node).

Inductive rexn := PTypeError | PAttributeError.
Inductive rres (A : Type) := ROk (a : A) | RRaise (e : rexn) | RFuel.
Arguments ROk {A} a. Arguments RRaise {A} e. Arguments RFuel {A}.

(* the two source-dependent parameters *)
Inductive lookup :=
| LAbsent      (* an attribute tree nodes do not have (the code as it stands reads `child.values`) *)
| LVlist.      (* child.vlist: the attribute dict *)
Record pcfg := { cfg_lookup : lookup; cfg_caught : list rexn }.

Definition rexn_eqb (a b : rexn) : bool :=
  match a, b with PTypeError, PTypeError => true | PAttributeError, PAttributeError => true | _, _ => false end.

Definition catches (c : pcfg) (e : rexn) : bool := existsb (rexn_eqb e) (cfg_caught c).

(* try: klass = child.<ATTR>.get('class', '')  except <CAUGHT>: klass = '' *)
Definition get_class (c : pcfg) (cls : option aval) : rres aval :=
  match cfg_lookup c with
  | LAbsent => if catches c PAttributeError then ROk (AStr false) else RRaise PAttributeError
  | LVlist => ROk (match cls with Some v => v | None => AStr false end)
  end.

(* 'boilerplate' in klass *)
Definition in_test (v : aval) : rres bool :=
  match v with AInt => RRaise PTypeError | AStr b => ROk b end.

(* is the child deleted? *)
Definition drop_test (c : pcfg) (n : node) : rres bool :=
  match n with
  | Node (KDiv cls) _ => match get_class c cls with
                         | ROk v => in_test v
                         | RRaise e => RRaise e
                         | RFuel => RFuel
                         end
  | _ => ROk false
  end.

(* the while loop: children that stay, in order; stops at the first exception *)
Fixpoint rb_loop (c : pcfg) (l : list node) : rres (list node) :=
  match l with
  | [] => ROk []
  | x :: r => match drop_test c x with
              | ROk true => rb_loop c r
              | ROk false => match rb_loop c r with
                             | ROk r' => ROk (x :: r')
                             | RRaise e => RRaise e
                             | RFuel => RFuel
                             end
              | RRaise e => RRaise e
              | RFuel => RFuel
              end
  end.

(* for child_node in node.children: remove_boilerplate(child_node) - stops at the first exception *)
Fixpoint map_rres {A B : Type} (f : A -> rres B) (l : list A) : rres (list B) :=
  match l with
  | [] => ROk []
  | x :: r => match f x with
              | ROk x' => match map_rres f r with
                          | ROk r' => ROk (x' :: r')
                          | RRaise e => RRaise e
                          | RFuel => RFuel
                          end
              | RRaise e => RRaise e
              | RFuel => RFuel
              end
  end.

(* the function; fuel bounds the recursion depth (the height of the tree suffices: ProofsPassesPost.v) *)
Fixpoint rb (c : pcfg) (fuel : nat) (n : node) : rres node :=
  match fuel with
  | 0 => RFuel
  | S f =>
    match n with
    | Node k ch =>
      match rb_loop c ch with
      | ROk kept => match map_rres (rb c f) kept with
                    | ROk ch' => ROk (Node k ch')
                    | RRaise e => RRaise e
                    | RFuel => RFuel
                    end
      | RRaise e => RRaise e
      | RFuel => RFuel
      end
    end
  end.

Fixpoint height (n : node) : nat :=
  match n with Node _ ch => S (fold_right (fun c m => Nat.max (height c) m) 0 ch) end.

Fixpoint size (n : node) : nat :=
  match n with Node _ ch => S (fold_right (fun c m => size c + m) 0 ch) end.

(* the configuration under which no exception can escape *)
Definition cfg_safe (c : pcfg) : bool :=
  match cfg_lookup c with
  | LAbsent => catches c PAttributeError
  | LVlist => false        (* an int can be stored under 'class', and the `in` test is outside the try: no except clause helps *)
  end.

(* serialisation for the differential run (vt/harness/c01_post.py produces the same code from the real tree) *)
Definition kcode (k : nkind) : nat :=
  match k with
  | KDiv None => 10 | KDiv (Some AInt) => 11 | KDiv (Some (AStr false)) => 12 | KDiv (Some (AStr true)) => 13
  | KTagNode => 20 | KText => 21 | KOtherNode => 22
  end.

Fixpoint enc (n : node) : list nat :=
  match n with Node k ch => kcode k :: length ch :: flat_map enc ch end.

Definition enc_res (r : rres node) : list nat :=
  match r with ROk n => 0 :: enc n | RRaise PTypeError => [1] | RRaise PAttributeError => [2] | RFuel => [3] end.

Definition rb_run (c : pcfg) (n : node) : list nat := enc_res (rb c (height n) n).
