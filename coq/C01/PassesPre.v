(* C01 — executable model of the index-walking loop of ParsePreformatted.run
   (src/mwlib/parser/refine/core.py:338-385).  No proofs in this file.  Same conventions as C01/Passes.v: tokens are
   abstracted to the KINDS the loop branches on, the payload is an id; one `step` per loop iteration; Python slices /
   slice assignments as firstn/skipn (slice, splice of Passes.v); the fuelled driver `iter` of Passes.v.

   The token type is generic in the kind (`gtok K`), so that further passes with their own kinds (C01/PassesTable.v)
   share the tree shape and the driver's printer.

   One place uses Python aliasing: `tokens[start - 1].children.extend(sub)` (l.351) mutates the token object that is
   in the list; it is modelled by replacing tokens[start-1] (set_nth) with the token with the children appended. *)
From Coq Require Import List NArith Arith Bool.
From MW Require Import C01.Passes.
Import ListNotations.

Inductive gtok (K : Type) := GTok (k : K) (id : N) (kids : list (gtok K)).
Arguments GTok {K} k id kids.

Definition gkind {K} (t : gtok K) : K := match t with GTok k _ _ => k end.
Definition gid {K} (t : gtok K) : N := match t with GTok _ i _ => i end.
Definition gkids {K} (t : gtok K) : list (gtok K) := match t with GTok _ _ ks => ks end.
Definition gadd_kids {K} (p : gtok K) (cs : list (gtok K)) : gtok K := match p with GTok k i ks => GTok k i (ks ++ cs) end.

(* ================================================================================================
   ParsePreformatted  (core.py:347-363 _handle_complex_preformatted_tokens, 365-385 run)
   ================================================================================================ *)

Inductive xtagn := XtBlockquote | XtTable | XtTimeline | XtDiv | XtSpan.   (* tagname; XtSpan = any other tag name *)

Inductive xkind :=
  | XOther                      (* any token the loop does not look at: not t_pre, not t_newline, blocknode False,
                                   not a complex_tag blockquote/table/timeline/div *)
  | XPre                        (* t_pre (the space at the beginning of a line, _uscan.re:198-228) *)
  | XNewline                    (* t_newline *)
  | XBlock                      (* any other token with blocknode = True *)
  | XTag (t : xtagn)            (* t_complex_tag with blocknode False *)
  | XPreformatted.              (* t_complex_preformatted (blocknode = True, l.356-358): produced by the pass *)

Notation xtok := (gtok xkind) (only parsing).

(* l.378-381: `token.blocknode or (token.type == t_complex_tag and token.tagname in (...))` *)
Definition pre_resets (t : xtok) : bool :=
  match gkind t with
  | XBlock | XPreformatted => true
  | XTag XtSpan => false
  | XTag _ => true                                  (* tagname in ("blockquote", "table", "timeline", "div") *)
  | XOther | XPre | XNewline => false
  end.

Definition is_preformatted (t : xtok) : bool := match gkind t with XPreformatted => true | _ => false end.

Record xstate := mkxstate { x_i : nat; x_start : option nat; x_toks : list xtok }.
Definition pre_init (toks : list xtok) : xstate := mkxstate 0 None toks.

(* _handle_complex_preformatted_tokens(tokens, i, start) (l.347-363): the new (tokens, i); start becomes None *)
Definition pre_handle (toks : list xtok) (i st : nat) : pres (list xtok * nat) :=
  let sub := slice (st + 1) (i + 1) toks in                                       (* l.348 *)
  let fresh := POk (splice st (i + 1) [GTok XPreformatted 0%N sub] toks, st + 1) in   (* l.354-361 *)
  match st with
  | 0 => fresh                                                                     (* `start > 0` false *)
  | S p =>
    match nth_error toks p with                                                    (* tokens[start - 1] *)
    | None => PRaise PIndex
    | Some prev =>
      if is_preformatted prev
      then POk (set_nth p (gadd_kids prev sub) (splice st (i + 1) [] toks), st)    (* l.350-352 *)
      else fresh
    end
  end.

Definition pre_step (s : xstate) : stepres xstate (list xtok) :=
  let i := x_i s in
  if i <? length (x_toks s) then                                                   (* l.369 *)
    match nth_error (x_toks s) i with
    | None => Fail PIndex                                                          (* l.370 *)
    | Some t =>
      match gkind t, x_start s with
      | XPre, _ => Continue (mkxstate (S i) (Some i) (x_toks s))                   (* l.371-375 *)
      | XNewline, Some st =>                                                       (* l.376-377 *)
        match pre_handle (x_toks s) i st with
        | PRaise e => Fail e
        | POk (toks', i') => Continue (mkxstate i' None toks')
        end
      | _, _ =>
        if pre_resets t then Continue (mkxstate (S i) None (x_toks s))             (* l.378-383 *)
        else Continue (mkxstate (S i) (x_start s) (x_toks s))                      (* l.384-385 *)
      end
    end
  else Done (x_toks s).

Definition pre_fuel (toks : list xtok) : nat := length toks + 1.
Definition pre_run (fuel : nat) (toks : list xtok) : pres (list xtok * nat) := iter pre_step fuel 0 (pre_init toks).
