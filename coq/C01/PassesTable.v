(* C01 — executable models of the index-walking loops of the table parser
   (src/mwlib/parser/refine/parse_table.py): TableCellParser.run, TableRowParser.run, TableParser.run.
   No proofs in this file.  Same conventions as C01/Passes.v / C01/PassesPre.v (generic tokens `gtok`).

   Python aliasing: the slice `children` / `sub` taken from tokens is the SAME list object that becomes the
   `.children` of the new row / table node and that find_modifier (`del children[:i]`), TableCellParser / TableRowParser
   (in-place splices) and find_caption then mutate.  Functionally: the children of the new node are
   cells (modifier (slice)), computed before the node is built; nothing else refers to that list.

   Not modelled (third-party for the loops): util.parse_params / T.join_as_text on the modifier text (the `vlist`
   attribute), core.TagParser for <caption> inside make_table (abstract token lists carry no caption tags). *)
From Coq Require Import List NArith Arith Bool.
From MW Require Import C01.Passes C01.PassesPre.
Import ListNotations.

(* text.strip() of a t_column: "|" "!" "||" "!!" or anything else ("|!", _uscan.re:201-208, 289-296) *)
Inductive colmark := MBar | MBang | M2Bar | M2Bang | MOtherMark.

Inductive tkd :=
  (* raw tokens *)
  | TOther (blank : bool)       (* a text token nothing looks at; blank: text.strip() == "" *)
  | TNewline | TBreak
  | TColumn (m : colmark)       (* t_column *)
  | TCellTag (th : bool)        (* t_html_tag td / th *)
  | TCellEnd (th : bool)        (* t_html_tag_end td / th *)
  | TRow                        (* t_row *)
  | TRowTag                     (* t_html_tag tr *)
  | TRowEnd                     (* t_html_tag_end tr *)
  | TBegin                      (* t_begin_table, text.strip() == "{|" *)
  | TTableTag                   (* t_html_tag table *)
  | TEnd                        (* t_end_table *)
  | TTableEnd                   (* t_html_tag_end table *)
  | TCaption                    (* t_tablecaption *)
  | TBar                        (* t_special "|" *)
  | T2Open                      (* t_2box_open *)
  | TRefTag                     (* t_complex_tag with tagname "ref" (text None) *)
  (* produced *)
  | TPlus                       (* t_text "+" (replace_tablecaption) *)
  | TCell (th : bool)           (* t_complex_table_cell, tagname th / td *)
  | TRowNode                    (* t_complex_table_row *)
  | TTable                      (* t_complex_table *)
  | TCaptionNode.               (* t_complex_caption *)

Notation ttok := (gtok tkd) (only parsing).

Definition is_cell_start (t : ttok) : bool := match gkind t with TColumn _ | TCellTag _ => true | _ => false end.  (* l.15-18 *)
Definition is_cell_end (t : ttok) : bool := match gkind t with TCellEnd _ => true | _ => false end.               (* l.20-21 *)
Definition is_row_start (t : ttok) : bool := match gkind t with TRow | TRowTag => true | _ => false end.          (* l.112-115 *)
Definition is_row_end (t : ttok) : bool := match gkind t with TRowEnd => true | _ => false end.                   (* l.117-118 *)
Definition is_table_start (t : ttok) : bool := match gkind t with TBegin | TTableTag => true | _ => false end.    (* l.232-235 *)
Definition is_table_end (t : ttok) : bool := match gkind t with TEnd | TTableEnd => true | _ => false end.        (* l.237-240 *)
Definition is_nl (t : ttok) : bool := match gkind t with TNewline | TBreak => true | _ => false end.
(* token.text is None: the complex nodes *)
Definition text_none (t : ttok) : bool :=
  match gkind t with TRefTag | TCell _ | TRowNode | TTable | TCaptionNode => true | _ => false end.
(* bool(token.rawtagname) *)
Definition has_rawtag (t : ttok) : bool :=
  match gkind t with TCellTag _ | TCellEnd _ | TRowTag | TRowEnd | TTableTag | TTableEnd => true | _ => false end.

(* ================================================================================================
   TableCellParser  (parse_table.py:10-103)
   ================================================================================================ *)

(* replace_tablecaption (l.38-45): every t_tablecaption becomes t_special "|" followed by a new t_text "+"; the loop
   then visits the inserted "+" (index += 1 once) which is not a caption: one left-to-right pass *)
Fixpoint repl_caption (l : list ttok) : list ttok :=
  match l with
  | [] => []
  | t :: r =>
    match gkind t with
    | TCaption => GTok TBar (gid t) (gkids t) :: GTok TPlus 0%N [] :: repl_caption r
    | _ => t :: repl_caption r
    end
  end.

(* find_modifier (l.23-36): stop at the first "[[" (nothing changes), or delete up to and including the first "|" *)
Fixpoint cell_find_bar (l : list ttok) : option (list ttok) :=
  match l with
  | [] => None
  | t :: r =>
    match gkind t with
    | T2Open => None
    | TBar => Some r
    | _ => cell_find_bar r
    end
  end.
Definition cell_mod (l : list ttok) : list ttok := match cell_find_bar l with Some r => r | None => l end.

(* make_cell(tokens, start, index, skip_end) (l.47-73): (tokens, self.is_header) after the call *)
Definition make_cell (toks : list ttok) (st index skip_end : nat) (hdr : bool) : pres (list ttok * bool) :=
  match nth_error toks st with
  | None => PRaise PIndex                                                   (* tokens[start] *)
  | Some s =>
    if text_none s then PRaise PAttr                                        (* tokens[start].text.strip() *)
    else
      let hdr' := match gkind s with TColumn MBar => false | TColumn MBang => true | _ => hdr end in   (* l.48-52 *)
      let th := match gkind s with TCellTag b => b | _ => hdr' end in                                  (* l.53-58 *)
      let search := match gkind s with TColumn MOtherMark => false | TColumn _ => true | _ => false end in  (* l.59 *)
      let sub := repl_caption (slice (st + 1) (index - skip_end) toks) in                              (* l.60-61 *)
      let kids := if search then cell_mod sub else sub in                                              (* l.72-73 *)
      POk (splice st index [GTok (TCell th) 0%N kids] toks, hdr')                                      (* l.62-71 *)
  end.

Record cstate := mkcstate { tc_i : nat; tc_start : option nat; tc_hdr : bool; tc_toks : list ttok }.
Definition cell_init (toks : list ttok) : cstate := mkcstate 0 None false toks.

Definition cell_step (s : cstate) : stepres cstate (list ttok) :=
  let i := tc_i s in
  if i <? length (tc_toks s) then                                                        (* l.81 *)
    match nth_error (tc_toks s) i with
    | None => Fail PIndex
    | Some t =>
      if is_cell_start t then                                                            (* l.82-89 *)
        match tc_start s with
        | Some st =>
          match make_cell (tc_toks s) st i 0 (tc_hdr s) with
          | PRaise e => Fail e
          | POk (toks', hdr') => Continue (mkcstate (st + 2) (Some (st + 1)) hdr' toks')
          end
        | None => Continue (mkcstate (S i) (Some i) (tc_hdr s) (tc_toks s))
        end
      else if is_cell_end t then                                                         (* l.91-98 *)
        match tc_start s with
        | Some st =>
          match make_cell (tc_toks s) st (i + 1) 1 (tc_hdr s) with
          | PRaise e => Fail e
          | POk (toks', hdr') => Continue (mkcstate (st + 1) None hdr' toks')
          end
        | None => Continue (mkcstate (S i) None (tc_hdr s) (tc_toks s))
        end
      else Continue (mkcstate (S i) (tc_start s) (tc_hdr s) (tc_toks s))                 (* l.99-100 *)
    end
  else                                                                                   (* l.102-103 *)
    match tc_start s with
    | Some st =>
      match make_cell (tc_toks s) st i 0 (tc_hdr s) with
      | PRaise e => Fail e
      | POk (toks', _) => Done toks'
      end
    | None => Done (tc_toks s)
    end.

Definition cell_fuel (toks : list ttok) : nat := length toks + 1.
Definition cell_run (fuel : nat) (toks : list ttok) : pres (list ttok * nat) := iter cell_step fuel 0 (cell_init toks).
(* TableCellParser(children, xopts) as called by the row parser *)
Definition cell_full (toks : list ttok) : pres (list ttok) :=
  match cell_run (cell_fuel toks) toks with POk (r, _) => POk r | PRaise e => PRaise e end.

(* ================================================================================================
   TableRowParser  (parse_table.py:106-223)
   ================================================================================================ *)

(* find_modifier (l.120-127): delete everything before the first newline / break; nothing if there is none *)
Fixpoint drop_to_nl (l : list ttok) : option (list ttok) :=
  match l with
  | [] => None
  | t :: r => if is_nl t then Some (t :: r) else drop_to_nl r
  end.
Definition row_mod (l : list ttok) : list ttok := match drop_to_nl l with Some r => r | None => l end.

(* should_find_modifier (l.134-135) *)
Definition should_find (rbt : option ttok) : bool :=
  match rbt with None => false | Some t => negb (has_rawtag t) end.

(* the new row node (l.144-156, 169-181, 211-223): children = TableCellParser(find_modifier(children)) *)
Definition row_node (children : list ttok) (rbt : option ttok) : pres ttok :=
  match cell_full (if should_find rbt then row_mod children else children) with
  | PRaise e => PRaise e
  | POk kids => POk (GTok TRowNode 0%N kids)
  end.

Record rstate := mkrstate { r_i : nat; r_start : option nat; r_rs : nat; r_rbt : option ttok; r_toks : list ttok }.
Definition row_init (toks : list ttok) : rstate := mkrstate 0 None 1 None toks.

Definition row_step (s : rstate) : stepres rstate (list ttok) :=
  let i := r_i s in
  let toks := r_toks s in
  if i <? length toks then                                                               (* l.191 *)
    match nth_error toks i with
    | None => Fail PIndex
    | Some t =>
      match r_start s with
      | None =>
        if is_cell_start t then Continue (mkrstate (S i) (Some i) 0 None toks)           (* l.192-196 *)
        else if is_row_start t then Continue (mkrstate (S i) (Some i) 1 (Some t) toks)   (* l.161-165 *)
        else Continue (mkrstate (S i) None (r_rs s) (r_rbt s) toks)                      (* l.205-208 *)
      | Some st =>
        if is_row_start t then                                                           (* l.143-160 *)
          match row_node (slice (st + r_rs s) i toks) (r_rbt s) with
          | PRaise e => Fail e
          | POk row =>
            let toks' := splice st i [row] toks in
            match nth_error toks' (st + 1) with                                          (* row_begin_token = tokens[start] *)
            | None => Fail PIndex
            | Some rbt' => Continue (mkrstate (st + 2) (Some (st + 1)) 1 (Some rbt') toks')
            end
          end
        else if is_row_end t then                                                        (* l.199-204, 168-181 *)
          match row_node (slice (st + r_rs s) i toks) (r_rbt s) with
          | PRaise e => Fail e
          | POk row => Continue (mkrstate (st + 1) None (r_rs s) None (splice st (i + 1) [row] toks))
          end
        else Continue (mkrstate (S i) (Some st) (r_rs s) (r_rbt s) toks)
      end
    end
  else                                                                                   (* l.210-223 *)
    match r_start s with
    | Some st =>
      match row_node (skipn (st + r_rs s) toks) (r_rbt s) with
      | PRaise e => Fail e
      | POk row => Done (firstn st toks ++ [row])
      end
    | None => Done toks
    end.

Definition row_fuel (toks : list ttok) : nat := length toks + 1.
Definition row_run (fuel : nat) (toks : list ttok) : pres (list ttok * nat) := iter row_step fuel 0 (row_init toks).
Definition row_full (toks : list ttok) : pres (list ttok) :=
  match row_run (row_fuel toks) toks with POk (r, _) => POk r | PRaise e => PRaise e end.

(* ================================================================================================
   TableParser  (parse_table.py:226-346)
   ================================================================================================ *)

(* find_modifier (l.245-258): i = index of the first newline / break, or of the LAST child when there is none;
   del children[:i] *)
Definition table_mod (l : list ttok) : list ttok :=
  match drop_to_nl l with Some r => r | None => skipn (length l - 1) l end.

(* find_caption, first loop (l.276-285): Some (index after the t_tablecaption) ; None = return / no caption token *)
Fixpoint caption_start (l : list ttok) (i : nat) : option nat :=
  match l with
  | [] => None
  | t :: r =>
    match gkind t with
    | TCaption => Some (S i)
    | TOther true | TNewline | TBreak => caption_start r (S i)        (* text is whitespace *)
    | _ => None                                                       (* text is None or not blank *)
    end
  end.

(* second loop (l.289-301) over children[i:]: Some (i, modifier) = parse_complex_caption(children, start, i, modifier) *)
Fixpoint caption_end (l : list ttok) (i : nat) (modifier : option nat) : option (nat * option nat) :=
  match l with
  | [] => None
  | t :: r =>
    if negb (match gkind t with TRefTag => true | _ => false end) && (text_none t || is_nl t) then Some (i, modifier)
    else
      let modifier' :=
        match modifier, gkind t with
        | None, TBar => Some i
        | None, T2Open => Some 0
        | _, _ => modifier
        end in
      caption_end r (S i) modifier'
  end.

(* find_caption (l.272-301) + parse_complex_caption (l.260-270) *)
Definition find_caption (children : list ttok) : list ttok :=
  match caption_start children 0 with
  | None => children
  | Some i0 =>
    let st := i0 - 1 in
    match caption_end (skipn i0 children) i0 None with
    | None => children
    | Some (i, modifier) =>
      let sub := match modifier with
                 | Some (S m) => slice (S m + 1) i children               (* `if modifier:` — 0 is falsy *)
                 | _ => slice (st + 1) i children
                 end in
      splice st i [GTok TCaptionNode 0%N sub] children
    end
  end.

(* make_table (l.308-331) with `start` already popped: the new token list *)
Definition make_table (toks : list ttok) (st index : nat) : pres (list ttok) :=
  match nth_error toks st with
  | None => PRaise PIndex                                                   (* tokens[start] *)
  | Some s =>
    if text_none s then PRaise PAttr                                        (* starttoken.text.strip() *)
    else
      let sub := slice (st + 1) index toks in
      let sub1 := match gkind s with TBegin => table_mod sub | _ => sub end in     (* l.327-328 *)
      match row_full sub1 with                                                     (* l.329 *)
      | PRaise e => PRaise e
      | POk rows => POk (splice st (index + 1) [GTok TTable 0%N (find_caption rows)] toks)   (* l.317-326, 330 *)
      end
  end.

Record tstate := mktstate { t_i : nat; t_stack : list nat; t_toks : list ttok }.     (* stack: top first *)
Definition tab_init (toks : list ttok) : tstate := mktstate 0 [] toks.

Definition tab_step (s : tstate) : stepres tstate (list ttok) :=
  let i := t_i s in
  let toks := t_toks s in
  if i <? length toks then                                                               (* l.333 *)
    match nth_error toks i with
    | None => Fail PIndex
    | Some t =>
      if is_table_start t then Continue (mktstate (S i) (i :: t_stack s) toks)           (* l.334-336 *)
      else if is_table_end t then                                                        (* l.337-341 *)
        match t_stack s with
        | st :: rest =>
          match make_table toks st i with
          | PRaise e => Fail e
          | POk toks' => Continue (mktstate (st + 1) rest toks')
          end
        | [] => Continue (mktstate (S i) [] toks)
        end
      else Continue (mktstate (S i) (t_stack s) toks)                                    (* l.342-343 *)
    end
  else                                                                                   (* l.345-346: `index` keeps its value *)
    match t_stack s with
    | st :: rest =>
      match make_table toks st i with
      | PRaise e => Fail e
      | POk toks' => Continue (mktstate i rest toks')
      end
    | [] => Done toks
    end.

Definition tab_fuel (toks : list ttok) : nat := 2 * length toks + 1.
Definition tab_run (fuel : nat) (toks : list ttok) : pres (list ttok * nat) := iter tab_step fuel 0 (tab_init toks).
