(* C01 — executable models (no proofs in this file).
   Partial Python operations return explicit error values; loops are structural or fuelled. *)
From Coq Require Import List NArith ZArith Bool Arith Lia.
From MW Require Import Common.Str.
Import ListNotations.

Inductive exn := EValue | EOverflow | EKey | EIndex | EInconsistent | EFuel.
Inductive res (A : Type) := Ok (a : A) | Raise (e : exn).
Arguments Ok {A} a.
Arguments Raise {A} e.

Definition exn_eqb (a b : exn) : bool :=
  match a, b with
  | EValue, EValue | EOverflow, EOverflow | EKey, EKey | EIndex, EIndex
  | EInconsistent, EInconsistent | EFuel, EFuel => true
  | _, _ => false
  end.

Definition caught_in (l : list exn) (e : exn) : bool := existsb (exn_eqb e) l.

(* ---------------------------------------------------------------------------------------------
   resolve_entity  (src/mwlib/parser/refine/util.py:212-226)

     def resolve_entity(entity):
         if entity[1] == "#":
             try:
                 if entity[2] == "x" or entity[2] == "X":
                     return chr(int(entity[3:-1], 16))
                 else:
                     return chr(int(entity[2:-1]))
             except <caught_numeric>:
                 return entity
         else:
             try:
                 return chr(html.entities.name2codepoint[entity[1:-1]])
             except KeyError:
                 return entity
   --------------------------------------------------------------------------------------------- *)

(* chr(i) of CPython 3.12 (bltinmodule.c builtin_chr, argument parsed as C int):
   OverflowError outside the C int range, ValueError outside range(0x110000).
   `guard` = the surrogate guard of the proposed fix (C01-surrogate-entity.diff): ValueError on U+D800..U+DFFF. *)
Definition chr_py (guard : bool) (i : Z) : res N :=
  if ((i <? -2147483648) || (i >? 2147483647))%Z then Raise EOverflow
  else if ((i <? 0) || (i >=? 1114112))%Z then Raise EValue
  else if guard && ((55296 <=? i) && (i <=? 57343))%Z then Raise EValue
  else Ok (Z.to_N i).

(* entity[a:-1] *)
Definition slice_to_m1 (a : nat) (s : str) : str := firstn (length s - 1 - a) (skipn a s).

Section ResolveEntity.
  (* int(s, base) on a str: either ValueError (None) or an unbounded integer — the only assumption made
     about CPython's int(); its grammar (sign, underscores, Unicode digits, whitespace) is irrelevant here *)
  Variable pyint : Z -> str -> option Z.
  (* html.entities.name2codepoint lookup; None = KeyError *)
  Variable name2cp : str -> option Z.
  (* exception classes named by the except clause of the numeric branch (regenerated from util.py) *)
  Variable caught_numeric : list exn.
  Variable guard : bool.

  Definition int_then_chr (base : Z) (digits : str) : res N :=
    match pyint base digits with
    | None => Raise EValue
    | Some z => chr_py guard z
    end.

  Definition resolve_entity (entity : str) : res str :=
    match nth_error entity 1 with
    | None => Raise EIndex                                   (* entity[1] *)
    | Some c1 =>
      if N.eqb c1 35 (* # *) then
        let attempt : res N :=
          match nth_error entity 2 with
          | None => Raise EIndex                             (* entity[2], inside the try *)
          | Some c2 =>
            if N.eqb c2 120 || N.eqb c2 88 (* x X *) then int_then_chr 16 (slice_to_m1 3 entity)
            else int_then_chr 10 (slice_to_m1 2 entity)
          end in
        match attempt with
        | Ok c => Ok [c]
        | Raise e => if caught_in caught_numeric e then Ok entity else Raise e
        end
      else
        match name2cp (slice_to_m1 1 entity) with
        | None => Ok entity                                  (* KeyError is caught *)
        | Some z => match chr_py false z with Ok c => Ok [c] | Raise e => Raise e end
        end
    end.
End ResolveEntity.

(* a concrete int() for ASCII decimal / hexadecimal digit strings (used by examples and the tie) *)
Definition digit_val (c : N) : option Z :=
  if (48 <=? c)%N && (c <=? 57)%N then Some (Z.of_N c - 48)%Z
  else if (97 <=? c)%N && (c <=? 102)%N then Some (Z.of_N c - 87)%Z
  else if (65 <=? c)%N && (c <=? 70)%N then Some (Z.of_N c - 55)%Z
  else None.

Fixpoint digits_val (base : Z) (acc : Z) (s : str) : option Z :=
  match s with
  | [] => Some acc
  | c :: r => match digit_val c with
              | Some d => if (d <? base)%Z then digits_val base (acc * base + d)%Z r else None
              | None => None
              end
  end.

Definition ascii_int (base : Z) (s : str) : option Z :=
  match s with [] => None | _ => digits_val base 0%Z s end.

(* ---------------------------------------------------------------------------------------------
   styleanalyzer.State.get_next / compute_path  (src/mwlib/parser/styleanalyzer.py:42-127)
   --------------------------------------------------------------------------------------------- *)

Record st := mkst { apo : nat; bold : bool; ital : bool }.

Definition b2n (b : bool) : nat := if b then 1 else 0.
Definition score (s : st) : nat := apo s + b2n (bold s) + b2n (ital s).
Definition is_zero (s : st) : bool := Nat.eqb (apo s) 0 && negb (bold s) && negb (ital s).

Definition tog_i (s : st) := mkst (apo s) (bold s) (negb (ital s)).
Definition tog_b (s : st) := mkst (apo s) (negb (bold s)) (ital s).
Definition add_apo (k : nat) (s : st) := mkst (apo s + k) (bold s) (ital s).

(* the successor lists, in the order `res` is appended to *)
Definition next2 (s : st) : list st := [tog_i s].                                   (* :56-57 *)
Definition next3 (s : st) : list st := tog_b s :: next2 (add_apo 1 s).              (* :59-64 *)
Definition next4 (s : st) : list st := next3 (add_apo 1 s).                         (* :66-68 *)
Definition next5 (s : st) : list st :=                                              (* :70-77 *)
  flat_map next3 (next2 s) ++ flat_map next2 (next3 s) ++ next4 s.

Definition get_next (count : nat) (s : st) : res (list st) :=
  if count <? 2 then Raise EValue                                                   (* :53-54 *)
  else if count =? 2 then Ok (next2 s)
  else if count =? 3 then Ok (next3 s)
  else if count =? 4 then Ok (next4 s)
  else if count =? 5 then Ok (next5 s)
  else Ok (next5 (add_apo (count - 5) s)).                                          (* :79-81 *)

(* a search state = current style state + the states before it, newest first (the `previous` chain) *)
Definition pst := (st * list st)%type.

Fixpoint expand (count : nat) (states : list pst) : res (list pst) :=
  match states with
  | [] => Ok []
  | (s, hist) :: rest =>
    match get_next count s with
    | Raise e => Raise e
    | Ok ns =>
      match expand count rest with
      | Raise e => Raise e
      | Ok more => Ok (map (fun n => (n, s :: hist)) ns ++ more)
      end
    end
  end.

Definition init_st : st := mkst 0 false false.

(* one step relation used by the tie and by the de-duplication: equality of (apocount, bold, italic) *)
Definition st_eqb (a b : st) : bool :=
  Nat.eqb (apo a) (apo b) && Bool.eqb (bold a) (bold b) && Bool.eqb (ital a) (ital b).

(* styleanalyzer.py:101-110 (fix 93e1f92): states that agree on (apocount, is_bold, is_italic) have the same future;
   only the first of each key is kept (`seen` set, in list order) *)
Fixpoint dedup (seen : list st) (l : list pst) : list pst :=
  match l with
  | [] => []
  | x :: r => if existsb (st_eqb (fst x)) seen then dedup seen r else x :: dedup (fst x :: seen) r
  end.

Section ComputePath.
  (* sort_states: sorted by score; equal scores are ordered by id(), i.e. arbitrarily.  The model takes the
     sorter as a parameter; theorems quantify over every sorter that permutes (and, for C02, sorts). *)
  Variable sorter : list pst -> list pst.

  Definition prune (sorted : list pst) : res (list pst) :=
    let unique := dedup [] sorted in                                                (* :101-110 *)
    match unique with
    | [] => Raise EIndex                                                            (* states[0], :111 *)
    | best :: _ => if is_zero (fst best) then Ok [best] else Ok (firstn 32 unique)  (* :112-115 *)
    end.

  (* returns the final states and, per step, the number of states generated (work done) *)
  Fixpoint steps (counts : list nat) (states : list pst) (work : list nat) : res (list pst * list nat) :=
    match counts with
    | [] => Ok (states, rev work)
    | c :: cs =>
      match expand c states with
      | Raise e => Raise e
      | Ok new =>
        match prune (sorter new) with
        | Raise e => Raise e
        | Ok kept => steps cs kept (length new :: work)
        end
      end
    end.

  Definition compute_path_work (counts : list nat) : res (list st * list nat) :=
    match steps counts [(init_st, [])] [] with
    | Raise e => Raise e
    | Ok (states, work) =>
      match states with
      | [] => Raise EIndex                                                          (* states[0], :104 *)
      | (s, hist) :: _ =>
        (* walk `previous` until the initial state (whose previous is None), reverse: :106-111 *)
        let path := rev (removelast (s :: hist)) in
        if Nat.eqb (length path) (length counts) then Ok (path, work)
        else Raise EInconsistent                                                    (* :113-114 *)
      end
    end.

  Definition compute_path (counts : list nat) : res (list st) :=
    match compute_path_work counts with Ok (p, _) => Ok p | Raise e => Raise e end.
End ComputePath.

(* a concrete sorter: stable insertion sort by score (one admissible tie-breaking) *)
Fixpoint insert_by_score (x : pst) (l : list pst) : list pst :=
  match l with
  | [] => [x]
  | y :: r => if score (fst x) <? score (fst y) then x :: l else y :: insert_by_score x r
  end.
Definition stable_sort (l : list pst) : list pst := fold_right insert_by_score [] l.
(* the opposite tie-breaking: later elements first among equal scores *)
Fixpoint insert_by_score_le (x : pst) (l : list pst) : list pst :=
  match l with
  | [] => [x]
  | y :: r => if score (fst x) <=? score (fst y) then x :: l else y :: insert_by_score_le x r
  end.
Definition antistable_sort (l : list pst) : list pst := fold_right insert_by_score_le [] l.

(* one step relation used by the tie: is `n` a successor of `s` for `count`? *)
Definition is_successor (count : nat) (s n : st) : bool :=
  match get_next count s with Ok l => existsb (st_eqb n) l | Raise _ => false end.
