(* C01 — the generic lemmas instantiated with what the translator read from /repo (Gen_resolve.v).
   If the except clause of resolve_entity stops naming ValueError or OverflowError this file no longer compiles. *)
From Coq Require Import List NArith ZArith Bool Lia.
From MW Require Import Common.Str C01.Model C01.Proofs C01.Gen_resolve C01.Gen_path.
Import ListNotations.

Lemma gen_catches_value : In EValue caught_numeric.
Proof. cbn. tauto. Qed.
Lemma gen_catches_overflow : In EOverflow caught_numeric.
Proof. cbn. tauto. Qed.

(* the cut of compute_path read from styleanalyzer.py (Gen_path.v) is the 32 of the model's `prune`; with another value this
   file no longer compiles and C01_compute_path_bounded (192 = 6*32 states per step) is not claimed for the code *)
Lemma gen_cut_is_modelled : src_cut_limit = 32.
Proof. reflexivity. Qed.

Lemma resolve_entity_total_gen :
  forall (pyint : Z -> str -> option Z) (name2cp : str -> option Z),
  (forall s z, name2cp s = Some z -> (0 <= z < 1114112)%Z) ->
  forall body, exists s,
    resolve_entity pyint name2cp caught_numeric surrogate_guard (38%N :: body ++ [59%N]) = Ok s.
Proof.
  intros pyint name2cp H body.
  apply resolve_entity_total; [exact H | exact gen_catches_value | exact gen_catches_overflow].
Qed.

(* non-vacuity + the historic failing input: "&#99999999999;" falls back to the literal entity *)
Lemma resolve_entity_example :
  let e := [38;35;57;57;57;57;57;57;57;57;57;57;57;59]%N in
  resolve_entity ascii_int (fun _ => None) caught_numeric surrogate_guard e = Ok e /\
  resolve_entity ascii_int (fun _ => None) caught_numeric surrogate_guard [38;35;54;53;59]%N = Ok [65%N] /\
  resolve_entity ascii_int (fun _ => None) caught_numeric surrogate_guard [38;35;120;49;49;48;48;48;48;59]%N
    = Ok [38;35;120;49;49;48;48;48;48;59]%N.
Proof. vm_compute. repeat split. Qed.

Lemma compute_path_example :
  compute_path stable_sort [2; 3; 3; 2] =
    Ok [mkst 0 false true; mkst 0 true true; mkst 0 false true; mkst 0 false false] /\
  compute_path stable_sort [3; 2] = Ok [mkst 1 false true; mkst 1 false false] /\
  compute_path stable_sort [1] = Raise EValue.
Proof. vm_compute. repeat split. Qed.
