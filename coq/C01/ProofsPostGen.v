(* C01 — remove_boilerplate with the lookup attribute and the except clause read from /repo on this run (Gen_post.v). *)
From Coq Require Import List Bool.
From MW Require Import C01.PassesPost C01.ProofsPassesPost C01.Gen_post.
Import ListNotations.

(* closed by computation on the generated configuration: fails when the source reads the attribute dict
   (an int may be stored under 'class') or no longer catches the AttributeError of the absent attribute *)
Lemma post_cfg_safe : cfg_safe post_cfg = true.
Proof. reflexivity. Qed.

Lemma remove_boilerplate_total_gen : forall n, exists n', rb post_cfg (height n) n = ROk n'.
Proof. exact (rb_total post_cfg post_cfg_safe). Qed.
