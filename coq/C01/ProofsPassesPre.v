(* C01 — termination/totality of the loop of ParsePreformatted.run (model: C01/PassesPre.v).
   Measure: len(tokens) - i.  Every iteration advances i, except the newline that closes an open " " line, which
   replaces tokens[start:i+1] by one node (i := start+1) or deletes them (merged into the preceding preformatted
   node, i := start): both shrink len(tokens) - i by exactly one. *)
From Coq Require Import List NArith Arith Bool Lia.
From MW Require Import C01.Passes C01.ProofsPasses C01.PassesPre.
Import ListNotations.

Definition pre_mu (s : xstate) : nat := length (x_toks s) - x_i s.
Definition pre_inv (s : xstate) : Prop :=
  x_i s <= length (x_toks s) /\ (forall st, x_start s = Some st -> st < x_i s).

Lemma pre_handle_spec : forall toks i st, st < i -> i < length toks ->
  exists toks' i', pre_handle toks i st = POk (toks', i')
                   /\ i' <= length toks' /\ length toks' - i' = length toks - i - 1.
Proof.
  intros toks i st Hs Hi. unfold pre_handle.
  set (sub := slice (st + 1) (i + 1) toks).
  assert (Hfresh : exists toks' i',
            POk (splice st (i + 1) [GTok XPreformatted 0%N sub] toks, st + 1) = POk (toks', i')
            /\ i' <= length toks' /\ length toks' - i' = length toks - i - 1).
  { do 2 eexists. split; [reflexivity|]. rewrite splice_length by lia. cbn [length]. lia. }
  destruct st as [|p]; [exact Hfresh|].
  destruct (nth_error_in_range _ toks p ltac:(lia)) as [prev Hp]. rewrite Hp.
  destruct (is_preformatted prev); [|exact Hfresh].
  do 2 eexists. split; [reflexivity|]. rewrite set_nth_length, splice_length by lia. cbn [length]. lia.
Qed.

Lemma pre_step_ok : forall s, pre_inv s ->
  match pre_step s with
  | Continue s' => pre_inv s' /\ pre_mu s' < pre_mu s
  | Done _ => True
  | Fail _ => False
  end.
Proof.
  intros [i start toks] [Hi Hs]. unfold pre_step. cbn [x_i x_start x_toks] in *.
  destruct (i <? length toks) eqn:Elt; [|exact I].
  apply Nat.ltb_lt in Elt.
  destruct (nth_error_in_range _ toks i Elt) as [t Ht]. rewrite Ht.
  assert (Hadv : forall start', (forall st, start' = Some st -> st < S i) ->
            pre_inv (mkxstate (S i) start' toks) /\ pre_mu (mkxstate (S i) start' toks) < pre_mu (mkxstate i start toks)).
  { intros start' H'. split.
    - unfold pre_inv; cbn [x_i x_start x_toks]. split; [lia|exact H'].
    - unfold pre_mu; cbn [x_i x_toks]. lia. }
  assert (Hnone : forall st : nat, @None nat = Some st -> st < S i) by (intros st H; discriminate).
  assert (Hkeep : forall st, start = Some st -> st < S i) by (intros st H; specialize (Hs st H); lia).
  assert (Hdflt : match (if pre_resets t then Continue (mkxstate (S i) None toks)
                         else @Continue xstate (list xtok) (mkxstate (S i) start toks)) with
                  | Continue s' => pre_inv s' /\ pre_mu s' < pre_mu (mkxstate i start toks)
                  | Done _ => True
                  | Fail _ => False
                  end).
  { destruct (pre_resets t); [apply Hadv; exact Hnone|apply Hadv; exact Hkeep]. }
  destruct (gkind t) eqn:Ek; try (destruct start; exact Hdflt).
  - (* t_pre *)
    apply Hadv. intros st H. inversion H. lia.
  - (* t_newline *)
    destruct start as [st|]; [|exact Hdflt].
    specialize (Hs st eq_refl).
    destruct (pre_handle_spec toks i st Hs Elt) as (toks' & i' & Hh & Hle & Hmu). rewrite Hh. split.
    + unfold pre_inv; cbn [x_i x_start x_toks]. split; [exact Hle|intros st' H; discriminate].
    + unfold pre_mu; cbn [x_i x_toks]. lia.
Qed.

Lemma pre_inv_init : forall toks, pre_inv (pre_init toks).
Proof. intros toks. unfold pre_inv, pre_init; cbn [x_i x_start x_toks]. split; [lia|intros st H; discriminate]. Qed.

(* ParsePreformatted.run: within fuel len+1 the loop ends, nothing is raised, at most len iterations *)
Theorem pre_run_total : forall toks,
  exists r iters, pre_run (pre_fuel toks) toks = POk (r, iters) /\ iters <= 1 * length toks.
Proof.
  intros toks. unfold pre_run, pre_fuel.
  destruct (iter_terminates pre_step pre_inv pre_mu pre_step_ok (length toks + 1) 0 (pre_init toks) (pre_inv_init toks))
    as (r & k & Hr & Hk).
  - unfold pre_mu, pre_init; cbn [x_i x_toks]. lia.
  - exists r, k. split; [exact Hr|]. unfold pre_mu, pre_init in Hk; cbn [x_i x_toks] in Hk. lia.
Qed.

(* non-vacuity: " a\n b\n" (two preformatted lines are merged into one node), a block node cancels an open line *)
Lemma pre_examples :
  pre_run 7 [GTok XPre 1%N []; GTok XOther 2%N []; GTok XNewline 3%N [];
             GTok XPre 4%N []; GTok XOther 5%N []; GTok XNewline 6%N []]
  = POk ([GTok XPreformatted 0%N [GTok XOther 2%N []; GTok XNewline 3%N []; GTok XOther 5%N []; GTok XNewline 6%N []]], 6)
  /\ pre_run 4 [GTok XPre 1%N []; GTok XBlock 2%N []; GTok XNewline 3%N []]
     = POk ([GTok XPre 1%N []; GTok XBlock 2%N []; GTok XNewline 3%N []], 3)
  /\ pre_run 3 [GTok XPre 1%N []; GTok XBlock 2%N []; GTok XNewline 3%N []] = PRaise PFuel.
Proof. split; [vm_compute; reflexivity|]. split; vm_compute; reflexivity. Qed.
