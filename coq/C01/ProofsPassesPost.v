(* C01 — proofs about the model of post_processors.remove_boilerplate (C01/PassesPost.v). *)
From Coq Require Import List Bool Arith Lia.
From MW Require Import C01.PassesPost.
Import ListNotations.

Definition hmax (l : list node) : nat := fold_right (fun c m => Nat.max (height c) m) 0 l.

Lemma height_node : forall k ch, height (Node k ch) = S (hmax ch).
Proof. reflexivity. Qed.

Lemma hmax_Forall : forall l f, hmax l <= f <-> Forall (fun c => height c <= f) l.
Proof.
  induction l as [|x r IH]; intro f; cbn [hmax fold_right].
  - split; [constructor | lia].
  - fold (hmax r). split.
    + intro H. constructor; [lia | apply IH; lia].
    + intro H. inversion H as [|? ? Hx Hr]; subst. apply IH in Hr. lia.
Qed.

(* under a safe configuration the deletion test never raises *)
Lemma drop_test_safe : forall c, cfg_safe c = true -> forall n, exists b, drop_test c n = ROk b.
Proof.
  intros c Hs [k ch]. unfold cfg_safe in Hs. destruct k as [cls| | |]; cbn [drop_test]; try (eexists; reflexivity).
  unfold get_class. destruct (cfg_lookup c) eqn:El; [|discriminate].
  rewrite Hs. cbn [in_test]. eexists; reflexivity.
Qed.

(* the while loop returns a sub-list of the children *)
Lemma rb_loop_safe : forall c, cfg_safe c = true -> forall l,
  exists kept, rb_loop c l = ROk kept /\ (forall P : node -> Prop, Forall P l -> Forall P kept) /\ length kept <= length l.
Proof.
  intros c Hs. induction l as [|x r [kept [Hk [Hsub Hlen]]]]; cbn [rb_loop].
  - exists []. repeat split; auto.
  - destruct (drop_test_safe c Hs x) as [b Hb]. rewrite Hb, Hk. destruct b.
    + exists kept. repeat split; [|cbn [length]; lia].
      intros P HP. inversion HP; subst. auto.
    + exists (x :: kept). repeat split; [|cbn [length]; lia].
      intros P HP. inversion HP; subst. constructor; auto.
Qed.

Lemma map_rres_ok : forall (A B : Type) (f : A -> rres B) (l : list A),
  Forall (fun x => exists y, f x = ROk y) l -> exists l', map_rres f l = ROk l' /\ length l' = length l.
Proof.
  intros A B f. induction l as [|x r IH]; intro H; cbn [map_rres].
  - exists []. auto.
  - inversion H as [|? ? [y Hy] Hr]; subst. destruct (IH Hr) as [r' [Hr' Hl]].
    rewrite Hy, Hr'. exists (y :: r'). cbn [length]. auto.
Qed.

(* totality: with fuel >= height, a safe configuration returns a tree *)
Lemma rb_total_fuel : forall c, cfg_safe c = true -> forall f n, height n <= f -> exists n', rb c f n = ROk n'.
Proof.
  intros c Hs. induction f as [|f IH]; intros [k ch] Hh.
  - rewrite height_node in Hh. lia.
  - rewrite height_node in Hh. cbn [rb].
    destruct (rb_loop_safe c Hs ch) as [kept [Hk [Hsub _]]]. rewrite Hk.
    assert (Hch : Forall (fun x => height x <= f) ch) by (apply hmax_Forall; lia).
    apply Hsub in Hch.
    assert (Hall : Forall (fun x => exists y, rb c f x = ROk y) kept).
    { eapply Forall_impl; [|exact Hch]. cbv beta. intros a Ha. apply IH. exact Ha. }
    destruct (map_rres_ok _ _ (rb c f) kept Hall) as [ch' [Hch' _]]. rewrite Hch'. eexists; reflexivity.
Qed.

Lemma rb_total : forall c, cfg_safe c = true -> forall n, exists n', rb c (height n) n = ROk n'.
Proof. intros c Hs n. apply rb_total_fuel; auto. Qed.

(* the result never has more children at the root, and keeps the root's kind *)
Lemma rb_root : forall c f k ch n', rb c (S f) (Node k ch) = ROk n' ->
  exists ch', n' = Node k ch' /\ length ch' <= length ch.
Proof.
  intros c f k ch n' H. cbn [rb] in H.
  destruct (rb_loop c ch) as [kept| |] eqn:Ek; try discriminate.
  destruct (map_rres (rb c f) kept) as [ch'| |] eqn:Em; try discriminate.
  inversion H; subst. exists ch'. split; [reflexivity|].
  assert (Hl1 : length kept <= length ch).
  { clear Em H. revert kept Ek. induction ch as [|x r IHr]; intros kept Ek; cbn [rb_loop] in Ek.
    - inversion Ek; subst. auto.
    - destruct (drop_test c x) as [[|]| |]; try discriminate.
      + apply IHr in Ek. cbn [length]. lia.
      + destruct (rb_loop c r) as [r'| |]; try discriminate. inversion Ek; subst.
        specialize (IHr r' eq_refl). cbn [length]. lia. }
  assert (Hl2 : length ch' = length kept).
  { clear Ek H Hl1. revert ch' Em. induction kept as [|x r IHr]; intros ch' Em; cbn [map_rres] in Em.
    - inversion Em; subst. reflexivity.
    - destruct (rb c f x); try discriminate. destruct (map_rres (rb c f) r) as [r'| |]; try discriminate.
      inversion Em; subst. cbn [length]. f_equal. apply IHr. reflexivity. }
  lia.
Qed.

(* reading the attribute dict makes the function partial, whatever the except clause catches:
   <div class=5> anywhere in the article raises TypeError *)
Lemma rb_vlist_raises : forall caught,
  let n := Node KOtherNode [Node KOtherNode [Node (KDiv (Some AInt)) [Node KText []]]] in
  rb {| cfg_lookup := LVlist; cfg_caught := caught |} (height n) n = RRaise PTypeError.
Proof. intro caught. reflexivity. Qed.

(* an absent attribute without `except AttributeError` raises on the first div *)
Lemma rb_absent_uncaught_raises :
  let n := Node KOtherNode [Node (KDiv None) []] in
  rb {| cfg_lookup := LAbsent; cfg_caught := [] |} (height n) n = RRaise PAttributeError.
Proof. reflexivity. Qed.

(* non-vacuity: the code as it stands deletes nothing (the lookup always fails over to ''), with the attribute dict a
   boilerplate div is deleted with its subtree and a numeric class raises; out of fuel below the height *)
Lemma rb_examples :
  let t := Node KOtherNode [Node (KDiv (Some (AStr true))) [Node KText []]; Node KText [];
                        Node KTagNode [Node (KDiv (Some AInt)) []]] in
  let t2 := Node KOtherNode [Node (KDiv (Some (AStr true))) [Node KText []]; Node KText []] in
  rb {| cfg_lookup := LAbsent; cfg_caught := [PAttributeError] |} (height t) t = ROk t /\
  rb {| cfg_lookup := LVlist; cfg_caught := [PAttributeError] |} (height t2) t2 = ROk (Node KOtherNode [Node KText []]) /\
  rb {| cfg_lookup := LVlist; cfg_caught := [PAttributeError] |} (height t) t = RRaise PTypeError /\
  rb {| cfg_lookup := LAbsent; cfg_caught := [PAttributeError] |} 2 t = RFuel.
Proof. repeat split; reflexivity. Qed.
