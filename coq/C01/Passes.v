(* C01 — executable models of the index-walking loops of the refinement passes
   (src/mwlib/parser/refine/core.py).  No proofs in this file.

   Tokens are abstracted to the KINDS the loops branch on; the payload is an id (N), so that results can be
   compared with the real passes (vt/harness/c01_passes.py).  Every loop is modelled as written: a state
   (index, token list, auxiliary variables), one `step` function per loop iteration mirroring each branch,
   Python slices / slice assignments as firstn/skipn, and the fuelled driver `iter` that returns
   `PRaise PFuel` when the fuel runs out and `PRaise PIndex`/... where the Python could raise.

   Two places use Python aliasing (a token object held in a side list AND inside the token tree is mutated):
   ParseSections' `sections` stack and ParseSingleQuote's `styles` list.  They are modelled functionally:
   - `sections`: the open sections are kept detached on the stack and are attached to their parent (or written
     back to tokens[p0] for the bottom one) when they are popped / at the end (`pop_from`, `flush`); nothing is
     appended to a section that is not on top of the stack, so the order of children is the same.
   - `styles`: the indices of the style tokens in the token list (positions < the current start never move). *)
From Coq Require Import List NArith Arith Bool.
Import ListNotations.

Inductive pexn := PFuel | PIndex | PValue | PAttr | PType.
Inductive pres (A : Type) := POk (a : A) | PRaise (e : pexn).
Arguments POk {A} a.
Arguments PRaise {A} e.

Inductive stepres (St R : Type) := Continue (s : St) | Done (r : R) | Fail (e : pexn).
Arguments Continue {St R} s.
Arguments Done {St R} r.
Arguments Fail {St R} e.

(* fuelled driver: result and the number of executed loop bodies (Continue steps) *)
Section Iter.
  Context {St R : Type}.
  Variable step : St -> stepres St R.
  Fixpoint iter (fuel : nat) (n : nat) (s : St) : pres (R * nat) :=
    match fuel with
    | 0 => PRaise PFuel
    | S f =>
      match step s with
      | Continue s' => iter f (S n) s'
      | Done r => POk (r, n)
      | Fail e => PRaise e
      end
    end.
End Iter.

(* ------------------------------------------------------------------------------------------ tokens *)

Inductive pch := PcColon | PcStar | PcHash | PcSemi | PcOther.        (* characters of a lineprefix *)
Inductive capt := CNone | C2 | C3 | CColon | CSemi.                   (* caption of a complex_style: "", '', ''', ":", ";" *)
Inductive tagn := Tul | Tol | Tli | Tp.

Inductive kind :=
  (* raw tokens *)
  | KOther                        (* any token no modelled loop looks at (t_text, ...) *)
  | KSection (n : nat)            (* t_section,     text.count("=") = n *)
  | KSectionEnd (n : nat)         (* t_section_end, text.count("=") = n *)
  | KNewline | KBreak
  | KItem (p : list pch)          (* t_item,  text.strip() = p *)
  | KColon (p : list pch)         (* t_colon, text.strip() = p *)
  | KQuote (n : nat)              (* t_singlequote, len(text) = n *)
  | KUrl                          (* t_urllink *)
  | KClose                        (* t_special "]" *)
  | K2Close                       (* t_2box_close *)
  | KSpColon                      (* t_special ":" *)
  | KEndTag (ol : bool)           (* t_html_tag_end with rawtagname "ul" (false) / "ol" (true) *)
  | KBlock                        (* any other token with blocknode = True *)
  (* produced by the passes *)
  | KEq (n : nat)                 (* t_text "=" * n *)
  | KApos (n : nat)               (* t_text "'" * n *)
  | KNode (block : bool)          (* t_complex_node *)
  | KSect (level : nat)           (* t_complex_section, blocknode *)
  | KPara                         (* t_complex_tag "p", blocknode (ParseParagraphs) *)
  | KNamedUrl                     (* t_complex_named_url; id = id of the urllink token (its caption) *)
  | KStyle (c : capt)             (* t_complex_style *)
  | KLine (p : list pch) (tagp : bool)   (* t_complex_line: lineprefix, tagname == "p" *)
  | KTag (t : tagn) (block : bool).      (* t_complex_tag ul/ol/li/p (ParseLines) *)

Inductive tok := Tok (k : kind) (id : N) (kids : list tok).

Definition tkind (t : tok) : kind := match t with Tok k _ _ => k end.
Definition tid (t : tok) : N := match t with Tok _ i _ => i end.
Definition tkids (t : tok) : list tok := match t with Tok _ _ ks => ks end.

(* Python slices: l[a:b]  and  l[a:b] = x *)
Definition slice {A} (a b : nat) (l : list A) : list A := firstn (b - a) (skipn a l).
Definition splice {A} (a b : nat) (x : list A) (l : list A) : list A := firstn a l ++ x ++ skipn (Nat.max a b) l.
Definition set_nth {A} (n : nat) (x : A) (l : list A) : list A :=
  if n <? length l then firstn n l ++ x :: skipn (S n) l else l.
Definition del_nth {A} (n : nat) (l : list A) : list A := firstn n l ++ skipn (S n) l.
Definition add_kid (p c : tok) : tok := match p with Tok k i ks => Tok k i (ks ++ [c]) end.

(* ================================================================================================
   ParseSections  (core.py:94-150 create/_something, 182-197 run)
   ================================================================================================ *)

(* token.text.count("="): text is None for complex tokens (AttributeError) *)
Definition eqcount (t : tok) : option nat :=
  match tkind t with
  | KSection n | KSectionEnd n | KEq n => Some n
  | KOther | KNewline | KBreak | KItem _ | KColon _ | KQuote _ | KUrl | KClose | K2Close | KSpColon
  | KEndTag _ | KBlock | KApos _ => Some 0
  | _ => None
  end.

Definition sect_level (t : tok) : nat := match tkind t with KSect l => l | _ => 0 end.

(* `while sections and level <= sections[-1].level: sections.pop()` on the stack top :: rest; a popped section is
   closed: attached to its parent, or (bottom of the stack) written back to tokens[p0] *)
Fixpoint pop_from (level : nat) (top : tok) (rest : list tok) (toks : list tok) (p0 : nat) : list tok * list tok :=
  if level <=? sect_level top then
    match rest with
    | [] => ([], set_nth p0 top toks)
    | p :: rest' => pop_from level (add_kid p top) rest' toks p0
    end
  else (top :: rest, toks).

Definition pop_sections (level : nat) (stack toks : list tok) (p0 : nat) : list tok * list tok :=
  match stack with
  | [] => ([], toks)
  | top :: rest => pop_from level top rest toks p0
  end.

(* close everything that is still open (end of run) *)
Fixpoint flush_from (top : tok) (rest : list tok) (toks : list tok) (p0 : nat) : list tok :=
  match rest with
  | [] => set_nth p0 top toks
  | p :: rest' => flush_from (add_kid p top) rest' toks p0
  end.
Definition flush (stack toks : list tok) (p0 : nat) : list tok :=
  match stack with [] => toks | top :: rest => flush_from top rest toks p0 end.

Record cur := mkcur { c_start : option nat; c_endtitle : option nat }.
Definition nocur := mkcur None None.

Record screated := mkscreated { sc_toks : list tok; sc_stack : list tok; sc_p0 : nat; sc_index : nat }.

(* create(current, tokens, sections, index): None = returned False;
   Some r = returned True, r.sc_index = current.start + 1 after the call *)
Definition create (c : cur) (toks stack : list tok) (p0 index : nat) : pres (option screated) :=
  match c_start c, c_endtitle c with
  | Some st, Some et =>
    match nth_error toks st, nth_error toks et with                      (* l.97-98 *)
    | Some ts, Some te =>
      match eqcount ts, eqcount te with
      | Some sc, Some ec =>
        let level := Nat.min sc ec in
        let cap0 := slice (st + 1) et toks in                            (* l.103 *)
        let cap := if sc <? ec then cap0 ++ [Tok (KEq (ec - sc)) 0%N []]
                   else if ec <? sc then Tok (KEq (sc - ec)) 0%N [] :: cap0
                   else cap0 in
        let body := slice (et + 1) index toks in                         (* l.115 *)
        let sect := Tok (KSect level) 0%N [Tok (KNode false) 0%N cap; Tok (KNode false) 0%N body] in
        let toks1 := splice st index [sect] toks in                      (* l.124 *)
        let '(stack1, toks2) := pop_sections level stack toks1 p0 in     (* l.125-126 *)
        match stack1 with
        | [] => POk (Some (mkscreated toks2 [sect] st (st + 1)))
        | _ :: _ =>                                                      (* l.127-130: moved under sections[-1] *)
          POk (Some (mkscreated (del_nth st toks2) (sect :: stack1) p0 st))
        end
      | _, _ => PRaise PAttr
      end
    | _, _ => PRaise PIndex
    end
  | _, _ => POk None
  end.

Record sstate := mksstate { s_i : nat; s_toks : list tok; s_stack : list tok; s_p0 : nat; s_cur : cur }.

Definition sec_init (toks : list tok) : sstate := mksstate 0 toks [] 0 nocur.

Definition sec_step (s : sstate) : stepres sstate (list tok) :=
  let i := s_i s in
  if i <? length (s_toks s) then                                         (* l.194 *)
    match nth_error (s_toks s) i with
    | None => Fail PIndex
    | Some t =>
      match tkind t with
      | KSection _ =>                                                    (* l.137-143 *)
        match create (s_cur s) (s_toks s) (s_stack s) (s_p0 s) i with
        | PRaise e => Fail e
        | POk (Some r) => Continue (mksstate (sc_index r) (sc_toks r) (sc_stack r) (sc_p0 r) nocur)
        | POk None => Continue (mksstate (S i) (s_toks s) (s_stack s) (s_p0 s) (mkcur (Some i) (c_endtitle (s_cur s))))
        end
      | KSectionEnd _ =>                                                 (* l.144-146 *)
        Continue (mksstate (S i) (s_toks s) (s_stack s) (s_p0 s) (mkcur (c_start (s_cur s)) (Some i)))
      | _ => Continue (mksstate (S i) (s_toks s) (s_stack s) (s_p0 s) (s_cur s))
      end
    end
  else                                                                   (* l.197 *)
    match create (s_cur s) (s_toks s) (s_stack s) (s_p0 s) (length (s_toks s)) with
    | PRaise e => Fail e
    | POk (Some r) => Done (flush (sc_stack r) (sc_toks r) (sc_p0 r))
    | POk None => Done (flush (s_stack s) (s_toks s) (s_p0 s))
    end.

Definition sec_fuel (toks : list tok) : nat := 2 * length toks + 1.
Definition sec_run (fuel : nat) (toks : list tok) : pres (list tok * nat) := iter sec_step fuel 0 (sec_init toks).

(* ================================================================================================
   ParseLines  (core.py:388-640)
   ================================================================================================ *)

Definition pch_eqb (a b : pch) : bool :=
  match a, b with
  | PcColon, PcColon | PcStar, PcStar | PcHash, PcHash | PcSemi, PcSemi | PcOther, PcOther => true
  | _, _ => false
  end.

(* getchar (l.441-446): ValueError unless a complex_line; None for an empty/None lineprefix *)
Definition getchar (t : tok) : pres (option pch) :=
  match tkind t with
  | KLine p _ => POk (hd_error p)
  | _ => PRaise PValue
  end.
Definition is_char (c : option pch) (p : pch) : bool := match c with Some q => pch_eqb q p | None => false end.
Definition line_pfx (t : tok) : list pch := match tkind t with KLine p _ => p | _ => [] end.

Definition guard_line : tok := Tok (KLine [PcOther] false) 0%N [].

(* handle_no_prefix (l.448-452) *)
Definition no_prefix (t : tok) : tok :=
  match t with
  | Tok (KLine _ true) i ks => Tok (KTag Tp false) i ks
  | Tok (KLine _ false) i ks => Tok (KNode false) i ks
  | _ => t
  end.

(* get_node_and_newitem (l.454-491): (kind of node, kind of a new item, endtag); None = `node = None` *)
Definition node_and_item (p : pch) : option (kind * kind * option bool) :=
  match p with
  | PcColon => Some (KStyle CColon, KNode true, None)
  | PcStar => Some (KTag Tul false, KTag Tli true, Some false)
  | PcHash => Some (KTag Tol false, KTag Tli true, Some true)
  | PcSemi => Some (KStyle CSemi, KNode true, None)
  | PcOther => None
  end.

(* first child that is </endtag>: (children before, children after) *)
Fixpoint find_endtag (ol : bool) (kids : list tok) : option (list tok * list tok) :=
  match kids with
  | [] => None
  | k :: r =>
    match tkind k with
    | KEndTag o => if Bool.eqb o ol then Some ([], r)
                   else match find_endtag ol r with Some (b, a) => Some (k :: b, a) | None => None end
    | _ => match find_endtag ol r with Some (b, a) => Some (k :: b, a) | None => None end
    end
  end.

(* append_line (l.493-511): (lines, item.children) after the call *)
Definition append_line (lines : list tok) (sp : nat) (kids : list tok) (endtag : option bool)
  : pres (list tok * list tok) :=
  match nth_error lines sp with
  | None => PRaise PIndex
  | Some ln =>
    let plain := POk (del_nth sp lines, kids ++ [ln]) in
    match endtag with
    | None => plain
    | Some ol =>
      match find_endtag ol (tkids ln) with
      | Some (before, after) =>
        POk (set_nth sp (Tok (KLine [] true) 0%N after) lines, kids ++ [Tok (tkind ln) (tid ln) before])
      | None => plain
      end
    end
  end.

(* splitdl (l.393-402): (item with children cut, Some description token) *)
Fixpoint find_spcolon (kids : list tok) : option (list tok * list tok) :=
  match kids with
  | [] => None
  | k :: r =>
    match tkind k with
    | KSpColon => Some ([], r)
    | _ => match find_spcolon r with Some (b, a) => Some (k :: b, a) | None => None end
    end
  end.

(* child.lineprefix = child.lineprefix[1:] (l.529-530); lineprefix None -> TypeError *)
Definition strip1 (t : tok) : tok :=
  match t with
  | Tok (KLine p tg) i ks => Tok (KLine (tl p) tg) i ks
  | _ => t
  end.

(* l.533-538: `prefix == ";" and item.children and item.children[0].type == complex_node` and splitdl(item.children[0])
   found a ":" : (item with its first child cut, description_data) *)
Definition split_dl (prefix : pch) (itemk : kind) (kids3 : list tok) : option (tok * tok) :=
  match prefix, kids3 with
  | PcSemi, Tok (KNode b) i0 ks0 :: restk =>
    match find_spcolon ks0 with
    | Some (before, after) =>
      (* `description_data.children.extend(item.children[1:]); del item.children[1:]` (fix 9ee1990): what the item
         swallowed follows the description text *)
      Some (Tok itemk 0%N [Tok (KNode b) i0 before], Tok (KStyle CColon) 0%N (after ++ restk))
    | None => None
    end
  | _, _ => None
  end.
(* `description_data = self.splitdl(..)` = None overwrites the variable when the test at l.533 holds *)
Definition dd_after (prefix : pch) (kids3 : list tok) (dd : option tok) : option tok :=
  match prefix, kids3 with
  | PcSemi, Tok (KNode _) _ _ :: _ => None
  | _, _ => dd
  end.

Section AnalyzeLoops.
  Variable rec : list tok -> pres (list tok).          (* self.analyze(item.children) *)

  (* inner while of collect_items, l.522-527 *)
  Fixpoint absorb (fuel : nat) (lines : list tok) (sp : nat) (prefix : pch) (endtag : option bool) (kids : list tok)
    : pres (list tok * list tok) :=
    match fuel with
    | 0 => PRaise PFuel
    | S f =>
      if sp <? length lines - 1 then
        match nth_error lines sp with
        | None => PRaise PIndex
        | Some ln =>
          match getchar ln with
          | PRaise e => PRaise e
          | POk c =>
            if is_char c prefix && (1 <? length (line_pfx ln)) then
              match append_line lines sp kids endtag with
              | PRaise e => PRaise e
              | POk (lines', kids') => absorb f lines' sp prefix endtag kids'
              end
            else POk (lines, kids)
          end
        end
      else POk (lines, kids)
    end.

  (* collect_items, l.513-546: (lines, node.children, description_data, broke_loop) *)
  Fixpoint collect_items (fuel : nat) (lines : list tok) (sp : nat) (prefix : pch) (itemk : kind) (endtag : option bool)
           (nkids : list tok) (dd : option tok) : pres (list tok * list tok * option tok * bool) :=
    match fuel with
    | 0 => PRaise PFuel
    | S f =>
      if sp <? length lines - 1 then
        match nth_error lines sp with
        | None => PRaise PIndex
        | Some ln =>
          match getchar ln with
          | PRaise e => PRaise e
          | POk c =>
            if is_char c prefix then
              match append_line lines sp [] endtag with                          (* l.520 *)
              | PRaise e => PRaise e
              | POk (lines1, kids1) =>
                match absorb (2 * length lines1 + 1) lines1 sp prefix endtag kids1 with   (* l.522-527 *)
                | PRaise e => PRaise e
                | POk (lines2, kids2) =>
                  match rec (map strip1 kids2) with                              (* l.529-531 *)
                  | PRaise e => PRaise e
                  | POk kids3 =>
                    let plainitem := Tok itemk 0%N kids3 in
                    let colonish := match prefix with PcColon | PcSemi => true | _ => false end in
                    let split := split_dl prefix itemk kids3 in                  (* l.533-538 *)
                    match split with
                    | Some (item', d) => POk (lines2, nkids ++ [item'], Some d, true)
                    | None =>
                      let dd' := dd_after prefix kids3 dd in
                      if colonish then POk (lines2, nkids ++ [plainitem], dd', true)
                      else collect_items f lines2 sp prefix itemk endtag (nkids ++ [plainitem]) dd'
                    end
                  end
                end
              end
            else POk (lines, nkids, dd, false)
          end
        end
      else POk (lines, nkids, dd, false)
    end.

  (* inner while of analyze, l.419-424 *)
  Fixpoint group_loop (fuel : nat) (lines : list tok) (sp : nat) (prefix : pch) (itemk : kind) (endtag : option bool)
           (nkids : list tok) (dd : option tok) : pres (list tok * list tok * option tok) :=
    match fuel with
    | 0 => PRaise PFuel
    | S f =>
      if sp <? length lines - 1 then
        match nth_error lines sp with
        | None => PRaise PIndex
        | Some ln =>
          match getchar ln with
          | PRaise e => PRaise e
          | POk c =>
            if is_char c prefix then
              match collect_items (2 * length lines + 1) lines sp prefix itemk endtag nkids dd with
              | PRaise e => PRaise e
              | POk (lines', nkids', dd', broke) =>
                if broke then POk (lines', nkids', dd')
                else group_loop f lines' sp prefix itemk endtag nkids' dd'
              end
            else POk (lines, nkids, dd)
          end
        end
      else POk (lines, nkids, dd)
    end.

  (* outer while of analyze, l.408-438 (lines includes the guard) *)
  Definition analyze_step (s : nat * list tok) : stepres (nat * list tok) (list tok) :=
    let '(sp, lines) := s in
    if sp <? length lines - 1 then
      match nth_error lines sp with
      | None => Fail PIndex
      | Some ln =>
        match getchar ln with
        | PRaise e => Fail e
        | POk None => Continue (S sp, set_nth sp (no_prefix ln) lines)          (* l.410-413 *)
        | POk (Some prefix) =>
          match node_and_item prefix with
          | None => Fail PAttr                                                   (* node = None; node.children = [] *)
          | Some (nodek, itemk, endtag) =>
            match group_loop (2 * length lines + 1) lines sp prefix itemk endtag [] None with
            | PRaise e => Fail e
            | POk (lines', nkids, dd) =>
              let lines1 := firstn sp lines' ++ Tok nodek 0%N nkids :: skipn sp lines' in   (* l.434 *)
              match dd with
              | None => Continue (S sp, lines1)
              | Some d => Continue (S (S sp), firstn (S sp) lines1 ++ d :: skipn (S sp) lines1)
              end
            end
          end
        end
      end
    else Done (removelast lines).                                              (* l.439 *)
End AnalyzeLoops.

(* analyze (l.404-439); `depth` bounds the recursion through item.children, the loops carry their own fuel *)
Fixpoint analyze (depth : nat) (lines : list tok) : pres (list tok) :=
  match depth with
  | 0 => PRaise PFuel
  | S d =>
    match iter (analyze_step (analyze d)) (2 * length lines + 3) 0 (0, lines ++ [guard_line]) with
    | POk (r, _) => POk r
    | PRaise e => PRaise e
    end
  end.

(* a depth that is always enough: every recursive call strips one prefix character of every line *)
Fixpoint max_pfx (lines : list tok) : nat :=
  match lines with [] => 0 | l :: r => Nat.max (length (line_pfx l)) (max_pfx r) end.
Definition analyze_full (lines : list tok) : pres (list tok) := analyze (max_pfx lines + 2) lines.

(* get_line_prefix (l.548-549) *)
Definition item_pfx (t : tok) : list pch := match tkind t with KItem p | KColon p => p | _ => [] end.

Record lstate := mklstate { l_i : nat; l_toks : list tok; l_lines : list tok; l_start : option nat; l_first : option nat }.
Definition lin_init (toks : list tok) : lstate := mklstate 0 toks [] None None.

Definition nat_of_opt (o : option nat) : nat := match o with Some n => n | None => 0 end.   (* tokens[None:i] *)

Section LinesRun.
  Variable analyze_f : list tok -> pres (list tok).

  (* after the loop, l.579-592 *)
  Definition lin_post (toks lines : list tok) (start first : option nat) : stepres lstate (list tok) :=
    let lines1 :=
      match start with
      | Some sl =>
        match nth_error toks sl with
        | None => PRaise PIndex
        | Some it => POk (lines ++ [Tok (KLine (item_pfx it) false) 0%N (skipn (sl + 1) toks)])
        end
      | None => POk lines
      end in
    match lines1 with
    | PRaise e => Fail e
    | POk [] => Done toks
    | POk (l :: ls) =>
      match analyze_f (l :: ls) with
      | PRaise e => Fail e
      | POk out => Done (firstn (nat_of_opt first) toks ++ out)
      end
    end.

  (* analyze(lines); tokens[first_token:i] = lines; i = first_token; ... (l.571-575, 608-613) *)
  Definition lin_splice (s : lstate) (lines : list tok) : stepres lstate (list tok) :=
    match analyze_f lines with
    | PRaise e => Fail e
    | POk out =>
      let toks' := splice (nat_of_opt (l_first s)) (l_i s) out (l_toks s) in
      match l_first s with
      | Some ft => Continue (mklstate ft toks' [] None None)
      | None => lin_post toks' [] None None                    (* i = None: the loop ends (l.557) *)
      end
    end.

  Definition lin_step (s : lstate) : stepres lstate (list tok) :=
    let i := l_i s in
    if i <? length (l_toks s) then
      match nth_error (l_toks s) i with
      | None => Fail PIndex
      | Some t =>
        let other :=                                                      (* l.569-577 *)
          match l_start s, l_lines s with
          | None, _ :: _ => lin_splice s (l_lines s)
          | _, _ => Continue (mklstate (S i) (l_toks s) (l_lines s) (l_start s) (l_first s))
          end in
        match tkind t with
        | KItem _ | KColon _ =>                                           (* l.635-640 *)
          Continue (mklstate (S i) (l_toks s) (l_lines s) (Some i)
                             (match l_first s with None => Some i | Some f => Some f end))
        | KNewline =>
          match l_start s with
          | Some sl =>                                                    (* l.619-632 *)
            match nth_error (l_toks s) sl with
            | None => Fail PIndex
            | Some it =>
              Continue (mklstate (S i) (l_toks s)
                                 (l_lines s ++ [Tok (KLine (item_pfx it) false) 0%N (slice (sl + 1) (i + 1) (l_toks s))])
                                 None (l_first s))
            end
          | None => other
          end
        | KBreak =>                                                       (* l.594-617 *)
          let lines1 :=
            match l_start s with
            | Some sl =>
              match nth_error (l_toks s) sl with
              | None => PRaise PIndex
              | Some it => POk (l_lines s ++ [Tok (KLine (item_pfx it) false) 0%N (slice (sl + 1) i (l_toks s))])
              end
            | None => POk (l_lines s)
            end in
          match lines1 with
          | PRaise e => Fail e
          | POk [] => Continue (mklstate (S i) (l_toks s) [] None None)
          | POk (l :: ls) => lin_splice (mklstate i (l_toks s) (l :: ls) None (l_first s)) (l :: ls)
          end
        | _ => other
        end
      end
    else lin_post (l_toks s) (l_lines s) (l_start s) (l_first s).
End LinesRun.

Definition lin_fuel (toks : list tok) : nat := 4 * length toks + 1.
Definition lin_run (fuel : nat) (toks : list tok) : pres (list tok * nat) :=
  iter (lin_step analyze_full) fuel 0 (lin_init toks).

(* ================================================================================================
   ParseParagraphs.run  (core.py:806-837)
   ================================================================================================ *)

Definition blocknode (t : tok) : bool :=
  match tkind t with
  | KBlock | KSect _ | KPara => true
  | KNode b | KTag _ b => b
  | _ => false
  end.

(* create(delta) (l.811-821) *)
Definition para_create (toks : list tok) (first i delta : nat) : list tok :=
  match slice first i toks with
  | [] => toks
  | sub => splice first (i + delta) [Tok KPara 0%N sub] toks
  end.

Record pstate := mkpstate { p_i : nat; p_first : nat; p_toks : list tok }.
Definition par_init (toks : list tok) : pstate := mkpstate 0 0 toks.

Definition par_step (s : pstate) : stepres pstate (list tok) :=
  let i := p_i s in
  if i <? length (p_toks s) then
    match nth_error (p_toks s) i with
    | None => Fail PIndex
    | Some t =>
      match tkind t with
      | KBreak => Continue (mkpstate (S (p_first s)) (S (p_first s)) (para_create (p_toks s) (p_first s) i 1))
      | _ =>
        if blocknode t
        then Continue (mkpstate (S (p_first s)) (S (p_first s)) (para_create (p_toks s) (p_first s) i 0))
        else Continue (mkpstate (S i) (p_first s) (p_toks s))
      end
    end
  else
    match p_first s with
    | 0 => Done (p_toks s)
    | S _ => Done (para_create (p_toks s) (p_first s) i 1)
    end.

Definition par_fuel (toks : list tok) : nat := 2 * length toks + 1.
Definition par_run (fuel : nat) (toks : list tok) : pres (list tok * nat) := iter par_step fuel 0 (par_init toks).

(* ================================================================================================
   ParseSingleQuote  (core.py:247-335)
   ================================================================================================ *)

Record qst := mkqst { q_apo : nat; q_bold : bool; q_ital : bool }.      (* a styleanalyzer.State *)

Definition map_nth {A} (n : nat) (f : A -> A) (l : list A) : pres (list A) :=
  match nth_error l n with
  | None => PRaise PIndex
  | Some x => POk (firstn n l ++ f x :: skipn (S n) l)
  end.

(* body of the for loop of finish (l.261-280) on self.styles[i] *)
Definition apply_state (last : nat) (st : qst) (t : tok) : tok :=
  match t with
  | Tok k i ks =>
    let ks1 := match q_apo st - last with 0 => ks | S m => Tok (KApos (S m)) 0%N [] :: ks end in
    if q_bold st && q_ital st then Tok (KStyle C3) i [Tok (KStyle C2) 0%N ks1]
    else if q_bold st then Tok (KStyle C3) i ks1
    else if q_ital st then Tok (KStyle C2) i ks1
    else Tok (KNode false) i ks1
  end.

Fixpoint finish_loop (states : list qst) (styles : list nat) (last : nat) (toks : list tok) : pres (list tok) :=
  match states with
  | [] => POk toks
  | st :: states' =>
    match styles with
    | [] => PRaise PIndex                                                 (* self.styles[i] *)
    | ix :: styles' =>
      match map_nth ix (apply_state last st) toks with
      | PRaise e => PRaise e
      | POk toks' => finish_loop states' styles' (q_apo st) toks'
      end
    end
  end.

Section SingleQuote.
  Variable cpath : list nat -> pres (list qst).            (* styleanalyzer.compute_path *)

  Definition finish (counts styles : list nat) (toks : list tok) : pres (list tok) :=
    if negb (length counts =? length styles) then PRaise PValue           (* l.255-256 *)
    else match cpath counts with
         | PRaise e => PRaise e
         | POk states => finish_loop states styles 0 toks
         end.

  Record qstate := mkqstate { q_pos : nat; q_toks : list tok; q_start : option nat; q_counts : list nat; q_styles : list nat }.
  Definition sq_init (toks : list tok) : qstate := mkqstate 0 toks None [] [].

  Definition close_style (toks : list tok) (st pos : nat) : list tok :=
    splice st pos [Tok (KStyle CNone) 0%N (slice (st + 1) pos toks)] toks.

  Definition sq_step (s : qstate) : stepres qstate (list tok) :=
    let pos := q_pos s in
    if pos <? length (q_toks s) then
      match nth_error (q_toks s) pos with
      | None => Fail PIndex
      | Some t =>
        match tkind t with
        | KQuote n =>                                                     (* l.282-294 *)
          match q_start s with
          | None => Continue (mkqstate (S pos) (q_toks s) (Some pos) (q_counts s ++ [n]) (q_styles s))
          | Some st => Continue (mkqstate (S st) (close_style (q_toks s) st pos) None (q_counts s) (q_styles s ++ [st]))
          end
        | KNewline =>                                                     (* l.309-324 *)
          let '(toks1, styles1, pos1) :=
            match q_start s with
            | Some st => (close_style (q_toks s) st pos, q_styles s ++ [st], st)
            | None => (q_toks s, q_styles s, pos)
            end in
          match q_counts s with
          | [] => Continue (mkqstate (S pos1) toks1 None [] styles1)
          | _ :: _ =>
            match finish (q_counts s) styles1 toks1 with
            | PRaise e => Fail e
            | POk toks2 => Continue (mkqstate (S pos1) toks2 None [] [])
            end
          end
        | _ => Continue (mkqstate (S pos) (q_toks s) (q_start s) (q_counts s) (q_styles s))
        end
      end
    else                                                                  (* l.328-335 *)
      let '(toks1, styles1) :=
        match q_start s with
        | Some st => (close_style (q_toks s) st pos, q_styles s ++ [st])
        | None => (q_toks s, q_styles s)
        end in
      match q_counts s with
      | [] => Done toks1
      | _ :: _ =>
        match finish (q_counts s) styles1 toks1 with
        | PRaise e => Fail e
        | POk toks2 => Done toks2
        end
      end.

  Definition sq_fuel (toks : list tok) : nat := 2 * length toks + 1.
  Definition sq_run (fuel : nat) (toks : list tok) : pres (list tok * nat) := iter sq_step fuel 0 (sq_init toks).
End SingleQuote.

(* ================================================================================================
   ParseUrls.run  (core.py:205-244)
   ================================================================================================ *)

Record ustate := mkustate { u_i : nat; u_toks : list tok; u_start : option nat }.
Definition url_init (toks : list tok) : ustate := mkustate 0 toks None.

Definition url_step (s : ustate) : stepres ustate (list tok) :=
  let i := u_i s in
  let next := Continue (mkustate (S i) (u_toks s) (u_start s)) in
  if i <? length (u_toks s) then
    match nth_error (u_toks s) i with
    | None => Fail PIndex
    | Some t =>
      match tkind t, u_start s with
      | KUrl, None => Continue (mkustate (S i) (u_toks s) (Some i))       (* l.212-214 *)
      | KClose, Some st =>                                                (* l.215-229 *)
        match nth_error (u_toks s) st with
        | None => Fail PIndex
        | Some u =>
          Continue (mkustate st (splice st (i + 1) [Tok KNamedUrl (tid u) (slice (st + 1) i (u_toks s))] (u_toks s)) None)
        end
      | K2Close, Some st =>                                               (* l.230-242 *)
        let toks1 := set_nth i (Tok KClose (tid t) (tkids t)) (u_toks s) in
        match nth_error toks1 st with
        | None => Fail PIndex
        | Some u =>
          Continue (mkustate st (splice st i [Tok KNamedUrl (tid u) (slice (st + 1) i toks1)] toks1) None)
        end
      | _, _ => next
      end
    end
  else Done (u_toks s).

Definition url_fuel (toks : list tok) : nat := 3 * length toks + 1.
Definition url_run (fuel : nat) (toks : list tok) : pres (list tok * nat) := iter url_step fuel 0 (url_init toks).
