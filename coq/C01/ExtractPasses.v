From Coq Require Import Extraction ExtrOcamlBasic.
From MW Require Import C01.Passes C01.PassesPre C01.PassesTable.
Extraction "../ocaml/c01p/c01p_model.ml" sec_run sec_fuel lin_run lin_fuel par_run par_fuel sq_run sq_fuel url_run url_fuel analyze_full pre_run pre_fuel cell_run cell_fuel row_run row_fuel tab_run tab_fuel.
