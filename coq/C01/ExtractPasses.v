From Coq Require Import Extraction ExtrOcamlBasic.
From MW Require Import C01.Passes.
Extraction "../ocaml/c01p/c01p_model.ml" sec_run sec_fuel lin_run lin_fuel par_run par_fuel sq_run sq_fuel url_run url_fuel analyze_full.
