(* C01 — lemmas *)
From Coq Require Import List NArith ZArith Bool Arith Lia Permutation.
From MW Require Import Common.Str C01.Model.
Import ListNotations.

(* ------------------------------------------------------------------ resolve_entity *)

Lemma chr_py_raises guard z e : chr_py guard z = Raise e -> e = EOverflow \/ e = EValue.
Proof.
  unfold chr_py. intros H.
  destruct ((z <? -2147483648) || (z >? 2147483647))%Z; [inversion H; auto|].
  destruct ((z <? 0) || (z >=? 1114112))%Z; [inversion H; auto|].
  destruct (guard && ((55296 <=? z) && (z <=? 57343))%Z); [inversion H; auto | discriminate].
Qed.

Lemma int_then_chr_raises pyint guard base d e :
  int_then_chr pyint guard base d = Raise e -> e = EOverflow \/ e = EValue.
Proof.
  unfold int_then_chr. destruct (pyint base d) as [z|]; intros H.
  - eapply chr_py_raises; eauto.
  - inversion H; auto.
Qed.

Lemma caught_in_In l e : In e l -> caught_in l e = true.
Proof.
  intros H. unfold caught_in. apply existsb_exists. exists e. split; [exact H|]. destruct e; reflexivity.
Qed.

(* Every string the two callers can pass (tokenizer rule `entity` and re `&[^;]*;`) has the shape '&' body ';'.
   For such strings, any int(), any name table with valid code points: no exception escapes. *)
Lemma resolve_entity_total pyint name2cp caught guard :
  (forall s z, name2cp s = Some z -> (0 <= z < 1114112)%Z) ->
  In EValue caught -> In EOverflow caught ->
  forall body, exists s, resolve_entity pyint name2cp caught guard (38%N :: body ++ [59%N]) = Ok s.
Proof.
  intros Hname HV HO body. unfold resolve_entity.
  assert (Hnamed : forall z, (0 <= z < 1114112)%Z -> exists c, chr_py false z = Ok c).
  { intros z Hz. unfold chr_py.
    replace ((z <? -2147483648) || (z >? 2147483647))%Z with false by lia.
    replace ((z <? 0) || (z >=? 1114112))%Z with false by lia. cbn. eauto. }
  destruct body as [|c1 body]; cbn [app nth_error].
  - (* "&;" *) change (N.eqb 59 35) with false. cbv iota.
    destruct (name2cp (slice_to_m1 1 [38%N; 59%N])) as [z|] eqn:E; [|eauto].
    apply Hname in E. destruct (Hnamed z E) as [c ->]. eauto.
  - destruct (N.eqb c1 35) eqn:E1.
    + (* numeric *)
      assert (Hc : exists c2, nth_error (body ++ [59%N]) 0 = Some c2).
      { destruct body; cbn; eauto. }
      destruct Hc as [c2 Hc]. cbn [nth_error] in Hc. rewrite Hc.
      match goal with |- context [match ?a with Ok _ => _ | Raise _ => _ end] => destruct a as [c|e] eqn:Ea end; [eauto|].
      assert (He : e = EOverflow \/ e = EValue).
      { destruct (N.eqb c2 120 || N.eqb c2 88); eapply int_then_chr_raises; eauto. }
      destruct He as [-> | ->]; rewrite caught_in_In by assumption; eauto.
    + destruct (name2cp _) as [z|] eqn:E; [|eauto].
      apply Hname in E. destruct (Hnamed z E) as [c ->]. eauto.
Qed.

(* the defect of the original code: with only ValueError caught, some digit string escapes *)
Lemma resolve_entity_valueerror_only_escapes :
  exists e, resolve_entity ascii_int (fun _ => None) [EValue] false e = Raise EOverflow.
Proof.
  (* "&#99999999999;" *)
  exists [38;35;57;57;57;57;57;57;57;57;57;57;57;59]%N. vm_compute. reflexivity.
Qed.

(* ------------------------------------------------------------------ compute_path *)

Lemma next2_len s : length (next2 s) = 1. Proof. reflexivity. Qed.
Lemma next3_len s : length (next3 s) = 2. Proof. reflexivity. Qed.
Lemma next4_len s : length (next4 s) = 2. Proof. reflexivity. Qed.
Lemma next5_len s : length (next5 s) = 6. Proof. reflexivity. Qed.

Lemma get_next_ok count s : 2 <= count ->
  exists l, get_next count s = Ok l /\ 1 <= length l <= 6.
Proof.
  intros H. unfold get_next.
  destruct (count <? 2) eqn:E; [apply Nat.ltb_lt in E; lia|].
  destruct (count =? 2); [exists (next2 s); split; [reflexivity|rewrite next2_len; lia]|].
  destruct (count =? 3); [exists (next3 s); split; [reflexivity|rewrite next3_len; lia]|].
  destruct (count =? 4); [exists (next4 s); split; [reflexivity|rewrite next4_len; lia]|].
  destruct (count =? 5); eexists; (split; [reflexivity|rewrite next5_len; lia]).
Qed.

Definition hist_len (n : nat) (p : pst) : Prop := length (snd p) = n.

Lemma expand_ok count states n : 2 <= count ->
  Forall (hist_len n) states ->
  exists new, expand count states = Ok new /\
    length states <= length new <= 6 * length states /\ Forall (hist_len (S n)) new.
Proof.
  intros Hc. induction states as [|[s hist] rest IH]; intros HF.
  - exists []. cbn. repeat split; auto; lia.
  - inversion HF as [|? ? Hh Hr]; subst.
    destruct (get_next_ok count s Hc) as [ns [Hns Hl]].
    destruct (IH Hr) as [more [Hm [Hlen Hfa]]].
    cbn [expand]. rewrite Hns, Hm. eexists. split; [reflexivity|].
    rewrite app_length, map_length. cbn [length]. unfold pst in *. split; [lia|].
    apply Forall_app. split; [|exact Hfa].
    apply Forall_forall. intros x Hx. apply in_map_iff in Hx as [y [<- _]].
    unfold hist_len in *. cbn in *. lia.
Qed.

Lemma Forall_perm {A} (P : A -> Prop) l l' : Permutation l l' -> Forall P l' -> Forall P l.
Proof.
  intros Hp HF. apply Forall_forall. intros x Hx.
  eapply Forall_forall in HF; [exact HF|]. eapply Permutation_in; eauto.
Qed.

Lemma Forall_firstn {A} (P : A -> Prop) k l : Forall P l -> Forall P (firstn k l).
Proof.
  revert l; induction k as [|k IH]; intros [|x l] H; cbn; auto.
  inversion H; subst. constructor; auto.
Qed.

Lemma dedup_incl seen l x : In x (dedup seen l) -> In x l.
Proof.
  revert seen; induction l as [|y r IH]; intros seen H; cbn [dedup] in H; [exact H|].
  destruct (existsb (st_eqb (fst y)) seen).
  - right. eapply IH; eauto.
  - destruct H as [<-|H]; [left; reflexivity|right; eapply IH; eauto].
Qed.

Lemma dedup_length seen l : length (dedup seen l) <= length l.
Proof.
  revert seen; induction l as [|y r IH]; intros seen; cbn [dedup length]; [lia|].
  destruct (existsb (st_eqb (fst y)) seen); [specialize (IH seen)|specialize (IH (fst y :: seen))]; cbn [length]; lia.
Qed.

Lemma dedup_nil_head l : l <> [] -> dedup [] l <> [].
Proof. destruct l as [|y r]; [congruence|]. intros _. cbn. discriminate. Qed.

Section WithSorter.
  Variable sorter : list pst -> list pst.
  Hypothesis sorter_perm : forall l, Permutation (sorter l) l.

  Lemma prune_ok new n : 1 <= length new -> Forall (hist_len n) new ->
    exists kept, prune (sorter new) = Ok kept /\ 1 <= length kept <= 32 /\ Forall (hist_len n) kept.
  Proof.
    intros Hl HF.
    assert (Hlen : length (sorter new) = length new) by (apply Permutation_length, sorter_perm).
    assert (HF' : Forall (hist_len n) (sorter new)) by (eapply Forall_perm; [apply sorter_perm|exact HF]).
    assert (HFd : Forall (hist_len n) (dedup [] (sorter new))).
    { apply Forall_forall. intros x Hx. apply dedup_incl in Hx. eapply Forall_forall in HF'; eauto. }
    assert (Hne : dedup [] (sorter new) <> []).
    { apply dedup_nil_head. intros E. rewrite E in Hlen. cbn in Hlen. lia. }
    unfold prune. destruct (dedup [] (sorter new)) as [|best rest] eqn:E; [congruence|].
    destruct (is_zero (fst best)).
    - eexists. split; [reflexivity|]. split; [cbn; lia|]. inversion HFd; subst. constructor; auto.
    - eexists. split; [reflexivity|]. split.
      + rewrite firstn_length. cbn [length]. lia.
      + apply Forall_firstn. exact HFd.
  Qed.

  Lemma steps_ok counts : Forall (fun c => 2 <= c) counts ->
    forall states n work, 1 <= length states <= 32 -> Forall (hist_len n) states ->
    exists final w, steps sorter counts states work = Ok (final, rev work ++ w) /\
      1 <= length final <= 32 /\ Forall (hist_len (n + length counts)) final /\
      length w = length counts /\ Forall (fun k => k <= 192) w.
  Proof.
    induction counts as [|c cs IH]; intros HC states n work Hl HF.
    - exists states, []. cbn. rewrite app_nil_r, Nat.add_0_r. repeat split; auto; lia.
    - inversion HC as [|? ? Hc Hcs]; subst.
      destruct (expand_ok c states n Hc HF) as [new [Hnew [Hlen Hfa]]].
      destruct (prune_ok new (S n)) as [kept [Hk [Hkl Hkf]]]; [lia|exact Hfa|].
      destruct (IH Hcs kept (S n) (length new :: work) Hkl Hkf) as [final [w [Hs [Hfl [Hff [Hwl Hwf]]]]]].
      exists final, (length new :: w). cbn [steps]. rewrite Hnew, Hk, Hs.
      split; [cbn [rev]; rewrite <- app_assoc; reflexivity|].
      split; [exact Hfl|]. split.
      + replace (n + length (c :: cs)) with (S n + length cs) by (cbn; lia). exact Hff.
      + split; [cbn; lia|]. constructor; [lia|exact Hwf].
  Qed.

  Lemma removelast_length {A} (l : list A) : length (removelast l) = length l - 1.
  Proof.
    induction l as [|x l IH]; [reflexivity|]. destruct l as [|y l]; [reflexivity|].
    change (removelast (x :: y :: l)) with (x :: removelast (y :: l)). cbn [length] in *. lia.
  Qed.

  (* compute_path never raises (count >= 2 is what the scanner's rule "'" "'"+ delivers), keeps at most 32
     states after every step, generates at most 6*32 states per step, and returns one state per count. *)
  Lemma compute_path_bounded counts : Forall (fun c => 2 <= c) counts ->
    exists path work, compute_path_work sorter counts = Ok (path, work) /\
      length path = length counts /\ length work = length counts /\
      Forall (fun k => k <= 192) work /\ fold_right plus 0 work <= 192 * length counts.
  Proof.
    intros HC.
    destruct (steps_ok counts HC [(init_st, [])] 0 []) as [final [w [Hs [Hfl [Hff [Hwl Hwf]]]]]];
      [cbn; lia | repeat constructor|].
    cbn [rev app] in Hs. unfold compute_path_work. rewrite Hs.
    destruct final as [|[s hist] rest]; [cbn in Hfl; lia|].
    inversion Hff as [|? ? Hh _]; subst. unfold hist_len in Hh. cbn in Hh.
    assert (Hp : length (rev (removelast (s :: hist))) = length counts).
    { rewrite rev_length, removelast_length. cbn [length]. lia. }
    rewrite Hp, Nat.eqb_refl. eexists _, _. split; [reflexivity|].
    repeat split; auto.
    rewrite <- Hwl. clear -Hwf. induction Hwf as [|k w Hk _ IH]; cbn; lia.
  Qed.
End WithSorter.

Lemma insert_perm x l : Permutation (insert_by_score x l) (x :: l).
Proof.
  induction l as [|y r IH]; cbn [insert_by_score]; [reflexivity|].
  destruct (score (fst x) <? score (fst y)); [reflexivity|].
  rewrite IH. apply perm_swap.
Qed.

Lemma stable_sort_perm l : Permutation (stable_sort l) l.
Proof.
  induction l as [|x l IH]; [reflexivity|].
  unfold stable_sort in *. cbn [fold_right]. rewrite insert_perm. constructor. exact IH.
Qed.

Lemma insert_le_perm x l : Permutation (insert_by_score_le x l) (x :: l).
Proof.
  induction l as [|y r IH]; cbn [insert_by_score_le]; [reflexivity|].
  destruct (score (fst x) <=? score (fst y)); [reflexivity|].
  rewrite IH. apply perm_swap.
Qed.

Lemma antistable_sort_perm l : Permutation (antistable_sort l) l.
Proof.
  induction l as [|x l IH]; [reflexivity|].
  unfold antistable_sort in *. cbn [fold_right]. rewrite insert_le_perm. constructor. exact IH.
Qed.
