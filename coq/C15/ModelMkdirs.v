(* C15 — executable model of CPython 3.12 posixpath.split and os.makedirs(name) (mode default,
   exist_ok=False), as called by mwlib.core.nuwiki.extract_member (nuwiki.py:307-308), and of the
   expansion of the `Makedirs` / `OpenWrite` effects of Model.v into the individual mkdir / open
   system calls.  Only definitions here; lemmas are in ProofsMkdirs.v.

   Lib/posixpath.py (3.12):
     def split(p):
         i = p.rfind(sep) + 1
         head, tail = p[:i], p[i:]
         if head and head != sep*len(head):
             head = head.rstrip(sep)
         return head, tail
   Lib/os.py (3.12):
     def makedirs(name, mode=0o777, exist_ok=False):
         head, tail = path.split(name)
         if not tail:
             head, tail = path.split(head)
         if head and tail and not path.exists(head):
             try:
                 makedirs(head, exist_ok=exist_ok)
             except FileExistsError:
                 pass
             cdir = curdir
             if tail == cdir:
                 return
         try:
             mkdir(name, mode)
         except OSError:
             if not exist_ok or not path.isdir(name):
                 raise                                                            *)
From Coq Require Import List NArith Bool.
From MW Require Import Common.Str C15.Model.
Import ListNotations.

(* tail = p[p.rfind('/')+1:] computed on the reversed string (reversed result) *)
Fixpoint take_to_slash_rev (r : str) : str :=
  match r with
  | x :: r' => if N.eqb x slash then [] else x :: take_to_slash_rev r'
  | [] => []
  end.

(* posixpath.split; the head is computed exactly as Model.dirname does *)
Definition split (p : str) : str * str :=
  let r := rev p in
  let head_rev := drop_to_slash_rev r in
  (if is_nil head_rev || all_slash head_rev then rev head_rev
   else rev (rstrip_slash_rev head_rev),
   rev (take_to_slash_rev r)).

(* ---------------------------------------------------------------- the file system seen by the code *)

(* os.mkdir(name, mode): created / FileExistsError / any other OSError *)
Inductive mkdir_res := MkOk | MkExists | MkFail.

(* One system call that can change the file system, with its result *)
Inductive sysop :=
| SMkdir (p : str) (r : mkdir_res)     (* os.mkdir(p, 0o777) *)
| SOpen (p : str) (ok : bool).         (* open(p, "wb") (+ write when ok) *)

Definition sysop_path (s : sysop) : str := match s with SMkdir p _ => p | SOpen p _ => p end.

(* Answers of the file system in one state *)
Record oracle := {
  o_exists : str -> bool;        (* os.path.exists *)
  o_isdir : str -> bool;         (* os.path.isdir *)
  o_mkdir : str -> mkdir_res;    (* os.mkdir *)
  o_open : str -> bool           (* open(p, "wb") succeeds *)
}.

(* The file system as a function of the calls made so far (in order): any deterministic
   evolution, including changes made by other processes between our calls. *)
Definition world := list sysop -> oracle.

Inductive mk_outcome :=
| MDone           (* returned None *)
| MFileExists     (* raised FileExistsError *)
| MOSError        (* raised another OSError *)
| MOutOfFuel.     (* model artefact; excluded by makedirs_fuel / makedirs_inside *)

(* mkdir(name, mode) with exist_ok=False: every OSError is re-raised *)
Definition do_mkdir (W : world) (h new : list sysop) (name : str) : list sysop * mk_outcome :=
  let r := o_mkdir (W (h ++ new)) name in
  (new ++ [SMkdir name r],
   match r with MkOk => MDone | MkExists => MFileExists | MkFail => MOSError end).

(* os.makedirs(name) started after history h; result: the mkdir calls it makes, in order.
   The recursion is on head, which is strictly shorter than name: fuel > length name suffices. *)
Fixpoint makedirs (W : world) (fuel : nat) (h : list sysop) (name : str)
  : list sysop * mk_outcome :=
  match fuel with
  | 0 => ([], MOutOfFuel)
  | S f =>
      let ht := split name in
      let ht := if is_nil (snd ht) then split (fst ht) else ht in
      let head := fst ht in
      let tail := snd ht in
      if negb (is_nil head) && negb (is_nil tail) && negb (o_exists (W h) head) then
        let '(new, o) := makedirs W f h head in
        match o with
        | MDone | MFileExists =>            (* except FileExistsError: pass *)
            if str_eqb tail [dot] then (new, MDone) else do_mkdir W h new name
        | _ => (new, o)                     (* other OSError propagates *)
        end
      else do_mkdir W h [] name
  end.

Definition makedirs_fuel (name : str) : nat := S (length name).

(* paths of the directories actually created by a list of calls *)
Fixpoint created (ops : list sysop) : list str :=
  match ops with
  | [] => []
  | SMkdir p MkOk :: rest => p :: created rest
  | _ :: rest => created rest
  end.

(* ---------------------------------------------------------------- extraction, call by call *)

Inductive xoutcome :=
| XDone
| XMakedirs (o : mk_outcome)     (* os.makedirs raised: extractall stops *)
| XOpenFailed.                   (* open(.., "wb") raised: extractall stops *)

(* The effects of extract_member (Model.v) run against the world, nuwiki.py:307-312:
     if not os.path.isdir(upperdirs): os.makedirs(upperdirs)
     with open(targetpath, "wb") as f: ...                                              *)
Fixpoint expand_ops (W : world) (h : list sysop) (ops : list fsop) : list sysop * xoutcome :=
  match ops with
  | [] => ([], XDone)
  | Makedirs p :: rest =>
      if o_isdir (W h) p then expand_ops W h rest
      else
        let '(new, o) := makedirs W (makedirs_fuel p) h p in
        match o with
        | MDone => let '(new', o') := expand_ops W (h ++ new) rest in (new ++ new', o')
        | _ => (new, XMakedirs o)
        end
  | OpenWrite p :: rest =>
      if o_open (W h) p then
        let '(new', o') := expand_ops W (h ++ [SOpen p true]) rest in (SOpen p true :: new', o')
      else ([SOpen p false], XOpenFailed)
  end.

(* ---------------------------------------------------------------- a concrete file system *)

Definition mem (p : str) (l : list str) : bool := existsb (str_eqb p) l.

Definition last_comp_is_dot (p : str) : bool := str_eqb (snd (split p)) [dot].

(* Directories only, no symlinks, identified by their normalised path ("." = the working
   directory).  mkdir p: EEXIST when p resolves to an existing directory; ENOENT when the parent
   is missing or p ends in a "." component; otherwise p is created. *)
Definition fs_world (fs0 : list str) : world := fun h =>
  let dirs := fs0 ++ map normpath (created h) in
  {| o_exists := fun p => mem (normpath p) dirs;
     o_isdir := fun p => mem (normpath p) dirs;
     o_mkdir := fun p =>
       let q := normpath p in
       if mem q dirs then MkExists
       else if last_comp_is_dot p then MkFail
       else if mem (normpath (dirname q)) dirs then MkOk
       else MkFail;
     o_open := fun _ => true |}.

(* os.makedirs(name) on the concrete file system: the directories created, and the outcome *)
Definition makedirs_fs (fs0 : list str) (name : str) : list str * mk_outcome :=
  let '(calls, o) := makedirs (fs_world fs0) (makedirs_fuel name) [] name in
  (created calls, o).
