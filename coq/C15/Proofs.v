From Coq Require Import List NArith Bool Lia.
From MW Require Import Common.Str C15.Model.
Import ListNotations.

(* A path component that cannot move a path upwards or sideways *)
Definition clean (c : str) : Prop :=
  c <> [] /\ c <> [dot] /\ c <> dotdot /\ no_char slash c.

(* p is lexically strictly below directory D: D/c1/../cn with clean components *)
Definition inside (D p : str) : Prop :=
  exists r, p = D ++ slash :: r /\ Forall clean (split_on slash r).

Definition inside_or_eq (D p : str) : Prop := p = D \/ inside D p.

(* ---------------------------------------------------------------- normpath *)

Lemma norm_comps_clean comps : forall acc,
  Forall (no_char slash) comps -> Forall clean acc ->
  Forall clean (norm_comps true comps acc).
Proof.
  induction comps as [|c rest IH]; intros acc Hc Hacc; cbn [norm_comps].
  - apply Forall_rev. exact Hacc.
  - inversion Hc as [|? ? Hc1 Hc2]; subst.
    destruct (str_eqb c []) eqn:E1; cbn [orb]; [apply IH; assumption|].
    destruct (str_eqb c [dot]) eqn:E2; cbn [orb]; [apply IH; assumption|].
    destruct (str_eqb c dotdot) eqn:E3; cbn [negb orb andb].
    + (* c = ".." : with init = true it is appended only after another "..", impossible *)
      destruct acc as [|h acc'].
      * apply IH; assumption.
      * inversion Hacc as [|? ? Hh Hacc']; subst.
        destruct (str_eqb h dotdot) eqn:E4.
        -- apply str_eqb_spec in E4. destruct Hh as (_ & _ & Hh & _). contradiction.
        -- apply IH; assumption.
    + apply IH; [assumption|]. constructor; [|assumption].
      apply str_eqb_false in E1, E2, E3. repeat split; assumption.
Qed.

Lemma initial_slashes_abs p : isabs p = true -> initial_slashes p = 1 \/ initial_slashes p = 2.
Proof.
  destruct p as [|a p]; cbn; [discriminate|].
  destruct a as [|a]; try discriminate.
  do 6 (destruct a as [a|a|]; try discriminate).
  intros _.
  destruct p as [|b p]; [left; reflexivity|].
  destruct b as [|b]; [left; reflexivity|].
  do 6 (destruct b as [b|b|]; try (left; reflexivity)).
  destruct p as [|c p]; [right; reflexivity|].
  destruct c as [|c]; [right; reflexivity|].
  do 6 (destruct c as [c|c|]; try (right; reflexivity)).
  left; reflexivity.
Qed.

(* Form of the result of normpath on an absolute path *)
Lemma normpath_abs_form p :
  isabs p = true ->
  exists i cs, (i = 1 \/ i = 2) /\ Forall clean cs /\ normpath p = repeat slash i ++ join slash cs.
Proof.
  intros Habs. destruct p as [|a p]; [discriminate|].
  unfold normpath.
  set (q := a :: p) in *.
  destruct (initial_slashes_abs q Habs) as [Hi|Hi]; rewrite Hi; cbn [Nat.eqb negb].
  - exists 1, (norm_comps true (split_on slash q) []). split; [left; reflexivity|]. split.
    + apply norm_comps_clean; [apply split_on_fields_no_char | constructor].
    + reflexivity.
  - exists 2, (norm_comps true (split_on slash q) []). split; [right; reflexivity|]. split.
    + apply norm_comps_clean; [apply split_on_fields_no_char | constructor].
    + reflexivity.
Qed.

Lemma normpath_abs_isabs p : isabs p = true -> isabs (normpath p) = true.
Proof.
  intros H. destruct (normpath_abs_form p H) as (i & cs & [->| ->] & _ & ->); reflexivity.
Qed.

(* ---------------------------------------------------------------- split / join facts *)

Lemma clean_no_slash cs : Forall clean cs -> Forall (no_char slash) cs.
Proof. intros H. eapply Forall_impl; [|exact H]. intros c (_ & _ & _ & Hc). exact Hc. Qed.

Lemma split_slashes i x : split_on slash (repeat slash i ++ x) = repeat [] i ++ split_on slash x.
Proof. induction i as [|i IH]; cbn [repeat app]; [reflexivity|]. cbn [split_on]. rewrite N.eqb_refl, IH. reflexivity. Qed.

Lemma split_join_clean cs : Forall clean cs ->
  split_on slash (join slash cs) = match cs with [] => [[]] | _ => cs end.
Proof.
  intros H. destruct cs as [|c cs]; [reflexivity|].
  apply split_on_join; [discriminate | apply clean_no_slash; exact H].
Qed.

Lemma Forall_app_r {A} (P : A -> Prop) l1 l2 : Forall P (l1 ++ l2) -> Forall P l2.
Proof. intros H. apply Forall_app in H. tauto. Qed.

Lemma clean_head_not_nil c cs : Forall clean (c :: cs) -> c <> [].
Proof. intros H. inversion H as [|? ? Hc _]. destruct Hc as [Hc _]. exact Hc. Qed.

(* Main string lemma: a normalised absolute path that starts with D ++ "/" lies inside D *)
Lemma normal_prefix_inside i cs j ct :
  (i = 1 \/ i = 2) -> (j = 1 \/ j = 2) ->
  cs <> [] -> Forall clean cs -> Forall clean ct ->
  let D := repeat slash i ++ join slash cs in
  let T := repeat slash j ++ join slash ct in
  prefixb (D ++ [slash]) T = true ->
  inside D T.
Proof.
  intros Hi Hj Hne Hcs Hct D T Hp.
  apply prefixb_spec in Hp as [r Hr].
  rewrite <- app_assoc in Hr. cbn [app] in Hr.
  exists r. split; [exact Hr|].
  assert (Hs : split_on slash T = split_on slash D ++ split_on slash r).
  { rewrite Hr. apply split_on_app. }
  unfold T, D in Hs. rewrite !split_slashes, !split_join_clean in Hs by assumption.
  destruct cs as [|c cs]; [congruence|].
  pose proof (clean_head_not_nil _ _ Hcs) as Hc.
  destruct Hi as [-> | ->], Hj as [-> | ->]; cbn [repeat app] in Hs.
  - (* 1,1 *)
    inversion Hs as [Hs']. destruct ct as [|t ct].
    + exfalso. destruct (split_on slash r) eqn:E; [eapply split_on_nonnil; eauto|].
      destruct cs; discriminate.
    + rewrite Hs' in Hct. rewrite app_comm_cons in Hct. apply Forall_app_r in Hct. exact Hct.
  - (* i=1, j=2 *)
    inversion Hs as [Hs']. destruct ct; cbn in Hs'; inversion Hs'; subst; congruence.
  - (* i=2, j=1 *)
    inversion Hs as [Hs']. destruct ct as [|t ct].
    + discriminate.
    + inversion Hs'; subst. exfalso. apply (clean_head_not_nil _ _ Hct). reflexivity.
  - (* 2,2 *)
    inversion Hs as [Hs']. destruct ct as [|t ct].
    + exfalso. destruct (split_on slash r) eqn:E; [eapply split_on_nonnil; eauto|].
      destruct cs; discriminate.
    + rewrite Hs' in Hct. rewrite app_comm_cons in Hct. apply Forall_app_r in Hct. exact Hct.
Qed.

(* ---------------------------------------------------------------- dirname *)

Lemma drop_to_slash_rev_app l rest :
  no_char slash l -> drop_to_slash_rev (l ++ slash :: rest) = slash :: rest.
Proof.
  induction l as [|x l IH]; intros H; cbn.
  - reflexivity.
  - destruct (N.eqb_spec x slash) as [->|Hne].
    + exfalso. apply H. left. reflexivity.
    + apply IH. intros Hin. apply H. right. exact Hin.
Qed.

Lemma dirname_app A l x :
  no_char slash l -> x <> slash ->
  dirname ((A ++ [x]) ++ slash :: l) = A ++ [x].
Proof.
  intros Hl Hx. unfold dirname.
  rewrite rev_app_distr. cbn [rev]. rewrite <- app_assoc. cbn [app].
  rewrite drop_to_slash_rev_app.
  2:{ intros Hin. apply Hl. apply in_rev. exact Hin. }
  rewrite rev_app_distr. cbn [rev app is_nil orb all_slash].
  rewrite N.eqb_refl. cbn [andb].
  destruct (N.eqb_spec x slash) as [->|_]; [congruence|].
  cbn [andb rstrip_slash_rev]. rewrite N.eqb_refl.
  destruct (N.eqb_spec x slash) as [->|_]; [congruence|].
  change (x :: rev A) with ([x] ++ rev A).
  rewrite <- (rev_involutive [x]) at 1. rewrite <- rev_app_distr. cbn [rev app]. apply rev_involutive.
Qed.

Lemma join_snoc cs l : cs <> [] -> join slash (cs ++ [l]) = join slash cs ++ slash :: l.
Proof.
  induction cs as [|c cs IH]; intros H; [congruence|].
  destruct cs as [|c' cs]; [reflexivity|].
  change (join slash ((c :: c' :: cs) ++ [l])) with (c ++ slash :: join slash ((c' :: cs) ++ [l])).
  rewrite IH by discriminate.
  change (join slash (c :: c' :: cs)) with (c ++ slash :: join slash (c' :: cs)).
  rewrite <- app_assoc. reflexivity.
Qed.

Lemma clean_last_char c : clean c -> exists A x, c = A ++ [x] /\ x <> slash.
Proof.
  intros (Hne & _ & _ & Hs).
  destruct (exists_last Hne) as (A & x & ->).
  exists A, x. split; [reflexivity|]. intros ->. apply Hs. apply in_or_app. right. left. reflexivity.
Qed.

Lemma join_last_char cs : cs <> [] -> Forall clean cs ->
  exists A x, join slash cs = A ++ [x] /\ x <> slash.
Proof.
  intros Hne Hc. destruct (exists_last Hne) as (init & l & ->).
  apply Forall_app in Hc as [Hi Hl]. inversion Hl as [|? ? Hl' _]; subst.
  destruct (clean_last_char _ Hl') as (A & x & -> & Hx).
  destruct init as [|c init].
  - exists A, x. split; [reflexivity | exact Hx].
  - rewrite join_snoc by discriminate. exists (join slash (c :: init) ++ slash :: A), x.
    split; [|exact Hx]. rewrite <- app_assoc. reflexivity.
Qed.

Lemma dirname_inside D r :
  (exists A x, D = A ++ [x] /\ x <> slash) ->
  Forall clean (split_on slash r) ->
  inside_or_eq D (dirname (D ++ slash :: r)).
Proof.
  intros (A & x & HD & Hx) Hr.
  pose proof (split_on_nonnil slash r) as Hne.
  destruct (exists_last Hne) as (init & l & Hsp).
  rewrite Hsp in Hr. apply Forall_app in Hr as [Hinit Hl].
  inversion Hl as [|? ? Hl' _]; subst.
  assert (Er : r = join slash (init ++ [l])) by (rewrite <- Hsp, join_split_on; reflexivity).
  destruct init as [|c init].
  - left. cbn in Er. subst r. apply dirname_app; [apply Hl'|exact Hx].
  - right. rewrite join_snoc in Er by discriminate.
    destruct (join_last_char (c :: init)) as (B & y & HB & Hy); [discriminate|assumption|].
    exists (join slash (c :: init)). split.
    + rewrite Er. rewrite HB.
      replace ((A ++ [x]) ++ slash :: (B ++ [y]) ++ slash :: l)
        with ((((A ++ [x]) ++ slash :: B) ++ [y]) ++ slash :: l).
      2:{ repeat (rewrite <- app_assoc; cbn [app]). reflexivity. }
      rewrite dirname_app; [|apply Hl'|exact Hy].
      repeat (rewrite <- app_assoc; cbn [app]). reflexivity.
    + rewrite split_join_clean by assumption. assumption.
Qed.

(* ---------------------------------------------------------------- extraction *)

(* D is a normalised absolute directory other than the root *)
Definition normal_dir (D : str) : Prop :=
  exists i cs, (i = 1 \/ i = 2) /\ cs <> [] /\ Forall clean cs /\ D = repeat slash i ++ join slash cs.

Lemma ends_with_char_snoc c s : ends_with_char c (s ++ [c]) = true.
Proof. unfold ends_with_char. rewrite rev_app_distr. cbn. apply N.eqb_refl. Qed.

Lemma normal_dir_last D : normal_dir D -> exists A x, D = A ++ [x] /\ x <> slash.
Proof.
  intros (i & cs & Hi & Hne & Hc & ->).
  destruct (join_last_char cs Hne Hc) as (A & x & -> & Hx).
  exists (repeat slash i ++ A), x. split; [rewrite app_assoc; reflexivity | exact Hx].
Qed.

Lemma normal_dir_isabs D : normal_dir D -> isabs D = true.
Proof. intros (i & cs & [-> | ->] & _ & _ & ->); reflexivity. Qed.

Lemma pjoin_abs D name : isabs D = true -> isabs (pjoin (D ++ [slash]) name) = true.
Proof.
  intros HD. unfold pjoin. destruct (isabs name) eqn:E; [exact E|].
  rewrite ends_with_char_snoc, orb_true_r.
  destruct D; [discriminate|]. exact HD.
Qed.

Lemma extract_member_inside D name ops :
  normal_dir D ->
  extract_member (D ++ [slash]) name = inl ops ->
  Forall (fun o => inside_or_eq D (op_path o)) ops /\
  Forall (fun o => match o with OpenWrite p => inside D p | _ => True end) ops.
Proof.
  intros HD. unfold extract_member.
  rewrite ends_with_char_snoc. cbn [negb].
  set (T := normpath (pjoin (D ++ [slash]) name)).
  destruct (prefixb (D ++ [slash]) T) eqn:Hp; cbn [negb]; [|discriminate].
  intros H. inversion H; subst ops; clear H.
  assert (Hin : inside D T).
  { destruct HD as (i & cs & Hi & Hne & Hc & HDeq).
    assert (Habs : isabs (pjoin (D ++ [slash]) name) = true).
    { apply pjoin_abs. rewrite HDeq. destruct Hi as [-> | ->]; reflexivity. }
    destruct (normpath_abs_form _ Habs) as (j & ct & Hj & Hct & HT).
    fold T in HT. rewrite HT in Hp |- *. clearbody T. subst D.
    apply (normal_prefix_inside i cs j ct); assumption. }
  pose proof (normal_dir_last D HD) as Hlast.
  destruct Hin as (r & HT & Hr).
  assert (Hdir : inside_or_eq D (dirname T)).
  { rewrite HT. apply dirname_inside; assumption. }
  assert (HinT : inside D T) by (exists r; split; assumption).
  destruct (ends_with_char slash name).
  - split; (constructor; [|constructor]); cbn [op_path]; [right; exact HinT | exact I].
  - split; (constructor; [|constructor; [|constructor]]); cbn [op_path];
      [exact Hdir | right; exact HinT | exact I | exact HinT].
Qed.

Lemma extract_members_inside D names :
  normal_dir D ->
  Forall (fun o => inside_or_eq D (op_path o)) (fst (extract_members (D ++ [slash]) names)) /\
  Forall (fun o => match o with OpenWrite p => inside D p | _ => True end)
         (fst (extract_members (D ++ [slash]) names)).
Proof.
  intros HD. induction names as [|n rest IH]; cbn [extract_members].
  - split; constructor.
  - destruct (extract_member (D ++ [slash]) n) as [ops|o] eqn:E.
    + destruct (extract_members (D ++ [slash]) rest) as [ops' o']. cbn [fst] in *.
      destruct (extract_member_inside D n ops HD E) as [H1 H2]. destruct IH as [I1 I2].
      split; apply Forall_app; split; assumption.
    + split; constructor.
Qed.

(* the destination computed by extractall is a normalised absolute directory *)
Lemma dest_dir_normal cwd dst :
  isabs cwd = true ->
  all_slash (dest_dir cwd dst) = false ->
  normal_dir (dest_dir cwd dst).
Proof.
  intros Hcwd Hroot. unfold dest_dir in *.
  assert (Habs : isabs (abspath cwd dst) = true).
  { unfold abspath. apply normpath_abs_isabs. destruct (isabs dst) eqn:E; [exact E|].
    unfold pjoin. rewrite E. destruct cwd as [|c cwd]; [discriminate|].
    cbn [is_nil orb]. destruct (ends_with_char slash (c :: cwd)); exact Hcwd. }
  destruct (normpath_abs_form _ Habs) as (i & cs & Hi & Hc & HD).
  exists i, cs. repeat split; try assumption.
  intros ->. rewrite HD in Hroot. cbn [join] in Hroot. rewrite app_nil_r in Hroot.
  destruct Hi as [-> | ->]; cbn in Hroot; discriminate.
Qed.

Theorem extractall_contained cwd dst names :
  isabs cwd = true ->
  all_slash (dest_dir cwd dst) = false ->           (* the destination is not the root *)
  let D := dest_dir cwd dst in
  let '(ops, _) := extractall cwd dst names in
  Forall (fun o => inside_or_eq D (op_path o)) ops /\
  Forall (fun o => match o with OpenWrite p => inside D p | _ => True end) ops.
Proof.
  intros Hcwd Hroot D. unfold extractall.
  pose proof (extract_members_inside D names (dest_dir_normal cwd dst Hcwd Hroot)) as H.
  fold D. destruct (extract_members (D ++ [slash]) names) as [ops o]. exact H.
Qed.

(* An escaping member stops the run: the outcome is Rejected and nothing after it is touched;
   everything before it was inside (previous theorem). *)
Definition escapes (D name : str) : Prop :=
  prefixb (D ++ [slash]) (normpath (pjoin (D ++ [slash]) name)) = false.

Theorem extractall_rejects cwd dst pre name post :
  let D := dest_dir cwd dst in
  Forall (fun n => ~ escapes D n) pre ->
  escapes D name ->
  exists ops t,
    extractall cwd dst (pre ++ name :: post) = (ops, Rejected t) /\
    extractall cwd dst pre = (ops, Done).
Proof.
  intros D Hpre Hesc. unfold extractall. fold D.
  induction pre as [|p pre IH]; cbn [app extract_members].
  - unfold extract_member. rewrite ends_with_char_snoc. cbn [negb].
    unfold escapes in Hesc. rewrite Hesc. cbn [negb]. eexists _, _. split; reflexivity.
  - inversion Hpre as [|? ? Hp Hpre']; subst.
    destruct (IH Hpre') as (ops & t & E1 & E2).
    rewrite E1, E2.
    assert (Hm : exists o1, extract_member (D ++ [slash]) p = inl o1).
    { unfold extract_member. rewrite ends_with_char_snoc. cbn [negb].
      unfold escapes in Hp.
      destruct (prefixb (D ++ [slash]) (normpath (pjoin (D ++ [slash]) p))); [|congruence].
      cbn [negb]. eexists. reflexivity. }
    destruct Hm as [o1 ->]. eexists _, _. split; reflexivity.
Qed.

(* Clean components never contain "..": the lexical containment is real containment as long as
   the destination holds no symlinks (a fresh mkdtemp directory). *)
Lemma inside_no_dotdot D p : inside D p ->
  exists r, p = D ++ slash :: r /\ ~ In dotdot (split_on slash r) /\ ~ In [] (split_on slash r).
Proof.
  intros (r & Hp & Hr). exists r. split; [exact Hp|]. rewrite Forall_forall in Hr.
  split; intros Hin; apply Hr in Hin; destruct Hin as (H1 & _ & H3 & _); congruence.
Qed.
