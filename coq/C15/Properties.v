(* C15 — property theorems only.  Each is closed by `exact <lemma>` and followed by
   Print Assumptions; the check re-compiles this file on every run. *)
From Coq Require Import List NArith Bool.
From MW Require Import Common.Str C15.Model C15.Proofs C15.ModelMkdirs C15.ProofsMkdirs.
Import ListNotations.

(* Every path created (makedirs) or written (open "wb") by extractall, for ANY list of member
   names over arbitrary code points and any destination (absolute, or relative to an absolute
   cwd; with or without trailing separators) other than the root, is the destination itself
   (makedirs only) or lies lexically inside it: D ++ "/" ++ c1/../cn with every ci non-empty,
   slash-free and different from "." and "..".  Written files are strictly inside. *)
Theorem C15_contained : forall cwd dst names,
  isabs cwd = true ->
  all_slash (dest_dir cwd dst) = false ->
  let D := dest_dir cwd dst in
  let '(ops, _) := extractall cwd dst names in
  Forall (fun o => inside_or_eq D (op_path o)) ops /\
  Forall (fun o => match o with OpenWrite p => inside D p | _ => True end) ops.
Proof. exact extractall_contained. Qed.
Print Assumptions C15_contained.

(* An archive with an escaping member is rejected at that member; the effects of the run are
   exactly those of the (contained, by C15_contained) members before it. *)
Theorem C15_reject_leaves_outside_clean : forall cwd dst pre name post,
  let D := dest_dir cwd dst in
  Forall (fun n => ~ escapes D n) pre ->
  escapes D name ->
  exists ops t,
    extractall cwd dst (pre ++ name :: post) = (ops, Rejected t) /\
    extractall cwd dst pre = (ops, Done).
Proof. exact extractall_rejects. Qed.
Print Assumptions C15_reject_leaves_outside_clean.

Theorem C15_inside_has_no_dotdot : forall D p, inside D p ->
  exists r, p = D ++ slash :: r /\ ~ In dotdot (split_on slash r) /\ ~ In [] (split_on slash r).
Proof. exact inside_no_dotdot. Qed.
Print Assumptions C15_inside_has_no_dotdot.

(* Non-vacuity: a concrete run.  cwd="/w", dst="out/", members "a/b", "../out2/x", "c". *)
Example C15_example :
  let cwd := [47;119]%N in let dst := [111;117;116;47]%N in
  isabs cwd = true /\ all_slash (dest_dir cwd dst) = false /\
  extractall cwd dst [[97;47;98]; [46;46;47;111;117;116;50;47;120]; [99]]%N
  = ([Makedirs [47;119;47;111;117;116;47;97]%N; OpenWrite [47;119;47;111;117;116;47;97;47;98]%N],
     Rejected [47;119;47;111;117;116;50;47;120]%N).
Proof. vm_compute. repeat split. Qed.
Print Assumptions C15_example.

(* ---- os.makedirs (ModelMkdirs.v): the ancestor chain it creates.
   `world` = the answers of the file system (exists / isdir / mkdir / open) as an arbitrary function
   of the calls made so far, i.e. every deterministic evolution of the rest of the file system. *)

(* os.makedirs(p) for p strictly inside D, with D existing in every state: every path handed to
   os.mkdir (hence every directory created) is strictly inside D -- never D, a parent of D or a
   sibling -- whichever intermediate directories already exist; the fuel S (length p) suffices. *)
Theorem C15_makedirs_creates_only_inside : forall (W : world) D p h,
  D <> [] -> ends_with_char slash D = false ->
  (forall h', o_exists (W h') D = true) ->
  inside D p ->
  let '(calls, o) := makedirs W (makedirs_fuel p) h p in
  Forall (fun s => inside D (sysop_path s)) calls /\ o <> MOutOfFuel.
Proof. exact makedirs_creates_inside. Qed.
Print Assumptions C15_makedirs_creates_only_inside.

(* The fuel used by the model is enough for every name (no hypothesis on name). *)
Theorem C15_makedirs_fuel_enough : forall (W : world) fuel h name,
  length name < fuel -> snd (makedirs W fuel h name) <> MOutOfFuel.
Proof. exact makedirs_fuel_enough. Qed.
Print Assumptions C15_makedirs_fuel_enough.

(* The whole extraction, system call by system call (expand_ops = the isdir guard of
   nuwiki.py:307, os.makedirs, open "wb", against the evolving file system): as long as the
   destination D stays an existing directory, every mkdir and every open-for-write of
   extractall, for any member names, is on a path strictly inside D. *)
Theorem C15_extractall_mkdirs_contained : forall (W : world) cwd dst names h0,
  isabs cwd = true ->
  all_slash (dest_dir cwd dst) = false ->
  let D := dest_dir cwd dst in
  (forall h, o_exists (W h) D = true) ->
  (forall h, o_isdir (W h) D = true) ->
  let '(calls, o) := expand_ops W h0 (fst (extractall cwd dst names)) in
  Forall (fun s => inside D (sysop_path s)) calls /\
  Forall (inside D) (created calls) /\
  o <> XMakedirs MOutOfFuel.
Proof. exact extractall_mkdirs_contained. Qed.
Print Assumptions C15_extractall_mkdirs_contained.

(* Instance: a file system holding the directories fs0 (D among them) that changes only through
   the calls of the extraction itself. *)
Theorem C15_extractall_mkdirs_contained_fs : forall fs0 cwd dst names,
  isabs cwd = true ->
  all_slash (dest_dir cwd dst) = false ->
  let D := dest_dir cwd dst in
  In (normpath D) fs0 ->
  let '(calls, o) := expand_ops (fs_world fs0) [] (fst (extractall cwd dst names)) in
  Forall (inside D) (created calls) /\ o <> XMakedirs MOutOfFuel.
Proof. exact extractall_mkdirs_contained_fs. Qed.
Print Assumptions C15_extractall_mkdirs_contained_fs.

(* Non-vacuity: D="/w/out" and "/w/out/a" exist; makedirs("/w/out/a/b/c") creates exactly
   "/w/out/a/b" and "/w/out/a/b/c"; and the hypotheses of the theorems hold for this D and world. *)
Example C15_makedirs_example :
  let D := [47;119;47;111;117;116]%N in
  let fs0 := [D; D ++ [47;97]]%N in
  D <> [] /\ ends_with_char slash D = false /\
  o_exists (fs_world fs0 []) D = true /\ o_isdir (fs_world fs0 []) D = true /\
  makedirs_fs fs0 (D ++ [47;97;47;98;47;99])%N
  = ([D ++ [47;97;47;98]; D ++ [47;97;47;98;47;99]]%N, MDone).
Proof. vm_compute. repeat split. discriminate. Qed.
Print Assumptions C15_makedirs_example.

(* Non-vacuity of the lifted theorem: cwd="/w", dst="out/", only "/w/out" exists; members
   "a/b/c", "d/", "a/e": five system calls, all below /w/out. *)
Example C15_expand_example :
  let cwd := [47;119]%N in let dst := [111;117;116;47]%N in
  let D := [47;119;47;111;117;116]%N in
  dest_dir cwd dst = D /\ In (normpath D) [D] /\
  expand_ops (fs_world [D]) [] (fst (extractall cwd dst [[97;47;98;47;99]; [100;47]; [97;47;101]]%N))
  = ([SMkdir (D ++ [47;97])%N MkOk; SMkdir (D ++ [47;97;47;98])%N MkOk;
      SOpen (D ++ [47;97;47;98;47;99])%N true;
      SMkdir (D ++ [47;100])%N MkOk;
      SOpen (D ++ [47;97;47;101])%N true], XDone).
Proof. vm_compute. repeat split. left. reflexivity. Qed.
Print Assumptions C15_expand_example.
