(* C15 — property theorems only.  Each is closed by `exact <lemma>` and followed by
   Print Assumptions; the check re-compiles this file on every run. *)
From Coq Require Import List NArith Bool.
From MW Require Import Common.Str C15.Model C15.Proofs.
Import ListNotations.

(* Every path created (makedirs) or written (open "wb") by extractall, for ANY list of member
   names over arbitrary code points and any destination (absolute, or relative to an absolute
   cwd; with or without trailing separators) other than the root, is the destination itself
   (makedirs only) or lies lexically inside it: D ++ "/" ++ c1/../cn with every ci non-empty,
   slash-free and different from "." and "..".  Written files are strictly inside. *)
Theorem C15_contained : forall cwd dst names,
  isabs cwd = true ->
  all_slash (dest_dir cwd dst) = false ->
  let D := dest_dir cwd dst in
  let '(ops, _) := extractall cwd dst names in
  Forall (fun o => inside_or_eq D (op_path o)) ops /\
  Forall (fun o => match o with OpenWrite p => inside D p | _ => True end) ops.
Proof. exact extractall_contained. Qed.
Print Assumptions C15_contained.

(* An archive with an escaping member is rejected at that member; the effects of the run are
   exactly those of the (contained, by C15_contained) members before it. *)
Theorem C15_reject_leaves_outside_clean : forall cwd dst pre name post,
  let D := dest_dir cwd dst in
  Forall (fun n => ~ escapes D n) pre ->
  escapes D name ->
  exists ops t,
    extractall cwd dst (pre ++ name :: post) = (ops, Rejected t) /\
    extractall cwd dst pre = (ops, Done).
Proof. exact extractall_rejects. Qed.
Print Assumptions C15_reject_leaves_outside_clean.

Theorem C15_inside_has_no_dotdot : forall D p, inside D p ->
  exists r, p = D ++ slash :: r /\ ~ In dotdot (split_on slash r) /\ ~ In [] (split_on slash r).
Proof. exact inside_no_dotdot. Qed.
Print Assumptions C15_inside_has_no_dotdot.

(* Non-vacuity: a concrete run.  cwd="/w", dst="out/", members "a/b", "../out2/x", "c". *)
Example C15_example :
  let cwd := [47;119]%N in let dst := [111;117;116;47]%N in
  isabs cwd = true /\ all_slash (dest_dir cwd dst) = false /\
  extractall cwd dst [[97;47;98]; [46;46;47;111;117;116;50;47;120]; [99]]%N
  = ([Makedirs [47;119;47;111;117;116;47;97]%N; OpenWrite [47;119;47;111;117;116;47;97;47;98]%N],
     Rejected [47;119;47;111;117;116;50;47;120]%N).
Proof. vm_compute. repeat split. Qed.
Print Assumptions C15_example.
