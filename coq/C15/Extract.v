From Coq Require Import Extraction ExtrOcamlBasic.
From MW Require Import Common.Str C15.Model C15.ModelMkdirs.
Extraction "../ocaml/c15/c15_model.ml" extractall normpath pjoin dirname split makedirs_fs.
