From Coq Require Import Extraction ExtrOcamlBasic.
From MW Require Import Common.Str C15.Model.
Extraction "../ocaml/c15/c15_model.ml" extractall normpath pjoin dirname.
