(* C15 — executable model of posixpath.normpath/join/abspath/dirname and of
   mwlib.core.nuwiki.extract_member / extractall (nuwiki.py:282-314).
   Only definitions here; lemmas are in Proofs.v. *)
From Coq Require Import List NArith Bool.
From MW Require Import Common.Str.
Import ListNotations.

Definition slash : N := 47%N.
Definition dot : N := 46%N.
Definition dotdot : str := [dot; dot].

Definition is_nil {A} (l : list A) : bool := match l with [] => true | _ => false end.

(* the loop of posixpath.normpath; acc is new_comps reversed *)
Fixpoint norm_comps (init : bool) (comps : list str) (acc : list str) : list str :=
  match comps with
  | [] => rev acc
  | c :: rest =>
      if str_eqb c [] || str_eqb c [dot] then norm_comps init rest acc
      else if negb (str_eqb c dotdot)
              || (negb init && is_nil acc)
              || (match acc with h :: _ => str_eqb h dotdot | [] => false end)
      then norm_comps init rest (c :: acc)
      else match acc with
           | [] => norm_comps init rest acc
           | _ :: acc' => norm_comps init rest acc'
           end
  end.

(* POSIX: exactly two leading slashes are kept, three or more collapse to one *)
Definition initial_slashes (p : str) : nat :=
  match p with
  | 47%N :: 47%N :: 47%N :: _ => 1
  | 47%N :: 47%N :: _ => 2
  | 47%N :: _ => 1
  | _ => 0
  end.

Definition normpath (p : str) : str :=
  match p with
  | [] => [dot]
  | _ =>
      let i := initial_slashes p in
      let cs := norm_comps (negb (Nat.eqb i 0)) (split_on slash p) [] in
      let r := repeat slash i ++ join slash cs in
      match r with [] => [dot] | _ => r end
  end.

Definition isabs (p : str) : bool := match p with 47%N :: _ => true | _ => false end.

(* posixpath.join(a, b) *)
Definition pjoin (a b : str) : str :=
  if isabs b then b
  else if is_nil a || ends_with_char slash a then a ++ b
  else a ++ slash :: b.

Definition abspath (cwd p : str) : str :=
  normpath (if isabs p then p else pjoin cwd p).

(* posixpath.dirname *)
Fixpoint all_slash (s : str) : bool :=
  match s with [] => true | x :: s' => N.eqb x slash && all_slash s' end.

Fixpoint rstrip_slash_rev (r : str) : str :=   (* on the reversed string *)
  match r with
  | x :: r' => if N.eqb x slash then rstrip_slash_rev r' else r
  | [] => []
  end.

(* head = p[:p.rfind('/')+1] computed on the reversed string *)
Fixpoint drop_to_slash_rev (r : str) : str :=
  match r with
  | x :: r' => if N.eqb x slash then r else drop_to_slash_rev r'
  | [] => []
  end.

Definition dirname (p : str) : str :=
  let head_rev := drop_to_slash_rev (rev p) in
  if is_nil head_rev || all_slash head_rev then rev head_rev
  else rev (rstrip_slash_rev head_rev).

(* File-system effects of an extraction, in order *)
Inductive fsop :=
| Makedirs (p : str)     (* os.makedirs(p) when it is not already a directory *)
| OpenWrite (p : str).   (* open(p, "wb") + write *)

Definition op_path (o : fsop) : str := match o with Makedirs p => p | OpenWrite p => p end.

Inductive outcome := Done | BadDest | Rejected (target : str).

(* extract_member(zipfile, member, dstdir): inr = raised ValueError / RuntimeError *)
Definition extract_member (dstdir name : str) : list fsop + outcome :=
  if negb (ends_with_char slash dstdir) then inr BadDest
  else
    let target := normpath (pjoin dstdir name) in
    if negb (prefixb dstdir target) then inr (Rejected target)
    else
      let isdir := ends_with_char slash name in
      let upper := if isdir then target else dirname target in
      inl (Makedirs upper :: (if isdir then [] else [OpenWrite target])).

Fixpoint extract_members (dstdir : str) (names : list str) : list fsop * outcome :=
  match names with
  | [] => ([], Done)
  | n :: rest =>
      match extract_member dstdir n with
      | inr o => ([], o)
      | inl ops =>
          let '(ops', o) := extract_members dstdir rest in (ops ++ ops', o)
      end
  end.

(* extractall(zip_file, dst) run in working directory cwd *)
Definition dest_dir (cwd dst : str) : str := normpath (abspath cwd dst).

Definition extractall (cwd dst : str) (names : list str) : list fsop * outcome :=
  extract_members (dest_dir cwd dst ++ [slash]) names.
