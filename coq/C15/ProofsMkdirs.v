(* C15 — os.makedirs creates only directories strictly inside the destination, and the lift of
   extractall_contained (Proofs.v) from `Makedirs p` effects to individual mkdir calls. *)
From Coq Require Import List NArith Bool Lia.
From MW Require Import Common.Str C15.Model C15.Proofs C15.ModelMkdirs.
Import ListNotations.

(* ---------------------------------------------------------------- posixpath.split *)

Lemma dirname_is_fst_split p : dirname p = fst (split p).
Proof. reflexivity. Qed.

Lemma split_eq p : split p = (dirname p, rev (take_to_slash_rev (rev p))).
Proof. reflexivity. Qed.

Lemma take_to_slash_rev_app l rest :
  no_char slash l -> take_to_slash_rev (l ++ slash :: rest) = l.
Proof.
  induction l as [|x l IH]; intros H; cbn [app take_to_slash_rev].
  - rewrite N.eqb_refl. reflexivity.
  - destruct (N.eqb_spec x slash) as [->|Hne].
    + exfalso. apply H. left. reflexivity.
    + f_equal. apply IH. intros Hin. apply H. right. exact Hin.
Qed.

Lemma take_drop_rev r : take_to_slash_rev r ++ drop_to_slash_rev r = r.
Proof.
  induction r as [|x r IH]; cbn [take_to_slash_rev drop_to_slash_rev]; [reflexivity|].
  destruct (N.eqb x slash); [reflexivity|]. cbn [app]. f_equal. exact IH.
Qed.

Lemma rstrip_slash_rev_length r : length (rstrip_slash_rev r) <= length r.
Proof.
  induction r as [|x r IH]; cbn [rstrip_slash_rev length]; [lia|].
  destruct (N.eqb x slash); cbn [length]; lia.
Qed.

(* len(head) + len(tail) <= len(p) *)
Lemma split_length p : length (fst (split p)) + length (snd (split p)) <= length p.
Proof.
  unfold split. cbn [fst snd].
  pose proof (take_drop_rev (rev p)) as E.
  apply (f_equal (@length N)) in E. rewrite app_length, rev_length in E.
  rewrite rev_length.
  destruct (is_nil (drop_to_slash_rev (rev p)) || all_slash (drop_to_slash_rev (rev p))).
  - rewrite rev_length. lia.
  - rewrite rev_length. pose proof (rstrip_slash_rev_length (drop_to_slash_rev (rev p))). lia.
Qed.

(* the analogue of dirname_app for both parts *)
Lemma split_app A x l :
  no_char slash l -> x <> slash ->
  split ((A ++ [x]) ++ slash :: l) = (A ++ [x], l).
Proof.
  intros Hl Hx. rewrite split_eq. rewrite dirname_app by assumption. f_equal.
  rewrite rev_app_distr. cbn [rev]. rewrite <- app_assoc. cbn [app].
  rewrite take_to_slash_rev_app.
  - apply rev_involutive.
  - intros Hin. apply Hl. apply in_rev. exact Hin.
Qed.

Definition ends_nonslash (D : str) : Prop := exists A x, D = A ++ [x] /\ x <> slash.

Lemma ends_nonslash_intro D : D <> [] -> ends_with_char slash D = false -> ends_nonslash D.
Proof.
  intros Hne He. destruct (exists_last Hne) as (A & x & ->). exists A, x. split; [reflexivity|].
  unfold ends_with_char in He. rewrite rev_app_distr in He. cbn in He.
  intros ->. rewrite N.eqb_refl in He. discriminate.
Qed.

(* p = D/c : one clean component below D *)
Lemma split_inside_one D c :
  ends_nonslash D -> clean c -> split (D ++ slash :: c) = (D, c).
Proof.
  intros (A & x & -> & Hx) (_ & _ & _ & Hc). apply split_app; assumption.
Qed.

(* p = D/r/c with r = c1/../ck (k >= 1) clean: head = D/r is strictly inside D, tail = c *)
Lemma split_inside_more D r c :
  Forall clean (split_on slash r) -> clean c ->
  split (D ++ slash :: r ++ slash :: c) = (D ++ slash :: r, c).
Proof.
  intros Hr (_ & _ & _ & Hc).
  assert (Er : r = join slash (split_on slash r)) by (rewrite join_split_on; reflexivity).
  destruct (join_last_char (split_on slash r) (split_on_nonnil slash r) Hr) as (B & y & HB & Hy).
  rewrite <- Er in HB. rewrite HB.
  replace (D ++ slash :: (B ++ [y]) ++ slash :: c) with (((D ++ slash :: B) ++ [y]) ++ slash :: c).
  2:{ repeat (rewrite <- app_assoc; cbn [app]). reflexivity. }
  rewrite split_app by assumption.
  repeat (rewrite <- app_assoc; cbn [app]). reflexivity.
Qed.

(* the two shapes of a path strictly inside D *)
Lemma inside_cases D p : inside D p ->
  (exists c, clean c /\ p = D ++ slash :: c) \/
  (exists r c, Forall clean (split_on slash r) /\ clean c /\ p = D ++ slash :: r ++ slash :: c).
Proof.
  intros (r & Hp & Hr).
  pose proof (split_on_nonnil slash r) as Hne.
  destruct (exists_last Hne) as (init & l & Hsp).
  rewrite Hsp in Hr. apply Forall_app in Hr as [Hinit Hl].
  inversion Hl as [|? ? Hl' _]; subst.
  assert (Er : r = join slash (init ++ [l])) by (rewrite <- Hsp, join_split_on; reflexivity).
  destruct init as [|c init].
  - left. exists l. split; [exact Hl'|]. cbn in Er. subst r. reflexivity.
  - right. rewrite join_snoc in Er by discriminate.
    exists (join slash (c :: init)), l. split; [|split; [exact Hl'|]].
    + rewrite split_join_clean by assumption. exact Hinit.
    + rewrite Er. reflexivity.
Qed.

(* (a) split of a path strictly inside D: the head is D or strictly inside D, the tail is the
   last (clean) component, and the head is strictly shorter *)
Lemma split_inside D p :
  ends_nonslash D -> inside D p ->
  exists hd tl, split p = (hd, tl) /\ clean tl /\ inside_or_eq D hd /\ p = hd ++ slash :: tl.
Proof.
  intros HD Hin. destruct (inside_cases D p Hin) as [(c & Hc & ->) | (r & c & Hr & Hc & ->)].
  - exists D, c. split; [apply split_inside_one; assumption|]. split; [exact Hc|].
    split; [left; reflexivity | reflexivity].
  - exists (D ++ slash :: r), c. split; [apply split_inside_more; assumption|]. split; [exact Hc|].
    split.
    + right. exists r. split; [reflexivity | exact Hr].
    + rewrite <- app_assoc. reflexivity.
Qed.

(* the head is D exactly when there is one component below D *)
Lemma split_inside_head_is_D D r :
  ends_nonslash D -> Forall clean (split_on slash r) ->
  (fst (split (D ++ slash :: r)) = D <-> length (split_on slash r) = 1).
Proof.
  intros HD Hr.
  assert (Hin : inside D (D ++ slash :: r)) by (exists r; split; [reflexivity | exact Hr]).
  destruct (inside_cases D _ Hin) as [(c & Hc & E) | (r' & c & Hr' & Hc & E)];
    apply app_inv_head in E; inversion E; subst r.
  - rewrite split_inside_one by assumption. cbn [fst].
    destruct Hc as (_ & _ & _ & Hc). rewrite split_on_no_char by exact Hc. cbn. tauto.
  - rewrite split_inside_more by assumption. cbn [fst].
    rewrite split_on_app, app_length.
    pose proof (split_on_nonnil slash r') as N1. pose proof (split_on_nonnil slash c) as N2.
    destruct (split_on slash r'); [congruence|]. destruct (split_on slash c); [congruence|].
    cbn [length]. split.
    + intros E'. apply (f_equal (@length N)) in E'. rewrite app_length in E'. cbn [length] in E'. lia.
    + lia.
Qed.

(* ---------------------------------------------------------------- os.makedirs *)

Definition sys_inside (D : str) (s : sysop) : Prop := inside D (sysop_path s).

Lemma do_mkdir_fst W h new name :
  fst (do_mkdir W h new name) = new ++ [SMkdir name (o_mkdir (W (h ++ new)) name)].
Proof. reflexivity. Qed.

Lemma do_mkdir_not_oof W h new name : snd (do_mkdir W h new name) <> MOutOfFuel.
Proof. unfold do_mkdir. cbn [snd]. destruct (o_mkdir (W (h ++ new)) name); discriminate. Qed.

(* (b) MAIN: with D present in every state, os.makedirs(p) for p strictly inside D calls mkdir
   only on paths strictly inside D, whatever else exists, and the model does not run out of fuel *)
Lemma makedirs_inside_aux W D :
  ends_nonslash D ->
  (forall h, o_exists (W h) D = true) ->
  forall fuel h p, inside D p -> length p < fuel ->
  Forall (sys_inside D) (fst (makedirs W fuel h p)) /\
  snd (makedirs W fuel h p) <> MOutOfFuel.
Proof.
  intros HD Hex. induction fuel as [|f IH]; intros h p Hin Hlen; [lia|].
  destruct (split_inside D p HD Hin) as (hd & tl & Hsp & Hcl & Hhd & Hp).
  destruct Hcl as (Hne & Hnd & _ & _).
  cbn [makedirs]. rewrite Hsp. cbn [fst snd].
  destruct tl as [|t tl']; [congruence|]. cbn [is_nil fst snd negb andb].
  assert (Hleaf : Forall (sys_inside D) (fst (do_mkdir W h [] p)) /\
                  snd (do_mkdir W h [] p) <> MOutOfFuel).
  { split; [|apply do_mkdir_not_oof]. rewrite do_mkdir_fst. cbn [app].
    constructor; [exact Hin | constructor]. }
  destruct (is_nil hd) eqn:Enil; cbn [negb andb]; [exact Hleaf|].
  destruct (o_exists (W h) hd) eqn:Eex; cbn [negb andb]; [exact Hleaf|].
  destruct Hhd as [-> | Hhd]; [rewrite Hex in Eex; discriminate|].
  assert (Hl : length hd < f).
  { rewrite Hp in Hlen. rewrite app_length in Hlen. cbn [length] in Hlen. lia. }
  destruct (IH h hd Hhd Hl) as [IH1 IH2].
  destruct (makedirs W f h hd) as [new o]. cbn [fst snd] in IH1, IH2.
  assert (Hgo : Forall (sys_inside D)
                  (fst (if str_eqb (t :: tl') [dot] then (new, MDone) else do_mkdir W h new p)) /\
                snd (if str_eqb (t :: tl') [dot] then (new, MDone) else do_mkdir W h new p)
                <> MOutOfFuel).
  { destruct (str_eqb (t :: tl') [dot]) eqn:Edot.
    - apply str_eqb_spec in Edot. congruence.
    - split; [|apply do_mkdir_not_oof]. rewrite do_mkdir_fst.
      apply Forall_app. split; [exact IH1|]. constructor; [exact Hin | constructor]. }
  destruct o; cbn [fst snd]; try exact Hgo; split; try exact IH1; try exact IH2.
Qed.

Theorem makedirs_creates_inside (W : world) D p h :
  D <> [] -> ends_with_char slash D = false ->
  (forall h', o_exists (W h') D = true) ->
  inside D p ->
  let '(calls, o) := makedirs W (makedirs_fuel p) h p in
  Forall (fun s => inside D (sysop_path s)) calls /\ o <> MOutOfFuel.
Proof.
  intros Hne Hend Hex Hin.
  pose proof (makedirs_inside_aux W D (ends_nonslash_intro D Hne Hend) Hex
                (makedirs_fuel p) h p Hin) as H.
  destruct (makedirs W (makedirs_fuel p) h p) as [calls o]. cbn [fst snd] in H.
  apply H. unfold makedirs_fuel. lia.
Qed.

Lemma created_in ops p : In p (created ops) -> In (SMkdir p MkOk) ops.
Proof.
  induction ops as [|s ops IH]; cbn [created]; [intros []|].
  destruct s as [q r | q ok].
  - destruct r; cbn [In]; intros H; try (right; apply IH; exact H).
    destruct H as [-> | H]; [left; reflexivity | right; apply IH; exact H].
  - intros H. right. apply IH. exact H.
Qed.

Lemma created_inside D ops :
  Forall (fun s => inside D (sysop_path s)) ops -> Forall (inside D) (created ops).
Proof.
  intros H. apply Forall_forall. intros p Hp. apply created_in in Hp.
  rewrite Forall_forall in H. apply (H _ Hp).
Qed.

(* fuel: S (length name) is enough for EVERY name (not only those inside D) *)
Lemma makedirs_fuel_enough W : forall fuel h name,
  length name < fuel -> snd (makedirs W fuel h name) <> MOutOfFuel.
Proof.
  induction fuel as [|f IH]; intros h name Hlen; [lia|].
  cbn [makedirs].
  set (ht := if is_nil (snd (split name)) then split (fst (split name)) else split name).
  assert (Hht : snd ht <> [] -> length (fst ht) < length name).
  { unfold ht. pose proof (split_length name) as L1.
    destruct (is_nil (snd (split name))) eqn:En.
    - pose proof (split_length (fst (split name))) as L2. intros Ht.
      destruct (snd (split (fst (split name)))); [congruence|]. cbn [length] in L2. lia.
    - intros Ht. destruct (snd (split name)); [congruence|]. cbn [length] in L1. lia. }
  destruct (is_nil (fst ht)) eqn:E1; cbn [negb andb]; [apply do_mkdir_not_oof|].
  destruct (is_nil (snd ht)) eqn:E2; cbn [negb andb]; [apply do_mkdir_not_oof|].
  destruct (o_exists (W h) (fst ht)); cbn [negb andb]; [apply do_mkdir_not_oof|].
  assert (Hl : length (fst ht) < f).
  { assert (Hn : snd ht <> []) by (destruct (snd ht); [discriminate | discriminate]).
    specialize (Hht Hn). lia. }
  pose proof (IH h (fst ht) Hl) as IH'.
  destruct (makedirs W f h (fst ht)) as [new o]. cbn [snd] in IH'.
  destruct o; cbn [snd]; try congruence;
    (destruct (str_eqb (snd ht) [dot]); [cbn [snd]; discriminate | apply do_mkdir_not_oof]).
Qed.

(* os.makedirs(D) itself, D existing with its parent: one refused mkdir(D), nothing created.
   (extract_member never makes this call: see the isdir guard in expand_ops.) *)
Lemma makedirs_existing_dir W D h :
  ends_nonslash D ->
  o_exists (W h) (dirname D) = true ->
  o_mkdir (W h) D <> MkOk ->
  created (fst (makedirs W (makedirs_fuel D) h D)) = [].
Proof.
  intros (A & x & HD & Hx) Hpar Hmk. unfold makedirs_fuel. cbn [makedirs].
  assert (Ht : is_nil (snd (split D)) = false).
  { rewrite split_eq. cbn [snd]. rewrite HD, rev_app_distr. cbn [rev app take_to_slash_rev].
    destruct (N.eqb_spec x slash) as [->|_]; [congruence|].
    cbn [rev]. destruct (rev (take_to_slash_rev (rev A))); reflexivity. }
  rewrite Ht. rewrite <- dirname_is_fst_split, Hpar. cbn [negb]. rewrite !andb_false_r.
  rewrite do_mkdir_fst. cbn [app]. rewrite app_nil_r.
  destruct (o_mkdir (W h) D); [congruence | reflexivity | reflexivity].
Qed.

(* ---------------------------------------------------------------- (c) the whole extraction *)

Lemma expand_ops_inside W D :
  ends_nonslash D ->
  (forall h, o_exists (W h) D = true) ->
  (forall h, o_isdir (W h) D = true) ->
  forall ops h,
  Forall (fun o => inside_or_eq D (op_path o)) ops ->
  Forall (fun o => match o with OpenWrite p => inside D p | _ => True end) ops ->
  Forall (sys_inside D) (fst (expand_ops W h ops)) /\
  snd (expand_ops W h ops) <> XMakedirs MOutOfFuel.
Proof.
  intros HD Hex Hdir. induction ops as [|op ops IH]; intros h H1 H2; cbn [expand_ops].
  - split; [constructor | discriminate].
  - inversion H1 as [|? ? Hop H1']; subst. inversion H2 as [|? ? Hw H2']; subst.
    destruct op as [p | p]; cbn [op_path] in Hop.
    + destruct (o_isdir (W h) p) eqn:Eis; [apply IH; assumption|].
      destruct Hop as [-> | Hin]; [rewrite Hdir in Eis; discriminate|].
      assert (Hlen : length p < makedirs_fuel p) by (unfold makedirs_fuel; lia).
      destruct (makedirs_inside_aux W D HD Hex (makedirs_fuel p) h p Hin Hlen) as [M1 M2].
      destruct (makedirs W (makedirs_fuel p) h p) as [new o]. cbn [fst snd] in M1, M2.
      destruct o; cbn [fst snd]; try (split; [exact M1 | congruence]).
      destruct (IH (h ++ new) H1' H2') as [I1 I2].
      destruct (expand_ops W (h ++ new) ops) as [new' o']. cbn [fst snd] in *.
      split; [apply Forall_app; split; assumption | exact I2].
    + destruct (o_open (W h) p) eqn:Eop.
      * destruct (IH (h ++ [SOpen p true]) H1' H2') as [I1 I2].
        destruct (expand_ops W (h ++ [SOpen p true]) ops) as [new' o']. cbn [fst snd] in *.
        split; [constructor; [exact Hw | exact I1] | exact I2].
      * cbn [fst snd]. split; [constructor; [exact Hw | constructor] | discriminate].
Qed.

(* Every mkdir and every open(.., "wb") made by extractall, in every evolution of the file
   system in which the destination stays an existing directory, is strictly inside it. *)
Theorem extractall_mkdirs_contained (W : world) cwd dst names h0 :
  isabs cwd = true ->
  all_slash (dest_dir cwd dst) = false ->
  let D := dest_dir cwd dst in
  (forall h, o_exists (W h) D = true) ->
  (forall h, o_isdir (W h) D = true) ->
  let '(calls, o) := expand_ops W h0 (fst (extractall cwd dst names)) in
  Forall (fun s => inside D (sysop_path s)) calls /\
  Forall (inside D) (created calls) /\
  o <> XMakedirs MOutOfFuel.
Proof.
  intros Hcwd Hroot D Hex Hdir.
  pose proof (extractall_contained cwd dst names Hcwd Hroot) as Hc. cbv zeta in Hc. fold D in Hc.
  destruct (extractall cwd dst names) as [ops oc]. cbn [fst]. destruct Hc as [C1 C2].
  pose proof (normal_dir_last D (dest_dir_normal cwd dst Hcwd Hroot)) as HD.
  destruct (expand_ops_inside W D HD Hex Hdir ops h0 C1 C2) as [E1 E2].
  destruct (expand_ops W h0 ops) as [calls o]. cbn [fst snd] in E1, E2.
  split; [exact E1|]. split; [apply created_inside; exact E1 | exact E2].
Qed.

(* ---------------------------------------------------------------- the concrete file system *)

Lemma mem_app_l p l1 l2 : mem p l1 = true -> mem p (l1 ++ l2) = true.
Proof. unfold mem. rewrite existsb_app. intros ->. reflexivity. Qed.

Lemma mem_in p l : In p l -> mem p l = true.
Proof. intros H. unfold mem. apply existsb_exists. exists p. split; [exact H | apply str_eqb_refl]. Qed.

Lemma fs_world_keeps fs0 D : In (normpath D) fs0 ->
  (forall h, o_exists (fs_world fs0 h) D = true) /\ (forall h, o_isdir (fs_world fs0 h) D = true).
Proof.
  intros H. split; intros h; cbn; apply mem_app_l, mem_in; exact H.
Qed.

(* instance: a file system that starts with the directories fs0 and changes only by our calls *)
Theorem extractall_mkdirs_contained_fs fs0 cwd dst names :
  isabs cwd = true ->
  all_slash (dest_dir cwd dst) = false ->
  let D := dest_dir cwd dst in
  In (normpath D) fs0 ->
  let '(calls, o) := expand_ops (fs_world fs0) [] (fst (extractall cwd dst names)) in
  Forall (inside D) (created calls) /\ o <> XMakedirs MOutOfFuel.
Proof.
  intros Hcwd Hroot D Hin.
  destruct (fs_world_keeps fs0 D Hin) as [Hex Hdir].
  pose proof (extractall_mkdirs_contained (fs_world fs0) cwd dst names [] Hcwd Hroot Hex Hdir) as H.
  fold D in H.
  destruct (expand_ops (fs_world fs0) [] (fst (extractall cwd dst names))) as [calls o].
  destruct H as (_ & H2 & H3). split; assumption.
Qed.
