From Coq Require Import Extraction ExtrOcamlBasic.
From MW Require Import Common.Str C01.Model C02.Model C02.ModelLines.
Extraction "../ocaml/c02/c02_model.ml" denote parse_sections nest den_list line_fuel analyze_model analyze_fuel.
