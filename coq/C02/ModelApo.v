(* C02 — apostrophe runs that are ONE apostrophe longer than the markup (no proofs here).
   ''Hamlet'''s (counts 2,3), L'''arbre'' (3,2), '''Lear''''s (3,4), L''''arbre''' (4,3): the surplus apostrophe of the long run
   is literal text, the rest of the run toggles italic (run of three) or bold (run of four).  `apo_path` is what such a line
   DENOTES in terms of the states of styleanalyzer.compute_path (C01.Model): state k = (number of literal apostrophes so far,
   bold, italic) of the segment that follows run k; ParseSingleQuote.finish (core.py:253-282) turns the increments of the
   apostrophe count into text tokens and the two flags into style nodes. *)
From Coq Require Import List Arith Bool.
From MW Require Import C01.Model.
Import ListNotations.

Inductive qrun := RI | RB | RAI | RAB.      (* '' | ''' | ' + '' (three apostrophes) | ' + ''' (four apostrophes) *)

Definition count_of (r : qrun) : nat := match r with RI => 2 | RB => 3 | RAI => 3 | RAB => 4 end.
Definition is_surplus (r : qrun) : bool := match r with RAI | RAB => true | _ => false end.

Fixpoint apo_path (a : nat) (b i : bool) (rs : list qrun) : list st :=
  match rs with
  | [] => []
  | r :: t =>
    let a' := if is_surplus r then S a else a in
    let b' := match r with RB | RAB => negb b | _ => b end in
    let i' := match r with RI | RAI => negb i | _ => i end in
    mkst a' b' i' :: apo_path a' b' i' t
  end.

Definition qrun_eqb (x y : qrun) : bool :=
  match x, y with RI, RI | RB, RB | RAI, RAI | RAB, RAB => true | _, _ => false end.

(* the lines of the C02 grammar with a surplus run (vt/harness/c02_gen.py Gen.put_apo): exactly one surplus run, every style
   closed at the end of the line, and a line whose surplus run has three apostrophes has no other run of three (MediaWiki's
   doQuotes chooses WHICH run of three to re-read by the characters in front of it; one candidate = determined reading) *)
Definition surplus_line (rs : list qrun) : bool :=
  (length (filter is_surplus rs) =? 1) &&
  match rev (apo_path 0 false false rs) with [] => false | s :: _ => negb (bold s) && negb (ital s) end &&
  (negb (existsb (qrun_eqb RAI) rs) || negb (existsb (qrun_eqb RB) rs)).

Fixpoint st_list_eqb (a b : list st) : bool :=
  match a, b with
  | [], [] => true
  | x :: a', y :: b' => st_eqb x y && st_list_eqb a' b'
  | _, _ => false
  end.

Definition path_is_apo (sorter : list pst -> list pst) (rs : list qrun) : bool :=
  match compute_path sorter (map count_of rs) with
  | Ok p => st_list_eqb p (apo_path 0 false false rs)
  | Raise _ => false
  end.

(* all lines of at most n runs *)
Fixpoint lines_upto (n : nat) : list (list qrun) :=
  match n with
  | 0 => [[]]
  | S m => [] :: flat_map (fun s => [RI :: s; RB :: s; RAI :: s; RAB :: s]) (lines_upto m)
  end.

Definition surplus_bound : nat := 8.
Definition all_surplus_lines_ok : bool :=
  forallb (fun rs => negb (surplus_line rs) || (path_is_apo stable_sort rs && path_is_apo antistable_sort rs)) (lines_upto surplus_bound).
