(* C02 — document grammar, denotation, and models of the section builder / list analyser (no proofs here). *)
From Coq Require Import List NArith Bool Arith Lia.
From MW Require Import Common.Str.
Import ListNotations.

(* ------------------------------------------------------------------ trees *)
Inductive label :=
| LSec (k : nat) | LHeading | LP | LUl | LOl | LLi | LDt | LDd
| LTable | LRow | LCell (hdr : bool) | LPre | LRef | LLink (t : N) | LExt (u : N) | LCaption.

(* a text leaf carries its word id and its styles; structure is given by Node labels *)
Inductive tree := Leaf (w : N) (b i : bool) | Node (l : label) (ch : list tree).

(* ------------------------------------------------------------------ inline grammar and its denotation *)
Inductive inl :=
| W (w : N)                       (* word *)
| Bo (l : list inl)               (* ''' ''' , <b>, <strong> *)
| It (l : list inl)               (* '' '' , <i>, <em> *)
| Lk (t : N) (l : list inl)       (* [[t|l]] ; [[t]] when l = [] (visible text = the target) *)
| Ex (u : N) (l : list inl)       (* [u l] *)
| Rf (l : list inl).              (* <ref>l</ref> *)

Fixpoint den_inl (b i : bool) (e : inl) : list tree :=
  match e with
  | W w => [Leaf w b i]
  | Bo l => flat_map (den_inl true i) l
  | It l => flat_map (den_inl b true) l
  | Lk t l => [Node (LLink t) (match l with [] => [Leaf t b i] | _ => flat_map (den_inl b i) l end)]
  | Ex u l => [Node (LExt u) (flat_map (den_inl b i) l)]
  | Rf l => [Node LRef (flat_map (den_inl b i) l)]
  end.
Definition den_inline (l : list inl) : list tree := flat_map (den_inl false false) l.

(* ------------------------------------------------------------------ sections
   items = the sequence of headings (level, caption) and other blocks of one token list *)
Section Sections.
  Variable A : Type.
  Inductive item := IH (k : nat) (c : A) | IB (x : A).
  Inductive stree := SB (x : A) | SS (k : nat) (c : A) (ch : list stree).

  Definition deeper (k : nat) (t : stree) : bool :=
    match t with SB _ => true | SS k' _ _ => k <? k' end.

  Fixpoint span {B} (p : B -> bool) (l : list B) : list B * list B :=
    match l with
    | [] => ([], [])
    | x :: r => if p x then let '(a, b) := span p r in (x :: a, b) else ([], l)
    end.

  (* THE DENOTATION: reading from the end, a heading of level k swallows everything that follows it up to
     (not including) the next section of level <= k. *)
  Fixpoint nest (l : list item) : list stree :=
    match l with
    | [] => []
    | IB x :: r => SB x :: nest r
    | IH k c :: r => let '(inside, after) := span (deeper k) (nest r) in SS k c inside :: after
    end.

  (* THE ALGORITHM (core.py:90-146, 178-193 ParseSections/create/_something), left to right with the stack
     `sections` of open sections.  A frame = (level, caption, children so far).  mwlib attaches a new section to
     the section below it on the stack at creation time and keeps mutating it; this functional model attaches a
     frame when it is popped — the children lists come out in the same order. *)
  Definition frame := (nat * A * list stree)%type.

  (* `while sections and level <= sections[-1].level: sections.pop()` (core.py:121-122); `carry` = the section
     just closed, to be appended to whatever frame ends up on top (or to the top level) *)
  Fixpoint pop_ge (k : nat) (carry : list stree) (stack : list frame) : list stree * list frame :=
    match stack with
    | [] => (carry, [])
    | (k', c', d') :: st =>
      if k <=? k' then pop_ge k [SS k' c' (d' ++ carry)] st
      else ([], (k', c', d' ++ carry) :: st)
    end.

  Fixpoint attach (stack : list frame) (f : list stree) : list stree :=
    match stack with
    | [] => f
    | (k, c, d) :: st => let '(ins, aft) := span (deeper k) f in attach st (SS k c (d ++ ins) :: aft)
    end.

  Fixpoint alg (out : list stree) (stack : list frame) (items : list item) : list stree :=
    match items with
    | [] => out ++ attach stack []                       (* final create(): core.py:193 *)
    | IB x :: r =>
      match stack with
      | [] => alg (out ++ [SB x]) [] r
      | (k, c, d) :: st => alg out ((k, c, d ++ [SB x]) :: st) r
      end
    | IH k c :: r =>
      let '(o, st') := pop_ge k [] stack in alg (out ++ o) ((k, c, []) :: st') r
    end.

  Definition parse_sections (items : list item) : list stree := alg [] [] items.

  Fixpoint sorted_stack (stack : list frame) : Prop :=
    match stack with
    | [] => True
    | (k, _, _) :: st => match st with [] => True | (k2, _, _) :: _ => k2 < k end /\ sorted_stack st
    end.

  (* text in order *)
  Fixpoint flat_s (t : stree) : list A :=
    match t with SB x => [x] | SS _ c ch => c :: flat_map flat_s ch end.
  Definition flat_item (i : item) : A := match i with IH _ c => c | IB x => x end.
End Sections.
Arguments IH {A} k c.
Arguments IB {A} x.
Arguments SB {A} x.
Arguments SS {A} k c ch.
Arguments nest {A}.
Arguments parse_sections {A}.
Arguments alg {A}.
Arguments attach {A}.
Arguments pop_ge {A}.
Arguments deeper {A}.
Arguments span {B}.
Arguments sorted_stack {A}.
Arguments flat_s {A}.
Arguments flat_item {A}.

(* ------------------------------------------------------------------ lists
   a list line = (prefix over * # ; : as code points, denotation of its text, denotation of the text after the first
   top-level colon if the line has one).  `; term : description` is the one-line form of a definition item: the third
   component is its description (core.py:389-398 ParseLines.splitdl). *)
Definition line := (list N * list tree * option (list tree))%type.
Definition lpre (l : line) : list N := fst (fst l).
Definition ltxt (l : line) : list tree := snd (fst l).
Definition ldesc (l : line) : option (list tree) := snd l.
Definition c_star : N := 42. Definition c_hash : N := 35. Definition c_semi : N := 59. Definition c_colon : N := 58.

Definition head_char (l : line) : N := match lpre l with c :: _ => c | [] => 0%N end.
Definition long_prefix (l : line) : bool := match lpre l with _ :: _ :: _ => true | _ => false end.
Definition strip1 (l : line) : line := (tl (lpre l), ltxt l, ldesc l).
(* all visible text of a line whose prefix is used up: a colon outside a definition term is ordinary text *)
Definition line_text (l : line) : list tree := ltxt l ++ match ldesc l with Some d => d | None => [] end.
(* splitdl (core.py:393-402, called at :533-545 only for prefix ';' when the item's first line has no prefix left):
   Some d = the text after the first colon; it leaves the term and becomes a description node that FOLLOWS the term node.
   The lines swallowed by the item come after the description in the source and are moved into the description node
   (core.py:540-543, fix 9ee1990). *)
Definition split_dl (c : N) (l : line) : option (list tree) :=
  if N.eqb c c_semi then
    match lpre l, ldesc l with
    | [_], Some d => Some d
    | _, _ => None
    end
  else None.

(* lines swallowed by an item: following lines with the same first char and a prefix longer than 1 *)
Fixpoint take_sub (c : N) (ls : list line) : list line * list line :=
  match ls with
  | l :: r => if N.eqb (head_char l) c && long_prefix l then let '(a, b) := take_sub c r in (l :: a, b) else ([], ls)
  | [] => ([], [])
  end.

(* the items of one * / # list: every line with first char c that is not swallowed starts an item *)
Fixpoint items_of (rec : list line -> list tree) (n : nat) (c : N) (ls : list line) : list tree * list line :=
  match n with
  | 0 => ([], ls)
  | S n' =>
    match ls with
    | l :: r =>
      if N.eqb (head_char l) c then
        let '(sub, rest) := take_sub c r in
        let '(its, rest') := items_of rec n' c rest in
        (Node LLi (rec (map strip1 (l :: sub))) :: its, rest')
      else ([], ls)
    | [] => ([], [])
    end
  end.

(* THE DENOTATION of consecutive list lines (the prefix tree; kinds by prefix char) — the structure of
   ParseLines.analyze (core.py:400-542): *,# : one list node per run of lines with the same first char, one item
   per line that is not swallowed by the item before it; ; and : every item is its own node.
   fuel >= total prefix length + number of lines. *)
Fixpoint den_list (fuel : nat) (ls : list line) : list tree :=
  match fuel with
  | 0 => []
  | S f =>
    match ls with
    | [] => []
    | l :: r =>
      let c := head_char l in
      if N.eqb c 0 then line_text l ++ den_list f r          (* no prefix left: item text *)
      else if N.eqb c c_star || N.eqb c c_hash then
        let '(items, rest) := items_of (den_list f) (length ls) c ls in
        Node (if N.eqb c c_star then LUl else LOl) items :: den_list f rest
      else
        let '(sub, rest) := take_sub c r in
        match split_dl c l with
        | Some d =>                                           (* '; term : description' [+ swallowed sub-lists] *)
          Node LDt (ltxt l) :: Node LDd (d ++ den_list f (map strip1 sub)) :: den_list f rest
        | None =>
          Node (if N.eqb c c_semi then LDt else LDd) (den_list f (map strip1 (l :: sub))) :: den_list f rest
        end
    end
  end.

Definition line_fuel (ls : list line) : nat := S (fold_right (fun l a => S (length (lpre l)) + a) 0 ls) * 2.

(* ------------------------------------------------------------------ blocks and documents *)
Inductive block :=
| BH (k : nat) (cap : list inl)
| BP (lines : list (list inl))
| BList (lines : list (list N * list inl * option (list inl)))
| BTable (rows : list (list (bool * list inl)))
| BTableC (cap : list inl) (rows : list (list (bool * list inl)))   (* table with a caption line |+ cap in front of the first row *)
| BPre (lines : list (list inl)).

Definition den_block (b : block) : list tree :=
  match b with
  | BH _ _ => []
  | BP lines => [Node LP (flat_map den_inline lines)]
  | BList lines =>
    let ls := map (fun pl => (fst (fst pl), den_inline (snd (fst pl)), option_map den_inline (snd pl))) lines in
    den_list (line_fuel ls) ls
  | BTable rows => [Node LTable (map (fun row => Node LRow (map (fun cell => Node (LCell (fst cell)) (den_inline (snd cell))) row)) rows)]
  | BTableC cap rows =>
    [Node LTable (Node LCaption (den_inline cap) ::
                  map (fun row => Node LRow (map (fun cell => Node (LCell (fst cell)) (den_inline (snd cell))) row)) rows)]
  | BPre lines => [Node LPre (flat_map den_inline lines)]
  end.

Definition item_of_block (b : block) : item (list tree) :=
  match b with BH k cap => IH k (den_inline cap) | _ => IB (den_block b) end.

Fixpoint tree_of_stree (t : stree (list tree)) : list tree :=
  match t with
  | SB x => x
  | SS k c ch => [Node (LSec k) (Node LHeading c :: flat_map tree_of_stree ch)]
  end.

Definition denote (d : list block) : list tree := flat_map tree_of_stree (nest (map item_of_block d)).

(* ------------------------------------------------------------------ apostrophe runs (uses the C01 model of compute_path) *)
From MW Require Import C01.Model.

(* what balanced ''/''' runs denote: '' toggles italic, ''' toggles bold, no apostrophe is literal text *)
Fixpoint toggle_path (b i : bool) (counts : list nat) : list st :=
  match counts with
  | [] => []
  | c :: r =>
    let b' := if c =? 3 then negb b else b in
    let i' := if c =? 2 then negb i else i in
    mkst 0 b' i' :: toggle_path b' i' r
  end.

Definition balanced (counts : list nat) : bool :=
  forallb (fun c => (c =? 2) || (c =? 3)) counts &&
  match rev (toggle_path false false counts) with [] => true | s :: _ => is_zero s end.

Fixpoint st_list_eqb (a b : list st) : bool :=
  match a, b with
  | [], [] => true
  | x :: a', y :: b' => st_eqb x y && st_list_eqb a' b'
  | _, _ => false
  end.

Definition path_is_toggle (sorter : list pst -> list pst) (counts : list nat) : bool :=
  match compute_path sorter counts with
  | Ok p => st_list_eqb p (toggle_path false false counts)
  | Raise _ => false
  end.

(* all sequences over {2,3} of length <= n *)
Fixpoint seqs23 (n : nat) : list (list nat) :=
  match n with
  | 0 => [[]]
  | S m => [] :: flat_map (fun s => [2 :: s; 3 :: s]) (seqs23 m)
  end.

Definition italic_with_bolds (k : nat) : list nat := 2 :: concat (repeat [3; 3] k) ++ [2].
