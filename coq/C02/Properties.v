(* C02 — property theorems only (each closed by `exact <lemma>` and followed by Print Assumptions). *)
From Coq Require Import List NArith Bool Arith Permutation Sorted.
From MW Require Import Common.Str C01.Model C02.Model C02.Proofs C02.ProofsQuotes C02.ModelLines C02.ProofsLines C02.ModelApo C02.ProofsApo C02.ProofsApoU
  C01.Passes C01.PassesPre C01.PassesTable C02.ProofsCaption.
Import ListNotations.

(* Sections (core.py:90-146,178-193): for every sequence of headings (any levels, any captions) and blocks, the
   stack algorithm of ParseSections builds exactly the denoted nesting `nest`: a heading of level k swallows all
   following blocks and sections up to the next heading of level <= k. *)
Theorem C02_sections_nest : forall (A : Type) (items : list (item A)), parse_sections items = nest items.
Proof. exact parse_sections_nest. Qed.
Print Assumptions C02_sections_nest.

(* ... and the denoted nesting contains every caption and every block exactly once, in source order. *)
Theorem C02_sections_text_in_order : forall (A : Type) (items : list (item A)),
  flat_map flat_s (nest items) = map flat_item items.
Proof. exact nest_flat. Qed.
Print Assumptions C02_sections_text_in_order.

(* Apostrophe runs (core.py:243 ParseSingleQuote + styleanalyzer.py:90-127 compute_path with the de-duplication of states by
   (apocount, bold, italic)): for EVERY tie-breaking order of sort_states (any sorter that permutes its input and orders it by
   score; the real one breaks ties by id()) and every balanced sequence of runs of two or three apostrophes, of ANY length, on
   one line (toggling italic / bold per run ends with both off), compute_path returns exactly the denoted toggles: no
   apostrophe becomes literal text, no style leaks.  (Before fix 93e1f92 this was false from 36 runs on: the cut to 32 states
   dropped the denoted path.) *)
Theorem C02_quotes_balanced :
  forall sorter : list pst -> list pst,
  (forall l, Permutation (sorter l) l) ->
  (forall l, StronglySorted (fun a b => score (fst a) <= score (fst b)) (sorter l)) ->
  forall counts, balanced counts = true -> compute_path sorter counts = Ok (toggle_path false false counts).
Proof. exact quotes_balanced. Qed.
Print Assumptions C02_quotes_balanced.

(* the hypotheses on the sorter are satisfiable: both extreme tie-breaking orders (stable / anti-stable insertion sort) *)
Theorem C02_quotes_balanced_two_orders :
  forall counts, balanced counts = true ->
    compute_path stable_sort counts = Ok (toggle_path false false counts) /\
    compute_path antistable_sort counts = Ok (toggle_path false false counts).
Proof. exact quotes_balanced_stable. Qed.
Print Assumptions C02_quotes_balanced_two_orders.

(* the line the code got wrong before the fix: an italic span holding 17 bold words (36 runs) *)
Example C02_quotes_long_example :
  balanced (italic_with_bolds 17) = true /\ length (italic_with_bolds 17) = 36 /\
  path_is_toggle stable_sort (italic_with_bolds 17) = true /\ path_is_toggle antistable_sort (italic_with_bolds 17) = true.
Proof. exact quotes_long_example. Qed.
Print Assumptions C02_quotes_long_example.

Example C02_quotes_example : balanced [2; 3; 3; 2] = true /\ balanced [2; 3] = false /\ path_is_toggle stable_sort [2; 3; 3; 2] = true.
Proof. exact quotes_example. Qed.
Print Assumptions C02_quotes_example.

Example C02_sections_example :
  parse_sections [IB 1; IH 2 10; IB 2; IH 3 11; IB 3; IH 2 12; IH 1 13; IB 4]%N
  = [SB 1; SS 2 10 [SB 2; SS 3 11 [SB 3]]; SS 2 12 []; SS 1 13 [SB 4]]%N.
Proof. exact (eq_refl _). Qed.
Print Assumptions C02_sections_example.

(* Lists (core.py:388-551 ParseLines.analyze / collect_items / splitdl; model C02/ModelLines.v mirrors the imperative loops:
   startpos loop, outer while, collect_items loop with the inner while that swallows lines with a longer prefix, recursion on
   the item's lines after stripping one prefix char, splitdl for '; term : description'): for every sequence of list lines
   whose prefixes are over * # ; : (any number of lines, any prefix lengths, with or without a top-level colon), the fuelled
   model never runs out of fuel (3 * (number of lines + total prefix length) + 3 suffices), never raises, and returns exactly
   the denoted prefix tree den_list. *)
Theorem C02_lists_nest : forall ls : list line, valid_lines ls ->
  analyze_model (analyze_fuel ls) ls = LOk (den_list (line_fuel ls) ls).
Proof. exact analyze_den_list. Qed.
Print Assumptions C02_lists_nest.

Theorem C02_lists_nest_any_fuel : forall (ls : list line) (fuel : nat), valid_lines ls -> analyze_fuel ls <= fuel ->
  analyze_model fuel ls = LOk (den_list (line_fuel ls) ls).
Proof. exact analyze_den_list_fuel. Qed.
Print Assumptions C02_lists_nest_any_fuel.

(* the denoted list trees — hence, by C02_lists_nest, what the code builds — hold the text of ALL lines in source order,
   without exception (since fix 9ee1990 the lines swallowed by a one-line definition item `; term : desc` go into the
   description node, after the description text) *)
Theorem C02_lists_text_in_order : forall ls : list line,
  leaves_l (den_list (line_fuel ls) ls) = leaves_l (flat_map line_text ls).
Proof. exact den_list_text_in_order. Qed.
Print Assumptions C02_lists_text_in_order.

Theorem C02_lists_code_text_in_order : forall ls : list line, valid_lines ls ->
  exists ts, analyze_model (analyze_fuel ls) ls = LOk ts /\ leaves_l ts = leaves_l (flat_map line_text ls).
Proof. exact analyze_text_in_order. Qed.
Print Assumptions C02_lists_code_text_in_order.

(* the former counter-example: `;1 : 2` followed by `;* 3` now gives dt[1], dd[2, ul[li[3]]] — leaves 1,2,3 *)
Example C02_lists_swallow_example :
  valid_lines swallow_lines /\
  analyze_model (analyze_fuel swallow_lines) swallow_lines =
    LOk [Node LDt (wd 1); Node LDd (wd 2 ++ [Node LUl [Node LLi (wd 3)]])] /\
  den_list (line_fuel swallow_lines) swallow_lines = [Node LDt (wd 1); Node LDd (wd 2 ++ [Node LUl [Node LLi (wd 3)]])] /\
  leaves_l (den_list (line_fuel swallow_lines) swallow_lines) = [(1, false, false); (2, false, false); (3, false, false)]%N.
Proof. exact swallow_example. Qed.
Print Assumptions C02_lists_swallow_example.

Example C02_lists_example :
  valid_lines ex_lines /\
  analyze_model (analyze_fuel ex_lines) ex_lines =
    LOk [Node LUl [Node LLi (wd 1 ++ [Node LUl [Node LLi (wd 2)]]); Node LLi (wd 3)];
        Node LDt (wd 4); Node LDd (wd 5);
        Node LUl [Node LLi [Node LDt (wd 6); Node LDd (wd 7)]];
        Node LDd (wd 8 ++ wd 9)] /\
  (forall fuel, fuel < 5 -> analyze_model fuel ex_lines = LFuel) /\
  analyze_model 9 [([7%N], wd 1, None)] = LAttrError.
Proof. exact analyze_example. Qed.
Print Assumptions C02_lists_example.

Example C02_lists_text_example :
  leaves_l (den_list (line_fuel ex_lines) ex_lines) = map (fun w => (w, false, false)) [1; 2; 3; 4; 5; 6; 7; 8; 9]%N.
Proof. exact text_in_order_example. Qed.
Print Assumptions C02_lists_text_example.

(* Apostrophe runs ONE apostrophe longer than the markup (''Hamlet'''s, L'''arbre'', '''Lear''''s, L''''arbre''': C02/ModelApo.v):
   for every line of at most 8 runs with exactly one such run, all styles closed at the end of the line and - when the long run
   has three apostrophes - no other run of three, compute_path (both extreme tie-breaking orders of sort_states) returns the
   denoted path: the surplus apostrophe is literal text (apocount + 1 at that run), the rest of the run toggles italic / bold,
   every other run toggles as written.  Bounded (646 lines), closed by computation; the real ParseSingleQuote on such lines in
   all block contexts is the subject of the document search (vt/props/c02.py, family "apostrophe-run"). *)
Theorem C02_quotes_surplus_apostrophe_bounded : forall rs : list qrun,
  length rs <= surplus_bound -> surplus_line rs = true ->
  compute_path stable_sort (map count_of rs) = Ok (apo_path 0 false false rs) /\
  compute_path antistable_sort (map count_of rs) = Ok (apo_path 0 false false rs).
Proof. exact quotes_surplus_bounded. Qed.
Print Assumptions C02_quotes_surplus_apostrophe_bounded.

Example C02_quotes_surplus_examples :
  surplus_line [RI; RAI] = true /\ apo_path 0 false false [RI; RAI] = [mkst 0 false true; mkst 1 false false] /\
  surplus_line [RAI; RI] = true /\ apo_path 0 false false [RAI; RI] = [mkst 1 false true; mkst 1 false false] /\
  surplus_line [RB; RAB] = true /\ surplus_line [RAB; RB] = true /\ surplus_line [RI; RB; RAB; RI] = true /\
  surplus_line [RB; RB; RI; RAI] = false /\
  length (filter surplus_line (lines_upto surplus_bound)) = 646.
Proof. exact quotes_surplus_examples. Qed.
Print Assumptions C02_quotes_surplus_examples.

(* ... and UNBOUNDED (C02/ProofsApoU.v): a line of ANY length with exactly one run that is one apostrophe longer than the markup,
   all styles closed at the end of the line and - when the long run has three apostrophes - no other run of three, for EVERY
   tie-breaking order of sort_states (any sorter that permutes its input and orders it by score): compute_path returns the
   denoted path - the surplus apostrophe is literal text, the rest of the long run and every other run toggle as written.
   (The state of the denoted reading is never confused with another one: before the long run it is the only state with
   apocount 0; afterwards it has apocount 1 and every other state kept has apocount >= 2 - long run of four - or is the
   bold-stays-open reading (0, bold, opposite italic) - long run of three; it has a score <= 3, only 12 keys do, so the cut to
   32 keeps it; at the end it is (1, off, off) with score 1 and every other state has a score >= 2.) *)
Theorem C02_quotes_surplus_apostrophe :
  forall sorter : list pst -> list pst,
  (forall l, Permutation (sorter l) l) ->
  (forall l, StronglySorted (fun a b => score (fst a) <= score (fst b)) (sorter l)) ->
  forall rs : list qrun, surplus_line rs = true ->
  compute_path sorter (map count_of rs) = Ok (apo_path 0 false false rs).
Proof. exact quotes_surplus. Qed.
Print Assumptions C02_quotes_surplus_apostrophe.

(* the hypotheses on the sorter are satisfiable: both extreme tie-breaking orders *)
Theorem C02_quotes_surplus_apostrophe_two_orders : forall rs : list qrun, surplus_line rs = true ->
  compute_path stable_sort (map count_of rs) = Ok (apo_path 0 false false rs) /\
  compute_path antistable_sort (map count_of rs) = Ok (apo_path 0 false false rs).
Proof. exact quotes_surplus_two_orders. Qed.
Print Assumptions C02_quotes_surplus_apostrophe_two_orders.

(* non-vacuity beyond the bound of the computed theorem: 39 italic runs and a possessive (40 runs) *)
Example C02_quotes_surplus_long_example : surplus_line long_surplus_line = true /\ length long_surplus_line = 40.
Proof. exact quotes_surplus_long_example. Qed.
Print Assumptions C02_quotes_surplus_long_example.

(* Table captions (parse_table.py:260-301 find_caption + parse_complex_caption; model C01/PassesTable.v find_caption, tied to the real
   code on abstract token lists): on a caption line `|+ body` - in front of it only whitespace tokens, body any run of tokens the loop
   walks over (everything but a line end or a complex node other than a <ref>), in which a `|` occurs only after a `[[` (the pipe of
   a link label is not an attribute separator), the line ended by `stop` - the children of the table become: what was in front, ONE
   caption node holding exactly the tokens of body in order, then stop and the rest.  Neither the `|+` token nor anything else
   becomes caption content. *)
Theorem C02_caption_split_plain :
  forall (ws : list (gtok tkd)) (c : N) (k body : list (gtok tkd)) (stop : gtok tkd) (rest : list (gtok tkd)),
  forallb blank_tok ws = true -> forallb cap_tok body = true -> cap_tok stop = false -> open_first body = true ->
  find_caption (ws ++ GTok TCaption c k :: body ++ stop :: rest) = ws ++ GTok TCaptionNode 0%N body :: stop :: rest.
Proof. exact caption_split_plain. Qed.
Print Assumptions C02_caption_split_plain.

(* `|+ attributes | body`: attributes without `|` and `[[`; body arbitrary (labelled links included): the caption node holds exactly
   body - the attributes and the separating pipe are not text *)
Theorem C02_caption_split_attrs :
  forall (ws : list (gtok tkd)) (c : N) (k attrs : list (gtok tkd)) (b : N) (kb body : list (gtok tkd)) (stop : gtok tkd)
         (rest : list (gtok tkd)),
  forallb blank_tok ws = true -> forallb cap_tok attrs = true -> forallb (fun t => negb (bar_or_open t)) attrs = true ->
  forallb cap_tok body = true -> cap_tok stop = false ->
  find_caption (ws ++ GTok TCaption c k :: (attrs ++ GTok TBar b kb :: body) ++ stop :: rest)
  = ws ++ GTok TCaptionNode 0%N body :: stop :: rest.
Proof. exact caption_split_attrs. Qed.
Print Assumptions C02_caption_split_attrs.

(* what a table with a caption denotes: the caption's inline content under a caption node in front of the rows; its text comes
   first, then the text of the cells *)
Theorem C02_caption_denoted : forall (cap : list inl) (rows : list (list (bool * list inl))),
  den_block (BTableC cap rows) =
    [Node LTable (Node LCaption (den_inline cap) ::
                  map (fun row => Node LRow (map (fun cell => Node (LCell (fst cell)) (den_inline (snd cell))) row)) rows)] /\
  leaves_l (den_block (BTableC cap rows)) = leaves_l (den_inline cap) ++ leaves_l (den_block (BTable rows)).
Proof. exact caption_denoted. Qed.
Print Assumptions C02_caption_denoted.

(* `|+ Alpha [[Gamma|delta]] beta` and `|+ align="bottom" | Alpha [[Gamma|delta]] beta`: the same caption node *)
Example C02_caption_examples :
  find_caption (GTok TNewline 0%N [] :: GTok TCaption 1%N [] :: ex_body ++ [GTok TNewline 9%N []; GTok TRowNode 10%N []])
  = [GTok TNewline 0%N []; GTok TCaptionNode 0%N ex_body; GTok TNewline 9%N []; GTok TRowNode 10%N []] /\
  find_caption (GTok TNewline 0%N [] :: GTok TCaption 1%N [] :: ([ex_tx 11] ++ GTok TBar 12%N [] :: ex_body) ++ [GTok TNewline 9%N []; GTok TRowNode 10%N []])
  = [GTok TNewline 0%N []; GTok TCaptionNode 0%N ex_body; GTok TNewline 9%N []; GTok TRowNode 10%N []] /\
  open_first ex_body = true /\ forallb cap_tok ex_body = true.
Proof. exact caption_examples. Qed.
Print Assumptions C02_caption_examples.
