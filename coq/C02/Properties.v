(* C02 — property theorems only (each closed by `exact <lemma>` and followed by Print Assumptions). *)
From Coq Require Import List NArith Bool Arith.
From MW Require Import Common.Str C01.Model C02.Model C02.Proofs.
Import ListNotations.

(* Sections (core.py:90-146,178-193): for every sequence of headings (any levels, any captions) and blocks, the
   stack algorithm of ParseSections builds exactly the denoted nesting `nest`: a heading of level k swallows all
   following blocks and sections up to the next heading of level <= k. *)
Theorem C02_sections_nest : forall (A : Type) (items : list (item A)), parse_sections items = nest items.
Proof. exact parse_sections_nest. Qed.
Print Assumptions C02_sections_nest.

(* ... and the denoted nesting contains every caption and every block exactly once, in source order. *)
Theorem C02_sections_text_in_order : forall (A : Type) (items : list (item A)),
  flat_map flat_s (nest items) = map flat_item items.
Proof. exact nest_flat. Qed.
Print Assumptions C02_sections_text_in_order.

(* Apostrophe runs, PARTIAL: for every balanced sequence of ''/''' runs of length <= 10 and the two extreme
   tie-breaking orders of sort_states, compute_path returns exactly the denoted toggles (no literal apostrophes).
   Full statement (all lengths, every tie-breaking order) is FALSE of the model and of the code, see _refuted. *)
Theorem C02_quotes_balanced_partial :
  forallb (fun cs => implb (balanced cs) (path_is_toggle stable_sort cs && path_is_toggle antistable_sort cs)) (seqs23 10) = true.
Proof. exact quotes_balanced_upto_10. Qed.
Print Assumptions C02_quotes_balanced_partial.

Theorem C02_quotes_balanced_refuted :
  exists counts, balanced counts = true /\ length counts = 36 /\
    path_is_toggle stable_sort counts = false /\ path_is_toggle antistable_sort counts = false.
Proof. exact quotes_balanced_refuted. Qed.
Print Assumptions C02_quotes_balanced_refuted.

Example C02_quotes_example : balanced [2; 3; 3; 2] = true /\ balanced [2; 3] = false /\ path_is_toggle stable_sort [2; 3; 3; 2] = true.
Proof. exact quotes_example. Qed.
Print Assumptions C02_quotes_example.

Example C02_sections_example :
  parse_sections [IB 1; IH 2 10; IB 2; IH 3 11; IB 3; IH 2 12; IH 1 13; IB 4]%N
  = [SB 1; SS 2 10 [SB 2; SS 3 11 [SB 3]]; SS 2 12 []; SS 1 13 [SB 4]]%N.
Proof. exact (eq_refl _). Qed.
Print Assumptions C02_sections_example.
