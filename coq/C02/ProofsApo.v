(* C02 — surplus apostrophe runs: bounded, closed by computation for both extreme tie-breaking orders of sort_states. *)
From Coq Require Import List Arith Bool Lia.
From MW Require Import C01.Model C02.ModelApo.
Import ListNotations.

Lemma lines_upto_complete n : forall rs, length rs <= n -> In rs (lines_upto n).
Proof.
  induction n as [|n IH]; intros rs H.
  - destruct rs; [left; reflexivity|cbn in H; lia].
  - destruct rs as [|r t]; [left; reflexivity|]. right. cbn [length] in H.
    apply in_flat_map. exists t. split; [apply IH; lia|].
    destruct r; cbn; auto.
Qed.

Lemma st_eqb_true a b : st_eqb a b = true -> a = b.
Proof.
  destruct a as [a1 b1 i1], b as [a2 b2 i2]. unfold st_eqb. cbn [apo bold ital]. intros H.
  apply andb_true_iff in H as [H Hi]. apply andb_true_iff in H as [Ha Hb].
  apply Nat.eqb_eq in Ha. apply eqb_prop in Hb. apply eqb_prop in Hi. subst. reflexivity.
Qed.

Lemma st_list_eqb_true : forall a b, st_list_eqb a b = true -> a = b.
Proof.
  induction a as [|x a IH]; destruct b as [|y b]; cbn [st_list_eqb]; intros H; try discriminate; [reflexivity|].
  apply andb_true_iff in H as [H1 H2]. apply st_eqb_true in H1. apply IH in H2. subst. reflexivity.
Qed.

Lemma path_is_apo_spec sorter rs : path_is_apo sorter rs = true ->
  compute_path sorter (map count_of rs) = Ok (apo_path 0 false false rs).
Proof.
  unfold path_is_apo. destruct (compute_path sorter (map count_of rs)) as [p|e]; [|discriminate].
  intros H. apply st_list_eqb_true in H. subst. reflexivity.
Qed.

Lemma all_surplus_lines_ok_true : all_surplus_lines_ok = true.
Proof. vm_compute. reflexivity. Qed.

Lemma quotes_surplus_bounded rs : length rs <= surplus_bound -> surplus_line rs = true ->
  compute_path stable_sort (map count_of rs) = Ok (apo_path 0 false false rs) /\
  compute_path antistable_sort (map count_of rs) = Ok (apo_path 0 false false rs).
Proof.
  intros Hl Hs. pose proof all_surplus_lines_ok_true as H. unfold all_surplus_lines_ok in H.
  rewrite forallb_forall in H. specialize (H rs (lines_upto_complete _ _ Hl)).
  rewrite Hs in H. cbn [negb orb] in H. apply andb_true_iff in H as [H1 H2].
  split; apply path_is_apo_spec; assumption.
Qed.

(* ''Hamlet'''s , L'''arbre'' , '''Lear''''s , L''''arbre''' , ''a '''b''''s c'' *)
Lemma quotes_surplus_examples :
  surplus_line [RI; RAI] = true /\ apo_path 0 false false [RI; RAI] = [mkst 0 false true; mkst 1 false false] /\
  surplus_line [RAI; RI] = true /\ apo_path 0 false false [RAI; RI] = [mkst 1 false true; mkst 1 false false] /\
  surplus_line [RB; RAB] = true /\ surplus_line [RAB; RB] = true /\ surplus_line [RI; RB; RAB; RI] = true /\
  surplus_line [RB; RB; RI; RAI] = false /\
  length (filter surplus_line (lines_upto surplus_bound)) = 646.
Proof. vm_compute. repeat split. Qed.
