(* C02 — algorithmic model of ParseLines.analyze / collect_items / splitdl (no proofs here).
   Source: /repo/src/mwlib/parser/refine/core.py, class ParseLines (:388-551).  The model mirrors the imperative
   structure of the code (the while loops, the accumulators `node.children`, `description_data`, `broke_loop`), NOT
   the structure of the denotation `den_list` of Model.v; ProofsLines.v proves that both compute the same trees.

   Abstract input: `line` of Model.v = (lineprefix as code points, trees of the text before the first top-level
   colon, Some (trees of the text after that colon) if the line has one).  A t_complex_line token of the code
   (created at core.py:585-592, 601-609, 625-633; lineprefix = stripped text of the t_item/t_colon token, :552-553) is one `line`.

   OUT OF SCOPE (said here once): the `endtag` branch of append_line (core.py:496-508: a literal </ul> / </ol>
   html end tag inside a line of a * / # list cuts the line in two) — abstract lines carry no html end tags, so
   append_line is always its last two statements (:510-511).  Consequently `tagname` of a line is always None and
   handle_no_prefix (core.py:448-452) always takes its `else` branch (type := t_complex_node). *)
From Coq Require Import List NArith Bool Arith.
From MW Require Import Common.Str C02.Model.
Import ListNotations.

(* results of the fuelled loops: a value, out of fuel, or the AttributeError the real code raises for a line whose
   first prefix char is none of : * # ;  (core.py:483-489 returns node = None, then :416 `node.children = []`) *)
Inductive lres (A : Type) := LOk (v : A) | LFuel | LAttrError.
Arguments LOk {A} v.
Arguments LFuel {A}.
Arguments LAttrError {A}.

Definition lbind {A B} (r : lres A) (k : A -> lres B) : lres B :=
  match r with LOk v => k v | LFuel => LFuel | LAttrError => LAttrError end.

(* an element of the python list `lines` once analyze is done with it:
   OLine l = the line itself, retyped t_complex_node by handle_no_prefix (core.py:448-452; its children — the text,
             the t_special ":" and the text after it — are untouched, so the abstract line is kept as it is);
   ONode t = a list node inserted by `lines.insert(startpos, node)` (:434) or the description node (:437).
   Nodes are never looked into again by the pass, so they are kept as finished trees. *)
Inductive otok := OLine (l : line) | ONode (t : tree).

(* what the harness' view (vt/harness/c02_units.py line_tree) makes of such a list: t_complex_node is transparent, the
   t_special ":" token has no text: a retyped line shows line_text *)
Definition render_tok (t : otok) : list tree := match t with OLine l => line_text l | ONode t => [t] end.
Definition render (ts : list otok) : list tree := flat_map render_tok ts.

(* core.py:441-446 getchar(...) == prefix, for a prefix that is a character (None == prefix is False) *)
Definition same_prefix (prefix : N) (l : line) : bool :=
  match lpre l with c :: _ => N.eqb c prefix | [] => false end.

(* core.py:454-491 get_node_and_newitem: the node kind; None = the final `else` (node = None) *)
Inductive nkind := KDd | KUl | KOl | KDt.
Definition get_node (prefix : N) : option nkind :=
  if N.eqb prefix c_colon then Some KDd            (* :455-460  complex_style ":" / complex_node items *)
  else if N.eqb prefix c_star then Some KUl        (* :462-467  ul / li *)
  else if N.eqb prefix c_hash then Some KOl        (* :469-474  ol / li *)
  else if N.eqb prefix c_semi then Some KDt        (* :476-481  complex_style ";" / complex_node items *)
  else None.                                       (* :483-489 *)

(* the finished node with its items (each item = the list its children became).  li items are tags of their own;
   the complex_node items of ; and : are transparent for the harness' view. *)
Definition mk_node (k : nkind) (items : list (list otok)) : tree :=
  match k with
  | KUl => Node LUl (map (fun it => Node LLi (render it)) items)
  | KOl => Node LOl (map (fun it => Node LLi (render it)) items)
  | KDt => Node LDt (flat_map render items)
  | KDd => Node LDd (flat_map render items)
  end.

(* core.py:522-527 the inner while of collect_items: `while startpos < len(lines)-1 and prefix == getchar(lines[startpos])
   and len(lines[startpos].lineprefix) > 1: append_line(...)` — every iteration moves lines[startpos] to the end of
   item.children (:510-511); `ls` = lines[startpos:-1].  One iteration per line: structural recursion on ls. *)
Fixpoint inner_while (prefix : N) (item : list line) (ls : list line) : list line * list line :=
  match ls with
  | l :: r =>
    if same_prefix prefix l && (1 <? length (lpre l)) then inner_while prefix (item ++ [l]) r
    else (item, ls)
  | [] => (item, [])
  end.

(* core.py:393-402 splitdl(item.children[0]) on a retyped line: the first top-level t_special ":" cuts it; the text
   after it becomes the children of a new complex_style ":" token; None if there is no such token.  Returned: what is
   left of the line, and the children list of the new token (collect_items still extends that list, :542) *)
Definition splitdl (l : line) : option (line * list tree) :=
  match ldesc l with
  | Some d => Some ((lpre l, ltxt l, None), d)
  | None => None
  end.

Definition is_dl (prefix : N) : bool := N.eqb prefix c_colon || N.eqb prefix c_semi.   (* `prefix in ":;"` :546 *)

(* analyze_loop  = the while of analyze (core.py:407-438); done = lines[:startpos], ls = lines[startpos:-1] (the
                   guard appended at :405 and removed at :439 is the end of ls);
   outer_while   = `while startpos < len(lines)-1 and getchar(lines[startpos]) == prefix: collect_items; if broke_loop:
                   break` (:419-424); children = node.children, dd = description_data;
   collect_items = core.py:513-550.
   One unit of fuel per loop iteration and per call. *)
Fixpoint analyze_loop (fuel : nat) (done : list otok) (ls : list line) {struct fuel} : lres (list otok) :=
  match fuel with
  | 0 => LFuel
  | S f =>
    match ls with
    | [] => LOk done                                                     (* :408 startpos = len(lines)-1 *)
    | l :: r =>
      match lpre l with
      | [] => analyze_loop f (done ++ [OLine l]) r                       (* :409-413 handle_no_prefix; startpos += 1 *)
      | prefix :: _ =>
        match get_node prefix with                                      (* :415 *)
        | None => LAttrError                                             (* :416 None.children = [] *)
        | Some k =>
          lbind (outer_while f prefix [] None ls) (fun '(children, dd, rest) =>       (* :416-424 *)
          analyze_loop f (done ++ ONode (mk_node k children)                        (* :426-435 *)
                               :: match dd with Some d => [ONode d] | None => [] end)   (* :436-438 *)
                       rest)
        end
      end
    end
  end
with outer_while (fuel : nat) (prefix : N) (children : list (list otok)) (dd : option tree) (ls : list line)
       {struct fuel} : lres (list (list otok) * option tree * list line) :=
  match fuel with
  | 0 => LFuel
  | S f =>
    match ls with
    | l :: _ =>
      if same_prefix prefix l then                                       (* :419 *)
        lbind (collect_items f prefix children dd ls) (fun '(children', dd', rest, broke_loop) =>   (* :420-422 *)
        if (broke_loop : bool) then LOk (children', dd', rest)            (* :423-424 *)
        else outer_while f prefix children' dd' rest)
      else LOk (children, dd, ls)
    | [] => LOk (children, dd, ls)
    end
  end
with collect_items (fuel : nat) (prefix : N) (children : list (list otok)) (dd : option tree) (ls : list line)
       {struct fuel} : lres (list (list otok) * option tree * list line * bool) :=
  match fuel with
  | 0 => LFuel
  | S f =>
    match ls with
    | l :: r =>
      if same_prefix prefix l then                                       (* :517 *)
        let '(item, rest) := inner_while prefix [l] r in                 (* :518-527 newitem; append_line; inner while *)
        lbind (analyze_loop f [] (map strip1 item)) (fun ich =>           (* :529-531 strip one char; self.analyze(item.children) *)
        (* :532 node.children.append(item) — done in each of the exits below *)
        match (if N.eqb prefix c_semi then                               (* :533-537 prefix == ";" and item.children and *)
                 match ich with                                          (*          item.children[0].type == t_complex_node *)
                 | OLine l0 :: ich' => Some (l0, ich')
                 | _ => None
                 end
               else None) with
        | Some (l0, ich') =>
          match splitdl l0 with                                          (* :538 description_data = self.splitdl(...) *)
          | Some (l0', d) =>                                             (* :539-545 (fix 9ee1990): the other children of the *)
            (* item — what the swallowed lines became — are moved behind the description text: description_data.children
               .extend(item.children[1:]); del item.children[1:]; broke_loop = True; break *)
            LOk (children ++ [[OLine l0']], Some (Node LDd (d ++ render ich')), rest, true)
          | None =>                                                      (* description_data is None now *)
            if is_dl prefix then LOk (children ++ [ich], None, rest, true)               (* :546-548 *)
            else collect_items f prefix (children ++ [ich]) None rest
          end
        | None =>
          if is_dl prefix then LOk (children ++ [ich], dd, rest, true)    (* :546-548 *)
          else collect_items f prefix (children ++ [ich]) dd rest        (* next iteration of :517 *)
        end)
      else LOk (children, dd, ls, false)                                  (* :517 condition false; :550 *)
    | [] => LOk (children, dd, ls, false)
    end
  end.

(* ParseLines.analyze(lines) seen through the harness' view *)
Definition analyze_model (fuel : nat) (ls : list line) : lres (list tree) :=
  lbind (analyze_loop fuel [] ls) (fun ts => LOk (render ts)).

(* the termination measure: number of lines + total prefix length; 3 units of fuel per unit of measure (a nesting
   level costs three calls: analyze_loop -> outer_while -> collect_items -> analyze_loop) *)
Definition lines_measure (ls : list line) : nat := fold_right (fun l a => S (length (lpre l)) + a) 0 ls.
Definition analyze_fuel (ls : list line) : nat := 3 * lines_measure ls + 3.

Definition valid_char (c : N) : Prop := c = c_star \/ c = c_hash \/ c = c_semi \/ c = c_colon.
Definition valid_lines (ls : list line) : Prop := Forall (fun l => Forall valid_char (lpre l)) ls.

(* leaves in order (for the text-in-order statement) *)
Fixpoint leaves (t : tree) : list (N * bool * bool) :=
  match t with Leaf w b i => [(w, b, i)] | Node _ ch => flat_map leaves ch end.
Definition leaves_l (ts : list tree) : list (N * bool * bool) := flat_map leaves ts.
