(* C02 — the caption split of the table parser (parse_table.py:260-301 TableParser.find_caption + parse_complex_caption), as modelled
   in C01/PassesTable.v `find_caption` (tied to the real code on abstract token lists by vt/harness/c01_passtie.py, tie T, and -
   for exactly the two theorems below - by vt/harness/c02_units.py, case kind "C").

   A caption line is   |+ body <newline>   or   |+ attributes | body <newline>.   The theorems say what the Caption node holds:
   exactly the tokens of `body`, in order - not the `|+` token, not the attributes, not the separating pipe, nothing of what
   follows the line.  The point of the first theorem is the pipe of a link label ([[target|label]]): it is NOT the attribute
   separator, because a `[[` came first (find_caption's sentinel `modifier = 0`, which parse_complex_caption must treat like
   "no modifier").  The denotation (C02/Model.v den_block BTableC: Node LCaption (den_inline cap) in front of the rows) is the
   reading of this result: the caption node holds the caption's inline content, nothing else. *)
From Coq Require Import List NArith Arith Bool Lia.
From MW Require Import C01.Passes C01.PassesPre C01.PassesTable.
Import ListNotations.

(* tokens the first loop of find_caption skips in front of the |+ : text.strip() == "" *)
Definition blank_tok (t : ttok) : bool := match gkind t with TOther true | TNewline | TBreak => true | _ => false end.
Definition is_ref (t : ttok) : bool := match gkind t with TRefTag => true | _ => false end.
(* tokens the second loop walks over: everything but a newline / break or a complex node other than a <ref> *)
Definition cap_tok (t : ttok) : bool := negb (negb (is_ref t) && (text_none t || is_nl t)).
Definition bar_or_open (t : ttok) : bool := match gkind t with TBar | T2Open => true | _ => false end.
(* the first `|` or `[[` of the list, if there is one, is a `[[` *)
Fixpoint open_first (l : list ttok) : bool :=
  match l with
  | [] => true
  | t :: r => match gkind t with T2Open => true | TBar => false | _ => open_first r end
  end.

(* the value of `modifier` after the second loop has walked over l, starting at index i *)
Fixpoint mod_after (l : list ttok) (i : nat) (m : option nat) : option nat :=
  match l with
  | [] => m
  | t :: r => mod_after r (S i) (match m, gkind t with None, TBar => Some i | None, T2Open => Some 0 | _, _ => m end)
  end.

Lemma skipn_len_app {A} (a b : list A) n : n = length a -> skipn n (a ++ b) = b.
Proof. intros ->. induction a as [|x a IH]; [reflexivity|exact IH]. Qed.

Lemma firstn_len_app {A} (a b : list A) n : n = length a -> firstn n (a ++ b) = a.
Proof. intros ->. induction a as [|x a IH]; [reflexivity|]. cbn. rewrite IH. reflexivity. Qed.

Lemma caption_start_ws ws : forall i c k rest, forallb blank_tok ws = true ->
  caption_start (ws ++ GTok TCaption c k :: rest) i = Some (S (i + length ws)).
Proof.
  induction ws as [|t r IH]; intros i c k rest H.
  - cbn. rewrite Nat.add_0_r. reflexivity.
  - cbn [forallb] in H. apply andb_true_iff in H as [Ht Hr]. cbn [app caption_start].
    unfold blank_tok in Ht. destruct (gkind t) as [[|]| | | | | | | | | | | | | | | | | | | | |]; try discriminate;
      rewrite IH by exact Hr; cbn [length]; f_equal; lia.
Qed.

Lemma caption_end_walk body : forall i m stop rest, forallb cap_tok body = true -> cap_tok stop = false ->
  caption_end (body ++ stop :: rest) i m = Some (i + length body, mod_after body i m).
Proof.
  induction body as [|t r IH]; intros i m stop rest Hb Hs.
  - cbn [app caption_end length mod_after]. unfold cap_tok, is_ref in Hs. apply negb_false_iff in Hs. rewrite Hs.
    rewrite Nat.add_0_r. reflexivity.
  - cbn [forallb] in Hb. apply andb_true_iff in Hb as [Ht Hr]. cbn [app caption_end mod_after length].
    unfold cap_tok, is_ref in Ht. apply negb_true_iff in Ht. rewrite Ht. rewrite IH by assumption. f_equal. f_equal. lia.
Qed.

Lemma mod_after_some l : forall i x, mod_after l i (Some x) = Some x.
Proof. induction l as [|t r IH]; intros i x; [reflexivity|]. cbn [mod_after]. apply IH. Qed.

Lemma mod_after_open_first l : forall i, open_first l = true -> mod_after l i None = None \/ mod_after l i None = Some 0.
Proof.
  induction l as [|t r IH]; intros i H; [left; reflexivity|]. cbn [mod_after open_first] in *.
  destruct (gkind t); try (apply IH; exact H); [discriminate|right; apply mod_after_some].
Qed.

Lemma mod_after_attrs attrs : forall i b k body, forallb (fun t => negb (bar_or_open t)) attrs = true ->
  mod_after (attrs ++ GTok TBar b k :: body) i None = Some (i + length attrs).
Proof.
  induction attrs as [|t r IH]; intros i b k body H.
  - cbn [app mod_after gkind length]. rewrite mod_after_some, Nat.add_0_r. reflexivity.
  - cbn [forallb] in H. apply andb_true_iff in H as [Ht Hr]. cbn [app mod_after length].
    unfold bar_or_open in Ht. destruct (gkind t); try discriminate; rewrite IH by exact Hr; f_equal; lia.
Qed.

(* shape of the result: everything in front of the |+ stays, the caption node replaces |+ .. up to the end of the line, the rest stays *)
Lemma find_caption_shape ws c k mid stop rest sub :
  forallb blank_tok ws = true -> forallb cap_tok mid = true -> cap_tok stop = false ->
  (match mod_after mid (S (length ws)) None with
   | Some (S m) => slice (S (m + 1)) (S (length ws) + length mid) (ws ++ GTok TCaption c k :: mid ++ stop :: rest)
   | _ => slice (length ws + 1) (S (length ws) + length mid) (ws ++ GTok TCaption c k :: mid ++ stop :: rest)
   end = sub) ->
  find_caption (ws ++ GTok TCaption c k :: mid ++ stop :: rest) = ws ++ GTok TCaptionNode 0%N sub :: stop :: rest.
Proof.
  intros Hws Hmid Hstop Hsub. unfold find_caption.
  rewrite caption_start_ws by exact Hws. cbn [Nat.add]. replace (S (length ws) - 1) with (length ws) by lia.
  replace (skipn (S (length ws)) (ws ++ GTok TCaption c k :: mid ++ stop :: rest)) with (mid ++ stop :: rest).
  2:{ change (ws ++ GTok TCaption c k :: mid ++ stop :: rest) with (ws ++ [GTok TCaption c k] ++ mid ++ stop :: rest).
      rewrite app_assoc. symmetry. apply skipn_len_app. rewrite app_length. cbn. lia. }
  rewrite caption_end_walk by assumption. rewrite Hsub. unfold splice.
  rewrite firstn_len_app by reflexivity. f_equal. cbn [app]. f_equal.
  rewrite Nat.max_r by lia.
  change (ws ++ GTok TCaption c k :: mid ++ stop :: rest) with (ws ++ [GTok TCaption c k] ++ mid ++ stop :: rest).
  rewrite !app_assoc. apply skipn_len_app. rewrite !app_length. cbn. lia.
Qed.

(* |+ body : no attribute part; a pipe may occur in body only after a [[ *)
Theorem caption_split_plain ws c k body stop rest :
  forallb blank_tok ws = true -> forallb cap_tok body = true -> cap_tok stop = false -> open_first body = true ->
  find_caption (ws ++ GTok TCaption c k :: body ++ stop :: rest) = ws ++ GTok TCaptionNode 0%N body :: stop :: rest.
Proof.
  intros Hws Hb Hs Ho. apply find_caption_shape; try assumption.
  assert (E : slice (length ws + 1) (S (length ws) + length body) (ws ++ GTok TCaption c k :: body ++ stop :: rest) = body).
  { unfold slice. change (ws ++ GTok TCaption c k :: body ++ stop :: rest) with (ws ++ [GTok TCaption c k] ++ body ++ stop :: rest).
    rewrite app_assoc. rewrite skipn_len_app by (rewrite app_length; cbn; lia). apply firstn_len_app. lia. }
  destruct (mod_after_open_first body (S (length ws)) Ho) as [-> | ->]; exact E.
Qed.

(* |+ attributes | body : the attributes hold neither | nor [[ ; body is arbitrary (links with labels included) *)
Theorem caption_split_attrs ws c k attrs b kb body stop rest :
  forallb blank_tok ws = true -> forallb cap_tok attrs = true -> forallb (fun t => negb (bar_or_open t)) attrs = true ->
  forallb cap_tok body = true -> cap_tok stop = false ->
  find_caption (ws ++ GTok TCaption c k :: (attrs ++ GTok TBar b kb :: body) ++ stop :: rest)
  = ws ++ GTok TCaptionNode 0%N body :: stop :: rest.
Proof.
  intros Hws Ha Hnb Hb Hs. apply find_caption_shape; try assumption.
  - rewrite forallb_app. rewrite Ha. cbn [forallb andb]. exact Hb.
  - rewrite mod_after_attrs by exact Hnb. cbn [Nat.add].
    unfold slice.
    change (ws ++ GTok TCaption c k :: (attrs ++ GTok TBar b kb :: body) ++ stop :: rest)
      with (ws ++ [GTok TCaption c k] ++ (attrs ++ [GTok TBar b kb] ++ body) ++ stop :: rest).
    rewrite <- !app_assoc. rewrite (app_assoc ws), (app_assoc (ws ++ _)), (app_assoc ((ws ++ _) ++ _)).
    rewrite skipn_len_app by (rewrite !app_length; cbn; lia).
    apply firstn_len_app. rewrite !app_length. cbn. lia.
Qed.

(* |+ Alpha [[Gamma|delta]] beta   and   |+ align="bottom" | Alpha [[Gamma|delta]] beta  (ids: 1 |+, 2.. text) *)
Definition ex_tx (n : N) : ttok := GTok (TOther false) n [].
Definition ex_body : list ttok := [ex_tx 2; GTok T2Open 3%N []; ex_tx 4; GTok TBar 5%N []; ex_tx 6; ex_tx 7; ex_tx 8].
Lemma caption_examples :
  find_caption (GTok TNewline 0%N [] :: GTok TCaption 1%N [] :: ex_body ++ [GTok TNewline 9%N []; GTok TRowNode 10%N []])
  = [GTok TNewline 0%N []; GTok TCaptionNode 0%N ex_body; GTok TNewline 9%N []; GTok TRowNode 10%N []] /\
  find_caption (GTok TNewline 0%N [] :: GTok TCaption 1%N [] :: ([ex_tx 11] ++ GTok TBar 12%N [] :: ex_body) ++ [GTok TNewline 9%N []; GTok TRowNode 10%N []])
  = [GTok TNewline 0%N []; GTok TCaptionNode 0%N ex_body; GTok TNewline 9%N []; GTok TRowNode 10%N []] /\
  open_first ex_body = true /\ forallb cap_tok ex_body = true.
Proof. vm_compute. repeat split. Qed.

(* the denotation of a table with a caption: the caption's inline content, under a caption node, in front of the rows - hence the
   text of the caption comes first, then the text of the cells, nothing else *)
From MW Require Import Common.Str C02.Model C02.ModelLines.

Lemma caption_denoted cap rows :
  den_block (BTableC cap rows) =
    [Node LTable (Node LCaption (den_inline cap) ::
                  map (fun row => Node LRow (map (fun cell => Node (LCell (fst cell)) (den_inline (snd cell))) row)) rows)] /\
  leaves_l (den_block (BTableC cap rows)) = leaves_l (den_inline cap) ++ leaves_l (den_block (BTable rows)).
Proof.
  split; [reflexivity|]. cbn [den_block leaves_l flat_map leaves]. rewrite !app_nil_r. reflexivity.
Qed.
