(* C02 — apostrophe runs: balanced ''/''' runs are resolved to exactly the denoted toggles, for lines of ANY length.
   Model: C01.Model.compute_path with the de-duplication of states by (apocount, bold, italic) (styleanalyzer.py:101-110).
   Idea: the denoted path is the only chain of states with apocount = 0; after de-duplication all keys are distinct, at most
   8 keys have a score <= 2, the denoted state has a score <= 2 and the list is sorted by score: the denoted state is among
   the first 8 <= 32 states, so the cut to 32 never drops it; whenever it is (0, false, false) it is the unique best state. *)
From Coq Require Import List NArith Bool Arith Lia Permutation Sorted.
From MW Require Import Common.Str C01.Model C01.Proofs C02.Model.
Import ListNotations.

Definition le_score (a b : pst) : Prop := score (fst a) <= score (fst b).

Lemma st_eqb_eq a b : st_eqb a b = true <-> a = b.
Proof.
  destruct a as [a1 b1 i1], b as [a2 b2 i2]. unfold st_eqb. cbn [apo bold ital].
  rewrite !andb_true_iff, Nat.eqb_eq, !eqb_true_iff. split.
  - intros [[-> ->] ->]. reflexivity.
  - intros H. inversion H. auto.
Qed.

Lemma existsb_st_in k seen : existsb (st_eqb k) seen = true <-> In k seen.
Proof.
  rewrite existsb_exists. split.
  - intros [y [Hy E]]. apply st_eqb_eq in E. subst. exact Hy.
  - intros H. exists k. split; [exact H|]. apply st_eqb_eq. reflexivity.
Qed.

(* ------------------------------------------------------------------ dedup *)
Lemma dedup_keeps x : forall l seen,
  (forall y, In y l -> fst y = fst x -> y = x) -> In x l -> ~ In (fst x) seen -> In x (dedup seen l).
Proof.
  induction l as [|y r IH]; intros seen Hu Hin Hs; [destruct Hin|].
  cbn [dedup]. destruct (existsb (st_eqb (fst y)) seen) eqn:E.
  - apply existsb_st_in in E. destruct Hin as [->|Hin]; [contradiction|].
    apply IH; auto. intros z Hz. apply Hu. right. exact Hz.
  - destruct Hin as [->|Hin]; [left; reflexivity|].
    destruct (st_eqb (fst y) (fst x)) eqn:Ek.
    + apply st_eqb_eq in Ek. left. apply Hu; [left; reflexivity|exact Ek].
    + right. apply IH; auto.
      * intros z Hz. apply Hu. right. exact Hz.
      * intros [Hh|Hh]; [|contradiction]. rewrite Hh in Ek.
        assert (st_eqb (fst x) (fst x) = true) by (apply st_eqb_eq; reflexivity). congruence.
Qed.

Lemma dedup_nodup : forall l seen,
  NoDup (map fst (dedup seen l)) /\ (forall x, In x (dedup seen l) -> ~ In (fst x) seen).
Proof.
  induction l as [|y r IH]; intros seen; cbn [dedup].
  - split; [constructor|intros x []].
  - destruct (existsb (st_eqb (fst y)) seen) eqn:E; [apply IH|].
    destruct (IH (fst y :: seen)) as [Hn Hs]. split.
    + cbn [map]. constructor; [|exact Hn].
      intros Hin. apply in_map_iff in Hin as [z [Hz Hin]]. apply Hs in Hin. apply Hin. left. symmetry. exact Hz.
    + intros x [<-|Hx].
      * intros Hin. apply existsb_st_in in Hin. congruence.
      * intros Hin. apply (Hs x Hx). right. exact Hin.
Qed.

Lemma dedup_sorted (R : pst -> pst -> Prop) : forall l seen, StronglySorted R l -> StronglySorted R (dedup seen l).
Proof.
  induction l as [|y r IH]; intros seen H; cbn [dedup]; [constructor|].
  inversion H as [|? ? Hr Hf]; subst.
  destruct (existsb (st_eqb (fst y)) seen); [apply IH; exact Hr|].
  constructor; [apply IH; exact Hr|].
  apply Forall_forall. intros z Hz. apply dedup_incl in Hz. eapply Forall_forall in Hf; eauto.
Qed.

Lemma sorted_prefix_le (R : pst -> pst -> Prop) pre x post :
  StronglySorted R (pre ++ x :: post) -> Forall (fun y => R y x) pre.
Proof.
  induction pre as [|y pre IH]; intros H; [constructor|].
  cbn [app] in H. inversion H as [|? ? Hr Hf]; subst. constructor.
  - eapply Forall_forall in Hf; [exact Hf|]. apply in_or_app. right. left. reflexivity.
  - apply IH. exact Hr.
Qed.

(* ------------------------------------------------------------------ the 8 cheap keys *)
Definition low_keys : list st :=
  [mkst 0 false false; mkst 0 false true; mkst 0 true false; mkst 0 true true;
   mkst 1 false false; mkst 1 false true; mkst 1 true false; mkst 2 false false].

Lemma low_keys_complete k : score k <= 2 -> In k low_keys.
Proof.
  destruct k as [a b i]. unfold score. cbn [apo bold ital]. intros H.
  destruct a as [|[|[|a]]]; destruct b, i; cbn [b2n] in H; try lia;
    unfold low_keys; cbn [In]; repeat (first [left; reflexivity | right]).
Qed.

Lemma score_zero s : score s = 0 -> is_zero s = true.
Proof.
  destruct s as [a b i]. unfold score, is_zero. cbn [apo bold ital]. intros H.
  destruct a; [|lia]. destruct b, i; cbn [b2n] in H; try lia. reflexivity.
Qed.

Lemma is_zero_score s : is_zero s = true -> score s = 0 /\ apo s = 0.
Proof.
  destruct s as [a b i]. unfold score, is_zero. cbn [apo bold ital]. intros H.
  apply andb_true_iff in H as [H Hi]. apply andb_true_iff in H as [Ha Hb]. apply Nat.eqb_eq in Ha.
  destruct b, i; cbn in *; try discriminate. lia.
Qed.

Lemma firstn_incl {A} k : forall (l : list A) x, In x (firstn k l) -> In x l.
Proof.
  induction k as [|k IH]; intros [|y l] x H; cbn [firstn] in H; try destruct H as [].
  - left. assumption.
  - right. apply IH. assumption.
Qed.

Lemma NoDup_app_l {A} (l l' : list A) : NoDup (l ++ l') -> NoDup l.
Proof.
  induction l as [|x l IH]; intros H; [constructor|].
  cbn [app] in H. inversion H as [|? ? Hx Hr]; subst. constructor; [|apply IH; exact Hr].
  intros Hi. apply Hx. apply in_or_app. left. exact Hi.
Qed.

(* in a list that is sorted by score and has pairwise distinct keys, an element with score <= 2 is among the first 32 *)
Lemma cheap_survives_cut (d : list pst) x :
  StronglySorted le_score d -> NoDup (map fst d) -> In x d -> score (fst x) <= 2 -> In x (firstn 32 d).
Proof.
  intros Hs Hn Hin Hx.
  apply in_split in Hin as [pre [post ->]].
  pose proof (sorted_prefix_le _ _ _ _ Hs) as Hpre.
  rewrite map_app in Hn. cbn [map] in Hn.
  pose proof (NoDup_remove _ _ _ Hn) as [Hn1 Hn2].
  assert (Hnd : NoDup (fst x :: map fst pre)).
  { constructor.
    - intros Hi. apply Hn2. apply in_or_app. left. exact Hi.
    - eapply NoDup_app_l. exact Hn1. }
  assert (Hincl : incl (fst x :: map fst pre) low_keys).
  { intros k [<-|Hk]; [apply low_keys_complete; exact Hx|].
    apply in_map_iff in Hk as [y [<- Hy]]. apply low_keys_complete.
    eapply Forall_forall in Hpre; [|exact Hy]. unfold le_score in Hpre. lia. }
  pose proof (NoDup_incl_length Hnd Hincl) as Hlen.
  cbn [length] in Hlen. rewrite map_length in Hlen. change (length low_keys) with 8 in Hlen.
  rewrite firstn_app. apply in_or_app. right.
  destruct (32 - length pre) as [|k] eqn:E; [unfold pst in *; lia|].
  cbn [firstn]. left. reflexivity.
Qed.

(* ------------------------------------------------------------------ the denoted chain *)
Definition togc (c : nat) (t : st) : st := if c =? 3 then tog_b t else tog_i t.
Definition c23 (c : nat) : Prop := c = 2 \/ c = 3.

Lemma next_has c s : c23 c -> exists ns, get_next c s = Ok ns /\ In (togc c s) ns.
Proof.
  intros [-> | ->]; cbn; eexists; (split; [reflexivity|]); left; reflexivity.
Qed.

Lemma next_apo0 c s ns n : c23 c -> get_next c s = Ok ns -> In n ns -> apo n = 0 -> apo s = 0 /\ n = togc c s.
Proof.
  intros [-> | ->] H Hin Ha; cbn in H; inversion H; subst; clear H.
  - destruct Hin as [<-|[]]. cbn in Ha. split; [exact Ha|reflexivity].
  - destruct Hin as [<-|[<-|[]]].
    + cbn in Ha. split; [exact Ha|reflexivity].
    + cbn in Ha. lia.
Qed.

Lemma expand_spec c : c23 c -> forall states, exists new, expand c states = Ok new /\
  (forall p, In p new <-> exists s hist ns, In (s, hist) states /\ get_next c s = Ok ns /\ In (fst p) ns /\ snd p = s :: hist).
Proof.
  intros Hc. induction states as [|[s hist] rest IH].
  - exists []. split; [reflexivity|]. intros p. split; [intros []|]. intros [s [hist [ns [[] _]]]].
  - destruct (next_has c s Hc) as [ns [Hns _]]. destruct IH as [more [Hm Hspec]].
    cbn [expand]. rewrite Hns, Hm. eexists. split; [reflexivity|].
    intros p. rewrite in_app_iff, in_map_iff. split.
    + intros [[n [<- Hn]]|Hp].
      * exists s, hist, ns. cbn. auto.
      * apply Hspec in Hp as [s' [h' [ns' [Hin Hr]]]]. exists s', h', ns'. split; [right; exact Hin|exact Hr].
    + intros [s' [h' [ns' [[E|Hin] [Hg [Hn Hh]]]]]].
      * inversion E; subst. left. exists (fst p). rewrite Hns in Hg. inversion Hg; subst.
        split; [|exact Hn]. destruct p as [p1 p2]. cbn in *. subst. reflexivity.
      * right. apply Hspec. exists s', h', ns'. auto.
Qed.

Record inv (states : list pst) (t : st) (h : list st) : Prop := {
  inv_in : In (t, h) states;
  inv_uniq : forall p, In p states -> apo (fst p) = 0 -> p = (t, h);
  inv_zero : is_zero t = true -> states = [(t, h)] }.

Section WithSorter.
  Variable sorter : list pst -> list pst.
  Hypothesis sorter_perm : forall l, Permutation (sorter l) l.
  Hypothesis sorter_sorted : forall l, StronglySorted le_score (sorter l).

  Lemma step_inv c states t h : c23 c -> apo t = 0 -> inv states t h ->
    exists new kept, expand c states = Ok new /\ prune (sorter new) = Ok kept /\ inv kept (togc c t) (t :: h).
  Proof.
    intros Hc Ht [Hin Hu _].
    destruct (expand_spec c Hc states) as [new [Hnew Hspec]].
    set (t' := togc c t). set (x := (t', t :: h)).
    assert (Ht' : apo t' = 0 /\ score t' <= 2).
    { unfold t', togc. destruct t as [a b i]. cbn in Ht. subst a.
      destruct (c =? 3); unfold score; cbn; destruct b, i; cbn; lia. }
    destruct Ht' as [Ht'0 Ht'2].
    assert (Hxin : In x new).
    { apply Hspec. destruct (next_has c t Hc) as [ns [Hns Hn]]. exists t, h, ns. cbn. auto. }
    assert (Hxu : forall p, In p new -> apo (fst p) = 0 -> p = x).
    { intros p Hp Ha. apply Hspec in Hp as [s [hist [ns [Hs [Hg [Hn Hh]]]]]].
      destruct (next_apo0 c s ns (fst p) Hc Hg Hn Ha) as [Hs0 Hp1].
      specialize (Hu (s, hist) Hs Hs0). inversion Hu; subst.
      destruct p as [p1 p2]. cbn in *. subst. reflexivity. }
    (* sorted *)
    set (srt := sorter new).
    assert (Hsin : In x srt) by (eapply Permutation_in; [apply Permutation_sym, sorter_perm|exact Hxin]).
    assert (Hsu : forall p, In p srt -> apo (fst p) = 0 -> p = x).
    { intros p Hp. apply Hxu. eapply Permutation_in; [apply sorter_perm|exact Hp]. }
    (* dedup *)
    set (d := dedup [] srt).
    assert (Hdin : In x d).
    { apply dedup_keeps; [|exact Hsin|intros []].
      intros y Hy Hk. apply Hsu; [exact Hy|]. rewrite Hk. exact Ht'0. }
    assert (Hdu : forall p, In p d -> apo (fst p) = 0 -> p = x).
    { intros p Hp. apply Hsu. eapply dedup_incl. exact Hp. }
    assert (Hds : StronglySorted le_score d) by (apply dedup_sorted, sorter_sorted).
    assert (Hdn : NoDup (map fst d)) by (apply dedup_nodup).
    exists new. unfold prune. fold srt. fold d.
    destruct d as [|best rest] eqn:Ed; [destruct Hdin|].
    destruct (is_zero (fst best)) eqn:Ez.
    - exists [best]. split; [exact Hnew|]. split; [reflexivity|].
      assert (Hb : best = x).
      { apply Hdu; [left; reflexivity|]. apply is_zero_score in Ez. tauto. }
      subst best. constructor.
      + left. reflexivity.
      + intros p [<-|[]] _. reflexivity.
      + intros _. reflexivity.
    - exists (firstn 32 (best :: rest)). split; [exact Hnew|]. split; [reflexivity|]. constructor.
      + apply cheap_survives_cut; auto.
      + intros p Hp. apply Hdu. eapply firstn_incl. exact Hp.
      + intros Hz. exfalso.
        (* the head of a sorted list is the cheapest: score best <= score t' = 0 *)
        apply is_zero_score in Hz as [Hz _].
        assert (Hle : score (fst best) <= score t').
        { destruct Hdin as [->|Hr]; [cbn; lia|].
          inversion Hds as [|? ? _ Hf]; subst. eapply Forall_forall in Hf; [|exact Hr]. exact Hf. }
        assert (Hb0 : score (fst best) = 0) by lia.
        apply score_zero in Hb0. congruence.
  Qed.

  Fixpoint run_toggle (t : st) (h : list st) (counts : list nat) : st * list st :=
    match counts with
    | [] => (t, h)
    | c :: r => run_toggle (togc c t) (t :: h) r
    end.

  Lemma togc_apo c t : apo (togc c t) = apo t.
  Proof. unfold togc. destruct (c =? 3); reflexivity. Qed.

  Lemma steps_inv counts : Forall c23 counts -> forall states t h work, apo t = 0 -> inv states t h ->
    exists final w, steps sorter counts states work = Ok (final, w) /\
      inv final (fst (run_toggle t h counts)) (snd (run_toggle t h counts)).
  Proof.
    induction counts as [|c cs IH]; intros HC states t h work Ht Hinv.
    - exists states, (rev work). split; [reflexivity|exact Hinv].
    - inversion HC as [|? ? Hc Hcs]; subst.
      destruct (step_inv c states t h Hc Ht Hinv) as [new [kept [Hnew [Hk Hinv']]]].
      destruct (IH Hcs kept (togc c t) (t :: h) (length new :: work)) as [final [w [Hs Hf]]];
        [rewrite togc_apo; exact Ht|exact Hinv'|].
      exists final, w. cbn [steps run_toggle]. rewrite Hnew, Hk. split; [exact Hs|exact Hf].
  Qed.

  Lemma run_toggle_path counts : Forall c23 counts -> forall t h, apo t = 0 ->
    fst (run_toggle t h counts) :: snd (run_toggle t h counts) = rev (toggle_path (bold t) (ital t) counts) ++ t :: h.
  Proof.
    induction counts as [|c cs IH]; intros HC t h Ht; [reflexivity|].
    inversion HC as [|? ? Hc Hcs]; subst.
    cbn [run_toggle toggle_path]. rewrite IH by (auto; rewrite togc_apo; exact Ht).
    destruct t as [a b i]. cbn in Ht. subst a.
    destruct Hc as [-> | ->]; cbn [togc Nat.eqb tog_b tog_i bold ital apo rev]; rewrite <- app_assoc; reflexivity.
  Qed.

  Lemma toggle_path_length b i counts : length (toggle_path b i counts) = length counts.
  Proof. revert b i; induction counts as [|c cs IH]; intros b i; cbn [toggle_path length]; [reflexivity|]. rewrite IH. reflexivity. Qed.

  Lemma balanced_c23 counts : balanced counts = true ->
    Forall c23 counts /\ match rev (toggle_path false false counts) with [] => True | s :: _ => is_zero s = true end.
  Proof.
    unfold balanced. intros H. apply andb_true_iff in H as [H1 H2]. split.
    - apply Forall_forall. intros c Hc. rewrite forallb_forall in H1. specialize (H1 c Hc).
      apply orb_true_iff in H1 as [E|E]; apply Nat.eqb_eq in E; [left|right]; exact E.
    - destruct (rev (toggle_path false false counts)); [exact I|exact H2].
  Qed.

  (* THE THEOREM: balanced runs of '' and ''' (any number of them on one line) are resolved to the denoted toggles *)
  Lemma quotes_balanced counts : balanced counts = true ->
    compute_path sorter counts = Ok (toggle_path false false counts).
  Proof.
    intros Hb. apply balanced_c23 in Hb as [HC Hz].
    assert (Hinit : inv [(init_st, [])] init_st []).
    { constructor; [left; reflexivity| |reflexivity]. intros p [<-|[]] _. reflexivity. }
    destruct (steps_inv counts HC [(init_st, [])] init_st [] [] eq_refl Hinit) as [final [w [Hs Hf]]].
    pose proof (run_toggle_path counts HC init_st [] eq_refl) as Hp. cbn [bold ital init_st] in Hp.
    set (t' := fst (run_toggle init_st [] counts)) in *. set (h' := snd (run_toggle init_st [] counts)) in *.
    assert (Hzero : is_zero t' = true).
    { destruct (rev (toggle_path false false counts)) as [|s r] eqn:E.
      - cbn [app] in Hp. injection Hp as H0 H1. rewrite H0. reflexivity.
      - cbn [app] in Hp. injection Hp as H0 H1. rewrite H0. exact Hz. }
    destruct Hf as [_ _ Hfz]. specialize (Hfz Hzero).
    unfold compute_path, compute_path_work. rewrite Hs, Hfz, Hp.
    rewrite removelast_last, rev_involutive, toggle_path_length, Nat.eqb_refl. reflexivity.
  Qed.
End WithSorter.

(* ------------------------------------------------------------------ the hypotheses are satisfiable: insertion sort *)
Lemma insert_sorted x l : StronglySorted le_score l -> StronglySorted le_score (insert_by_score x l).
Proof.
  induction l as [|y r IH]; intros H; cbn [insert_by_score]; [repeat constructor|].
  inversion H as [|? ? Hr Hf]; subst.
  destruct (score (fst x) <? score (fst y)) eqn:E.
  - apply Nat.ltb_lt in E. constructor; [exact H|]. constructor; [unfold le_score; lia|].
    apply Forall_forall. intros z Hz. eapply Forall_forall in Hf; [|exact Hz]. unfold le_score in *. lia.
  - apply Nat.ltb_ge in E. constructor; [apply IH; exact Hr|].
    eapply Forall_perm; [apply insert_perm|]. constructor; [unfold le_score; lia|exact Hf].
Qed.

Lemma stable_sort_sorted l : StronglySorted le_score (stable_sort l).
Proof.
  induction l as [|x l IH]; [constructor|]. unfold stable_sort in *. cbn [fold_right]. apply insert_sorted. exact IH.
Qed.

Lemma insert_le_sorted x l : StronglySorted le_score l -> StronglySorted le_score (insert_by_score_le x l).
Proof.
  induction l as [|y r IH]; intros H; cbn [insert_by_score_le]; [repeat constructor|].
  inversion H as [|? ? Hr Hf]; subst.
  destruct (score (fst x) <=? score (fst y)) eqn:E.
  - apply Nat.leb_le in E. constructor; [exact H|]. constructor; [unfold le_score; lia|].
    apply Forall_forall. intros z Hz. eapply Forall_forall in Hf; [|exact Hz]. unfold le_score in *. lia.
  - apply Nat.leb_gt in E. constructor; [apply IH; exact Hr|].
    eapply Forall_perm; [apply insert_le_perm|]. constructor; [unfold le_score; lia|exact Hf].
Qed.

Lemma antistable_sort_sorted l : StronglySorted le_score (antistable_sort l).
Proof.
  induction l as [|x l IH]; [constructor|]. unfold antistable_sort in *. cbn [fold_right]. apply insert_le_sorted. exact IH.
Qed.

Lemma quotes_balanced_stable counts : balanced counts = true ->
  compute_path stable_sort counts = Ok (toggle_path false false counts) /\
  compute_path antistable_sort counts = Ok (toggle_path false false counts).
Proof.
  intros H. split.
  - apply quotes_balanced; [apply stable_sort_perm|apply stable_sort_sorted|exact H].
  - apply quotes_balanced; [apply antistable_sort_perm|apply antistable_sort_sorted|exact H].
Qed.

(* the line that the code before fix 93e1f92 got wrong: an italic span holding 17 bold words (36 runs) *)
Lemma quotes_long_example :
  balanced (italic_with_bolds 17) = true /\ length (italic_with_bolds 17) = 36 /\
  path_is_toggle stable_sort (italic_with_bolds 17) = true /\ path_is_toggle antistable_sort (italic_with_bolds 17) = true.
Proof. vm_compute. repeat split. Qed.
