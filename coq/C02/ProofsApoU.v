(* C02 — surplus apostrophe runs, UNBOUNDED: a line of ANY length with exactly one run that is one apostrophe longer than the
   markup (''x'''s, w'''x'', '''x''''s, w''''x'''), all styles closed at the end, and - when the long run has three apostrophes -
   no other run of three, is resolved by compute_path to the denoted path `apo_path`, for EVERY tie-breaking order of sort_states.

   Idea.  Before the long run the denoted path is the only chain of states with apocount 0 (ProofsQuotes.step_inv; on a line whose
   long run has three apostrophes all other runs have two, so there is only ONE state at all).  At the long run and after it the
   denoted state t has apocount 1 and every other state kept is of a kind `other` that can never be confused with it:
     long run of four : other = apocount >= 2        (a run of four costs at least one literal apostrophe, every other reading of any
                                                      run costs one more);
     long run of three: other = (0, bold, not italic of t)   (the run read as a bold toggle: bold stays open for the rest of the line).
   Both kinds differ from t in the apocount (so de-duplication by key keeps the denoted state with the denoted history), are never the
   all-closed state (so the "best state is zero: keep only it" rule never fires), and at the end of the line - where t = (1, off, off),
   score 1 - have a score >= 2, so the sorted list starts with the denoted state whatever the tie-breaking order.  The denoted state
   has a score <= 3, only 12 keys have a score <= 3 and keys are distinct after de-duplication: the cut to 32 never drops it. *)
From Coq Require Import List NArith Bool Arith Lia Permutation Sorted.
From MW Require Import Common.Str C01.Model C01.Proofs C02.Model C02.ProofsQuotes C02.ModelApo.
Import ListNotations.

(* ------------------------------------------------------------------ the 12 keys with a score <= 3 *)
Definition low_keys3 : list st :=
  [mkst 0 false false; mkst 0 false true; mkst 0 true false; mkst 0 true true;
   mkst 1 false false; mkst 1 false true; mkst 1 true false; mkst 1 true true;
   mkst 2 false false; mkst 2 false true; mkst 2 true false; mkst 3 false false].

Lemma low_keys3_complete k : score k <= 3 -> In k low_keys3.
Proof.
  destruct k as [a b i]. unfold score. cbn [apo bold ital]. intros H.
  destruct a as [|[|[|[|a]]]]; destruct b, i; cbn [b2n] in H; try lia;
    unfold low_keys3; cbn [In]; repeat (first [left; reflexivity | right]).
Qed.

Lemma cheap3_survives_cut (d : list pst) x :
  StronglySorted le_score d -> NoDup (map fst d) -> In x d -> score (fst x) <= 3 -> In x (firstn 32 d).
Proof.
  intros Hs Hn Hin Hx.
  apply in_split in Hin as [pre [post ->]].
  pose proof (sorted_prefix_le _ _ _ _ Hs) as Hpre.
  rewrite map_app in Hn. cbn [map] in Hn.
  pose proof (NoDup_remove _ _ _ Hn) as [Hn1 Hn2].
  assert (Hnd : NoDup (fst x :: map fst pre)).
  { constructor.
    - intros Hi. apply Hn2. apply in_or_app. left. exact Hi.
    - eapply NoDup_app_l. exact Hn1. }
  assert (Hincl : incl (fst x :: map fst pre) low_keys3).
  { intros k [<-|Hk]; [apply low_keys3_complete; exact Hx|].
    apply in_map_iff in Hk as [y [<- Hy]]. apply low_keys3_complete.
    eapply Forall_forall in Hpre; [|exact Hy]. unfold le_score in Hpre. lia. }
  pose proof (NoDup_incl_length Hnd Hincl) as Hlen.
  cbn [length] in Hlen. rewrite map_length in Hlen. change (length low_keys3) with 12 in Hlen.
  rewrite firstn_app. apply in_or_app. right.
  destruct (32 - length pre) as [|k] eqn:E; [unfold pst in *; lia|].
  cbn [firstn]. left. reflexivity.
Qed.

Lemma firstn_sorted (R : pst -> pst -> Prop) k : forall l, StronglySorted R l -> StronglySorted R (firstn k l).
Proof.
  induction k as [|k IH]; intros [|y l] H; cbn [firstn]; try constructor.
  - inversion H; subst. apply IH. assumption.
  - inversion H as [|? ? Hr Hf]; subst. apply Forall_forall. intros z Hz. apply firstn_incl in Hz.
    eapply Forall_forall in Hf; eauto.
Qed.

Lemma sorted_head_min l x : StronglySorted le_score l -> In x l ->
  (forall y, In y l -> y = x \/ score (fst x) < score (fst y)) -> exists r, l = x :: r.
Proof.
  intros Hs Hin Hmin. destruct l as [|b r]; [destruct Hin|]. exists r.
  destruct (Hmin b (or_introl eq_refl)) as [->|Hlt]; [reflexivity|]. exfalso.
  destruct Hin as [->|Hr]; [lia|].
  inversion Hs as [|? ? _ Hf]; subst. eapply Forall_forall in Hf; [|exact Hr]. unfold le_score in Hf. lia.
Qed.

(* ------------------------------------------------------------------ the denoted run, state by state *)
Definition apo_step (r : qrun) (t : st) : st :=
  mkst (if is_surplus r then S (apo t) else apo t)
       (match r with RB | RAB => negb (bold t) | _ => bold t end)
       (match r with RI | RAI => negb (ital t) | _ => ital t end).

Fixpoint run_apo (t : st) (h : list st) (rs : list qrun) : st * list st :=
  match rs with
  | [] => (t, h)
  | r :: q => run_apo (apo_step r t) (t :: h) q
  end.

Lemma run_apo_path rs : forall t h,
  fst (run_apo t h rs) :: snd (run_apo t h rs) = rev (apo_path (apo t) (bold t) (ital t) rs) ++ t :: h.
Proof.
  induction rs as [|r q IH]; intros t h; [reflexivity|].
  cbn [run_apo apo_path]. rewrite IH. cbn [apo_step apo bold ital rev]. rewrite <- app_assoc. reflexivity.
Qed.

Lemma run_apo_app l1 : forall l2 t h,
  run_apo t h (l1 ++ l2) = run_apo (fst (run_apo t h l1)) (snd (run_apo t h l1)) l2.
Proof. induction l1 as [|r q IH]; intros l2 t h; [reflexivity|]. cbn [app run_apo]. apply IH. Qed.

Lemma apo_path_length rs : forall a b i, length (apo_path a b i rs) = length rs.
Proof. induction rs as [|r q IH]; intros a b i; cbn [apo_path length]; [reflexivity|]. rewrite IH. reflexivity. Qed.

Definition plain (r : qrun) : Prop := is_surplus r = false.

Lemma plain_step r t : plain r -> apo_step r t = togc (count_of r) t /\ c23 (count_of r).
Proof. destruct r; unfold plain; cbn; intros H; try discriminate; destruct t; split; try reflexivity; [left|right]; reflexivity. Qed.

Lemma run_apo_plain_apo rs : Forall plain rs -> forall t h, apo (fst (run_apo t h rs)) = apo t.
Proof.
  induction rs as [|r q IH]; intros HF t h; [reflexivity|]. inversion HF as [|? ? Hr Hq]; subst.
  cbn [run_apo]. rewrite IH by exact Hq. destruct r; unfold plain in Hr; cbn in Hr; try discriminate; reflexivity.
Qed.

Lemma run_apo_ri_bold rs : Forall (eq RI) rs -> forall t h, bold (fst (run_apo t h rs)) = bold t.
Proof.
  induction rs as [|r q IH]; intros HF t h; [reflexivity|]. inversion HF as [|? ? Hr Hq]; subst.
  cbn [run_apo]. rewrite IH by exact Hq. reflexivity.
Qed.

(* ------------------------------------------------------------------ successors *)
Lemma get_next_ok c s : 2 <= c -> exists ns, get_next c s = Ok ns.
Proof.
  intros H. unfold get_next. destruct (c <? 2) eqn:E; [apply Nat.ltb_lt in E; lia|].
  destruct (c =? 2); [eexists; reflexivity|]. destruct (c =? 3); [eexists; reflexivity|].
  destruct (c =? 4); [eexists; reflexivity|]. destruct (c =? 5); eexists; reflexivity.
Qed.

Lemma expand_spec2 c : 2 <= c -> forall states, exists new, expand c states = Ok new /\
  (forall p, In p new <-> exists s hist ns, In (s, hist) states /\ get_next c s = Ok ns /\ In (fst p) ns /\ snd p = s :: hist).
Proof.
  intros Hc. induction states as [|[s hist] rest IH].
  - exists []. split; [reflexivity|]. intros p. split; [intros []|]. intros [s [hist [ns [[] _]]]].
  - destruct (get_next_ok c s Hc) as [ns Hns]. destruct IH as [more [Hm Hspec]].
    cbn [expand]. rewrite Hns, Hm. eexists. split; [reflexivity|].
    intros p. rewrite in_app_iff, in_map_iff. split.
    + intros [[n [<- Hn]]|Hp].
      * exists s, hist, ns. cbn. auto.
      * apply Hspec in Hp as [s' [h' [ns' [Hin Hr]]]]. exists s', h', ns'. split; [right; exact Hin|exact Hr].
    + intros [s' [h' [ns' [[E|Hin] [Hg [Hn Hh]]]]]].
      * inversion E; subst. left. exists (fst p). rewrite Hns in Hg. inversion Hg; subst.
        split; [|exact Hn]. destruct p as [p1 p2]. cbn in *. subst. reflexivity.
      * right. apply Hspec. exists s', h', ns'. auto.
Qed.

Section WithSorter.
  Variable sorter : list pst -> list pst.
  Hypothesis sorter_perm : forall l, Permutation (sorter l) l.
  Hypothesis sorter_sorted : forall l, StronglySorted le_score (sorter l).

  (* steps without the work counters *)
  Fixpoint steps' (counts : list nat) (states : list pst) : res (list pst) :=
    match counts with
    | [] => Ok states
    | c :: cs =>
      match expand c states with
      | Raise e => Raise e
      | Ok new => match prune (sorter new) with Raise e => Raise e | Ok kept => steps' cs kept end
      end
    end.

  Lemma steps'_steps counts : forall states work final, steps' counts states = Ok final ->
    exists w, steps sorter counts states work = Ok (final, w).
  Proof.
    induction counts as [|c cs IH]; intros states work final H; cbn [steps' steps] in *.
    - inversion H; subst. eexists. reflexivity.
    - destruct (expand c states) as [new|e]; [|discriminate].
      destruct (prune (sorter new)) as [kept|e]; [|discriminate]. apply IH. exact H.
  Qed.

  Lemma steps'_app l1 : forall l2 states mid, steps' l1 states = Ok mid -> steps' (l1 ++ l2) states = steps' l2 mid.
  Proof.
    induction l1 as [|c cs IH]; intros l2 states mid H; cbn [steps' app] in *.
    - inversion H; subst. reflexivity.
    - destruct (expand c states) as [new|e]; [|discriminate].
      destruct (prune (sorter new)) as [kept|e]; [|discriminate]. apply IH. exact H.
  Qed.

  (* phase 1, general: the apocount-0 chain (ProofsQuotes.step_inv) over the plain runs in front of the long run *)
  Lemma phase1 pre : Forall plain pre -> forall states t h, apo t = 0 -> inv states t h ->
    exists mid, steps' (map count_of pre) states = Ok mid /\ inv mid (fst (run_apo t h pre)) (snd (run_apo t h pre)).
  Proof.
    induction pre as [|r q IH]; intros HF states t h Ht Hinv.
    - exists states. split; [reflexivity|exact Hinv].
    - inversion HF as [|? ? Hr Hq]; subst. destruct (plain_step r t Hr) as [Hstep Hc].
      destruct (step_inv sorter sorter_perm sorter_sorted (count_of r) states t h Hc Ht Hinv) as [new [kept [Hnew [Hk Hinv']]]].
      destruct (IH Hq kept (togc (count_of r) t) (t :: h)) as [mid [Hs Hm]]; [rewrite togc_apo; exact Ht|exact Hinv'|].
      exists mid. cbn [map steps' run_apo]. rewrite Hnew, Hk, Hstep. split; [exact Hs|exact Hm].
  Qed.

  (* phase 1 on a line whose other runs all have two apostrophes: there is one state only *)
  Lemma sorter_single x : sorter [x] = [x].
  Proof. apply Permutation_length_1_inv. apply Permutation_sym. apply sorter_perm. Qed.

  Lemma phase1_single pre : Forall (eq RI) pre -> forall t h,
    steps' (map count_of pre) [(t, h)] = Ok [(fst (run_apo t h pre), snd (run_apo t h pre))].
  Proof.
    induction pre as [|r q IH]; intros HF t h; [reflexivity|].
    inversion HF as [|? ? Hr Hq]; subst. cbn [map count_of steps' run_apo].
    change (expand 2 [(t, h)]) with (Ok [(tog_i t, [t] ++ h)] : res (list pst)). cbn [app].
    rewrite sorter_single. unfold prune. cbn [dedup existsb fst].
    assert (E : apo_step RI t = tog_i t) by reflexivity. rewrite E.
    destruct (is_zero (tog_i t)); cbn [firstn]; apply IH; exact Hq.
  Qed.

  (* ---------------------------------------------------------------- the long run and what follows *)
  Section Other.
    Variable other : st -> st -> Prop.
    Hypothesis other_apo : forall t k, other t k -> apo k <> 1.
    Hypothesis other_nz : forall t k, other t k -> is_zero k = false.

    Record inv2 (states : list pst) (t : st) (h : list st) : Prop := {
      inv2_in : In (t, h) states;
      inv2_other : forall p, In p states -> p = (t, h) \/ other t (fst p);
      inv2_sorted : StronglySorted le_score states }.

    (* one step with count c: the denoted state t (history h) has the denoted successor t'; every other successor of t, and every
       successor of a state of kind Q, is of kind `other t'` *)
    Lemma step2 (Q : st -> Prop) c states t h t' :
      2 <= c -> apo t' = 1 -> score t' <= 3 ->
      In (t, h) states ->
      (forall p, In p states -> p = (t, h) \/ Q (fst p)) ->
      (forall ns, get_next c t = Ok ns -> In t' ns /\ forall n, In n ns -> n = t' \/ other t' n) ->
      (forall s ns n, Q s -> get_next c s = Ok ns -> In n ns -> other t' n) ->
      exists new kept, expand c states = Ok new /\ prune (sorter new) = Ok kept /\ inv2 kept t' (t :: h).
    Proof.
      intros Hc Ha Hsc Hin HQ Hsucc HsuccQ.
      destruct (expand_spec2 c Hc states) as [new [Hnew Hspec]].
      set (x := (t', t :: h)).
      assert (Hxin : In x new).
      { apply Hspec. destruct (get_next_ok c t Hc) as [ns Hns]. exists t, h, ns. cbn. destruct (Hsucc ns Hns) as [H1 _]. auto. }
      assert (Hall : forall p, In p new -> p = x \/ other t' (fst p)).
      { intros p Hp. apply Hspec in Hp as [s [hist [ns [Hs [Hg [Hn Hh]]]]]].
        destruct (HQ (s, hist) Hs) as [E|Hq].
        - inversion E; subst. destruct (Hsucc ns Hg) as [_ H2]. destruct (H2 (fst p) Hn) as [E2|Ho]; [left|right; exact Ho].
          destruct p as [p1 p2]. cbn in *. subst. reflexivity.
        - right. eapply HsuccQ; eauto. }
      assert (Hkey : forall p, In p new -> fst p = fst x -> p = x).
      { intros p Hp Hk. destruct (Hall p Hp) as [E|Ho]; [exact E|]. apply other_apo in Ho. rewrite Hk in Ho. cbn in Ho. contradiction. }
      assert (Hnz : forall p, In p new -> is_zero (fst p) = false).
      { intros p Hp. destruct (Hall p Hp) as [->|Ho]; [|eapply other_nz; exact Ho].
        cbn. unfold is_zero. rewrite Ha. reflexivity. }
      set (srt := sorter new).
      assert (Hperm : forall p, In p srt -> In p new) by (intros p Hp; eapply Permutation_in; [apply sorter_perm|exact Hp]).
      assert (Hsin : In x srt) by (eapply Permutation_in; [apply Permutation_sym, sorter_perm|exact Hxin]).
      set (d := dedup [] srt).
      assert (Hdin : In x d).
      { apply dedup_keeps; [|exact Hsin|intros []]. intros y Hy Hk. apply Hkey; auto. }
      assert (Hdincl : forall p, In p d -> In p new) by (intros p Hp; apply Hperm; eapply dedup_incl; exact Hp).
      assert (Hds : StronglySorted le_score d) by (apply dedup_sorted, sorter_sorted).
      assert (Hdn : NoDup (map fst d)) by (apply dedup_nodup).
      exists new. unfold prune. fold srt. fold d.
      destruct d as [|best rest] eqn:Ed; [destruct Hdin|].
      rewrite (Hnz best (Hdincl best (or_introl eq_refl))).
      exists (firstn 32 (best :: rest)). split; [exact Hnew|]. split; [reflexivity|]. constructor.
      - apply cheap3_survives_cut; auto.
      - intros p Hp. apply Hall. apply Hdincl. eapply firstn_incl. exact Hp.
      - apply firstn_sorted. exact Hds.
    Qed.

    (* phase 2: plain runs after the long run *)
    Variable allowed : qrun -> Prop.          (* the plain runs that may follow the long run on this kind of line *)
    Hypothesis allowed_plain : forall r, allowed r -> plain r.
    Hypothesis other_step : forall r t, allowed r -> apo t = 1 ->
      (forall ns, get_next (count_of r) t = Ok ns -> In (apo_step r t) ns /\ forall n, In n ns -> n = apo_step r t \/ other (apo_step r t) n) /\
      (forall s ns n, other t s -> get_next (count_of r) s = Ok ns -> In n ns -> other (apo_step r t) n).

    Lemma phase2 post : Forall allowed post -> forall states t h, apo t = 1 -> score t <= 3 -> inv2 states t h ->
      (forall r t, allowed r -> apo t = 1 -> score (apo_step r t) <= 3) ->
      exists final, steps' (map count_of post) states = Ok final /\ inv2 final (fst (run_apo t h post)) (snd (run_apo t h post)).
    Proof.
      induction post as [|r q IH]; intros HF states t h Ha Hsc Hinv Hscore.
      - exists states. split; [reflexivity|exact Hinv].
      - inversion HF as [|? ? Hr Hq]; subst. pose proof (allowed_plain r Hr) as Hp.
        destruct Hinv as [Hin Hoth Hsrt]. destruct (other_step r t Hr Ha) as [Hs1 Hs2].
        assert (Ha' : apo (apo_step r t) = 1).
        { destruct r; unfold plain in Hp; cbn in Hp; try discriminate; cbn; exact Ha. }
        assert (Hc : 2 <= count_of r) by (destruct r; cbn; lia).
        destruct (step2 (other t) (count_of r) states t h (apo_step r t) Hc Ha' (Hscore r t Hr Ha) Hin Hoth Hs1 Hs2)
          as [new [kept [Hnew [Hk Hinv']]]].
        destruct (IH Hq kept (apo_step r t) (t :: h) Ha' (Hscore r t Hr Ha) Hinv' Hscore) as [final [Hs Hf]].
        exists final. cbn [map steps' run_apo]. rewrite Hnew, Hk. split; [exact Hs|exact Hf].
    Qed.

    (* the end of the line: the denoted state (1, off, off) is the head of the sorted list *)
    Hypothesis other_final : forall k, other (mkst 1 false false) k -> 2 <= score k.

    Lemma final_head final h : inv2 final (mkst 1 false false) h -> exists r, final = (mkst 1 false false, h) :: r.
    Proof.
      intros [Hin Hoth Hsrt]. apply sorted_head_min; [exact Hsrt|exact Hin|].
      intros y Hy. destruct (Hoth y Hy) as [E|Ho]; [left; exact E|right]. apply other_final in Ho. cbn. lia.
    Qed.
  End Other.

  (* ---------------------------------------------------------------- long run of four apostrophes: other = apocount >= 2 *)
  Definition other4 (_ k : st) : Prop := 2 <= apo k.

  Lemma other4_apo t k : other4 t k -> apo k <> 1.
  Proof. unfold other4. lia. Qed.
  Lemma other4_nz t k : other4 t k -> is_zero k = false.
  Proof. unfold other4, is_zero. intros H. destruct (apo k) as [|n]; [lia|reflexivity]. Qed.
  Lemma other4_final k : other4 (mkst 1 false false) k -> 2 <= score k.
  Proof. unfold other4, score. lia. Qed.

  Lemma other4_step r t : plain r -> apo t = 1 ->
    (forall ns, get_next (count_of r) t = Ok ns -> In (apo_step r t) ns /\ forall n, In n ns -> n = apo_step r t \/ other4 (apo_step r t) n) /\
    (forall s ns n, other4 t s -> get_next (count_of r) s = Ok ns -> In n ns -> other4 (apo_step r t) n).
  Proof.
    intros Hp Ha. destruct t as [a b i]. cbn in Ha. subst a.
    destruct r; unfold plain in Hp; cbn in Hp; try discriminate; cbn [count_of]; split.
    - intros ns H. cbn in H. inversion H; subst. split; [left; reflexivity|]. intros n [<-|[]]. left. reflexivity.
    - intros s ns n Ho H Hn. cbn in H. inversion H; subst. destruct Hn as [<-|[]]. unfold other4 in *. cbn. exact Ho.
    - intros ns H. cbn in H. inversion H; subst. split; [left; reflexivity|]. intros n [<-|[<-|[]]]; [left; reflexivity|right].
      unfold other4. cbn. lia.
    - intros s ns n Ho H Hn. cbn in H. inversion H; subst. unfold other4 in *. destruct Hn as [<-|[<-|[]]]; cbn; lia.
  Qed.

  (* the long run itself, from the apocount-0 invariant *)
  Lemma surplus4_step states t h : apo t = 0 -> inv states t h ->
    exists new kept, expand 4 states = Ok new /\ prune (sorter new) = Ok kept /\ inv2 other4 kept (apo_step RAB t) (t :: h).
  Proof.
    intros Ha [Hin Hu _].
    apply (step2 other4 other4_apo other4_nz (fun s => 1 <= apo s) 4 states t h (apo_step RAB t)).
    - lia.
    - cbn. rewrite Ha. reflexivity.
    - destruct t as [a b i]. cbn in Ha. subst a. unfold score. cbn. destruct b, i; cbn; lia.
    - exact Hin.
    - intros p Hp. destruct (apo (fst p)) as [|n] eqn:E; [left; apply Hu; assumption|right; lia].
    - intros ns H. destruct t as [a b i]. cbn in Ha. subst a. cbn in H. inversion H; subst.
      split; [left; reflexivity|]. intros n [<-|[<-|[]]]; [left; reflexivity|right]. unfold other4. cbn. lia.
    - intros s ns n Hs H Hn. cbn in H. inversion H; subst. unfold other4. destruct Hn as [<-|[<-|[]]]; cbn; lia.
  Qed.

  (* ---------------------------------------------------------------- long run of three apostrophes: other = (0, bold, not italic) *)
  Definition other3 (t k : st) : Prop := apo k = 0 /\ bold k = true /\ ital k = negb (ital t).

  Lemma other3_apo t k : other3 t k -> apo k <> 1.
  Proof. unfold other3. intros [H _]. lia. Qed.
  Lemma other3_nz t k : other3 t k -> is_zero k = false.
  Proof. unfold other3, is_zero. intros [_ [H _]]. rewrite H. destruct (apo k =? 0); reflexivity. Qed.
  Lemma other3_final k : other3 (mkst 1 false false) k -> 2 <= score k.
  Proof. unfold other3, score. cbn. intros [_ [Hb Hi]]. rewrite Hb, Hi. cbn. lia. Qed.

  Lemma other3_step r t : r = RI -> apo t = 1 ->
    (forall ns, get_next (count_of r) t = Ok ns -> In (apo_step r t) ns /\ forall n, In n ns -> n = apo_step r t \/ other3 (apo_step r t) n) /\
    (forall s ns n, other3 t s -> get_next (count_of r) s = Ok ns -> In n ns -> other3 (apo_step r t) n).
  Proof.
    intros -> Ha. cbn [count_of]. split.
    - intros ns H. cbn in H. inversion H; subst. split; [left; destruct t; reflexivity|]. intros n [<-|[]]. left. destruct t; reflexivity.
    - intros s ns n [H1 [H2 H3]] H Hn. cbn in H. inversion H; subst. destruct Hn as [<-|[]].
      unfold other3. cbn. rewrite H1, H2, H3. auto.
  Qed.

  Lemma surplus3_step t h : apo t = 0 -> bold t = false ->
    exists new kept, expand 3 [(t, h)] = Ok new /\ prune (sorter new) = Ok kept /\ inv2 other3 kept (apo_step RAI t) (t :: h).
  Proof.
    intros Ha Hb. destruct t as [a b i]. cbn in Ha, Hb. subst a b.
    apply (step2 other3 other3_apo other3_nz (fun _ => False) 3 [(mkst 0 false i, h)] (mkst 0 false i) h (apo_step RAI (mkst 0 false i))).
    - lia.
    - reflexivity.
    - unfold score. cbn. destruct i; cbn; lia.
    - left. reflexivity.
    - intros p [<-|[]]. left. reflexivity.
    - intros ns H. cbn in H. inversion H; subst. split; [right; left; reflexivity|].
      intros n [<-|[<-|[]]]; [right|left; reflexivity]. unfold other3. cbn. rewrite negb_involutive. auto.
    - intros s ns n [].
  Qed.

  (* ---------------------------------------------------------------- shape of the lines *)
  Lemma filter_none (l : list qrun) : length (filter is_surplus l) = 0 -> Forall plain l.
  Proof.
    induction l as [|r q IH]; intros H; [constructor|]. cbn [filter] in H.
    destruct (is_surplus r) eqn:E; [cbn in H; lia|]. constructor; [exact E|apply IH; exact H].
  Qed.

  Lemma one_surplus (l : list qrun) : length (filter is_surplus l) = 1 ->
    exists pre s post, l = pre ++ s :: post /\ is_surplus s = true /\ Forall plain pre /\ Forall plain post.
  Proof.
    induction l as [|r q IH]; intros H; [cbn in H; lia|]. cbn [filter] in H.
    destruct (is_surplus r) eqn:E.
    - cbn [length] in H. exists [], r, q. split; [reflexivity|]. split; [exact E|]. split; [constructor|apply filter_none; lia].
    - destruct (IH H) as [pre [s [post [-> [Hs [Hp Hq]]]]]]. exists (r :: pre), s, post.
      split; [reflexivity|]. split; [exact Hs|]. split; [constructor; [exact E|exact Hp]|exact Hq].
  Qed.

  Lemma no_rb_ri l : existsb (qrun_eqb RB) l = false -> Forall plain l -> Forall (eq RI) l.
  Proof.
    induction l as [|r q IH]; intros H HF; [constructor|]. inversion HF as [|? ? Hr Hq]; subst.
    cbn [existsb] in H. apply orb_false_iff in H as [H1 H2]. constructor; [|apply IH; assumption].
    destruct r; unfold plain in Hr; cbn in Hr, H1; try discriminate; reflexivity.
  Qed.

  Lemma final_state (rs : list qrun) t h : rs <> [] ->
    match rev (apo_path 0 false false rs) with [] => false | s :: _ => negb (bold s) && negb (ital s) end = true ->
    fst (run_apo init_st [] rs) = t -> snd (run_apo init_st [] rs) = h -> apo t = 1 -> t = mkst 1 false false.
  Proof.
    intros Hne Hend Ht Hh Ha. pose proof (run_apo_path rs init_st []) as Hp. cbn [apo bold ital init_st] in Hp.
    rewrite Ht, Hh in Hp.
    destruct (rev (apo_path 0 false false rs)) as [|s r] eqn:E.
    - apply (f_equal (@length st)) in E. rewrite rev_length, apo_path_length in E. destruct rs; [contradiction|discriminate].
    - cbn [app] in Hp. injection Hp as Hp1 Hp2. subst s. apply andb_true_iff in Hend as [Hbo Hit].
      destruct t as [a b i]. cbn in *. subst a. destruct b, i; try discriminate. reflexivity.
  Qed.

  (* ---------------------------------------------------------------- THE THEOREM *)
  Lemma compute_path_of_final (rs : list qrun) final r h :
    steps' (map count_of rs) [(init_st, [])] = Ok final ->
    final = (fst (run_apo init_st [] rs), h) :: r -> h = snd (run_apo init_st [] rs) ->
    compute_path sorter (map count_of rs) = Ok (apo_path 0 false false rs).
  Proof.
    intros Hs Hf Hh. destruct (steps'_steps _ _ [] _ Hs) as [w Hw].
    unfold compute_path, compute_path_work. rewrite Hw, Hf.
    pose proof (run_apo_path rs init_st []) as Hp. cbn [apo bold ital init_st] in Hp. rewrite <- Hh in Hp. rewrite Hp.
    rewrite removelast_last, rev_involutive, apo_path_length, map_length, Nat.eqb_refl. reflexivity.
  Qed.

  Lemma quotes_surplus (rs : list qrun) : surplus_line rs = true ->
    compute_path sorter (map count_of rs) = Ok (apo_path 0 false false rs).
  Proof.
    unfold surplus_line. intros H. apply andb_true_iff in H as [H H3]. apply andb_true_iff in H as [H1 H2].
    apply Nat.eqb_eq in H1. destruct (one_surplus rs H1) as [pre [s [post [Hrs [Hs [Hpre Hpost]]]]]].
    assert (Hne : rs <> []) by (rewrite Hrs; destruct pre; discriminate).
    assert (Hinit : inv [(init_st, [])] init_st []).
    { constructor; [left; reflexivity| |reflexivity]. intros p [<-|[]] _. reflexivity. }
    set (t1 := fst (run_apo init_st [] pre)). set (h1 := snd (run_apo init_st [] pre)).
    assert (Ht1 : apo t1 = 0) by (unfold t1; rewrite run_apo_plain_apo by exact Hpre; reflexivity).
    assert (Hrun : run_apo init_st [] rs = run_apo (apo_step s t1) (t1 :: h1) post).
    { rewrite Hrs, run_apo_app. reflexivity. }
    destruct s; cbn in Hs; try discriminate.
    - (* long run of three: every other run has two apostrophes *)
      assert (Hex : existsb (qrun_eqb RAI) rs = true).
      { rewrite Hrs, existsb_app. cbn. apply orb_true_r. }
      rewrite Hex in H3. cbn [negb orb] in H3. apply negb_true_iff in H3.
      rewrite Hrs, existsb_app in H3. apply orb_false_iff in H3 as [H3a H3b]. cbn [existsb] in H3b.
      apply orb_false_iff in H3b as [_ H3b].
      pose proof (no_rb_ri pre H3a Hpre) as Hpre'. pose proof (no_rb_ri post H3b Hpost) as Hpost'.
      assert (Hb1 : bold t1 = false) by (unfold t1; rewrite run_apo_ri_bold by exact Hpre'; reflexivity).
      pose proof (phase1_single pre Hpre' init_st []) as Hph1. fold t1 h1 in Hph1.
      destruct (surplus3_step t1 h1 Ht1 Hb1) as [new [kept [Hnew [Hk Hinv2]]]].
      assert (Ha2 : apo (apo_step RAI t1) = 1) by (cbn; rewrite Ht1; reflexivity).
      assert (Hsc2 : score (apo_step RAI t1) <= 3).
      { destruct t1 as [a b i]. cbn in Ht1, Hb1. subst a b. unfold score. cbn. destruct i; cbn; lia. }
      destruct (phase2 other3 other3_apo other3_nz (eq RI)
                  (fun r (E : RI = r) => match E in (_ = y) return plain y with eq_refl => eq_refl end)
                  (fun r t (E : RI = r) Ha => other3_step r t (eq_sym E) Ha)
                  post Hpost' kept (apo_step RAI t1) (t1 :: h1) Ha2 Hsc2 Hinv2) as [final [Hfin Hinvf]].
      { intros r t <- Ha. destruct t as [a b i]. cbn in Ha. subst a. unfold score. cbn. destruct b, i; cbn; lia. }
      rewrite <- Hrun in Hinvf.
      assert (Hsteps : steps' (map count_of rs) [(init_st, [])] = Ok final).
      { rewrite Hrs, map_app. rewrite (steps'_app _ _ _ _ Hph1). cbn [map count_of steps']. rewrite Hnew, Hk. exact Hfin. }
      set (t3 := fst (run_apo init_st [] rs)) in *. set (h3 := snd (run_apo init_st [] rs)) in *.
      assert (Ha3 : apo t3 = 1).
      { unfold t3. rewrite Hrun, run_apo_plain_apo by exact Hpost. exact Ha2. }
      pose proof (final_state rs t3 h3 Hne H2 eq_refl eq_refl Ha3) as Et3.
      rewrite Et3 in Hinvf. destruct (final_head other3 other3_final final h3 Hinvf) as [r Hr].
      apply (compute_path_of_final rs final r h3 Hsteps); [rewrite Hr; fold t3; rewrite Et3; reflexivity|reflexivity].
    - (* long run of four *)
      destruct (phase1 pre Hpre [(init_st, [])] init_st [] eq_refl Hinit) as [mid [Hph1 Hinv1]]. fold t1 h1 in Hinv1.
      destruct (surplus4_step mid t1 h1 Ht1 Hinv1) as [new [kept [Hnew [Hk Hinv2]]]].
      assert (Ha2 : apo (apo_step RAB t1) = 1) by (cbn; rewrite Ht1; reflexivity).
      assert (Hsc2 : score (apo_step RAB t1) <= 3).
      { destruct t1 as [a b i]. cbn in Ht1. subst a. unfold score. cbn. destruct b, i; cbn; lia. }
      destruct (phase2 other4 other4_apo other4_nz plain (fun r H => H) other4_step
                  post Hpost kept (apo_step RAB t1) (t1 :: h1) Ha2 Hsc2 Hinv2) as [final [Hfin Hinvf]].
      { intros r t Hp Ha. destruct t as [a b i]. cbn in Ha. subst a.
        destruct r; unfold plain in Hp; cbn in Hp; try discriminate; unfold score; cbn; destruct b, i; cbn; lia. }
      rewrite <- Hrun in Hinvf.
      assert (Hsteps : steps' (map count_of rs) [(init_st, [])] = Ok final).
      { rewrite Hrs, map_app. rewrite (steps'_app _ _ _ _ Hph1). cbn [map count_of steps']. rewrite Hnew, Hk. exact Hfin. }
      set (t3 := fst (run_apo init_st [] rs)) in *. set (h3 := snd (run_apo init_st [] rs)) in *.
      assert (Ha3 : apo t3 = 1).
      { unfold t3. rewrite Hrun, run_apo_plain_apo by exact Hpost. exact Ha2. }
      pose proof (final_state rs t3 h3 Hne H2 eq_refl eq_refl Ha3) as Et3.
      rewrite Et3 in Hinvf. destruct (final_head other4 other4_final final h3 Hinvf) as [r Hr].
      apply (compute_path_of_final rs final r h3 Hsteps); [rewrite Hr; fold t3; rewrite Et3; reflexivity|reflexivity].
  Qed.
End WithSorter.

(* both extreme tie-breaking orders satisfy the hypotheses *)
Lemma quotes_surplus_two_orders (rs : list qrun) : surplus_line rs = true ->
  compute_path stable_sort (map count_of rs) = Ok (apo_path 0 false false rs) /\
  compute_path antistable_sort (map count_of rs) = Ok (apo_path 0 false false rs).
Proof.
  intros H. split; apply quotes_surplus; auto using stable_sort_sorted, antistable_sort_sorted.
  - intros l. apply stable_sort_perm.
  - intros l. apply antistable_sort_perm.
Qed.

(* a line of 40 runs: ''w'' x 19, then ''Hamlet'''s *)
Definition long_surplus_line : list qrun := repeat RI 39 ++ [RAI].
Lemma quotes_surplus_long_example : surplus_line long_surplus_line = true /\ length long_surplus_line = 40.
Proof. vm_compute. split; reflexivity. Qed.
