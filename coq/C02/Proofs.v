(* C02 — lemmas *)
From Coq Require Import List NArith Bool Arith Lia Permutation.
From MW Require Import Common.Str C01.Model C02.Model.
Import ListNotations.

Section SectionsProofs.
  Variable A : Type.
  Notation item := (item A).
  Notation stree := (stree A).
  Notation frame := (frame A).

  Lemma span_app_all (p : stree -> bool) cr f :
    Forall (fun t => p t = true) cr ->
    span p (cr ++ f) = let '(a, b) := span p f in (cr ++ a, b).
  Proof.
    induction cr as [|x cr IH]; intros H; cbn [app span].
    - destruct (span p f); reflexivity.
    - inversion H as [|? ? Hx Hr]; subst. rewrite Hx, IH by exact Hr.
      destruct (span p f); reflexivity.
  Qed.

  Definition carry_ok (cr : list stree) (stack : list frame) : Prop :=
    match stack with
    | [] => True
    | (k', _, _) :: _ => Forall (fun t => deeper k' t = true) cr
    end.

  (* popping the frames of level >= k and then attaching a forest that starts with a section of level k is the
     same as attaching that forest (preceded by the carried closed section) to the unpopped stack *)
  Lemma pop_attach k (c : A) (ins aft : list stree) : forall (stack : list frame) (cr : list stree),
    sorted_stack stack -> carry_ok cr stack ->
    let '(o, st') := pop_ge k cr stack in
    o ++ attach st' (SS k c ins :: aft) = attach stack (cr ++ SS k c ins :: aft) /\
    sorted_stack st' /\
    match st' with [] => True | (k2, _, _) :: _ => k2 < k end.
  Proof.
    induction stack as [|[[k' c'] d'] st IH]; intros cr Hs Hc.
    - cbn. auto.
    - cbn [pop_ge]. destruct (k <=? k') eqn:E.
      + (* the frame closes *)
        apply Nat.leb_le in E.
        cbn [sorted_stack] in Hs. destruct Hs as [Hlt Hst].
        specialize (IH [SS k' c' (d' ++ cr)] Hst).
        assert (Hc' : carry_ok [SS k' c' (d' ++ cr)] st).
        { destruct st as [|[[k2 c2] d2] st2]; [exact I|]. cbn. constructor; [|constructor].
          apply Nat.ltb_lt. exact Hlt. }
        specialize (IH Hc'). destruct (pop_ge k [SS k' c' (d' ++ cr)] st) as [o st'].
        destruct IH as [IH1 [IH2 IH3]]. split; [|split; assumption].
        rewrite IH1. cbn [attach]. cbn in Hc.
        rewrite span_app_all by exact Hc. cbn [span deeper].
        replace (k' <? k) with false by (symmetry; apply Nat.ltb_ge; lia).
        cbn [app]. rewrite app_nil_r. reflexivity.
      + apply Nat.leb_gt in E. split; [|split].
        * cbn [app attach]. cbn in Hc. rewrite span_app_all by exact Hc.
          destruct (span (deeper k') (SS k c ins :: aft)) as [a b]. rewrite app_assoc. reflexivity.
        * cbn [sorted_stack] in *. exact Hs.
        * exact E.
  Qed.

  Lemma alg_nest : forall (items : list item) (out : list stree) (stack : list frame), sorted_stack stack ->
    alg out stack items = out ++ attach stack (nest items).
  Proof.
    induction items as [|[k c|x] r IH]; intros out stack Hs.
    - reflexivity.
    - cbn [alg nest].
      pose proof (pop_attach k c) as P.
      destruct (span (deeper k) (nest r)) as [ins aft] eqn:Es.
      specialize (P ins aft stack [] Hs).
      assert (Hc : carry_ok [] stack) by (destruct stack as [|[[? ?] ?] ?]; cbn; auto).
      specialize (P Hc). destruct (pop_ge k [] stack) as [o st'].
      destruct P as [P1 [P2 P3]].
      rewrite IH.
      + cbn [attach]. rewrite Es. cbn [app] in *. rewrite <- P1, app_assoc. reflexivity.
      + cbn [sorted_stack]. split; [|exact P2]. destruct st' as [|[[k2 c2] d2] st2]; [exact I|exact P3].
    - cbn [alg nest]. destruct stack as [|[[k c] d] st].
      + rewrite IH by exact I. cbn [attach]. rewrite <- app_assoc. reflexivity.
      + rewrite IH.
        * cbn [attach span deeper]. destruct (span (deeper k) (nest r)) as [ins aft].
          rewrite <- app_assoc. reflexivity.
        * cbn [sorted_stack] in *. exact Hs.
  Qed.

  (* the section-building algorithm computes the denoted nesting *)
  Lemma parse_sections_nest (items : list item) : parse_sections items = nest items.
  Proof. unfold parse_sections. rewrite alg_nest by exact I. reflexivity. Qed.

  (* the denoted nesting keeps every caption and block exactly once, in source order *)
  Lemma span_flat (p : stree -> bool) f :
    let '(a, b) := span p f in a ++ b = f.
  Proof.
    induction f as [|x f IH]; cbn [span]; [reflexivity|].
    destruct (p x); [|reflexivity]. destruct (span p f) as [a b]. cbn. f_equal. exact IH.
  Qed.

  Lemma nest_flat (items : list item) : flat_map (@flat_s A) (nest items) = map (@flat_item A) items.
  Proof.
    induction items as [|[k c|x] r IH]; cbn [nest map flat_item]; [reflexivity| |].
    - pose proof (span_flat (deeper k) (nest r)) as Hsp.
      destruct (span (deeper k) (nest r)) as [ins aft].
      cbn [flat_map flat_s]. rewrite <- IH, <- Hsp, flat_map_app. cbn [app]. try rewrite <- app_assoc. reflexivity.
    - cbn [flat_map flat_s]. rewrite IH. reflexivity.
  Qed.

  (* levels: every section nested inside a section is strictly deeper; a section is never followed (as a sibling)
     by a deeper one — together with nest_flat this pins the tree down *)
  Fixpoint wf_s (bound : nat) (t : stree) : Prop :=
    match t with
    | SB _ => True
    | SS k _ ch => bound < k /\ (fix all (l : list stree) : Prop := match l with [] => True | x :: r => wf_s k x /\ all r end) ch
    end.
End SectionsProofs.

(* ------------------------------------------------------------------ apostrophe runs *)
Lemma quotes_example : balanced [2; 3; 3; 2] = true /\ balanced [2; 3] = false /\ path_is_toggle stable_sort [2; 3; 3; 2] = true.
Proof. vm_compute. repeat split. Qed.
