(* C02 — the algorithmic model of ParseLines.analyze (ModelLines.v) computes the denoted prefix tree den_list (Model.v). *)
From Coq Require Import List NArith Bool Arith Lia.
From MW Require Import Common.Str C02.Model C02.ModelLines.
Import ListNotations.

Local Notation m := lines_measure.

(* ------------------------------------------------------------------ the measure *)
Lemma m_nil : m [] = 0.
Proof. reflexivity. Qed.

Lemma m_cons l r : m (l :: r) = S (length (lpre l)) + m r.
Proof. reflexivity. Qed.

Lemma m_app a b : m (a ++ b) = m a + m b.
Proof.
  induction a as [|x a IH]; [reflexivity|].
  change ((x :: a) ++ b) with (x :: (a ++ b)). rewrite !m_cons, IH. lia.
Qed.

Lemma m_zero ls : m ls = 0 -> ls = [].
Proof. destruct ls as [|l r]; [reflexivity|]. rewrite m_cons. lia. Qed.

Lemma lpre_strip1 l : lpre (strip1 l) = tl (lpre l).
Proof. reflexivity. Qed.

Lemma m_strip_le a : m (map strip1 a) <= m a.
Proof.
  induction a as [|x a IH]; [apply le_n|].
  change (map strip1 (x :: a)) with (strip1 x :: map strip1 a). rewrite !m_cons, lpre_strip1.
  destruct (lpre x) as [|c p]; cbn [tl length]; lia.
Qed.

Lemma m_strip_ne a : Forall (fun l => lpre l <> []) a -> m (map strip1 a) + length a = m a.
Proof.
  induction 1 as [|x a Hx Ha IH]; [reflexivity|].
  change (map strip1 (x :: a)) with (strip1 x :: map strip1 a). rewrite !m_cons, lpre_strip1.
  destruct (lpre x) as [|c p]; [congruence|]. cbn [tl length]. lia.
Qed.

(* ------------------------------------------------------------------ take_sub / inner_while *)
Lemma long_prefix_ne l : long_prefix l = true -> lpre l <> [].
Proof. unfold long_prefix. destruct (lpre l); [discriminate|congruence]. Qed.

Lemma take_sub_spec c ls a b :
  take_sub c ls = (a, b) -> ls = a ++ b /\ Forall (fun l => lpre l <> []) a.
Proof.
  revert a b; induction ls as [|l r IH]; intros a b H; cbn [take_sub] in H.
  - inversion H; subst. split; [reflexivity|constructor].
  - destruct (N.eqb (head_char l) c && long_prefix l) eqn:E.
    + destruct (take_sub c r) as [a' b'] eqn:Et. inversion H; subst.
      destruct (IH _ _ eq_refl) as [H1 H2]. split.
      * cbn [app]. congruence.
      * constructor; [|exact H2]. apply andb_true_iff in E as [_ E]. apply long_prefix_ne; exact E.
    + inversion H; subst. split; [reflexivity|constructor].
Qed.

Lemma long_prefix_len l : (1 <? length (lpre l)) = long_prefix l.
Proof. unfold long_prefix. destruct (lpre l) as [|a [|b q]]; reflexivity. Qed.

Lemma same_prefix_long c l :
  same_prefix c l && (1 <? length (lpre l)) = N.eqb (head_char l) c && long_prefix l.
Proof.
  rewrite long_prefix_len. unfold same_prefix, head_char, long_prefix.
  destruct (lpre l) as [|a [|b q]]; rewrite ?andb_false_r; reflexivity.
Qed.

Lemma same_prefix_head c l : c <> 0%N -> same_prefix c l = N.eqb (head_char l) c.
Proof.
  intros Hc. unfold same_prefix, head_char. destruct (lpre l) as [|a q]; [|reflexivity].
  symmetry. apply N.eqb_neq. congruence.
Qed.

Lemma inner_while_take_sub c item ls :
  inner_while c item ls = (item ++ fst (take_sub c ls), snd (take_sub c ls)).
Proof.
  revert item; induction ls as [|l r IH]; intros item; cbn [inner_while take_sub].
  - cbn [fst snd]. rewrite app_nil_r. reflexivity.
  - rewrite same_prefix_long. destruct (N.eqb (head_char l) c && long_prefix l) eqn:E.
    + rewrite IH. destruct (take_sub c r) as [a b]. cbn [fst snd]. rewrite <- app_assoc. reflexivity.
    + cbn [fst snd]. rewrite app_nil_r. reflexivity.
Qed.

(* ------------------------------------------------------------------ items_of *)
Lemma items_of_fuel rec c n1 : forall n2 ls, length ls <= n1 -> length ls <= n2 ->
  items_of rec n1 c ls = items_of rec n2 c ls.
Proof.
  induction n1 as [|n1 IH]; intros n2 ls H1 H2.
  - destruct ls as [|l r]; [|cbn [length] in H1; lia]. destruct n2; reflexivity.
  - destruct ls as [|l r]; [destruct n2; reflexivity|].
    destruct n2 as [|n2]; [cbn [length] in H2; lia|]. cbn [length] in H1, H2.
    cbn [items_of]. destruct (N.eqb (head_char l) c); [|reflexivity].
    destruct (take_sub c r) as [sub rest] eqn:Et.
    destruct (take_sub_spec _ _ _ _ Et) as [Hr _].
    assert (Hlen : length rest <= length r) by (rewrite Hr, app_length; lia).
    rewrite (IH n2 rest) by lia. reflexivity.
Qed.

Lemma items_of_suffix rec c n : forall ls its rest,
  items_of rec n c ls = (its, rest) -> exists p, ls = p ++ rest.
Proof.
  induction n as [|n IH]; intros ls its rest H.
  - cbn [items_of] in H. inversion H; subst. exists []. reflexivity.
  - destruct ls as [|l r]; cbn [items_of] in H.
    + inversion H; subst. exists []. reflexivity.
    + destruct (N.eqb (head_char l) c).
      * destruct (take_sub c r) as [sub rest0] eqn:Et.
        destruct (items_of rec n c rest0) as [its' rest'] eqn:Ei. inversion H; subst.
        destruct (take_sub_spec _ _ _ _ Et) as [Hr _]. destruct (IH _ _ _ Ei) as [p Hp].
        exists (l :: sub ++ p). cbn [app]. rewrite <- app_assoc, <- Hp, <- Hr. reflexivity.
      * inversion H; subst. exists []. reflexivity.
Qed.

(* when the first line does start an item, the rest is a suffix of the lines after it *)
Lemma items_of_suffix_cons rec c n l r its rest :
  N.eqb (head_char l) c = true -> items_of rec (S n) c (l :: r) = (its, rest) -> exists p, r = p ++ rest.
Proof.
  intros Hh H. cbn [items_of] in H. rewrite Hh in H.
  destruct (take_sub c r) as [sub rest0] eqn:Et.
  destruct (items_of rec n c rest0) as [its' rest'] eqn:Ei. inversion H; subst.
  destruct (take_sub_spec _ _ _ _ Et) as [Hr _]. destruct (items_of_suffix _ _ _ _ _ _ Ei) as [p Hp].
  exists (sub ++ p). rewrite <- app_assoc, <- Hp. exact Hr.
Qed.

Lemma items_of_rest_head rec c n : forall ls its rest,
  length ls <= n -> items_of rec n c ls = (its, rest) ->
  match rest with [] => True | l' :: _ => N.eqb (head_char l') c = false end.
Proof.
  induction n as [|n IH]; intros ls its rest Hn H.
  - destruct ls; [|cbn [length] in Hn; lia]. cbn [items_of] in H. inversion H; subst. exact I.
  - destruct ls as [|l r]; cbn [items_of] in H.
    + inversion H; subst. exact I.
    + destruct (N.eqb (head_char l) c) eqn:Eh.
      * destruct (take_sub c r) as [sub rest0] eqn:Et.
        destruct (items_of rec n c rest0) as [its' rest'] eqn:Ei. inversion H; subst.
        destruct (take_sub_spec _ _ _ _ Et) as [Hr _].
        apply (IH rest0 its' rest); [|exact Ei]. cbn [length] in Hn. rewrite Hr, app_length in Hn. lia.
      * inversion H; subst. exact Eh.
Qed.

Lemma head_char_ne l c : c <> 0%N -> N.eqb (head_char l) c = true -> lpre l <> [].
Proof.
  intros Hc H. apply N.eqb_eq in H. unfold head_char in H. destruct (lpre l); [congruence|discriminate].
Qed.

Lemma items_of_ext rec1 rec2 c k : c <> 0%N -> (forall x, S (m x) <= k -> rec1 x = rec2 x) ->
  forall n ls, m ls <= k -> items_of rec1 n c ls = items_of rec2 n c ls.
Proof.
  intros Hc Hrec. induction n as [|n IH]; intros ls Hk; [reflexivity|].
  destruct ls as [|l r]; [reflexivity|]. cbn [items_of].
  destruct (N.eqb (head_char l) c) eqn:Eh; [|reflexivity].
  destruct (take_sub c r) as [sub rest] eqn:Et.
  destruct (take_sub_spec _ _ _ _ Et) as [Hr Hne].
  assert (Hl : lpre l <> []) by (eapply head_char_ne; eassumption).
  assert (Hm : m (map strip1 (l :: sub)) + length (l :: sub) = m (l :: sub))
    by (apply m_strip_ne; constructor; assumption).
  assert (Hls : m (l :: r) = m (l :: sub) + m rest).
  { rewrite Hr. change (l :: sub ++ rest) with ((l :: sub) ++ rest). apply m_app. }
  cbn [length] in Hm.
  rewrite (IH rest) by lia. rewrite (Hrec (map strip1 (l :: sub))) by lia. reflexivity.
Qed.

(* ------------------------------------------------------------------ den_list: any sufficient fuel *)
Lemma split_dl_some c l d : split_dl c l = Some d ->
  c = c_semi /\ (exists a, lpre l = [a]) /\ ldesc l = Some d.
Proof.
  unfold split_dl. destruct (N.eqb c c_semi) eqn:E; [|discriminate]. apply N.eqb_eq in E.
  destruct (lpre l) as [|a [|b q]]; destruct (ldesc l) as [d'|]; try discriminate.
  intros H; inversion H; subst. split; [reflexivity|]. split; [exists a; reflexivity|reflexivity].
Qed.

Lemma head_char_cons l c p : lpre l = c :: p -> head_char l = c.
Proof. unfold head_char. intros ->. reflexivity. Qed.

Lemma head_char_nil l : lpre l = [] -> head_char l = 0%N.
Proof. unfold head_char. intros ->. reflexivity. Qed.

Lemma den_list_irrel : forall f1 f2 ls, m ls <= f1 -> m ls <= f2 -> den_list f1 ls = den_list f2 ls.
Proof.
  induction f1 as [|f1 IH]; intros f2 ls H1 H2.
  - assert (ls = []) by (apply m_zero; lia). subst. destruct f2; reflexivity.
  - destruct ls as [|l r]; [destruct f2; reflexivity|].
    destruct f2 as [|f2]; [rewrite m_cons in H2; lia|].
    rewrite m_cons in H1, H2.
    cbn [den_list]. destruct (N.eqb (head_char l) 0) eqn:E0.
    { f_equal. apply IH; lia. }
    destruct (N.eqb (head_char l) c_star || N.eqb (head_char l) c_hash) eqn:Esh.
    + assert (Hc : head_char l <> 0%N) by (apply N.eqb_neq; exact E0).
      remember (length (l :: r)) as n eqn:Hn.
      rewrite (items_of_ext (den_list f1) (den_list f2) (head_char l) (m (l :: r)) Hc).
      * destruct (items_of (den_list f2) n (head_char l) (l :: r)) as [items rest] eqn:Ei.
        f_equal. subst n. cbn [length] in Ei.
        destruct (items_of_suffix_cons _ _ _ _ _ _ _ (N.eqb_refl _) Ei) as [p Hp].
        assert (m r = m p + m rest) by (rewrite Hp; apply m_app).
        apply IH; lia.
      * intros x Hx. rewrite m_cons in Hx. apply IH; lia.
      * apply le_n.
    + assert (Hc : head_char l <> 0%N) by (apply N.eqb_neq; exact E0).
      destruct (take_sub (head_char l) r) as [sub rest] eqn:Et.
      destruct (take_sub_spec _ _ _ _ Et) as [Hr Hne].
      assert (Hl : lpre l <> []) by (apply (head_char_ne l (head_char l) Hc); apply N.eqb_refl).
      assert (Hm : m (map strip1 (l :: sub)) + length (l :: sub) = m (l :: sub))
        by (apply m_strip_ne; constructor; assumption).
      assert (Hms : m (map strip1 sub) <= m sub) by apply m_strip_le.
      assert (Hmr : m r = m sub + m rest) by (rewrite Hr; apply m_app).
      rewrite m_cons in Hm. cbn [length] in Hm.
      destruct (split_dl (head_char l) l) as [d|].
      * f_equal. f_equal; [f_equal; f_equal; apply IH; lia|apply IH; lia].
      * f_equal; [f_equal; apply IH; lia|apply IH; lia].
Qed.

(* the denotation with its canonical fuel *)
Definition DL (ls : list line) : list tree := den_list (m ls) ls.

Lemma den_list_D f ls : m ls <= f -> den_list f ls = DL ls.
Proof. intros H. apply den_list_irrel; [exact H|apply le_n]. Qed.

Lemma D_nil : DL [] = [].
Proof. reflexivity. Qed.

Lemma D_nopre l r : lpre l = [] -> DL (l :: r) = line_text l ++ DL r.
Proof.
  intros Hp. unfold DL at 1. rewrite m_cons, Hp. cbn [length plus den_list].
  rewrite (head_char_nil _ Hp). cbn [N.eqb]. reflexivity.
Qed.

Lemma D_list l r c p items rest : lpre l = c :: p -> c = c_star \/ c = c_hash ->
  items_of DL (length (l :: r)) c (l :: r) = (items, rest) ->
  DL (l :: r) = Node (if N.eqb c c_star then LUl else LOl) items :: DL rest.
Proof.
  intros Hp Hc Hi. unfold DL at 1. rewrite m_cons. cbn [plus den_list].
  rewrite (head_char_cons _ _ _ Hp).
  assert (Hc0 : c <> 0%N) by (destruct Hc; subst; discriminate).
  assert (E0 : N.eqb c 0 = false) by (apply N.eqb_neq; exact Hc0). rewrite E0.
  assert (Esh : N.eqb c c_star || N.eqb c c_hash = true) by (destruct Hc; subst; reflexivity). rewrite Esh.
  remember (length (l :: r)) as n eqn:Hn.
  rewrite (items_of_ext (den_list (length (lpre l) + m r)) DL c (m (l :: r)) Hc0).
  - rewrite Hi. f_equal. apply den_list_D. subst n. cbn [length] in Hi.
    assert (Hh : N.eqb (head_char l) c = true) by (rewrite (head_char_cons _ _ _ Hp); apply N.eqb_refl).
    destruct (items_of_suffix_cons _ _ _ _ _ _ _ Hh Hi) as [q Hq].
    assert (m r = m q + m rest) by (rewrite Hq; apply m_app). lia.
  - intros x Hx. rewrite m_cons in Hx. apply den_list_D. lia.
  - apply le_n.
Qed.

Lemma D_dl l r c p sub rest : lpre l = c :: p -> c = c_semi \/ c = c_colon ->
  take_sub c r = (sub, rest) ->
  DL (l :: r) =
    match split_dl c l with
    | Some d => Node LDt (ltxt l) :: Node LDd (d ++ DL (map strip1 sub)) :: DL rest
    | None => Node (if N.eqb c c_semi then LDt else LDd) (DL (map strip1 (l :: sub))) :: DL rest
    end.
Proof.
  intros Hp Hc Ht. unfold DL at 1. rewrite m_cons. cbn [plus den_list].
  rewrite (head_char_cons _ _ _ Hp).
  assert (E0 : N.eqb c 0 = false) by (destruct Hc; subst; reflexivity). rewrite E0.
  assert (Esh : N.eqb c c_star || N.eqb c c_hash = false) by (destruct Hc; subst; reflexivity). rewrite Esh.
  rewrite Ht.
  destruct (take_sub_spec _ _ _ _ Ht) as [Hr Hne].
  assert (Hl : lpre l <> []) by (rewrite Hp; discriminate).
  assert (Hm : m (map strip1 (l :: sub)) + length (l :: sub) = m (l :: sub))
    by (apply m_strip_ne; constructor; assumption).
  assert (Hms : m (map strip1 sub) <= m sub) by apply m_strip_le.
  assert (Hmr : m r = m sub + m rest) by (rewrite Hr; apply m_app).
  rewrite m_cons in Hm. cbn [length] in Hm.
  destruct (split_dl c l) as [d|].
  - f_equal. f_equal; [f_equal; f_equal; apply den_list_D; lia|apply den_list_D; lia].
  - f_equal; [f_equal; apply den_list_D; lia|apply den_list_D; lia].
Qed.

(* ------------------------------------------------------------------ validity of prefixes *)
Lemma valid_char_ne0 c : valid_char c -> c <> 0%N.
Proof. intros [H|[H|[H|H]]]; subst; discriminate. Qed.

Lemma valid_cons_inv l r : valid_lines (l :: r) -> Forall valid_char (lpre l) /\ valid_lines r.
Proof. intros H. inversion H; subst. split; assumption. Qed.

Lemma valid_app_inv a b : valid_lines (a ++ b) -> valid_lines a /\ valid_lines b.
Proof. intros H. apply Forall_app in H. exact H. Qed.

Lemma valid_strip ls : valid_lines ls -> valid_lines (map strip1 ls).
Proof.
  induction 1 as [|l r Hl Hr IH]; [constructor|].
  change (map strip1 (l :: r)) with (strip1 l :: map strip1 r). constructor; [|exact IH].
  rewrite lpre_strip1. destruct (lpre l) as [|c p]; [constructor|]. inversion Hl; subst. assumption.
Qed.

(* an item = a line with a non-empty prefix and the lines it swallows *)
Lemma item_facts c l r sub rest : lpre l <> [] -> valid_lines (l :: r) -> take_sub c r = (sub, rest) ->
  m (map strip1 (l :: sub)) + S (length sub) = m (l :: sub) /\ m (l :: r) = m (l :: sub) + m rest /\
  length rest <= length r /\ valid_lines (map strip1 (l :: sub)) /\ valid_lines rest /\ 2 <= m (l :: sub).
Proof.
  intros Hl Hv Ht. destruct (take_sub_spec _ _ _ _ Ht) as [Hr Hne].
  split; [|split; [|split; [|split; [|split]]]].
  - change (S (length sub)) with (length (l :: sub)). apply m_strip_ne. constructor; assumption.
  - rewrite Hr. change (l :: sub ++ rest) with ((l :: sub) ++ rest). apply m_app.
  - rewrite Hr, app_length. lia.
  - apply valid_strip. rewrite Hr in Hv. change (l :: sub ++ rest) with ((l :: sub) ++ rest) in Hv.
    apply valid_app_inv in Hv. apply Hv.
  - rewrite Hr in Hv. change (l :: sub ++ rest) with ((l :: sub) ++ rest) in Hv.
    apply valid_app_inv in Hv. apply Hv.
  - rewrite m_cons. destruct (lpre l); [congruence|]. cbn [length]. lia.
Qed.

(* ------------------------------------------------------------------ one-step unfoldings of the three loops *)
Lemma analyze_loop_S f done ls : analyze_loop (S f) done ls =
  match ls with
  | [] => LOk done
  | l :: r =>
    match lpre l with
    | [] => analyze_loop f (done ++ [OLine l]) r
    | prefix :: _ =>
      match get_node prefix with
      | None => LAttrError
      | Some k =>
        lbind (outer_while f prefix [] None ls) (fun '(children, dd, rest) =>
        analyze_loop f (done ++ ONode (mk_node k children) :: match dd with Some d => [ONode d] | None => [] end) rest)
      end
    end
  end.
Proof. reflexivity. Qed.

Lemma outer_while_S f prefix children dd ls : outer_while (S f) prefix children dd ls =
  match ls with
  | l :: _ =>
    if same_prefix prefix l then
      lbind (collect_items f prefix children dd ls) (fun '(children', dd', rest, broke_loop) =>
      if (broke_loop : bool) then LOk (children', dd', rest) else outer_while f prefix children' dd' rest)
    else LOk (children, dd, ls)
  | [] => LOk (children, dd, ls)
  end.
Proof. reflexivity. Qed.

Lemma collect_items_S f prefix children dd ls : collect_items (S f) prefix children dd ls =
  match ls with
  | l :: r =>
    if same_prefix prefix l then
      let '(item, rest) := inner_while prefix [l] r in
      lbind (analyze_loop f [] (map strip1 item)) (fun ich =>
      match (if N.eqb prefix c_semi then
               match ich with OLine l0 :: ich' => Some (l0, ich') | _ => None end
             else None) with
      | Some (l0, ich') =>
        match splitdl l0 with
        | Some (l0', d) => LOk (children ++ [[OLine l0']], Some (Node LDd (d ++ render ich')), rest, true)
        | None => if is_dl prefix then LOk (children ++ [ich], None, rest, true)
                  else collect_items f prefix (children ++ [ich]) None rest
        end
      | None => if is_dl prefix then LOk (children ++ [ich], dd, rest, true)
                else collect_items f prefix (children ++ [ich]) dd rest
      end)
    else LOk (children, dd, ls, false)
  | [] => LOk (children, dd, ls, false)
  end.
Proof. reflexivity. Qed.

(* ------------------------------------------------------------------ the invariants *)
Definition li_of (it : list otok) : tree := Node LLi (render it).
Definition dd_list (dd : option tree) : list tree := match dd with Some d => [d] | None => [] end.

Lemma render_cons t ts : render (t :: ts) = render_tok t ++ render ts.
Proof. reflexivity. Qed.

Lemma render_app a b : render (a ++ b) = render a ++ render b.
Proof. unfold render. apply flat_map_app. Qed.

(* what the result of analyze looks like at its head: a retyped line iff the first line has no prefix *)
Definition shape (ls : list line) (T : list otok) : Prop :=
  match ls with
  | [] => T = []
  | l :: r =>
    match lpre l with
    | [] => exists T', T = OLine l :: T' /\ render T' = DL r
    | _ :: _ => exists t T', T = ONode t :: T'
    end
  end.

Definition Pa (F : nat) : Prop := forall ls done, valid_lines ls -> 3 * m ls + 3 <= F ->
  exists T, analyze_loop F done ls = LOk (done ++ T) /\ render T = DL ls /\ shape ls T.

Definition Ql (F : nat) : Prop := forall c ls children dd, c = c_star \/ c = c_hash -> valid_lines ls -> 3 * m ls + 2 <= F ->
  exists C, outer_while F c children dd ls = LOk (children ++ C, dd, snd (items_of DL (length ls) c ls))
            /\ map li_of C = fst (items_of DL (length ls) c ls).

Definition Rl (F : nat) : Prop := forall c ls children dd, c = c_star \/ c = c_hash -> valid_lines ls -> 3 * m ls + 1 <= F ->
  exists C, collect_items F c children dd ls = LOk (children ++ C, dd, snd (items_of DL (length ls) c ls), false)
            /\ map li_of C = fst (items_of DL (length ls) c ls).

(* for ; and : — the item I and the description node, by cases on split_dl *)
Definition dl_post (c : N) (l : line) (sub : list line) (I : list otok) (dd' : option tree) : Prop :=
  match split_dl c l with
  | Some d => render I = ltxt l /\ dd' = Some (Node LDd (d ++ DL (map strip1 sub)))
  | None => render I = DL (map strip1 (l :: sub)) /\ dd' = None
  end.

Definition Qd (F : nat) : Prop := forall c l p r children sub rest, c = c_semi \/ c = c_colon -> lpre l = c :: p ->
  valid_lines (l :: r) -> 3 * m (l :: r) + 2 <= F -> take_sub c r = (sub, rest) ->
  exists I dd', outer_while F c children None (l :: r) = LOk (children ++ [I], dd', rest) /\ dl_post c l sub I dd'.

Definition Rd (F : nat) : Prop := forall c l p r children sub rest, c = c_semi \/ c = c_colon -> lpre l = c :: p ->
  valid_lines (l :: r) -> 3 * m (l :: r) + 1 <= F -> take_sub c r = (sub, rest) ->
  exists I dd', collect_items F c children None (l :: r) = LOk (children ++ [I], dd', rest, true) /\ dl_post c l sub I dd'.

Lemma same_prefix_cons c p l : lpre l = c :: p -> same_prefix c l = true.
Proof. intros H. unfold same_prefix. rewrite H. apply N.eqb_refl. Qed.

Lemma Rl_step f : Pa f -> Rl f -> Rl (S f).
Proof.
  intros HP HR c ls children dd Hc Hv Hf.
  assert (Hc0 : c <> 0%N) by (destruct Hc; subst; discriminate).
  destruct ls as [|l r].
  - exists []. rewrite collect_items_S. cbn [items_of length fst snd map]. rewrite app_nil_r. split; reflexivity.
  - rewrite collect_items_S. rewrite (same_prefix_head c l Hc0).
    change (length (l :: r)) with (S (length r)). cbn [items_of].
    destruct (N.eqb (head_char l) c) eqn:Eh.
    + assert (Hl : lpre l <> []) by (eapply head_char_ne; eassumption).
      rewrite inner_while_take_sub. destruct (take_sub c r) as [sub rest] eqn:Et. cbn [fst snd app].
      destruct (item_facts c l r sub rest Hl Hv Et) as (Hm1 & Hm2 & Hlen & Hv1 & Hv2 & Hm3).
      destruct (HP (map strip1 (l :: sub)) [] Hv1) as (T & HT & HrT & _); [lia|].
      rewrite HT. cbn [lbind app].
      assert (Es : N.eqb c c_semi = false) by (destruct Hc; subst; reflexivity). rewrite Es.
      assert (Ed : is_dl c = false) by (destruct Hc; subst; reflexivity). rewrite Ed.
      destruct (HR c rest (children ++ [T]) dd Hc Hv2) as (C' & HC' & HmC'); [lia|].
      rewrite HC'. rewrite (items_of_fuel DL c (length r) (length rest) rest Hlen (le_n _)).
      destruct (items_of DL (length rest) c rest) as [its rest'] eqn:Ei. cbn [fst snd] in *.
      exists (T :: C'). split.
      * rewrite <- app_assoc. reflexivity.
      * cbn [map]. unfold li_of at 1. rewrite HrT, HmC'. reflexivity.
    + exists []. rewrite app_nil_r. split; reflexivity.
Qed.

Lemma Ql_step f : Rl f -> Ql (S f).
Proof.
  intros HR c ls children dd Hc Hv Hf.
  assert (Hc0 : c <> 0%N) by (destruct Hc; subst; discriminate).
  destruct ls as [|l r].
  - exists []. rewrite outer_while_S. cbn [items_of length fst snd map]. rewrite app_nil_r. split; reflexivity.
  - rewrite outer_while_S. rewrite (same_prefix_head c l Hc0).
    destruct (N.eqb (head_char l) c) eqn:Eh.
    + destruct (HR c (l :: r) children dd Hc Hv) as (C & HC & HmC); [lia|].
      rewrite HC. cbn [lbind].
      destruct (items_of DL (length (l :: r)) c (l :: r)) as [its rest] eqn:Ei. cbn [fst snd] in *.
      pose proof (items_of_rest_head DL c _ _ _ _ (le_n _) Ei) as Hh.
      rewrite m_cons in Hf. destruct f as [|f']; [lia|].
      exists C. split; [|exact HmC]. rewrite outer_while_S.
      destruct rest as [|l' r']; [reflexivity|].
      rewrite (same_prefix_head c l' Hc0), Hh. reflexivity.
    + exists []. change (length (l :: r)) with (S (length r)). cbn [items_of]. rewrite Eh.
      cbn [fst snd map]. rewrite app_nil_r. split; reflexivity.
Qed.

Lemma Rd_step f : Pa f -> Rd (S f).
Proof.
  intros HP c l p r children sub rest Hc Hp Hv Hf Ht.
  assert (Hl : lpre l <> []) by (rewrite Hp; discriminate).
  rewrite collect_items_S. rewrite (same_prefix_cons c p l Hp).
  rewrite inner_while_take_sub, Ht. cbn [fst snd app].
  destruct (item_facts c l r sub rest Hl Hv Ht) as (Hm1 & Hm2 & Hlen & Hv1 & Hv2 & Hm3).
  destruct (HP (map strip1 (l :: sub)) [] Hv1) as (T & HT & HrT & HsT); [lia|].
  rewrite HT. cbn [lbind app].
  change (map strip1 (l :: sub)) with (strip1 l :: map strip1 sub) in HsT.
  unfold shape in HsT. rewrite lpre_strip1, Hp in HsT. cbn [tl] in HsT.
  unfold dl_post, split_dl. rewrite Hp.
  destruct Hc as [Hc|Hc]; subst c.
  - (* ; *)
    rewrite !N.eqb_refl.
    destruct p as [|x q].
    + destruct HsT as (T' & -> & HrT').
      unfold splitdl. change (ldesc (strip1 l)) with (ldesc l).
      destruct (ldesc l) as [d|] eqn:Ed.
      * exists [OLine (lpre (strip1 l), ltxt (strip1 l), None)], (Some (Node LDd (d ++ render T'))).
        split; [reflexivity|]. split; [|rewrite HrT'; reflexivity].
        unfold render. cbn [flat_map render_tok]. unfold line_text. cbn [ltxt ldesc strip1 fst snd].
        rewrite !app_nil_r. reflexivity.
      * change (is_dl c_semi) with true. cbv iota.
        exists (OLine (strip1 l) :: T'), None. split; [reflexivity|]. split; [exact HrT|reflexivity].
    + destruct HsT as (t & T' & ->). change (is_dl c_semi) with true. cbv iota.
      exists (ONode t :: T'), None. split; [reflexivity|].
      destruct (ldesc l); (split; [exact HrT|reflexivity]).
  - (* : *)
    change (N.eqb c_colon c_semi) with false. cbv iota.
    change (is_dl c_colon) with true. cbv iota.
    exists T, None. split; [reflexivity|]. split; [exact HrT|reflexivity].
Qed.

Lemma Qd_step f : Rd f -> Qd (S f).
Proof.
  intros HR c l p r children sub rest Hc Hp Hv Hf Ht.
  rewrite outer_while_S. rewrite (same_prefix_cons c p l Hp).
  destruct (HR c l p r children sub rest Hc Hp Hv) as (I & dd' & HC & Hpost); [lia|assumption|].
  rewrite HC. cbn [lbind]. exists I, dd'. split; [reflexivity|exact Hpost].
Qed.

Lemma P_step_list f c k p l r done :
  Pa f -> Ql f -> c = c_star \/ c = c_hash -> get_node c = Some k ->
  (forall C, mk_node k C = Node (if N.eqb c c_star then LUl else LOl) (map li_of C)) ->
  lpre l = c :: p -> valid_lines (l :: r) -> 3 * m (l :: r) + 3 <= S f ->
  exists T, analyze_loop (S f) done (l :: r) = LOk (done ++ T) /\ render T = DL (l :: r) /\ shape (l :: r) T.
Proof.
  intros HP HQ Hc Hk Hmk Hp Hv Hf.
  rewrite analyze_loop_S, Hp, Hk.
  destruct (HQ c (l :: r) [] None Hc Hv) as (C & HC & HmC); [lia|].
  rewrite HC. cbn [lbind app].
  destruct (items_of DL (length (l :: r)) c (l :: r)) as [items rest] eqn:Ei. cbn [fst snd] in *.
  assert (Hh : N.eqb (head_char l) c = true) by (rewrite (head_char_cons _ _ _ Hp); apply N.eqb_refl).
  destruct (items_of_suffix_cons _ _ _ _ _ _ _ Hh Ei) as [q Hq].
  assert (Hmr : m r = m q + m rest) by (rewrite Hq; apply m_app).
  assert (Hvr : valid_lines rest).
  { apply valid_cons_inv in Hv. destruct Hv as [_ Hv]. rewrite Hq in Hv. apply valid_app_inv in Hv. apply Hv. }
  rewrite m_cons in Hf.
  destruct (HP rest (done ++ [ONode (mk_node k C)]) Hvr) as (T' & HT' & HrT' & _); [lia|].
  exists (ONode (mk_node k C) :: T'). split; [|split].
  - rewrite HT', <- app_assoc. reflexivity.
  - rewrite (D_list l r c p items rest Hp Hc Ei). rewrite render_cons, HrT'. cbn [render_tok app].
    rewrite Hmk, HmC. reflexivity.
  - unfold shape. rewrite Hp. eauto.
Qed.

Lemma P_step_dl f c k p l r done :
  Pa f -> Qd f -> c = c_semi \/ c = c_colon -> get_node c = Some k ->
  (forall I, mk_node k [I] = Node (if N.eqb c c_semi then LDt else LDd) (render I)) ->
  lpre l = c :: p -> valid_lines (l :: r) -> 3 * m (l :: r) + 3 <= S f ->
  exists T, analyze_loop (S f) done (l :: r) = LOk (done ++ T) /\ render T = DL (l :: r) /\ shape (l :: r) T.
Proof.
  intros HP HQ Hc Hk Hmk Hp Hv Hf.
  rewrite analyze_loop_S, Hp, Hk.
  destruct (take_sub c r) as [sub rest] eqn:Et.
  destruct (HQ c l p r [] sub rest Hc Hp Hv) as (I & dd' & HO & Hpost); [lia|assumption|].
  rewrite HO. cbn [lbind app].
  assert (Hl : lpre l <> []) by (rewrite Hp; discriminate).
  destruct (item_facts c l r sub rest Hl Hv Et) as (Hm1 & Hm2 & Hlen & Hv1 & Hv2 & Hm3).
  set (X := ONode (mk_node k [I]) :: match dd' with Some d => [ONode d] | None => [] end).
  destruct (HP rest (done ++ X) Hv2) as (T' & HT' & HrT' & _); [lia|].
  exists (X ++ T'). split; [|split].
  - rewrite HT', <- app_assoc. reflexivity.
  - rewrite (D_dl l r c p sub rest Hp Hc Et). rewrite render_app, HrT'.
    subst X. rewrite render_cons. cbn [render_tok app]. rewrite Hmk.
    unfold dl_post in Hpost. destruct (split_dl c l) as [d|] eqn:Es.
    + destruct Hpost as [HrI ->]. destruct (split_dl_some _ _ _ Es) as [-> _].
      rewrite N.eqb_refl, HrI. reflexivity.
    + destruct Hpost as [HrI ->]. rewrite HrI. reflexivity.
  - unfold shape. rewrite Hp. subst X. cbn [app]. eauto.
Qed.

Lemma mk_node_dl_single k I l0 : (forall its, mk_node k its = Node l0 (flat_map render its)) ->
  mk_node k [I] = Node l0 (render I).
Proof. intros H. rewrite H. cbn [flat_map]. rewrite app_nil_r. reflexivity. Qed.

Lemma P_step f : Pa f -> Ql f -> Qd f -> Pa (S f).
Proof.
  intros HP HQl HQd ls done Hv Hf.
  destruct ls as [|l r].
  - exists []. rewrite analyze_loop_S, app_nil_r. repeat split; reflexivity.
  - destruct (lpre l) as [|c p] eqn:Hp.
    + rewrite analyze_loop_S, Hp. rewrite m_cons in Hf.
      destruct (valid_cons_inv _ _ Hv) as [_ Hvr].
      destruct (HP r (done ++ [OLine l]) Hvr) as (T' & HT' & HrT' & _); [lia|].
      exists (OLine l :: T'). split; [|split].
      * rewrite HT', <- app_assoc. reflexivity.
      * rewrite render_cons, HrT', (D_nopre l r Hp). reflexivity.
      * unfold shape. rewrite Hp. eauto.
    + destruct (valid_cons_inv _ _ Hv) as [Hvl _]. rewrite Hp in Hvl. inversion Hvl as [|c' p' Hc _]; subst c' p'.
      destruct Hc as [Hc|[Hc|[Hc|Hc]]]; subst c.
      * apply (P_step_list f c_star KUl p); auto; intros C; reflexivity.
      * apply (P_step_list f c_hash KOl p); auto; intros C; reflexivity.
      * apply (P_step_dl f c_semi KDt p); auto; intros I; apply mk_node_dl_single; reflexivity.
      * apply (P_step_dl f c_colon KDd p); auto; intros I; apply mk_node_dl_single; reflexivity.
Qed.

Lemma all_invariants : forall F, Pa F /\ Ql F /\ Rl F /\ Qd F /\ Rd F.
Proof.
  induction F as [|f (HP & HQl & HRl & HQd & HRd)].
  - split; [|split; [|split; [|split]]]; red; intros; lia.
  - split; [|split; [|split; [|split]]].
    + apply P_step; assumption.
    + apply Ql_step; assumption.
    + apply Rl_step; assumption.
    + apply Qd_step; assumption.
    + apply Rd_step; assumption.
Qed.

Lemma line_fuel_ge ls : m ls <= line_fuel ls.
Proof. unfold line_fuel. change (fold_right (fun l a => S (length (lpre l)) + a) 0 ls) with (m ls). lia. Qed.

(* THE THEOREM: on lines whose prefixes are over * # ; : the fuelled model of ParseLines.analyze never runs out of fuel
   (fuel 3 * (number of lines + total prefix length) + 3, or more), never raises, and returns the denoted prefix tree. *)
Lemma analyze_den_list_fuel ls fuel : valid_lines ls -> analyze_fuel ls <= fuel ->
  analyze_model fuel ls = LOk (den_list (line_fuel ls) ls).
Proof.
  intros Hv Hf. destruct (all_invariants fuel) as (HP & _).
  destruct (HP ls [] Hv Hf) as (T & HT & HrT & _).
  unfold analyze_model. rewrite HT. cbn [lbind app]. rewrite HrT.
  rewrite (den_list_D (line_fuel ls) ls (line_fuel_ge ls)). reflexivity.
Qed.

Lemma analyze_den_list ls : valid_lines ls ->
  analyze_model (analyze_fuel ls) ls = LOk (den_list (line_fuel ls) ls).
Proof. intros Hv. apply analyze_den_list_fuel; [exact Hv|apply le_n]. Qed.

(* ------------------------------------------------------------------ non-vacuity: a concrete run *)
Definition wd (n : N) : list tree := [Leaf n false false].
(*  * 1 / ** 2 / * 3 / ; 4 : 5 / *; 6 : 7 / : 8 : 9  *)
Definition ex_lines : list line :=
  [([c_star], wd 1, None); ([c_star; c_star], wd 2, None); ([c_star], wd 3, None);
   ([c_semi], wd 4, Some (wd 5)); ([c_star; c_semi], wd 6, Some (wd 7)); ([c_colon], wd 8, Some (wd 9))].

Lemma analyze_example :
  valid_lines ex_lines /\
  analyze_model (analyze_fuel ex_lines) ex_lines =
    LOk [Node LUl [Node LLi (wd 1 ++ [Node LUl [Node LLi (wd 2)]]); Node LLi (wd 3)];
        Node LDt (wd 4); Node LDd (wd 5);
        Node LUl [Node LLi [Node LDt (wd 6); Node LDd (wd 7)]];
        Node LDd (wd 8 ++ wd 9)] /\
  (forall fuel, fuel < 5 -> analyze_model fuel ex_lines = LFuel) /\
  analyze_model 9 [([7%N], wd 1, None)] = LAttrError.
Proof.
  split; [|split; [|split]].
  - unfold valid_lines, ex_lines. repeat (apply Forall_cons; [repeat (apply Forall_cons; [unfold valid_char; auto|]); apply Forall_nil|]).
    apply Forall_nil.
  - vm_compute. reflexivity.
  - intros fuel H. do 5 (destruct fuel as [|fuel]; [vm_compute; reflexivity|]). lia.
  - vm_compute. reflexivity.
Qed.

(* ------------------------------------------------------------------ text in order *)
Local Notation LT ls := (leaves_l (flat_map line_text ls)).

Lemma leaves_l_app a b : leaves_l (a ++ b) = leaves_l a ++ leaves_l b.
Proof. unfold leaves_l. apply flat_map_app. Qed.

Lemma leaves_l_node x ch r : leaves_l (Node x ch :: r) = leaves_l ch ++ leaves_l r.
Proof. reflexivity. Qed.

Lemma LT_app a b : LT (a ++ b) = LT a ++ LT b.
Proof. rewrite flat_map_app. apply leaves_l_app. Qed.

Lemma LT_cons l r : LT (l :: r) = leaves_l (line_text l) ++ LT r.
Proof. cbn [flat_map]. apply leaves_l_app. Qed.

Lemma LT_strip a : LT (map strip1 a) = LT a.
Proof. induction a as [|x a IH]; [reflexivity|]. cbn [map]. rewrite !LT_cons, IH. reflexivity. Qed.

(* an item keeps its text in order when the recursive denotation does *)
Lemma item_text_in_order rec f c l r sub rest :
  (forall x, m x <= f -> leaves_l (rec x) = LT x) ->
  c <> 0%N -> N.eqb (head_char l) c = true -> m (l :: r) <= S f ->
  take_sub c r = (sub, rest) ->
  leaves_l (rec (map strip1 (l :: sub))) = LT (l :: sub) /\ leaves_l (rec (map strip1 sub)) = LT sub /\
  r = sub ++ rest /\ m rest <= f.
Proof.
  intros Hrec Hc Hh Hm Ht.
  destruct (take_sub_spec _ _ _ _ Ht) as [Hr Hne].
  assert (Hl : lpre l <> []) by (eapply head_char_ne; eassumption).
  assert (Hm1 : m (map strip1 (l :: sub)) + length (l :: sub) = m (l :: sub))
    by (apply m_strip_ne; constructor; assumption).
  assert (Hm2 : m (l :: r) = m (l :: sub) + m rest).
  { rewrite Hr. change (l :: sub ++ rest) with ((l :: sub) ++ rest). apply m_app. }
  assert (Hms : m (map strip1 sub) <= m sub) by apply m_strip_le.
  assert (Hm3 : m (l :: sub) = S (length (lpre l)) + m sub) by apply m_cons.
  assert (2 <= m (l :: sub)) by (rewrite m_cons; destruct (lpre l); [congruence|cbn [length]; lia]).
  cbn [length] in Hm1.
  split; [|split; [|split; [exact Hr|lia]]].
  - rewrite Hrec by lia. apply LT_strip.
  - rewrite Hrec by lia. apply LT_strip.
Qed.

Lemma items_text_in_order rec f c : c <> 0%N ->
  (forall x, m x <= f -> leaves_l (rec x) = LT x) ->
  forall n ls items rest, m ls <= S f -> items_of rec n c ls = (items, rest) ->
  exists p, ls = p ++ rest /\ leaves_l items = LT p /\ (items <> [] -> m rest <= f).
Proof.
  intros Hc Hrec. induction n as [|n IH]; intros ls items rest Hm H.
  - cbn [items_of] in H. inversion H; subst. exists []. split; [reflexivity|]. split; [reflexivity|congruence].
  - destruct ls as [|l r]; cbn [items_of] in H.
    + inversion H; subst. exists []. split; [reflexivity|]. split; [reflexivity|congruence].
    + destruct (N.eqb (head_char l) c) eqn:Eh.
      * destruct (take_sub c r) as [sub rest0] eqn:Et.
        destruct (items_of rec n c rest0) as [its rest'] eqn:Ei. inversion H; subst items rest'. clear H.
        destruct (item_text_in_order rec f c l r sub rest0 Hrec Hc Eh Hm Et) as (H1 & _ & H2 & H4).
        destruct (IH rest0 its rest) as (p & Hp & Hlp & Hmr); [lia|exact Ei|].
        exists ((l :: sub) ++ p). split; [|split].
        -- rewrite <- app_assoc, <- Hp. cbn [app]. rewrite <- H2. reflexivity.
        -- change (strip1 l :: map strip1 sub) with (map strip1 (l :: sub)).
           rewrite leaves_l_node, H1, Hlp, LT_app. reflexivity.
        -- intros _. assert (m rest0 = m p + m rest) by (rewrite Hp; apply m_app). lia.
      * inversion H; subst. exists []. split; [reflexivity|]. split; [reflexivity|congruence].
Qed.

Lemma den_list_text_in_order_fuel : forall f ls, m ls <= f -> leaves_l (den_list f ls) = LT ls.
Proof.
  induction f as [|f IH]; intros ls Hm.
  - assert (ls = []) by (apply m_zero; lia). subst. reflexivity.
  - destruct ls as [|l r]; [reflexivity|]. cbn [den_list].
    destruct (N.eqb (head_char l) 0) eqn:E0.
    { rewrite leaves_l_app, LT_cons. f_equal. rewrite m_cons in Hm. apply IH; lia. }
    assert (Hc : head_char l <> 0%N) by (apply N.eqb_neq; exact E0).
    destruct (N.eqb (head_char l) c_star || N.eqb (head_char l) c_hash) eqn:Esh.
    + destruct (items_of (den_list f) (length (l :: r)) (head_char l) (l :: r)) as [items rest] eqn:Ei.
      destruct (items_text_in_order (den_list f) f (head_char l) Hc IH _ _ _ _ Hm Ei) as (p & Hp & Hlp & Hmr).
      rewrite leaves_l_node, Hlp. rewrite Hp. rewrite LT_app. f_equal.
      apply IH. apply Hmr.
      cbn [length items_of] in Ei. rewrite N.eqb_refl in Ei.
      destruct (take_sub (head_char l) r) as [sub rest0]. destruct (items_of (den_list f) (length r) (head_char l) rest0).
      inversion Ei; subst. discriminate.
    + destruct (take_sub (head_char l) r) as [sub rest] eqn:Et.
      destruct (item_text_in_order (den_list f) f (head_char l) l r sub rest IH Hc (N.eqb_refl _) Hm Et)
        as (H1 & H1' & H2 & H4).
      rewrite H2. change (l :: sub ++ rest) with ((l :: sub) ++ rest). rewrite LT_app.
      destruct (split_dl (head_char l) l) as [d|] eqn:Es.
      * (* `; term : desc` [+ swallowed lines]: term, then description text, then the swallowed lines *)
        destruct (split_dl_some _ _ _ Es) as (_ & _ & Ed).
        rewrite !leaves_l_node, leaves_l_app, H1', (IH rest H4), LT_cons.
        unfold line_text. rewrite Ed, leaves_l_app, <- !app_assoc. reflexivity.
      * rewrite leaves_l_node, H1, (IH rest H4). reflexivity.
Qed.

(* THE THEOREM (text): the denoted list trees keep all the text of the lines, in source order (unconditionally since
   fix 9ee1990: the lines swallowed by a one-line definition item follow its description). *)
Lemma den_list_text_in_order ls :
  leaves_l (den_list (line_fuel ls) ls) = leaves_l (flat_map line_text ls).
Proof. apply den_list_text_in_order_fuel. apply line_fuel_ge. Qed.

(* ... and so does the model of the code *)
Lemma analyze_text_in_order ls : valid_lines ls ->
  exists ts, analyze_model (analyze_fuel ls) ls = LOk ts /\ leaves_l ts = leaves_l (flat_map line_text ls).
Proof.
  intros Hv. exists (den_list (line_fuel ls) ls). split; [apply analyze_den_list; exact Hv|].
  apply den_list_text_in_order.
Qed.

(* `; 1 : 2` followed by `;* 3`: the swallowed sub-list follows the description text inside the description node
   (core.py:539-545; before fix 9ee1990 it stayed in the term, in front of the description) *)
Definition swallow_lines : list line := [([c_semi], wd 1, Some (wd 2)); ([c_semi; c_star], wd 3, None)].

Lemma swallow_example :
  valid_lines swallow_lines /\
  analyze_model (analyze_fuel swallow_lines) swallow_lines =
    LOk [Node LDt (wd 1); Node LDd (wd 2 ++ [Node LUl [Node LLi (wd 3)]])] /\
  den_list (line_fuel swallow_lines) swallow_lines = [Node LDt (wd 1); Node LDd (wd 2 ++ [Node LUl [Node LLi (wd 3)]])] /\
  leaves_l (den_list (line_fuel swallow_lines) swallow_lines) = [(1, false, false); (2, false, false); (3, false, false)]%N.
Proof.
  split; [|split; [|split]]; try (vm_compute; reflexivity).
  unfold valid_lines, swallow_lines.
  repeat (apply Forall_cons; [repeat (apply Forall_cons; [unfold valid_char; auto|]); apply Forall_nil|]). apply Forall_nil.
Qed.

Lemma text_in_order_example :
  leaves_l (den_list (line_fuel ex_lines) ex_lines) = map (fun w => (w, false, false)) [1; 2; 3; 4; 5; 6; 7; 8; 9]%N.
Proof. vm_compute; reflexivity. Qed.
