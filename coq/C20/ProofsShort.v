(* C20 — short writes: the write-all loop publishes exactly the payload or nothing, whatever the kernel answers;
   a single unchecked write (seeded/C20-8) publishes a strict prefix, and the recogniser ACCEPTS that trace
   (it speaks about who may write to FINAL, not about what the program meant to write): this case belongs to
   the reader oracle of the harness, which is run under real short writes (RLIMIT_FSIZE). *)
From Coq Require Import List NArith Bool Arith Lia.
From MW Require Import C20.FsTrace C20.Model C20.Proofs C20.ProofsBuffered C20.ModelShort.
Import ListNotations.

Definition is_wr (f : fdnum) (o : op) : Prop := exists bs ok, o = Write f bs ok.

Lemma write_all_shape : forall f outs data, Forall (is_wr f) (fst (write_all f data outs)).
Proof.
  intros f outs. induction outs as [|r outs IH]; intros data; cbn [write_all].
  - destruct data; cbn [fst]; constructor; [do 2 eexists; reflexivity|constructor].
  - destruct data as [|b d]; [constructor|].
    destruct (accepted (length (b :: d)) r) as [k|]; cbn [fst].
    + constructor; [do 2 eexists; reflexivity|apply IH].
    + constructor; [do 2 eexists; reflexivity|constructor].
Qed.

Lemma write_all_written : forall f outs data,
  snd (write_all f data outs) = true -> written (fst (write_all f data outs)) = data.
Proof.
  intros f outs. induction outs as [|r outs IH]; intros data; cbn [write_all].
  - destruct data; cbn [fst written]; intros _; [reflexivity|apply app_nil_r].
  - destruct data as [|b d]; [reflexivity|].
    destruct (accepted (length (b :: d)) r) as [k|]; cbn [fst snd]; [|discriminate].
    intros Hs. cbn [written]. rewrite (IH _ Hs). apply firstn_skipn.
Qed.

(* what reached the file is always a prefix of the payload *)
Lemma write_all_prefix : forall f outs data,
  exists tail, written (fst (write_all f data outs)) ++ tail = data.
Proof.
  intros f outs. induction outs as [|r outs IH]; intros data; cbn [write_all].
  - destruct data; cbn [fst written]; [exists []; reflexivity|exists []; rewrite !app_nil_r; reflexivity].
  - destruct data as [|b d]; [exists []; reflexivity|].
    destruct (accepted (length (b :: d)) r) as [k|]; cbn [fst written].
    + destruct (IH (skipn k (b :: d))) as [tl Htl]. exists tl. rewrite <- app_assoc, Htl. apply firstn_skipn.
    + exists (b :: d). reflexivity.
Qed.

Lemma rrun_wr : forall final f ws r, Forall (is_wr f) ws -> rrun final ws r = Some r.
Proof.
  intros final f ws r H. induction H as [|o ws [bs [ok Ho]] _ IH]; [reflexivity|].
  subst o. cbn [rrun rstep]. exact IH.
Qed.

Lemma run_wr : forall f i ws s,
  Forall (is_wr f) ws ->
  fds s f = Some (mkfd i true false (length (idata s i))) ->
  names (run ws s) = names s /\ idata (run ws s) i = idata s i ++ written ws /\
  fds (run ws s) f = Some (mkfd i true false (length (idata (run ws s) i))) /\
  (forall j, j <> i -> idata (run ws s) j = idata s j).
Proof.
  intros f i ws s H. revert s. induction H as [|o ws [bs [ok Ho]] _ IH]; intros s Hfd.
  - cbn. rewrite app_nil_r. auto.
  - subst o. change (run (Write f bs ok :: ws) s) with (run ws (step s (Write f bs ok))).
    destruct ok.
    + set (s1 := step s (Write f bs true)).
      assert (H1 : names s1 = names s /\ idata s1 i = idata s i ++ bs /\
                   fds s1 f = Some (mkfd i true false (length (idata s1 i))) /\
                   (forall j, j <> i -> idata s1 j = idata s j)).
      { subst s1. cbn [step]. rewrite Hfd. cbn [fd_wr fd_ino fd_app fd_off].
        rewrite write_at_end. cbn [set_fd set_data names idata fds]. unfold updn, updN.
        rewrite Nat.eqb_refl, N.eqb_refl. rewrite app_length. repeat split; auto.
        intros j Hj. destruct (Nat.eqb j i) eqn:E; [apply Nat.eqb_eq in E; contradiction|reflexivity]. }
      destruct H1 as [Hn1 [Hd1 [Hf1 Ho1]]]. destruct (IH s1 Hf1) as [Hn' [Hd' [Hf' Ho']]].
      split; [rewrite Hn'; exact Hn1|]. split; [|split; [exact Hf'|]].
      * rewrite Hd', Hd1. cbn [written]. rewrite <- app_assoc. reflexivity.
      * intros j Hj. rewrite (Ho' j Hj). apply Ho1. exact Hj.
    + change (step s (Write f bs false)) with s. cbn [written]. apply IH. exact Hfd.
Qed.

(* the write-all producer is in the safe_publish language for every payload and every sequence of outcomes *)
Theorem short_checked_accepted : forall f payload outs,
  safe_publish FINAL (producer_checked f payload outs) = true.
Proof.
  intros f payload outs. unfold safe_publish, producer_checked.
  cbn [rrun rstep r0 r_sealed r_wfds fl_w writable o_mode o_trunc o_creat].
  change (memN TEMP [FINAL]) with false. cbn [andb].
  rewrite rrun_app', (rrun_wr FINAL f _ _ (write_all_shape f outs payload)).
  cbn [rrun rstep r_sealed r_wfds drop_fd filter fst]. rewrite N.eqb_refl. cbn [negb].
  destruct (snd (write_all f payload outs)); [|reflexivity].
  cbn [rrun rstep]. change (N.eqb TEMP FINAL) with false. change (N.eqb FINAL FINAL) with true. cbn. reflexivity.
Qed.

Lemma open_temp : forall s0 f, names s0 TEMP = None -> fds s0 f = None ->
  let s1 := step s0 (Openat TEMP fl_w f true) in
  names s1 TEMP = Some (next s0) /\ names s1 FINAL = names s0 FINAL /\ idata s1 (next s0) = [] /\
  (forall i, i <> next s0 -> idata s1 i = idata s0 i) /\
  fds s1 f = Some (mkfd (next s0) true false (length (idata s1 (next s0)))).
Proof.
  intros s0 f Hn Hf. cbn zeta. cbn [step]. rewrite Hf, Hn.
  cbn [fl_w o_creat o_append writable o_mode names idata fds]. unfold updn, updN.
  rewrite Nat.eqb_refl, !N.eqb_refl. change (N.eqb FINAL TEMP) with false. cbn match.
  repeat split; auto. intros i Hi. destruct (Nat.eqb i (next s0)) eqn:E; [apply Nat.eqb_eq in E; contradiction|reflexivity].
Qed.

(* ... and after the complete run FINAL holds exactly the payload when every byte was stored, and is untouched
   (absent / the previous version) when a write call failed - however many calls were cut short before *)
Theorem short_checked_publishes : forall f payload outs s0,
  names s0 TEMP = None -> fds s0 f = None -> (forall i, names s0 FINAL = Some i -> i < next s0) ->
  content_at (run (producer_checked f payload outs) s0) FINAL =
  if snd (write_all f payload outs) then Some payload else content_at s0 FINAL.
Proof.
  intros f payload outs s0 Hn Hf Hlt. unfold producer_checked.
  change (run (Openat TEMP fl_w f true :: ?t) s0) with (run t (step s0 (Openat TEMP fl_w f true))).
  destruct (open_temp s0 f Hn Hf) as [Ht [Hfin [Hd [Hother Hfd]]]]. cbn zeta in *.
  set (s1 := step s0 (Openat TEMP fl_w f true)) in *.
  unfold run. rewrite fold_left_app. fold (run (fst (write_all f payload outs)) s1).
  destruct (run_wr f (next s0) _ s1 (write_all_shape f outs payload) Hfd) as [Hn2 [Hd2 [Hf2 Ho2]]].
  set (s2 := run (fst (write_all f payload outs)) s1) in *.
  destruct (snd (write_all f payload outs)) eqn:Hs.
  - cbn [fold_left step]. rewrite Hf2. cbn [fd_wr fd_ino]. change (N.eqb TEMP FINAL) with false. cbn match.
    cbn [set_fd names idata]. rewrite Hn2, Ht. unfold content_at. cbn [set_names names idata]. unfold updN.
    change (N.eqb FINAL TEMP) with false. change (N.eqb FINAL FINAL) with true. cbn match.
    rewrite Hd2, Hd, (write_all_written f outs payload Hs). reflexivity.
  - cbn [fold_left step]. rewrite Hf2. cbn [fd_wr fd_ino]. unfold content_at. cbn [set_fd names idata].
    rewrite Hn2, Hfin. destruct (names s0 FINAL) as [i0|] eqn:H0; [|reflexivity].
    pose proof (Hlt i0 eq_refl) as Hi0. f_equal.
    rewrite Ho2 by lia. apply Hother. lia.
Qed.

(* every killed prefix of it is safe as well: instance of the main theorem *)
Corollary short_checked_crash_safe : forall f payload outs s0,
  quiescent s0 ->
  forall k, let s := run (firstn k (producer_checked f payload outs)) s0 in
    content_at s FINAL = None \/ content_at s FINAL = content_at s0 FINAL \/
    exists c, content_at s FINAL = Some c /\ published_before FINAL (producer_checked f payload outs) s0 k c.
Proof.
  intros f payload outs s0 Q. apply safe_publish_sound; [apply short_checked_accepted|exact Q].
Qed.

(* seeded/C20-8.  The recogniser accepts the trace: nobody writes to FINAL, the temp file is closed before the rename *)
Theorem short_unchecked_accepted : forall f payload r, safe_publish FINAL (producer_unchecked f payload r) = true.
Proof.
  intros f payload r. unfold safe_publish, producer_unchecked.
  destruct (accepted (length payload) r); cbn; rewrite ?N.eqb_refl; cbn; reflexivity.
Qed.

(* ... and yet one short write publishes a strict prefix of the payload, with no error anywhere in the trace *)
Theorem short_unchecked_exposes_prefix : forall f payload k s0,
  names s0 TEMP = None -> fds s0 f = None -> k < length payload ->
  content_at (run (producer_unchecked f payload (WShort k)) s0) FINAL = Some (firstn k payload) /\
  firstn k payload <> payload /\
  Forall (fun o => match o with Write _ _ false | Close _ false | Rename _ _ false | Fsync _ false => False | _ => True end)
         (producer_unchecked f payload (WShort k)).
Proof.
  intros f payload k s0 Hn Hf Hk. unfold producer_unchecked. cbn [accepted]. rewrite Nat.min_l by lia.
  split; [|split].
  - change (run (Openat TEMP fl_w f true :: ?t) s0) with (run t (step s0 (Openat TEMP fl_w f true))).
    destruct (open_temp s0 f Hn Hf) as [Ht [Hfin [Hd [Hother Hfd]]]]. cbn zeta in *.
    set (s1 := step s0 (Openat TEMP fl_w f true)) in *.
    change (run (Write f (firstn k payload) true :: ?t) s1) with (run t (run [Write f (firstn k payload) true] s1)).
    assert (HW : Forall (is_wr f) [Write f (firstn k payload) true]) by (constructor; [do 2 eexists; reflexivity|constructor]).
    destruct (run_wr f (next s0) _ s1 HW Hfd) as [Hn2 [Hd2 [Hf2 _]]].
    set (s2 := run [Write f (firstn k payload) true] s1) in *.
    unfold run. cbn [fold_left step]. rewrite Hf2. cbn [fd_wr fd_ino]. change (N.eqb TEMP FINAL) with false. cbn match.
    cbn [set_fd names idata]. rewrite Hn2, Ht. unfold content_at. cbn [set_names names idata]. unfold updN.
    change (N.eqb FINAL TEMP) with false. change (N.eqb FINAL FINAL) with true. cbn match.
    rewrite Hd2, Hd. cbn [written app]. rewrite app_nil_r. reflexivity.
  - intros E. apply (f_equal (@length N)) in E. rewrite firstn_length in E. lia.
  - repeat constructor.
Qed.

(* a failing call is handled by both forms: os.write raises, nothing is renamed *)
Theorem short_unchecked_error_safe : forall f payload s0,
  names s0 TEMP = None -> fds s0 f = None -> (forall i, names s0 FINAL = Some i -> i < next s0) ->
  content_at (run (producer_unchecked f payload WErr) s0) FINAL = content_at s0 FINAL.
Proof.
  intros f payload s0 Hn Hf Hlt. unfold producer_unchecked. cbn [accepted].
  change (run (Openat TEMP fl_w f true :: ?t) s0) with (run t (step s0 (Openat TEMP fl_w f true))).
  destruct (open_temp s0 f Hn Hf) as [Ht [Hfin [Hd [Hother Hfd]]]]. cbn zeta in *.
  set (s1 := step s0 (Openat TEMP fl_w f true)) in *.
  unfold run. cbn [fold_left step]. rewrite Hfd. cbn [fd_wr fd_ino]. unfold content_at. cbn [set_fd names idata].
  rewrite Hfin. destruct (names s0 FINAL) as [i0|] eqn:H0; [|reflexivity].
  pose proof (Hlt i0 eq_refl). f_equal. apply Hother. lia.
Qed.

(* the recogniser does not look at how many bytes a write stored, nor whether it succeeded: its verdict - and with it
   C20_safe_publish_sound, which quantifies over ALL traces with the bytes ACTUALLY written in the op - is the same for
   a write and for any short / failed version of it *)
Theorem safe_publish_write_blind : forall final t1 t2 f a b ok ok',
  safe_publish final (t1 ++ Write f a ok :: t2) = safe_publish final (t1 ++ Write f b ok' :: t2).
Proof.
  intros. unfold safe_publish. rewrite !rrun_app.
  destruct (rrun final t1 (r0 final)); [|reflexivity]. cbn. destruct ok, ok'; reflexivity.
Qed.

(* and the model's effect of a short write is exactly `the first k bytes were appended, the offset moved by k` *)
Theorem short_write_effect : forall s f i bs k,
  fds s f = Some (mkfd i true false (length (idata s i))) ->
  let s' := step s (Write f (firstn k bs) true) in
  idata s' i = idata s i ++ firstn k bs /\ names s' = names s /\
  fds s' f = Some (mkfd i true false (length (idata s i) + length (firstn k bs))).
Proof.
  intros s f i bs k Hfd. cbn zeta. cbn [step]. rewrite Hfd. cbn [fd_wr fd_ino fd_app fd_off].
  rewrite write_at_end. cbn [set_fd set_data names idata fds]. unfold updn, updN.
  rewrite Nat.eqb_refl, N.eqb_refl. auto.
Qed.
