(* C20 — syscall-level file-system model (executable definitions only; lemmas live in Proofs.v).

   State  : a name space  path -> inode,  inode contents (byte lists),  open file descriptors
            (inode, writable?, append?, offset),  directories created,  next fresh inode number.
   Ops    : what `strace` shows of a producer process, with the OUTCOME recorded in the op
            (ok = false: the syscall failed - e.g. an injected ENOSPC/EIO - and has NO effect).
   run    : list op -> fs -> fs.     A crash (SIGKILL) at a syscall boundary = a prefix of the trace:
            whatever was still in user-space buffers never became an op.
   safe_publish final t : executable recogniser of the "write a temp file, close it, rename it over
            `final`" discipline (anchors: status.py:119-122, buildzip.py:204-219 and :267-279,
            transport.py:65-73 and :124-125, render.py:260-264).

   Paths, fds and bytes are N; lengths/offsets/inode numbers are nat (lengths, indices only). *)
From Coq Require Import List NArith Bool Arith.
Import ListNotations.

Definition path := N.
Definition fdnum := N.
Definition bytes := list N.

Inductive amode := RdOnly | WrOnly | RdWr.
Record oflags := mkfl { o_mode : amode; o_creat : bool; o_excl : bool; o_trunc : bool; o_append : bool }.
Definition writable (fl : oflags) : bool := match o_mode fl with RdOnly => false | _ => true end.

Record fdesc := mkfd { fd_ino : nat; fd_wr : bool; fd_app : bool; fd_off : nat }.

Record fs := mkfs {
  names   : path -> option nat;     (* visible name space: path -> inode number                     *)
  idata   : nat -> bytes;           (* inode contents                                               *)
  iclosed : nat -> bytes;           (* ghost: contents when a writable fd on the inode was last
                                       closed (initially: the contents) - "the complete file"       *)
  fds     : fdnum -> option fdesc;  (* open file descriptors of the traced process                  *)
  dirs    : list path;              (* directories created by mkdir (no influence on files)         *)
  next    : nat                     (* next fresh inode number                                      *)
}.

Inductive op :=
| Openat    (p : path) (fl : oflags) (f : fdnum) (ok : bool)   (* f = the descriptor returned      *)
| Write     (f : fdnum) (bs : bytes) (ok : bool)                (* bs = the bytes actually written  *)
| Pwrite    (f : fdnum) (off : N) (bs : bytes) (ok : bool)
| Lseek     (f : fdnum) (off : N) (ok : bool)                   (* off = resulting absolute offset  *)
| Ftruncate (f : fdnum) (len : N) (ok : bool)
| Close     (f : fdnum) (ok : bool)
| Rename    (a b : path) (ok : bool)
| Unlink    (p : path) (ok : bool)
| Mkdir     (p : path) (ok : bool)
| Fsync     (f : fdnum) (ok : bool)                             (* no effect on what a reader sees  *)
| Unsupported.   (* anything the abstraction of a trace cannot express (link, truncate(path), a
                    shared writable mmap, dup of a tracked fd, rename of a directory above a tracked
                    file ...): no effect in the model, REJECTED by the recogniser (fail closed)      *)

Definition updN {A} (f : N -> A) (k : N) (v : A) : N -> A := fun x => if N.eqb x k then v else f x.
Definition updn {A} (f : nat -> A) (k : nat) (v : A) : nat -> A := fun x => if Nat.eqb x k then v else f x.

(* zero-extend or cut to exactly n bytes *)
Definition resize (d : bytes) (n : nat) : bytes := firstn n d ++ repeat 0%N (n - length d).
(* write bs at offset off (zero filling a hole), keeping what lies behind it *)
Definition write_at (d : bytes) (off : nat) (bs : bytes) : bytes :=
  resize d off ++ bs ++ skipn (off + length bs) d.

Definition set_data (s : fs) (i : nat) (d : bytes) : fs :=
  mkfs (names s) (updn (idata s) i d) (iclosed s) (fds s) (dirs s) (next s).
Definition set_fd (s : fs) (f : fdnum) (d : option fdesc) : fs :=
  mkfs (names s) (idata s) (iclosed s) (updN (fds s) f d) (dirs s) (next s).
Definition set_names (s : fs) (nm : path -> option nat) : fs :=
  mkfs nm (idata s) (iclosed s) (fds s) (dirs s) (next s).

Definition step (s : fs) (o : op) : fs :=
  match o with
  | Openat p fl f true =>
      match fds s f with
      | Some _ => s       (* the kernel never returns a descriptor that is still open: inconsistent trace
                             (the abstraction of a strace log reports this as Unsupported) *)
      | None =>
      match names s p with
      | Some i =>
          if o_creat fl && o_excl fl then s                 (* would have been EEXIST *)
          else
            let s1 := set_fd s f (Some (mkfd i (writable fl) (o_append fl) 0)) in
            if o_trunc fl && writable fl then set_data s1 i [] else s1
      | None =>
          if o_creat fl then
            let i := next s in
            mkfs (updN (names s) p (Some i)) (updn (idata s) i []) (updn (iclosed s) i [])
                 (updN (fds s) f (Some (mkfd i (writable fl) (o_append fl) 0))) (dirs s) (S i)
          else s                                            (* would have been ENOENT *)
      end
      end
  | Write f bs true =>
      match fds s f with
      | Some d =>
          if fd_wr d then
            let i := fd_ino d in
            let off := if fd_app d then length (idata s i) else fd_off d in
            set_fd (set_data s i (write_at (idata s i) off bs)) f
                   (Some (mkfd i true (fd_app d) (off + length bs)))
          else s
      | None => s
      end
  | Pwrite f off bs true =>
      match fds s f with
      | Some d => if fd_wr d then set_data s (fd_ino d) (write_at (idata s (fd_ino d)) (N.to_nat off) bs) else s
      | None => s
      end
  | Lseek f off true =>
      match fds s f with
      | Some d => set_fd s f (Some (mkfd (fd_ino d) (fd_wr d) (fd_app d) (N.to_nat off)))
      | None => s
      end
  | Ftruncate f len true =>
      match fds s f with
      | Some d => if fd_wr d then set_data s (fd_ino d) (resize (idata s (fd_ino d)) (N.to_nat len)) else s
      | None => s
      end
  | Close f true =>
      match fds s f with
      | Some d =>
          let s1 := set_fd s f None in
          if fd_wr d then
            mkfs (names s1) (idata s1) (updn (iclosed s1) (fd_ino d) (idata s1 (fd_ino d))) (fds s1) (dirs s1) (next s1)
          else s1
      | None => s
      end
  | Rename a b true =>
      if N.eqb a b then s
      else match names s a with
           | Some i => set_names s (updN (updN (names s) b (Some i)) a None)   (* atomic replace *)
           | None => s                                                       (* would have been ENOENT *)
           end
  | Unlink p true => set_names s (updN (names s) p None)
  | Mkdir p true => mkfs (names s) (idata s) (iclosed s) (fds s) (p :: dirs s) (next s)
  | _ => s            (* failed syscalls, fsync, Unsupported: no effect *)
  end.

Definition run (t : list op) (s : fs) : fs := fold_left step t s.

(* what a reader that opens `p` by name sees *)
Definition content_at (s : fs) (p : path) : option bytes :=
  match names s p with Some i => Some (idata s i) | None => None end.

(* ------------------------------------------------------------------ the recogniser ------------- *)

Definition memN (x : N) (l : list N) : bool := existsb (N.eqb x) l.

Record rstate := mkr {
  r_sealed : list path;                 (* paths that may name an inode that is (or was) published at
                                           `final` - such an inode must never be written again          *)
  r_wfds   : list (fdnum * list path)   (* writable fds, each with the paths its inode may be linked at *)
}.

Definition drop_fd (f : fdnum) (w : list (fdnum * list path)) := filter (fun e => negb (N.eqb (fst e) f)) w.

Definition rstep (final : path) (r : rstate) (o : op) : option rstate :=
  match o with
  | Openat p fl f true =>
      if memN p (r_sealed r) && (writable fl || o_trunc fl || o_creat fl) then None
      else Some (mkr (r_sealed r)
                     (if writable fl then (f, [p]) :: r_wfds r else r_wfds r))
  | Close f true => Some (mkr (r_sealed r) (drop_fd f (r_wfds r)))
  | Rename a b true =>
      if N.eqb a b then Some r
      else
        let w' := map (fun e => (fst e, if memN a (snd e) then b :: snd e else snd e)) (r_wfds r) in
        if N.eqb b final then
          if existsb (fun e => memN a (snd e)) (r_wfds r) then None    (* source still open for writing *)
          else Some (mkr (r_sealed r) w')
        else Some (mkr (if memN a (r_sealed r) then b :: r_sealed r else r_sealed r) w')
  | Unsupported => None
  | _ => Some r
  end.

Fixpoint rrun (final : path) (t : list op) (r : rstate) : option rstate :=
  match t with
  | [] => Some r
  | o :: t' => match rstep final r o with Some r' => rrun final t' r' | None => None end
  end.

Definition r0 (final : path) : rstate := mkr [final] [].

Definition safe_publish (final : path) (t : list op) : bool :=
  match rrun final t (r0 final) with Some _ => true | None => false end.

(* ------------------------------------------------------------------ small initial states -------- *)

(* A file system with the given files (path, contents), nothing open. Later entries win. *)
Fixpoint mk_fs (files : list (path * bytes)) : fs :=
  match files with
  | [] => mkfs (fun _ => None) (fun _ => []) (fun _ => []) (fun _ => None) [] 0
  | (p, d) :: rest =>
      let s := mk_fs rest in
      match names s p with
      | Some i => mkfs (names s) (updn (idata s) i d) (updn (iclosed s) i d) (fds s) (dirs s) (next s)
      | None => mkfs (updN (names s) p (Some (next s))) (updn (idata s) (next s) d) (updn (iclosed s) (next s) d)
                     (fds s) (dirs s) (S (next s))
      end
  end.

(* driver entry point: verdict of the recogniser and what a reader sees at each queried path after t *)
Definition analyse (final : path) (files : list (path * bytes)) (t : list op) (query : list path)
  : bool * list (option bytes) :=
  (safe_publish final t, let s := run t (mk_fs files) in map (content_at s) query).
