From Coq Require Import Extraction ExtrOcamlBasic.
From MW Require Import C20.FsTrace.
Extraction "../ocaml/c20/c20_model.ml" analyse safe_publish run mk_fs content_at.
