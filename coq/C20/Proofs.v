(* C20 — soundness of the safe-publish recogniser w.r.t. the FsTrace model. *)
From Coq Require Import List NArith Bool Arith Lia.
From MW Require Import C20.FsTrace.
Import ListNotations.

(* ------------------------------------------------------------------ ghost instrumentation ------ *)
(* Z: inodes that are or were published at `final` (initially: the inode fs0 has there);
   P: the contents published so far (contents of the source inode at each rename onto final). *)
Definition zstep (final : path) (s : fs) (zp : list nat * list bytes) (o : op) : list nat * list bytes :=
  match o with
  | Rename a b true =>
      if N.eqb a b then zp
      else if N.eqb b final then
        match names s a with
        | Some i => (i :: fst zp, idata s i :: snd zp)
        | None => zp
        end
      else zp
  | _ => zp
  end.

Fixpoint grun (final : path) (t : list op) (s : fs) (zp : list nat * list bytes) : fs * (list nat * list bytes) :=
  match t with
  | [] => (s, zp)
  | o :: t' => grun final t' (step s o) (zstep final s zp o)
  end.

Definition no_writer (s : fs) (i : nat) : Prop :=
  forall f d, fds s f = Some d -> fd_ino d = i -> fd_wr d = false.

(* nothing open, no hard links, inode numbers below `next`, ghost "closed" contents = contents *)
Definition quiescent (s : fs) : Prop :=
  (forall f, fds s f = None) /\
  (forall p q i, names s p = Some i -> names s q = Some i -> p = q) /\
  (forall p i, names s p = Some i -> i < next s) /\
  (forall i, iclosed s i = idata s i).

(* c was published at `final` by one of the first k ops of t: op j is a successful rename of a onto
   final; at that moment a named inode i whose contents were c, no writable descriptor referred
   to i, and c is what i contained when it was last closed. *)
Definition published_before (final : path) (t : list op) (s0 : fs) (k : nat) (c : bytes) : Prop :=
  exists j a i, j < k /\ nth_error t j = Some (Rename a final true) /\ a <> final /\
    let sj := run (firstn j t) s0 in
    names sj a = Some i /\ idata sj i = c /\ iclosed sj i = c /\ no_writer sj i.

Section Soundness.
Variable final : path.
Variable old : option bytes.

Record Inv (s : fs) (Z : list nat) (P : list bytes) (r : rstate) : Prop := {
  iF1 : forall p i, names s p = Some i -> i < next s;
  iF2 : forall f d, fds s f = Some d -> fd_ino d < next s;
  iF3 : forall i, In i Z -> i < next s;
  iN  : forall p q i, names s p = Some i -> names s q = Some i -> p = q;
  iA  : forall p i, names s p = Some i -> In i Z -> In p (r_sealed r);
  iB  : forall f d, fds s f = Some d -> fd_wr d = true ->
        exists hs, In (f, hs) (r_wfds r) /\ forall p, names s p = Some (fd_ino d) -> In p hs;
  iC1 : forall i, In i Z -> no_writer s i;
  iC2 : forall i, In i Z -> old = Some (idata s i) \/ In (idata s i) P;
  iD  : forall i, names s final = Some i -> In i Z;
  iE  : forall i, no_writer s i -> iclosed s i = idata s i;
  iS  : In final (r_sealed r)
}.

Lemma memN_In : forall x l, memN x l = true <-> In x l.
Proof.
  intros x l. unfold memN. rewrite existsb_exists. split.
  - intros [y [Hy He]]. apply N.eqb_eq in He. subst. exact Hy.
  - intros H. exists x. split; [exact H | apply N.eqb_refl].
Qed.

Lemma memN_false : forall x l, memN x l = false -> ~ In x l.
Proof. intros x l H Hin. apply memN_In in Hin. congruence. Qed.

(* weakening of the recogniser state *)
Lemma Inv_weaken : forall s Z P r r',
  Inv s Z P r ->
  (forall p, In p (r_sealed r) -> In p (r_sealed r')) ->
  (forall f d, fds s f = Some d -> fd_wr d = true -> forall hs, In (f, hs) (r_wfds r) ->
       exists hs', In (f, hs') (r_wfds r') /\ incl hs hs') ->
  Inv s Z P r'.
Proof.
  intros s Z P r r' I WS WW. destruct I as [F1 F2 F3 HN HA HB HC1 HC2 HD HE HS]. constructor; eauto.
  intros f d Hf Hw. destruct (HB f d Hf Hw) as [hs [Hin Hp]].
  destruct (WW f d Hf Hw hs Hin) as [hs' [Hin' Hinc]]. exists hs'. split; auto.
Qed.

(* a descriptor changes offset / append flag only *)
Lemma Inv_touch : forall s Z P r f d a o,
  Inv s Z P r -> fds s f = Some d ->
  Inv (set_fd s f (Some (mkfd (fd_ino d) (fd_wr d) a o))) Z P r.
Proof.
  intros s Z P r f d a o I Hf. destruct I as [F1 F2 F3 HN HA HB HC1 HC2 HD HE HS].
  constructor; unfold no_writer in *; cbn [set_fd names idata iclosed fds next]; auto.
  - intros f' d'. unfold updN. destruct (N.eqb_spec f' f).
    + intros E. inversion E. cbn. eauto.
    + eauto.
  - intros f' d'. unfold updN. destruct (N.eqb_spec f' f).
    + intros E. inversion E. subst. cbn. intros Hw. eauto.
    + eauto.
  - intros i Hi f' d'. unfold updN. destruct (N.eqb_spec f' f).
    + intros E. inversion E. subst. cbn. intros Hino. eapply HC1; eauto.
    + intros. eapply HC1; eauto.
  - intros i Hnw. apply HE. intros f' d' Hf' Hino.
    destruct (N.eq_dec f' f) as [->|Hne].
    + rewrite Hf in Hf'. inversion Hf'. subst d'.
      specialize (Hnw f (mkfd (fd_ino d) (fd_wr d) a o)). unfold updN in Hnw. rewrite N.eqb_refl in Hnw.
      apply Hnw; auto.
    + apply (Hnw f' d'); auto. unfold updN. destruct (N.eqb_spec f' f); [contradiction|auto].
Qed.

(* the contents of an inode that has a writable descriptor change *)
Lemma Inv_data : forall s Z P r f d c,
  Inv s Z P r -> fds s f = Some d -> fd_wr d = true ->
  Inv (set_data s (fd_ino d) c) Z P r.
Proof.
  intros s Z P r f d c I Hf Hw.
  assert (HnZ : ~ In (fd_ino d) Z).
  { intros Hin. pose proof (iC1 _ _ _ _ I _ Hin f d Hf eq_refl). congruence. }
  destruct I as [F1 F2 F3 HN HA HB HC1 HC2 HD HE HS].
  constructor; unfold no_writer in *; cbn [set_data names idata iclosed fds next]; auto.
  - intros i Hi. unfold updn. destruct (Nat.eqb_spec i (fd_ino d)); [subst; contradiction|auto].
  - intros i Hnw. unfold updn. destruct (Nat.eqb_spec i (fd_ino d)).
    + subst. pose proof (Hnw f d Hf eq_refl). congruence.
    + eauto.
Qed.

Lemma in_drop_fd : forall f f' hs w, f' <> f -> In (f', hs) w -> In (f', hs) (drop_fd f w).
Proof.
  intros. unfold drop_fd. apply filter_In. split; auto. cbn.
  destruct (N.eqb_spec f' f); [contradiction|reflexivity].
Qed.

Lemma ren_names : forall (nm : path -> option nat) a b i q j,
  a <> b -> nm a = Some i ->
  updN (updN nm b (Some i)) a None q = Some j ->
  (q = b /\ j = i) \/ (q <> a /\ q <> b /\ nm q = Some j).
Proof.
  intros nm a b i q j Hab Ha. unfold updN.
  destruct (N.eqb_spec q a); [discriminate|].
  destruct (N.eqb_spec q b).
  - intros E. inversion E. left; auto.
  - intros E. right; auto.
Qed.

Lemma in_map_hot : forall a b f hs (w : list (fdnum * list path)),
  In (f, hs) w ->
  In (f, if memN a hs then b :: hs else hs)
     (map (fun e => (fst e, if memN a (snd e) then b :: snd e else snd e)) w).
Proof.
  intros. apply in_map_iff. exists (f, hs). split; auto.
Qed.

Lemma Inv_step : forall s Z P r o r',
  Inv s Z P r -> rstep final r o = Some r' ->
  Inv (step s o) (fst (zstep final s (Z, P) o)) (snd (zstep final s (Z, P) o)) r'.
Proof.
  intros s Z P r o r' I Hr.
  destruct o as [p fl f ok|f bs ok|f off bs ok|f off ok|f len ok|f ok|a b ok|p ok|p ok|f ok|];
    cbn [zstep fst snd]; try (destruct ok; cbn [step rstep] in *; inversion Hr; try subst r'; try exact I).
  - (* Openat *)
    cbn [rstep] in Hr.
    destruct (memN p (r_sealed r) && (writable fl || o_trunc fl || o_creat fl)) eqn:Hrej; [discriminate|].
    inversion Hr; subst r'; clear Hr.
    set (W' := if writable fl then (f, [p]) :: r_wfds r else r_wfds r).
    assert (Hweak : Inv s Z P (mkr (r_sealed r) W')).
    { eapply Inv_weaken; eauto. intros f0 d0 _ _ hs Hin. exists hs. split; [|apply incl_refl].
      cbn. unfold W'. destruct (writable fl); [right|]; auto. }
    cbn [step]. destruct (fds s f) eqn:Hfd; [exact Hweak|].
    destruct (names s p) as [i|] eqn:Hp.
    + destruct (o_creat fl && o_excl fl); [exact Hweak|].
      assert (I1 : Inv (set_fd s f (Some (mkfd i (writable fl) (o_append fl) 0))) Z P (mkr (r_sealed r) W')).
      { destruct I as [F1 F2 F3 HN HA HB HC1 HC2 HD HE HS]. constructor; unfold no_writer in *; cbn [set_fd names idata iclosed fds next r_sealed r_wfds]; auto.
        - intros f' d'. unfold updN. destruct (N.eqb_spec f' f).
          + intros E. inversion E. cbn. eauto.
          + eauto.
        - intros f' d'. unfold updN. destruct (N.eqb_spec f' f).
          + intros E. inversion E. subst. cbn. intros Hw. exists [p]. split.
            * unfold W'. rewrite Hw. left. reflexivity.
            * intros q Hq. left. eapply HN; eauto.
          + intros Hf' Hw'. destruct (HB f' d' Hf' Hw') as [hs [Hin Hq]]. exists hs. split; auto.
            unfold W'. destruct (writable fl); [right|]; auto.
        - intros j Hj f' d'. unfold updN. destruct (N.eqb_spec f' f).
          + intros E. inversion E. subst. cbn. intros Hino. subst j.
            assert (Hs : memN p (r_sealed r) = true) by (apply memN_In; eauto).
            rewrite Hs in Hrej. cbn in Hrej.
            destruct (writable fl); [discriminate|reflexivity].
          + intros. eapply HC1; eauto.
        - intros j Hnw. apply HE. intros f' d' Hf' Hino.
          apply (Hnw f' d'); auto. unfold updN.
          destruct (N.eqb_spec f' f); [subst; congruence|auto]. }
      destruct (o_trunc fl && writable fl) eqn:Htr; [|exact I1].
      apply andb_prop in Htr. destruct Htr as [_ Hw].
      change i with (fd_ino (mkfd i (writable fl) (o_append fl) 0)).
      eapply Inv_data with (f := f); [exact I1| |cbn; exact Hw].
      cbn. unfold updN. rewrite N.eqb_refl. reflexivity.
    + destruct (o_creat fl) eqn:Hcr; [|exact Hweak].
      assert (HpS : ~ In p (r_sealed r)).
      { intros Hin. apply memN_In in Hin. rewrite Hin in Hrej. cbn in Hrej.
        rewrite orb_true_r in Hrej. discriminate. }
      assert (Hpf : p <> final) by (intros ->; apply HpS; apply (iS _ _ _ _ I)).
      destruct I as [F1 F2 F3 HN HA HB HC1 HC2 HD HE HS]. constructor; unfold no_writer in *; cbn [names idata iclosed fds next r_sealed r_wfds]; auto.
      * intros q j. unfold updN. destruct (N.eqb_spec q p).
        -- intros E. inversion E. lia.
        -- intros E. apply F1 in E. lia.
      * intros f' d'. unfold updN. destruct (N.eqb_spec f' f).
        -- intros E. inversion E. cbn. lia.
        -- intros E. apply F2 in E. lia.
      * intros j Hj. apply F3 in Hj. lia.
      * intros q1 q2 j. unfold updN.
        destruct (N.eqb_spec q1 p); destruct (N.eqb_spec q2 p); subst; auto.
        -- intros E1 E2. inversion E1. subst j. apply F1 in E2. lia.
        -- intros E1 E2. inversion E2. subst j. apply F1 in E1. lia.
        -- apply HN.
      * intros q j. unfold updN. destruct (N.eqb_spec q p).
        -- intros E Hj. inversion E. subst j. apply F3 in Hj. lia.
        -- eauto.
      * intros f' d'. unfold updN at 1. destruct (N.eqb_spec f' f).
        -- intros E. inversion E. subst. cbn. intros Hw. exists [p]. split.
           ++ unfold W'. rewrite Hw. left. reflexivity.
           ++ intros q. unfold updN. destruct (N.eqb_spec q p); [left; auto|].
              intros E'. apply F1 in E'. lia.
        -- intros Hf' Hw'. destruct (HB f' d' Hf' Hw') as [hs [Hin Hq]]. exists hs. split.
           ++ unfold W'. destruct (writable fl); [right|]; auto.
           ++ intros q. unfold updN. destruct (N.eqb_spec q p).
              ** intros E'. inversion E'. apply F2 in Hf'. lia.
              ** eauto.
      * intros j Hj f' d'. unfold updN. destruct (N.eqb_spec f' f).
        -- intros E. inversion E. subst. cbn. intros Hino. apply F3 in Hj. lia.
        -- intros. eapply HC1; eauto.
      * intros j Hj. unfold updn. destruct (Nat.eqb_spec j (next s)).
        -- apply F3 in Hj. lia.
        -- eauto.
      * intros j. unfold updN. destruct (N.eqb_spec final p); [congruence|auto].
      * intros j Hnw. unfold updn. destruct (Nat.eqb_spec j (next s)); [reflexivity|].
        apply HE. intros f' d' Hf' Hino. apply (Hnw f' d'); auto. unfold updN.
        destruct (N.eqb_spec f' f); [subst; congruence|auto].
  - (* Write *)
    destruct (fds s f) as [d|] eqn:Hf; [|exact I].
    destruct (fd_wr d) eqn:Hw; [|exact I].
    set (off := if fd_app d then length (idata s (fd_ino d)) else fd_off d).
    pose proof (Inv_data s Z P r f d (write_at (idata s (fd_ino d)) off bs) I Hf Hw) as I1.
    replace (mkfd (fd_ino d) true (fd_app d) (off + length bs))
      with (mkfd (fd_ino d) (fd_wr d) (fd_app d) (off + length bs)) by (rewrite Hw; reflexivity).
    apply Inv_touch; auto.
  - (* Pwrite *)
    destruct (fds s f) as [d|] eqn:Hf; [|exact I].
    destruct (fd_wr d) eqn:Hw; [|exact I].
    eapply Inv_data; eauto.
  - (* Lseek *)
    destruct (fds s f) as [d|] eqn:Hf; [|exact I].
    apply Inv_touch; auto.
  - (* Ftruncate *)
    destruct (fds s f) as [d|] eqn:Hf; [|exact I].
    destruct (fd_wr d) eqn:Hw; [|exact I].
    eapply Inv_data; eauto.
  - (* Close *)
    destruct (fds s f) as [d|] eqn:Hf.
    + assert (Hnw : forall j, no_writer
         (if fd_wr d then mkfs (names s) (idata s) (updn (iclosed s) (fd_ino d) (idata s (fd_ino d))) (updN (fds s) f None) (dirs s) (next s)
          else set_fd s f None) j -> j <> fd_ino d \/ fd_wr d = false -> no_writer s j).
      { intros j H Hor f' d' Hf' Hino. destruct (N.eq_dec f' f) as [->|Hne].
        - rewrite Hf in Hf'. inversion Hf'. subst d'. destruct Hor as [Hor|Hor]; [congruence|exact Hor].
        - apply (H f' d'); auto.
          destruct (fd_wr d); cbn [set_fd fds]; unfold updN; destruct (N.eqb_spec f' f); try contradiction; auto. }
      destruct I as [F1 F2 F3 HN HA HB HC1 HC2 HD HE HS].
      assert (XB : forall f' d', updN (fds s) f None f' = Some d' -> fd_wr d' = true ->
          exists hs, In (f', hs) (drop_fd f (r_wfds r)) /\ forall p, names s p = Some (fd_ino d') -> In p hs).
      { intros f' d'. unfold updN. destruct (N.eqb_spec f' f); [discriminate|].
        intros Hf' Hw'. destruct (HB f' d' Hf' Hw') as [hs [Hin Hq]]. exists hs. split; auto.
        apply in_drop_fd; auto. }
      assert (XC : forall j, In j Z -> forall f' d', updN (fds s) f None f' = Some d' -> fd_ino d' = j -> fd_wr d' = false).
      { intros j Hj f' d'. unfold updN. destruct (N.eqb_spec f' f); [discriminate|]. intros. eapply HC1; eauto. }
      assert (XF : forall f' d', updN (fds s) f None f' = Some d' -> fd_ino d' < next s).
      { intros f' d'. unfold updN. destruct (N.eqb_spec f' f); [discriminate|]. eauto. }
      destruct (fd_wr d) eqn:Hw.
      * constructor; unfold no_writer in *; cbn [set_fd names idata iclosed fds next r_sealed r_wfds]; auto.
        intros j Hj. unfold updn. destruct (Nat.eqb_spec j (fd_ino d)); [subst; reflexivity|].
        apply HE. apply Hnw; auto.
      * constructor; unfold no_writer in *; cbn [set_fd names idata iclosed fds next r_sealed r_wfds]; auto.
        intros j Hj. apply HE. apply Hnw; auto.
    + eapply Inv_weaken; eauto.
      intros f' d' Hf' _ hs Hin. exists hs. split; [|apply incl_refl]. cbn.
      apply in_drop_fd; auto. intros ->. congruence.
  - (* Rename *)
    cbn [rstep] in Hr. cbn [step].
    destruct (N.eqb_spec a b) as [Hab|Hab].
    { inversion Hr; subst. exact I. }
    set (W' := map (fun e => (fst e, if memN a (snd e) then b :: snd e else snd e)) (r_wfds r)) in *.
    assert (HWk : forall f d, fds s f = Some d -> fd_wr d = true -> forall hs, In (f, hs) (r_wfds r) ->
               exists hs', In (f, hs') W' /\ incl hs hs').
    { intros f d _ _ hs Hin. exists (if memN a hs then b :: hs else hs). split.
      - apply in_map_hot; auto.
      - destruct (memN a hs); [apply incl_tl|]; apply incl_refl. }
    destruct (names s a) as [i|] eqn:Ha.
    2:{ (* source absent in the model: no effect *)
      assert (Hz : (if N.eqb b final then (Z, P) else (Z, P)) = (Z, P)) by (destruct (N.eqb b final); auto).
      rewrite Hz. cbn [fst snd].
      destruct (N.eqb b final).
      - destruct (existsb _ _); [discriminate|]. inversion Hr; subst.
        eapply Inv_weaken; eauto.
      - inversion Hr; subst. eapply Inv_weaken; eauto. cbn.
        intros q Hq. destruct (memN a (r_sealed r)); [right|]; auto. }
    assert (XB : forall S', forall f d, fds s f = Some d -> fd_wr d = true ->
        exists hs, In (f, hs) (r_wfds (mkr S' W')) /\
          forall q, updN (updN (names s) b (Some i)) a None q = Some (fd_ino d) -> In q hs).
    { intros S' f d Hf Hw. destruct (iB _ _ _ _ I f d Hf Hw) as [hs [Hin Hq]].
      exists (if memN a hs then b :: hs else hs). split; [apply in_map_hot; auto|].
      intros q Hn. apply ren_names in Hn; auto. destruct Hn as [[-> Hj]|[_ [_ Hn]]].
      - rewrite Hj in *. assert (Hm : memN a hs = true) by (apply memN_In; auto).
        rewrite Hm. left; auto.
      - destruct (memN a hs); [right|]; auto. }
    assert (XN : forall q1 q2 j, updN (updN (names s) b (Some i)) a None q1 = Some j ->
               updN (updN (names s) b (Some i)) a None q2 = Some j -> q1 = q2).
    { intros q1 q2 j H1 H2. apply ren_names in H1; auto. apply ren_names in H2; auto.
      destruct H1 as [[-> E1]|[N1 [N1' E1]]]; destruct H2 as [[-> E2]|[N2 [N2' E2]]]; auto.
      - subst j. exfalso. apply N2. eapply (iN _ _ _ _ I); eauto.
      - subst j. exfalso. apply N1. eapply (iN _ _ _ _ I); eauto.
      - eapply (iN _ _ _ _ I); eauto. }
    assert (XF : forall q j, updN (updN (names s) b (Some i)) a None q = Some j -> j < next s).
    { intros q j H1. apply ren_names in H1; auto. destruct H1 as [[_ ->]|[_ [_ E1]]]; eapply (iF1 _ _ _ _ I); eauto. }
    destruct (N.eqb_spec b final) as [Hbf|Hbf].
    + (* publish *)
      destruct (existsb (fun e => memN a (snd e)) (r_wfds r)) eqn:Hex; [discriminate|].
      inversion Hr; subst r'; clear Hr. cbn [fst snd]. subst b.
      assert (Hnw : no_writer s i).
      { intros f d Hf Hino. destruct (fd_wr d) eqn:Hw; auto.
        destruct (iB _ _ _ _ I f d Hf Hw) as [hs [Hin Hq]].
        assert (Hm : memN a hs = true) by (apply memN_In; apply Hq; congruence).
        assert (existsb (fun e => memN a (snd e)) (r_wfds r) = true).
        { apply existsb_exists. exists (f, hs). split; auto. }
        congruence. }
      destruct I as [F1 F2 F3 HN HA HB HC1 HC2 HD HE HS]. constructor; unfold no_writer in *; cbn [set_names names idata iclosed fds next r_sealed r_wfds]; auto.
      * intros j [<-|Hj]; eauto.
      * intros q j Hn [<-|Hj].
        -- apply ren_names in Hn; auto. destruct Hn as [[-> _]|[N1 [_ E1]]]; auto.
           exfalso. apply N1. eapply HN; eauto.
        -- apply ren_names in Hn; auto. destruct Hn as [[-> _]|[N1 [_ E1]]]; eauto.
      * apply (XB (r_sealed r)).
      * intros j [<-|Hj]; eauto.
      * intros j [<-|Hj].
        -- right. left. reflexivity.
        -- destruct (HC2 j Hj); [left|right; right]; auto.
      * intros j Hn. apply ren_names in Hn; auto. destruct Hn as [[_ ->]|[_ [N2 _]]]; [left; auto|congruence].
    + inversion Hr; subst r'; clear Hr.
      cbn [fst snd].
      destruct I as [F1 F2 F3 HN HA HB HC1 HC2 HD HE HS]. constructor; unfold no_writer in *; cbn [set_names names idata iclosed fds next r_sealed r_wfds]; auto.
      * intros q j Hn Hj. apply ren_names in Hn; auto. destruct Hn as [[-> ->]|[_ [_ E1]]].
        -- assert (Hm : memN a (r_sealed r) = true) by (apply memN_In; eauto).
           rewrite Hm. left; auto.
        -- destruct (memN a (r_sealed r)); [right|]; eauto.
      * apply (XB (if memN a (r_sealed r) then b :: r_sealed r else r_sealed r)).
      * intros j Hn. apply ren_names in Hn; auto. destruct Hn as [[E _]|[_ [_ E1]]]; [congruence|auto].
      * destruct (memN a (r_sealed r)); [right|]; auto.
  - (* Unlink *)
    assert (HU : forall q j, updN (names s) p None q = Some j -> names s q = Some j).
    { intros q j. unfold updN. destruct (N.eqb_spec q p); [discriminate|auto]. }
    destruct I as [F1 F2 F3 HN HA HB HC1 HC2 HD HE HS]. constructor; unfold no_writer in *; cbn [set_names names idata iclosed fds next]; eauto.
    intros f d Hf Hw. destruct (HB f d Hf Hw) as [hs [Hin Hq]]. exists hs. split; auto.
  - (* Mkdir *)
    destruct I as [F1 F2 F3 HN HA HB HC1 HC2 HD HE HS]. constructor; unfold no_writer in *; cbn [names idata iclosed fds next]; auto.
  - (* Unsupported *)
    cbn in Hr. discriminate.
Qed.
End Soundness.

(* ------------------------------------------------------------------ traces ---------------------- *)

Lemma grun_fst : forall final t s zp, fst (grun final t s zp) = run t s.
Proof. intros final t. induction t as [|o t IH]; intros s zp; cbn; [reflexivity|apply IH]. Qed.

Lemma grun_app : forall final t1 t2 s zp,
  grun final (t1 ++ t2) s zp = grun final t2 (fst (grun final t1 s zp)) (snd (grun final t1 s zp)).
Proof. intros final t1. induction t1 as [|o t1 IH]; intros t2 s zp; cbn; [reflexivity|apply IH]. Qed.

Lemma rrun_app : forall final t1 t2 r,
  rrun final (t1 ++ t2) r = match rrun final t1 r with Some r1 => rrun final t2 r1 | None => None end.
Proof.
  intros final t1. induction t1 as [|o t1 IH]; intros t2 r; cbn; [reflexivity|].
  destruct (rstep final r o); [apply IH|reflexivity].
Qed.

Lemma rrun_prefix : forall final t r rf k,
  rrun final t r = Some rf -> exists rk, rrun final (firstn k t) r = Some rk.
Proof.
  intros final t r rf k H. rewrite <- (firstn_skipn k t) in H. rewrite rrun_app in H.
  destruct (rrun final (firstn k t) r) as [rk|]; [eauto|discriminate].
Qed.

Lemma firstn_S_snoc : forall (A : Type) (t : list A) k o,
  nth_error t k = Some o -> firstn (S k) t = firstn k t ++ [o].
Proof.
  intros A t. induction t as [|x t IH]; intros k o H.
  - destruct k; discriminate.
  - destruct k; cbn in *.
    + inversion H. reflexivity.
    + f_equal. apply IH. exact H.
Qed.

Lemma firstn_S_none : forall (A : Type) (t : list A) k,
  nth_error t k = None -> firstn (S k) t = firstn k t.
Proof.
  intros A t k H. apply nth_error_None in H.
  rewrite !firstn_all2; auto; lia.
Qed.

Lemma published_mono : forall final t s0 k k' c,
  k <= k' -> published_before final t s0 k c -> published_before final t s0 k' c.
Proof.
  intros final t s0 k k' c Hle [j [a [i [Hj H]]]]. exists j, a, i. split; [lia|exact H].
Qed.

Lemma Inv_init : forall final s0,
  quiescent s0 ->
  Inv final (content_at s0 final) s0
      (match names s0 final with Some i => [i] | None => [] end) [] (r0 final).
Proof.
  intros final s0 [Q1 [Q2 [Q3 Q4]]].
  constructor; unfold no_writer; cbn [r0 r_sealed r_wfds]; auto.
  - intros f d Hf. rewrite Q1 in Hf. discriminate.
  - intros i Hi. destruct (names s0 final) as [i0|] eqn:E; [|contradiction].
    destruct Hi as [<-|[]]. eauto.
  - intros p i Hp Hi. destruct (names s0 final) as [i0|] eqn:E; [|contradiction].
    destruct Hi as [<-|[]]. left. eapply Q2; eauto.
  - intros f d Hf. rewrite Q1 in Hf. discriminate.
  - intros i _ f d Hf. rewrite Q1 in Hf. discriminate.
  - intros i Hi. left. unfold content_at. destruct (names s0 final) as [i0|] eqn:E; [|contradiction].
    destruct Hi as [<-|[]]. reflexivity.
  - intros i Hi. rewrite Hi. left. reflexivity.
  - left. reflexivity.
Qed.

Lemma publish_no_writer : forall final old s Z P r r' a i,
  Inv final old s Z P r -> rstep final r (Rename a final true) = Some r' -> a <> final ->
  names s a = Some i -> no_writer s i.
Proof.
  intros final old s Z P r r' a i I Hr Hne Ha. cbn [rstep] in Hr.
  destruct (N.eqb_spec a final); [contradiction|]. rewrite N.eqb_refl in Hr.
  destruct (existsb (fun e => memN a (snd e)) (r_wfds r)) eqn:Hex; [discriminate|].
  intros f d Hf Hino. destruct (fd_wr d) eqn:Hw; auto.
  destruct (iB _ _ _ _ _ _ I f d Hf Hw) as [hs [Hin Hq]].
  assert (Hm : memN a hs = true) by (apply memN_In; apply Hq; congruence).
  assert (existsb (fun e => memN a (snd e)) (r_wfds r) = true).
  { apply existsb_exists. exists (f, hs). split; auto. }
  congruence.
Qed.

Lemma zstep_new : forall final s Z P o c,
  In c (snd (zstep final s (Z, P) o)) ->
  In c P \/ exists a i, o = Rename a final true /\ a <> final /\ names s a = Some i /\ c = idata s i.
Proof.
  intros final s Z P o c. destruct o; cbn [zstep]; auto.
  destruct ok; auto.
  destruct (N.eqb_spec a b); auto.
  destruct (N.eqb_spec b final); auto. subst b.
  destruct (names s a) as [i|] eqn:Ha; auto.
  cbn [snd]. intros [<-|H]; auto. right. exists a, i. auto.
Qed.

Lemma sound_prefix : forall final s0 t rf,
  quiescent s0 -> rrun final t (r0 final) = Some rf ->
  forall k, exists rk s Z P,
    grun final (firstn k t) s0 (match names s0 final with Some i => [i] | None => [] end, []) = (s, (Z, P)) /\
    rrun final (firstn k t) (r0 final) = Some rk /\
    Inv final (content_at s0 final) s Z P rk /\
    (forall c, In c P -> published_before final t s0 k c).
Proof.
  intros final s0 t rf Q Hacc k. induction k as [|k IH].
  - exists (r0 final), s0, (match names s0 final with Some i => [i] | None => [] end), [].
    cbn [firstn grun rrun]. split; [reflexivity|]. split; [reflexivity|]. split; [apply Inv_init; auto|intros c []].
  - destruct IH as [rk [s [Z [P [Hg [Hr [I HP]]]]]]].
    destruct (nth_error t k) as [o|] eqn:Hn.
    + destruct (rrun_prefix final t (r0 final) rf (S k) Hacc) as [rk' Hr'].
      rewrite (firstn_S_snoc _ t k o Hn) in *.
      rewrite rrun_app, Hr in Hr'. cbn in Hr'.
      destruct (rstep final rk o) as [r1|] eqn:Hs; [|discriminate]. inversion Hr'; subst rk'.
      exists r1, (step s o), (fst (zstep final s (Z, P) o)), (snd (zstep final s (Z, P) o)).
      split; [|split; [|split]].
      * rewrite grun_app, Hg. cbn. destruct (zstep final s (Z, P) o); reflexivity.
      * rewrite rrun_app, Hr. cbn. rewrite Hs. reflexivity.
      * eapply Inv_step; eauto.
      * intros c Hc. apply zstep_new in Hc. destruct Hc as [Hc|[a [i [-> [Hne [Ha ->]]]]]].
        -- eapply published_mono; [|apply HP; exact Hc]. lia.
        -- assert (Hs0 : s = run (firstn k t) s0).
           { rewrite <- (grun_fst final (firstn k t) s0 (match names s0 final with Some i => [i] | None => [] end, [])).
             rewrite Hg. reflexivity. }
           exists k, a, i. split; [lia|]. split; [exact Hn|]. split; [exact Hne|].
           cbn zeta. rewrite <- Hs0.
           assert (Hnw : no_writer s i) by (eapply publish_no_writer; eauto).
           repeat split; auto. apply (iE _ _ _ _ _ _ I). exact Hnw.
    + rewrite (firstn_S_none _ t k Hn).
      exists rk, s, Z, P. split; [exact Hg|]. split; [exact Hr|]. split; [exact I|].
      intros c Hc. eapply published_mono; [|apply HP; exact Hc]. lia.
Qed.

(* ------------------------------------------------------------------ the theorems --------------- *)

Theorem safe_publish_sound : forall final t s0,
  safe_publish final t = true -> quiescent s0 ->
  forall k, let s := run (firstn k t) s0 in
    content_at s final = None \/
    content_at s final = content_at s0 final \/
    exists c, content_at s final = Some c /\ published_before final t s0 k c.
Proof.
  intros final t s0 Hsp Q k. unfold safe_publish in Hsp.
  destruct (rrun final t (r0 final)) as [rf|] eqn:Hacc; [|discriminate].
  destruct (sound_prefix final s0 t rf Q Hacc k) as [rk [s [Z [P [Hg [Hr [I HP]]]]]]].
  assert (Hs0 : s = run (firstn k t) s0).
  { rewrite <- (grun_fst final (firstn k t) s0 (match names s0 final with Some i => [i] | None => [] end, [])).
    rewrite Hg. reflexivity. }
  cbn zeta. rewrite <- Hs0. unfold content_at at 1 2 4.
  destruct (names s final) as [i|] eqn:Hf; [|left; reflexivity].
  right. pose proof (iD _ _ _ _ _ _ I i Hf) as HZ.
  destruct (iC2 _ _ _ _ _ _ I i HZ) as [Hold|Hin].
  - left. symmetry. exact Hold.
  - right. exists (idata s i). split; auto.
Qed.

Theorem safe_publish_prefix_closed : forall final t k,
  safe_publish final t = true -> safe_publish final (firstn k t) = true.
Proof.
  intros final t k H. unfold safe_publish in *.
  destruct (rrun final t (r0 final)) as [rf|] eqn:Hacc; [|discriminate].
  destruct (rrun_prefix final t (r0 final) rf k Hacc) as [rk Hr]. rewrite Hr. reflexivity.
Qed.

(* the kernel may split a write (short write, or a kill in the middle of one): the recogniser does
   not care about write granularity *)
Theorem safe_publish_write_split : forall final t1 t2 f a b ok,
  safe_publish final (t1 ++ Write f (a ++ b) ok :: t2) =
  safe_publish final (t1 ++ Write f a ok :: Write f b ok :: t2).
Proof.
  intros. unfold safe_publish. rewrite !rrun_app.
  destruct (rrun final t1 (r0 final)); [|reflexivity]. cbn. destruct ok; reflexivity.
Qed.

(* a successful direct write-open / truncation / creation of `final` is never accepted *)
Theorem safe_publish_rejects_direct_open : forall final t1 t2 fl f,
  (writable fl || o_trunc fl || o_creat fl) = true ->
  safe_publish final (t1 ++ Openat final fl f true :: t2) = false.
Proof.
  intros final t1 t2 fl f Hfl. unfold safe_publish. rewrite rrun_app.
  destruct (rrun final t1 (r0 final)) as [r1|] eqn:H1; [|reflexivity].
  assert (HS : forall t r r', rrun final t r = Some r' -> In final (r_sealed r) -> In final (r_sealed r')).
  { clear. intros t. induction t as [|o t IH]; intros r r' H Hin; cbn in H.
    - inversion H; subst; auto.
    - destruct (rstep final r o) as [r2|] eqn:Hs; [|discriminate].
      apply (IH r2 r' H).
      destruct o; cbn [rstep] in Hs;
        try (destruct ok; inversion Hs; subst; auto; fail);
        try (inversion Hs; subst; auto; fail).
      + destruct ok; [|inversion Hs; subst; auto].
        destruct (memN p (r_sealed r) && _); inversion Hs; subst; auto.
      + destruct ok; [|inversion Hs; subst; auto].
        destruct (N.eqb a b); [inversion Hs; subst; auto|].
        destruct (N.eqb b final).
        * destruct (existsb _ _); inversion Hs; subst; auto.
        * inversion Hs; subst. cbn. destruct (memN a (r_sealed r)); [right|]; auto. }
  assert (Hin : In final (r_sealed r1)) by (eapply HS; eauto; left; reflexivity).
  cbn [rrun rstep]. apply memN_In in Hin. rewrite Hin, Hfl. reflexivity.
Qed.

(* every initial state built by mk_fs (what the driver and the examples use) satisfies the hypothesis *)
Lemma mk_fs_quiescent : forall files, quiescent (mk_fs files).
Proof.
  induction files as [|[p d] rest IH]; cbn [mk_fs].
  - repeat split; cbn; intros; try discriminate; auto.
  - destruct IH as [Q1 [Q2 [Q3 Q4]]].
    destruct (names (mk_fs rest) p) as [i|] eqn:Hp.
    + repeat split; cbn [names idata iclosed fds next]; auto.
      intros j. unfold updn. destruct (Nat.eqb j i); auto.
    + repeat split; cbn [names idata iclosed fds next]; auto.
      * intros q1 q2 j. unfold updN.
        destruct (N.eqb_spec q1 p); destruct (N.eqb_spec q2 p); subst; auto.
        -- intros E1 E2. inversion E1. subst j. apply Q3 in E2. lia.
        -- intros E1 E2. inversion E2. subst j. apply Q3 in E1. lia.
        -- apply Q2.
      * intros q j. unfold updN. destruct (N.eqb_spec q p).
        -- intros E. inversion E. lia.
        -- intros E. apply Q3 in E. lia.
      * intros j. unfold updn. destruct (Nat.eqb j (next (mk_fs rest))); auto.
Qed.
