(* C20 — "move the temp file into place" across file systems (executable definitions only; lemmas: ProofsMove.v).

   shutil.move(src, dst) for a regular file (CPython Lib/shutil.py move): os.rename(src, dst); when that raises
   OSError (EXDEV: the two names lie on different file systems) it falls back to copy2(src, dst) + os.unlink(src):
       rename(src, dst)                     = -1 EXDEV
       openat(src, O_RDONLY)                = h
       openat(dst, O_WRONLY|O_CREAT|O_TRUNC)= g          <- the PUBLISHED name is truncated and written in place
       sendfile(g, h, ..) ...                            (modelled as the write(2)s of the pieces copied)
       close(g); close(h); unlink(src)
   (strace of the patched buildzip.py of seeded/C20-5, vt/props/c20.py scenario zip/create%rel+xdev.)

   Where a name lives: dirof p = the directory holding the name p, dev d = the file system directory d lies on.
   The kernel answers rename(a, b) with EXDEV exactly when dev (dirof a) <> dev (dirof b). *)
From Coq Require Import List NArith Bool Arith.
From MW Require Import C20.FsTrace C20.Model.
Import ListNotations.

Definition fl_r := mkfl RdOnly false false false false.        (* O_RDONLY *)

(* the copy loop: one write(2) on g per piece *)
Definition copy_writes (g : fdnum) (pieces : list bytes) : list op := map (fun p => Write g p true) pieces.

(* the copy fallback of move *)
Definition move_copy (src dst : path) (h g : fdnum) (pieces : list bytes) : list op :=
  Rename src dst false :: Openat src fl_r h true :: Openat dst fl_w g true ::
  copy_writes g pieces ++ [Close g true; Close h true; Unlink src true].

(* move = rename, or (rename fails; copy onto dst; unlink src) *)
Definition move (cross : bool) (src dst : path) (h g : fdnum) (pieces : list bytes) : list op :=
  if cross then move_copy src dst h g pieces else [Rename src dst true].

Definition cross_device (dirof : path -> N) (dev : N -> nat) (a b : path) : bool :=
  negb (Nat.eqb (dev (dirof a)) (dev (dirof b))).

(* write the payload to the temp file through a buffer of capacity B, flush, close (as Model.producer_ok) *)
Definition write_temp (B : nat) (f : fdnum) (chunks : list bytes) : list op :=
  Openat TEMP fl_w f true :: fst (bw_ops B f [] chunks) ++ flush_ops f (snd (bw_ops B f [] chunks)) ++ [Close f true].

(* the producer of seeded/C20-5: temp file wherever mkstemp put it, then move(TEMP, FINAL); `pieces` = how the copy
   loop happens to cut the temp file's contents *)
Definition producer_move (dirof : path -> N) (dev : N -> nat) (B : nat) (f h g : fdnum)
                         (chunks pieces : list bytes) : list op :=
  write_temp B f chunks ++ move (cross_device dirof dev TEMP FINAL) TEMP FINAL h g pieces.

(* ------------------------------------------------------------------ where the temp file is created ---------- *)
(* The sites of /repo that make a temp file with tempfile.mkstemp and put it into place (buildzip.py create_zip and
   make_zip, render.py main) are described by two facts read off the source on every run (vt/gen/c20_sites.py ->
   Gen_Sites.v): which directory mkstemp is given, and which call publishes the temp file.

   outshape: how the caller spelled the output path.  os.path.dirname of a BARE file name is "" ;
     mkstemp(dir="")                    creates the file relative to the current directory  (DirDirname, Bare -> cwd)
     mkstemp(dir=("" or None)) = dir=None = tempfile.gettempdir() = $TMPDIR                 (DirDirnameOrNone, Bare)
     mkstemp() without dir                                        = $TMPDIR                 (DirDefault)          *)
Inductive outshape := Bare | InDir (d : N).
Inductive dirkind := DirDirname | DirDirnameOrNone | DirDefault.
Inductive pubkind := PubRename | PubMove.              (* os.rename / os.replace   |   shutil.move *)
Record site := mksite { s_dir : dirkind; s_pub : pubkind }.

Definition output_dir (cwd : N) (sh : outshape) : N := match sh with Bare => cwd | InDir d => d end.

Definition temp_dir (k : dirkind) (cwd tmpdir : N) (sh : outshape) : N :=
  match k, sh with
  | DirDirname, Bare => cwd
  | DirDirname, InDir d => d
  | DirDirnameOrNone, Bare => tmpdir
  | DirDirnameOrNone, InDir d => d
  | DirDefault, _ => tmpdir
  end.

Definition site_cross (s : site) (dev : N -> nat) (cwd tmpdir : N) (sh : outshape) : bool :=
  negb (Nat.eqb (dev (temp_dir (s_dir s) cwd tmpdir sh)) (dev (output_dir cwd sh))).

(* the syscall trace of a site: write the temp file, then publish.  A plain rename across file systems FAILS (EXDEV,
   no effect; the handler removes the temp file): the producer fails cleanly. *)
Definition site_trace (s : site) (dev : N -> nat) (cwd tmpdir : N) (sh : outshape)
                      (B : nat) (f h g : fdnum) (chunks pieces : list bytes) : list op :=
  write_temp B f chunks ++
  match s_pub s with
  | PubMove => move (site_cross s dev cwd tmpdir sh) TEMP FINAL h g pieces
  | PubRename => if site_cross s dev cwd tmpdir sh then [Rename TEMP FINAL false; Unlink TEMP true]
                 else [Rename TEMP FINAL true]
  end.

(* decision procedure: a site is fine iff it publishes by rename, or moves a temp file that is always a sibling *)
Definition site_ok (s : site) : bool :=
  match s_pub s, s_dir s with
  | PubRename, _ => true
  | PubMove, DirDirname => true
  | PubMove, _ => false
  end.
