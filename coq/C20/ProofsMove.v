(* C20 — the temp file is "moved" into place (shutil.move): rename, or - across file systems - copy onto the
   published name.  Same file system (in particular: temp file a sibling of the output): the trace IS the
   close-then-rename producer, accepted, publishes exactly the payload.  Different file systems: rejected by the
   recogniser, and really unsafe - for every way the copy loop cuts the data there is a crash point at which a reader
   finds a strict prefix of the payload (the empty file right after the open) under the final name. *)
From Coq Require Import List NArith Bool Arith Lia.
From MW Require Import C20.FsTrace C20.Model C20.Proofs C20.ProofsBuffered C20.ModelMove.
Import ListNotations.

Lemma cross_false : forall dirof dev a b, dev (dirof a) = dev (dirof b) -> cross_device dirof dev a b = false.
Proof. intros dirof dev a b H. unfold cross_device. rewrite H, Nat.eqb_refl. reflexivity. Qed.

Lemma cross_true : forall dirof dev a b, dev (dirof a) <> dev (dirof b) -> cross_device dirof dev a b = true.
Proof. intros dirof dev a b H. unfold cross_device. apply Nat.eqb_neq in H. rewrite H. reflexivity. Qed.

Lemma write_temp_rename : forall B f chunks,
  write_temp B f chunks ++ [Rename TEMP FINAL true] = producer_ok B f chunks.
Proof. intros B f chunks. unfold write_temp, producer_ok. cbn [app]. f_equal. rewrite <- !app_assoc. reflexivity. Qed.

(* ---- same file system: move is the plain rename ---- *)

Theorem move_same_fs_is_rename : forall dirof dev B f h g chunks pieces,
  dev (dirof TEMP) = dev (dirof FINAL) ->
  producer_move dirof dev B f h g chunks pieces = producer_ok B f chunks.
Proof.
  intros dirof dev B f h g chunks pieces H. unfold producer_move. rewrite (cross_false _ _ _ _ H).
  cbn [move]. apply write_temp_rename.
Qed.

(* a sibling of the output lies in the same directory, hence on the same file system: rename never answers EXDEV *)
Theorem sibling_never_cross_device : forall dirof dev a b, dirof a = dirof b -> cross_device dirof dev a b = false.
Proof. intros dirof dev a b H. apply cross_false. rewrite H. reflexivity. Qed.

Theorem move_sibling_safe : forall dirof dev B f h g chunks pieces,
  dirof TEMP = dirof FINAL ->
  safe_publish FINAL (producer_move dirof dev B f h g chunks pieces) = true /\
  forall s0, names s0 TEMP = None -> fds s0 f = None ->
    content_at (run (producer_move dirof dev B f h g chunks pieces) s0) FINAL = Some (concat chunks).
Proof.
  intros dirof dev B f h g chunks pieces H.
  assert (E : dev (dirof TEMP) = dev (dirof FINAL)) by (rewrite H; reflexivity).
  rewrite (move_same_fs_is_rename dirof dev B f h g chunks pieces E). split.
  - apply buffered_producer_accepted.
  - intros s0 Hn Hf. apply buffered_producer_publishes_payload; assumption.
Qed.

(* ---- different file systems: the copy fallback ---- *)

Theorem move_cross_rejected : forall dirof dev B f h g chunks pieces,
  dev (dirof TEMP) <> dev (dirof FINAL) ->
  safe_publish FINAL (producer_move dirof dev B f h g chunks pieces) = false.
Proof.
  intros dirof dev B f h g chunks pieces H. unfold producer_move. rewrite (cross_true _ _ _ _ H).
  cbn [move]. unfold move_copy.
  replace (write_temp B f chunks ++
           Rename TEMP FINAL false :: Openat TEMP fl_r h true :: Openat FINAL fl_w g true ::
           copy_writes g pieces ++ [Close g true; Close h true; Unlink TEMP true])
     with ((write_temp B f chunks ++ [Rename TEMP FINAL false; Openat TEMP fl_r h true]) ++
           Openat FINAL fl_w g true :: copy_writes g pieces ++ [Close g true; Close h true; Unlink TEMP true])
     by (rewrite <- app_assoc; reflexivity).
  apply safe_publish_rejects_direct_open. reflexivity.
Qed.

Lemma copy_writes_writes : forall g ps, Forall (is_write_on g) (copy_writes g ps).
Proof. intros g ps. induction ps as [|p ps IH]; constructor; [eexists; reflexivity|exact IH]. Qed.

Lemma written_copy : forall g ps, written (copy_writes g ps) = concat ps.
Proof. intros g ps. induction ps as [|p ps IH]; [reflexivity|]. cbn [copy_writes map written concat]. f_equal. exact IH. Qed.

(* write(2)s on f change neither the inode counter nor any other descriptor *)
Lemma run_writes_others : forall f ws s,
  Forall (is_write_on f) ws ->
  next (run ws s) = next s /\ forall x, x <> f -> fds (run ws s) x = fds s x.
Proof.
  intros f ws s H. revert s. induction H as [|o ws [bs Ho] _ IH]; intros s; [split; reflexivity|].
  subst o. unfold run. cbn [fold_left]. fold (run ws (step s (Write f bs true))).
  destruct (IH (step s (Write f bs true))) as [Hn Hx].
  assert (H1 : next (step s (Write f bs true)) = next s /\
               forall x, x <> f -> fds (step s (Write f bs true)) x = fds s x).
  { cbn [step]. destruct (fds s f) as [d|]; [|split; reflexivity]. destruct (fd_wr d); [|split; reflexivity].
    cbn [set_fd set_data next fds]. split; [reflexivity|]. intros x Hxf. unfold updN.
    apply N.eqb_neq in Hxf. rewrite Hxf. reflexivity. }
  destruct H1 as [Hn1 Hx1]. split; [rewrite Hn; exact Hn1|].
  intros x Hxf. rewrite (Hx x Hxf). apply Hx1. exact Hxf.
Qed.

(* the state in which the move starts: TEMP names a fresh inode holding the payload, every descriptor is as before *)
Lemma write_temp_post : forall B f chunks s0,
  names s0 TEMP = None -> fds s0 f = None ->
  names (run (write_temp B f chunks) s0) = updN (names s0) TEMP (Some (next s0)) /\
  (forall x, fds (run (write_temp B f chunks) s0) x = fds s0 x) /\
  idata (run (write_temp B f chunks) s0) (next s0) = concat chunks.
Proof.
  intros B f chunks s0 Hn Hf. unfold write_temp, run. cbn [fold_left].
  set (s1 := step s0 (Openat TEMP fl_w f true)).
  assert (H1 : names s1 = updN (names s0) TEMP (Some (next s0)) /\ idata s1 (next s0) = [] /\
               fds s1 f = Some (mkfd (next s0) true false (length (idata s1 (next s0)))) /\
               forall x, x <> f -> fds s1 x = fds s0 x).
  { subst s1. cbn [step]. rewrite Hf, Hn. cbn [fl_w o_creat o_append writable o_mode names idata fds].
    unfold updn, updN. rewrite Nat.eqb_refl, !N.eqb_refl. repeat split; auto.
    intros x Hx. apply N.eqb_neq in Hx. rewrite Hx. reflexivity. }
  destruct H1 as [Hn1 [Hd1 [Hf1 Hx1]]].
  rewrite app_assoc, fold_left_app.
  assert (HW : Forall (is_write_on f) (fst (bw_ops B f [] chunks) ++ flush_ops f (snd (bw_ops B f [] chunks)))).
  { apply Forall_app. split; [apply bw_ops_writes|apply flush_writes]. }
  fold (run (fst (bw_ops B f [] chunks) ++ flush_ops f (snd (bw_ops B f [] chunks))) s1).
  destruct (run_writes f (next s0) _ s1 HW Hf1) as [Hn2 [Hd2 Hf2]]. cbn zeta in *.
  destruct (run_writes_others f _ s1 HW) as [_ Hx2].
  set (s2 := run _ s1) in *.
  assert (Hw : written (fst (bw_ops B f [] chunks) ++ flush_ops f (snd (bw_ops B f [] chunks))) = concat chunks).
  { pose proof (bw_ops_conserves B f chunks []) as Hc. cbn [app] in Hc. rewrite <- Hc, written_app. f_equal.
    unfold flush_ops. destruct (snd (bw_ops B f [] chunks)); cbn [written]; [reflexivity|apply app_nil_r]. }
  cbn [fold_left step]. rewrite Hf2. cbn [fd_wr fd_ino]. cbn [set_fd names idata fds].
  split; [rewrite Hn2; exact Hn1|]. split.
  - intros x. unfold updN. destruct (N.eqb x f) eqn:E.
    + apply N.eqb_eq in E. subst x. symmetry. exact Hf.
    + apply N.eqb_neq in E. rewrite (Hx2 x E). apply Hx1. exact E.
  - rewrite Hd2, Hd1, Hw. reflexivity.
Qed.

Lemma open_r_fd : forall s src h g, g <> h -> fds (step s (Openat src fl_r h true)) g = fds s g.
Proof.
  intros s src h g H. cbn [step]. destruct (fds s h); [reflexivity|].
  destruct (names s src); cbn [fl_r o_creat o_excl o_trunc writable o_mode andb]; [|reflexivity].
  cbn [set_fd fds]. unfold updN. apply N.eqb_neq in H. rewrite H. reflexivity.
Qed.

(* open(p, O_WRONLY|O_CREAT|O_TRUNC): whatever p named before, it now names an EMPTY inode, g writes at offset 0 *)
Lemma open_w_post : forall s p g, fds s g = None ->
  exists j, names (step s (Openat p fl_w g true)) p = Some j /\
            idata (step s (Openat p fl_w g true)) j = [] /\
            fds (step s (Openat p fl_w g true)) g = Some (mkfd j true false 0).
Proof.
  intros s p g Hg. destruct (names s p) as [j|] eqn:Hp.
  - exists j. cbn [step]. rewrite Hg, Hp. cbn [fl_w o_creat o_excl o_trunc o_append writable o_mode andb].
    cbn [set_data set_fd names idata fds]. unfold updn, updN. rewrite Hp, Nat.eqb_refl, N.eqb_refl. auto.
  - exists (next s). cbn [step]. rewrite Hg, Hp. cbn [fl_w o_creat o_excl o_trunc o_append writable o_mode andb].
    cbn [names idata fds]. unfold updn, updN. rewrite Nat.eqb_refl, !N.eqb_refl. auto.
Qed.

(* the copy fallback, stopped after the pieces p1: dst holds exactly those pieces - whatever it held before is gone *)
Lemma copy_exposes : forall s src dst h g p1,
  fds s g = None -> g <> h ->
  content_at (run (Rename src dst false :: Openat src fl_r h true :: Openat dst fl_w g true :: copy_writes g p1) s) dst
  = Some (concat p1).
Proof.
  intros s src dst h g p1 Hg Hgh. unfold run. cbn [fold_left].
  change (step s (Rename src dst false)) with s.
  set (sA := step s (Openat src fl_r h true)).
  assert (HA : fds sA g = None) by (subst sA; rewrite open_r_fd; assumption).
  destruct (open_w_post sA dst g HA) as [j [Hnj [Hdj Hfj]]].
  set (sB := step sA (Openat dst fl_w g true)) in *.
  fold (run (copy_writes g p1) sB).
  assert (Hfj' : fds sB g = Some (mkfd j true false (length (idata sB j)))) by (rewrite Hdj; exact Hfj).
  destruct (run_writes g j (copy_writes g p1) sB (copy_writes_writes g p1) Hfj') as [Hn2 [Hd2 _]]. cbn zeta in *.
  unfold content_at. rewrite Hn2, Hnj, Hd2, Hdj, written_copy. reflexivity.
Qed.

(* Main theorem of the cross-file-system case: for EVERY cut p1 ++ p2 of what the copy loop writes there is a crash
   point (a prefix of the trace = SIGKILL at that syscall boundary) at which a reader of FINAL finds exactly concat p1. *)
Theorem move_cross_exposes_prefix : forall dirof dev B f h g chunks p1 p2 s0,
  dev (dirof TEMP) <> dev (dirof FINAL) ->
  names s0 TEMP = None -> fds s0 f = None -> fds s0 g = None -> g <> h ->
  exists k, content_at (run (firstn k (producer_move dirof dev B f h g chunks (p1 ++ p2))) s0) FINAL
            = Some (concat p1).
Proof.
  intros dirof dev B f h g chunks p1 p2 s0 Hx Hn Hf Hg Hgh.
  unfold producer_move. rewrite (cross_true _ _ _ _ Hx). cbn [move]. unfold move_copy.
  set (P := write_temp B f chunks ++
            (Rename TEMP FINAL false :: Openat TEMP fl_r h true :: Openat FINAL fl_w g true :: copy_writes g p1)).
  set (Q := copy_writes g p2 ++ [Close g true; Close h true; Unlink TEMP true]).
  assert (E : write_temp B f chunks ++
              Rename TEMP FINAL false :: Openat TEMP fl_r h true :: Openat FINAL fl_w g true ::
              copy_writes g (p1 ++ p2) ++ [Close g true; Close h true; Unlink TEMP true] = P ++ Q).
  { subst P Q. unfold copy_writes. rewrite map_app. rewrite <- !app_assoc. reflexivity. }
  exists (length P). rewrite E, firstn_app, Nat.sub_diag, firstn_all. cbn [firstn]. rewrite app_nil_r.
  subst P. unfold run. rewrite fold_left_app. fold (run (write_temp B f chunks) s0).
  destruct (write_temp_post B f chunks s0 Hn Hf) as [_ [Hfds _]].
  apply (copy_exposes (run (write_temp B f chunks) s0) TEMP FINAL h g p1); [rewrite Hfds; exact Hg|exact Hgh].
Qed.

(* ... in particular (p1 = []): right after the open of the fallback the published name holds an EMPTY file: not
   absent, not the non-empty previous version, not the non-empty payload.  This is the state the search finds on the
   real code (replay zip/create%rel+xdev kill@sendfile#1: "File is not a zip file (0 bytes)"). *)
Theorem move_cross_refuted : forall dirof dev B f h g chunks pieces s0 old,
  dev (dirof TEMP) <> dev (dirof FINAL) ->
  names s0 TEMP = None -> fds s0 f = None -> fds s0 g = None -> g <> h ->
  content_at s0 FINAL = Some old -> old <> [] -> concat chunks <> [] ->
  exists k, let v := content_at (run (firstn k (producer_move dirof dev B f h g chunks pieces)) s0) FINAL in
            v <> None /\ v <> content_at s0 FINAL /\ v <> Some (concat chunks).
Proof.
  intros dirof dev B f h g chunks pieces s0 old Hx Hn Hf Hg Hgh Hold Ho Hc.
  destruct (move_cross_exposes_prefix dirof dev B f h g chunks [] pieces s0 Hx Hn Hf Hg Hgh) as [k Hk].
  cbn [app concat] in Hk. exists k. cbn zeta. rewrite Hk, Hold.
  repeat split; intros E; inversion E; subst; auto.
Qed.

(* ... and whenever the copy is cut before its end, what is exposed is a STRICT prefix of the payload *)
Theorem move_cross_strict_prefix : forall dirof dev B f h g chunks p1 p2 s0,
  dev (dirof TEMP) <> dev (dirof FINAL) ->
  names s0 TEMP = None -> fds s0 f = None -> fds s0 g = None -> g <> h ->
  concat (p1 ++ p2) = concat chunks -> concat p2 <> [] ->
  exists k c, content_at (run (firstn k (producer_move dirof dev B f h g chunks (p1 ++ p2))) s0) FINAL = Some c /\
              c <> concat chunks /\ exists tail, tail <> [] /\ c ++ tail = concat chunks.
Proof.
  intros dirof dev B f h g chunks p1 p2 s0 Hx Hn Hf Hg Hgh Hsum Hp2.
  destruct (move_cross_exposes_prefix dirof dev B f h g chunks p1 p2 s0 Hx Hn Hf Hg Hgh) as [k Hk].
  exists k, (concat p1). split; [exact Hk|]. rewrite concat_app in Hsum. split.
  - intros E. rewrite <- Hsum in E. rewrite <- (app_nil_r (concat p1)) in E at 1.
    apply app_inv_head in E. auto.
  - exists (concat p2). auto.
Qed.
