(* C20 — SHORT WRITES (executable definitions only; lemmas live in ProofsShort.v).

   write(2) may store FEWER bytes than it was asked to and report that count without any error: an almost full
   disk, an exhausted quota, a file-size limit (RLIMIT_FSIZE), a signal.  At the level of FsTrace nothing new is
   needed for this - `Write f bs ok` carries the bytes ACTUALLY written (vt/harness/c20_strace.py cuts the buffer
   of the strace line to the returned count) - and the recogniser does not look at write granularity
   (C20_write_granularity_irrelevant).  What a short write changes is the PRODUCER: the outcome of each write call
   is an input of the program, and only a program that looks at the returned count publishes its payload.

   wres          outcome of one write(2) call: everything stored, only k bytes stored (k is cut to the request), error
   write_all     the loop CPython's io stack runs (Modules/_io/bufferedio.c _bufferedwriter_flush_unlocked: call
                 write(2) with what is left until nothing is left or a call fails - then the exception propagates);
                 this is what `with open(tmp, 'w') as f: f.write(...)` of status.py:119-121 does at close
   producer_checked     open temp, write_all, close; rename only if write_all succeeded (the exception skips it)
   producer_unchecked   seeded/C20-8: os.open, ONE os.write whose return value is ignored, fsync, close, rename *)
From Coq Require Import List NArith Bool Arith.
From MW Require Import C20.FsTrace C20.Model.
Import ListNotations.

Inductive wres := WAll | WShort (k : nat) | WErr.

(* bytes stored by a call asked to write n bytes; None = the call failed (nothing stored) *)
Definition accepted (n : nat) (r : wres) : option nat :=
  match r with WAll => Some n | WShort k => Some (Nat.min k n) | WErr => None end.

(* outs = outcomes of the successive write(2) calls (calls beyond the list store everything).
   Result: (syscalls issued, true = everything was stored / false = a call failed: the caller sees an exception) *)
Fixpoint write_all (f : fdnum) (data : bytes) (outs : list wres) : list op * bool :=
  match outs with
  | [] => (match data with [] => [] | _ => [Write f data true] end, true)
  | r :: outs' =>
      match data with
      | [] => ([], true)
      | _ :: _ =>
          match accepted (length data) r with
          | None => ([Write f [] false], false)
          | Some k => (Write f (firstn k data) true :: fst (write_all f (skipn k data) outs'),
                       snd (write_all f (skipn k data) outs'))
          end
      end
  end.

Definition producer_checked (f : fdnum) (payload : bytes) (outs : list wres) : list op :=
  Openat TEMP fl_w f true :: fst (write_all f payload outs) ++
  Close f true :: (if snd (write_all f payload outs) then [Rename TEMP FINAL true] else []).

Definition producer_unchecked (f : fdnum) (payload : bytes) (r : wres) : list op :=
  Openat TEMP fl_w f true ::
  match accepted (length payload) r with
  | None => [Write f [] false; Close f true]          (* os.write raised: `finally: os.close(fd)`, no rename *)
  | Some k => [Write f (firstn k payload) true; Fsync f true; Close f true; Rename TEMP FINAL true]
  end.
