(* C20 — the mkstemp sites of /repo (Gen_Sites.v, regenerated from the source on every run): a site is safe for EVERY
   spelling of the output path, every placement of $TMPDIR and of the file systems iff site_ok; the sites found in
   /repo are all site_ok.  A site that is not site_ok (seeded/C20-5: dir = dirname(output) or None, shutil.move) has
   a placement in which the published name is written in place and a crash leaves an empty file there. *)
From Coq Require Import List NArith Bool Arith Lia.
From MW Require Import C20.FsTrace C20.Model C20.Proofs C20.ProofsBuffered C20.ModelMove C20.ProofsMove C20.Gen_Sites.
Import ListNotations.

Definition site_safe (s : site) : Prop :=
  forall dev cwd tmpdir sh B f h g chunks pieces,
    safe_publish FINAL (site_trace s dev cwd tmpdir sh B f h g chunks pieces) = true.

Lemma rrun_write_temp : forall B f chunks,
  rrun FINAL (write_temp B f chunks) (r0 FINAL) = Some (mkr [FINAL] []).
Proof.
  intros B f chunks. unfold write_temp.
  cbn [rrun rstep r0 r_sealed r_wfds fl_w writable o_mode o_trunc o_creat].
  change (memN TEMP [FINAL]) with false. cbn [andb].
  rewrite rrun_app', (rrun_writes FINAL f _ _ (bw_ops_writes B f chunks [])).
  rewrite rrun_app', (rrun_writes FINAL f _ _ (flush_writes f _)).
  cbn [rrun rstep r_sealed r_wfds drop_fd filter fst]. rewrite N.eqb_refl. cbn [negb]. reflexivity.
Qed.

Theorem site_ok_sound : forall s, site_ok s = true -> site_safe s.
Proof.
  intros [d p] H dev cwd tmpdir sh B f h g chunks pieces. unfold site_trace. destruct p; cbn [s_pub].
  - destruct (site_cross _ dev cwd tmpdir sh).
    + unfold safe_publish. rewrite rrun_app', rrun_write_temp. reflexivity.
    + rewrite write_temp_rename. apply buffered_producer_accepted.
  - destruct d; cbn in H; try discriminate H.
    assert (E : site_cross {| s_dir := DirDirname; s_pub := PubMove |} dev cwd tmpdir sh = false).
    { unfold site_cross. cbn [s_dir]. destruct sh; cbn [temp_dir output_dir]; rewrite Nat.eqb_refl; reflexivity. }
    rewrite E. cbn [move]. rewrite write_temp_rename. apply buffered_producer_accepted.
Qed.

Theorem site_not_ok_refuted : forall s, site_ok s = false ->
  exists dev cwd tmpdir sh, forall B f h g chunks pieces,
    safe_publish FINAL (site_trace s dev cwd tmpdir sh B f h g chunks pieces) = false /\
    forall s0, names s0 TEMP = None -> fds s0 f = None -> fds s0 g = None -> g <> h ->
      exists k, content_at (run (firstn k (site_trace s dev cwd tmpdir sh B f h g chunks pieces)) s0) FINAL = Some [].
Proof.
  intros [d p] H. exists N.to_nat, 0%N, 1%N, Bare. intros B f h g chunks pieces.
  assert (Hx : N.to_nat ((fun q : path => q) TEMP) <> N.to_nat ((fun q : path => q) FINAL)) by (cbv; discriminate).
  destruct p; [discriminate H|]. destruct d; [discriminate H| |];
  (change (site_trace _ N.to_nat 0%N 1%N Bare B f h g chunks pieces)
     with (producer_move (fun q : path => q) N.to_nat B f h g chunks pieces);
   split; [apply (move_cross_rejected _ _ B f h g chunks pieces Hx)|];
   intros s0 Hn Hf Hg Hgh;
   apply (move_cross_exposes_prefix (fun q : path => q) N.to_nat B f h g chunks [] pieces s0 Hx Hn Hf Hg Hgh)).
Qed.

Lemma sites_all_ok_safe : forall l, forallb site_ok l = true -> Forall site_safe l.
Proof.
  induction l as [|s l IH]; intros H; [constructor|].
  cbn [forallb] in H. apply andb_prop in H. destruct H as [H1 H2].
  constructor; [apply site_ok_sound; exact H1|apply IH; exact H2].
Qed.

(* the sites as they are in /repo today *)
Lemma repo_sites_safe : Forall site_safe sites.
Proof. apply sites_all_ok_safe. reflexivity. Qed.

Lemma repo_sites_nonempty : length sites = 3.
Proof. reflexivity. Qed.
