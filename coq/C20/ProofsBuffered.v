(* C20 — producers that write through a user-space buffer of ANY capacity, for ANY payload / chunking:
   close-then-rename is in the safe_publish language and publishes exactly the payload; rename-before-close
   (seeded/C20-3) is rejected and really exposes a strict prefix whenever bytes are pending at the rename. *)
From Coq Require Import List NArith Bool Arith Lia.
From MW Require Import C20.FsTrace C20.Model.
Import ListNotations.

Definition is_write_on (f : fdnum) (o : op) : Prop := exists bs, o = Write f bs true.

Lemma bw_ops_writes : forall B f cs buf, Forall (is_write_on f) (fst (bw_ops B f buf cs)).
Proof.
  intros B f cs. induction cs as [|c cs IH]; intros buf; cbn [bw_ops].
  - constructor.
  - destruct (Nat.leb (length buf + length c) B); [apply IH|].
    assert (Hpre : Forall (is_write_on f) (match buf with [] => [] | _ => [Write f buf true] end)).
    { destruct buf; constructor; [eexists; reflexivity|constructor]. }
    destruct (Nat.leb B (length c)); cbn [fst]; apply Forall_app; split; auto.
    constructor; [eexists; reflexivity|apply IH].
Qed.

Lemma written_app : forall a b, written (a ++ b) = written a ++ written b.
Proof.
  induction a as [|o a IH]; intros b; [reflexivity|].
  cbn [app written]. destruct o; try apply IH. destruct ok; [|apply IH]. rewrite IH, app_assoc. reflexivity.
Qed.

(* nothing is lost or duplicated: what went to write(2) plus what is pending is the pending start + the chunks *)
Lemma bw_ops_conserves : forall B f cs buf,
  written (fst (bw_ops B f buf cs)) ++ snd (bw_ops B f buf cs) = buf ++ concat cs.
Proof.
  intros B f cs. induction cs as [|c cs IH]; intros buf; cbn [bw_ops concat].
  - cbn. rewrite app_nil_r. reflexivity.
  - destruct (Nat.leb (length buf + length c) B); [rewrite IH, app_assoc; reflexivity|].
    assert (Hpre : written (match buf with [] => [] | _ => [Write f buf true] end) = buf).
    { destruct buf; cbn [written]; [reflexivity|rewrite app_nil_r; reflexivity]. }
    destruct (Nat.leb B (length c)); cbn [fst snd]; rewrite written_app, Hpre.
    + cbn [written]. rewrite <- !app_assoc. f_equal. f_equal. apply (IH []).
    + rewrite <- app_assoc. f_equal. apply IH.
Qed.

Lemma rrun_writes : forall final f ws r, Forall (is_write_on f) ws -> rrun final ws r = Some r.
Proof.
  intros final f ws r H. induction H as [|o ws [bs Ho] _ IH]; [reflexivity|]. subst o. cbn [rrun rstep]. exact IH.
Qed.

Lemma rrun_app' : forall final t1 t2 r,
  rrun final (t1 ++ t2) r = match rrun final t1 r with Some r1 => rrun final t2 r1 | None => None end.
Proof.
  intros final t1. induction t1 as [|o t1 IH]; intros t2 r; cbn [app rrun]; [reflexivity|].
  destruct (rstep final r o); [apply IH|reflexivity].
Qed.

Lemma flush_writes : forall f b, Forall (is_write_on f) (flush_ops f b).
Proof. intros f b. destruct b; constructor; [eexists; reflexivity|constructor]. Qed.

(* close-then-rename: accepted for every buffer capacity, descriptor and chunking of the payload *)
Theorem buffered_producer_accepted : forall B f chunks, safe_publish FINAL (producer_ok B f chunks) = true.
Proof.
  intros B f chunks. unfold safe_publish, producer_ok.
  cbn [rrun rstep r0 r_sealed r_wfds fl_w writable o_mode o_trunc o_creat].
  change (memN TEMP [FINAL]) with false. cbn [andb].
  rewrite rrun_app', (rrun_writes FINAL f _ _ (bw_ops_writes B f chunks [])).
  rewrite rrun_app', (rrun_writes FINAL f _ _ (flush_writes f _)).
  cbn [rrun rstep r_sealed r_wfds drop_fd filter fst]. rewrite N.eqb_refl. cbn [negb].
  change (N.eqb TEMP FINAL) with false. change (N.eqb FINAL FINAL) with true. cbn. reflexivity.
Qed.

(* rename-before-close: rejected for every buffer capacity, descriptor and payload (even when nothing is pending:
   the recogniser does not rely on sizes) *)
Theorem early_rename_rejected : forall B f chunks, safe_publish FINAL (producer_early B f chunks) = false.
Proof.
  intros B f chunks. unfold safe_publish, producer_early, early_prefix.
  cbn [app rrun rstep r0 r_sealed r_wfds fl_w writable o_mode o_trunc o_creat].
  change (memN TEMP [FINAL]) with false. cbn [andb].
  rewrite <- app_assoc, rrun_app', (rrun_writes FINAL f _ _ (bw_ops_writes B f chunks [])).
  cbn [app rrun rstep r_wfds existsb snd fst].
  change (N.eqb TEMP FINAL) with false. change (N.eqb FINAL FINAL) with true.
  change (memN TEMP [TEMP]) with true. cbn. reflexivity.
Qed.

(* ---- what the file system holds ---- *)

Lemma write_at_end : forall d bs, write_at d (length d) bs = d ++ bs.
Proof.
  intros d bs. unfold write_at, resize. rewrite firstn_all, Nat.sub_diag. cbn [repeat].
  rewrite app_nil_r, skipn_all2 by lia. rewrite app_nil_r. reflexivity.
Qed.

(* sequential writes on a plain (non-append) writable descriptor positioned at the end append *)
Lemma run_writes : forall f i ws s,
  Forall (is_write_on f) ws ->
  fds s f = Some (mkfd i true false (length (idata s i))) ->
  let s' := run ws s in
  names s' = names s /\ idata s' i = idata s i ++ written ws /\
  fds s' f = Some (mkfd i true false (length (idata s' i))).
Proof.
  intros f i ws s H. revert s. induction H as [|o ws [bs Ho] _ IH]; intros s Hfd; cbn zeta.
  - cbn. rewrite app_nil_r. auto.
  - subst o. unfold run. cbn [fold_left]. fold (run ws (step s (Write f bs true))).
    set (s1 := step s (Write f bs true)).
    assert (H1 : names s1 = names s /\ idata s1 i = idata s i ++ bs /\
                 fds s1 f = Some (mkfd i true false (length (idata s1 i)))).
    { subst s1. cbn [step]. rewrite Hfd. cbn [fd_wr fd_ino fd_app fd_off].
      rewrite write_at_end. cbn [set_fd set_data names idata fds]. unfold updn, updN.
      rewrite Nat.eqb_refl, N.eqb_refl. rewrite app_length. auto. }
    destruct H1 as [Hn1 [Hd1 Hf1]]. destruct (IH s1 Hf1) as [Hn' [Hd' Hf']]. cbn zeta in *.
    split; [rewrite Hn'; exact Hn1|].
    split; [|exact Hf'].
    rewrite Hd', Hd1. cbn [written]. rewrite <- app_assoc. reflexivity.
Qed.

(* the state right after the rename of the regression: FINAL names an inode that holds only what went through
   write(2) so far; the pending bytes are exactly the missing tail *)
Theorem early_rename_exposes_prefix : forall B f chunks s0,
  names s0 TEMP = None -> fds s0 f = None ->
  content_at (run (early_prefix B f chunks) s0) FINAL = Some (written (fst (bw_ops B f [] chunks))) /\
  written (fst (bw_ops B f [] chunks)) ++ snd (bw_ops B f [] chunks) = concat chunks /\
  firstn (length (early_prefix B f chunks)) (producer_early B f chunks) = early_prefix B f chunks.
Proof.
  intros B f chunks s0 Hn Hf. split; [|split].
  - unfold early_prefix, run. cbn [fold_left]. fold (run (fst (bw_ops B f [] chunks) ++ [Rename TEMP FINAL true])).
    set (s1 := step s0 (Openat TEMP fl_w f true)).
    assert (H1 : names s1 TEMP = Some (next s0) /\ idata s1 (next s0) = [] /\
                 fds s1 f = Some (mkfd (next s0) true false (length (idata s1 (next s0))))).
    { subst s1. cbn [step]. rewrite Hf, Hn. cbn [fl_w o_creat o_append writable o_mode names idata fds].
      unfold updn, updN. rewrite Nat.eqb_refl, !N.eqb_refl. auto. }
    destruct H1 as [Ht [Hd Hfd]].
    unfold run. rewrite fold_left_app. fold (run (fst (bw_ops B f [] chunks)) s1).
    destruct (run_writes f (next s0) _ s1 (bw_ops_writes B f chunks []) Hfd) as [Hn2 [Hd2 _]]. cbn zeta in *.
    set (s2 := run (fst (bw_ops B f [] chunks)) s1) in *.
    cbn [fold_left step]. change (N.eqb TEMP FINAL) with false. cbn match.
    rewrite Hn2, Ht. unfold content_at. cbn [set_names names idata]. unfold updN.
    change (N.eqb FINAL TEMP) with false. change (N.eqb FINAL FINAL) with true. cbn match.
    rewrite Hd2, Hd. reflexivity.
  - apply (bw_ops_conserves B f chunks []).
  - unfold producer_early. rewrite firstn_app, Nat.sub_diag, firstn_all. cbn [firstn]. apply app_nil_r.
Qed.

(* so: whenever bytes are still pending at the rename, some killed prefix shows a file at FINAL that is neither the
   previous version's absence nor the payload - a strict prefix of it *)
Corollary early_rename_strict_prefix : forall B f chunks s0,
  names s0 TEMP = None -> fds s0 f = None -> snd (bw_ops B f [] chunks) <> [] ->
  exists k c, content_at (run (firstn k (producer_early B f chunks)) s0) FINAL = Some c /\
              c <> concat chunks /\ exists tail, tail <> [] /\ c ++ tail = concat chunks.
Proof.
  intros B f chunks s0 Hn Hf Hb.
  destruct (early_rename_exposes_prefix B f chunks s0 Hn Hf) as [Hc [Hsum Hpre]].
  exists (length (early_prefix B f chunks)), (written (fst (bw_ops B f [] chunks))).
  rewrite Hpre. split; [exact Hc|]. split.
  - intros E. rewrite <- Hsum in E. rewrite <- (app_nil_r (written _)) in E at 1.
    apply app_inv_head in E. auto.
  - exists (snd (bw_ops B f [] chunks)). auto.
Qed.

(* the faithful producer publishes exactly the payload (and nothing before the rename) *)
Theorem buffered_producer_publishes_payload : forall B f chunks s0,
  names s0 TEMP = None -> fds s0 f = None ->
  content_at (run (producer_ok B f chunks) s0) FINAL = Some (concat chunks).
Proof.
  intros B f chunks s0 Hn Hf. unfold producer_ok, run. cbn [fold_left].
  set (s1 := step s0 (Openat TEMP fl_w f true)).
  assert (H1 : names s1 TEMP = Some (next s0) /\ idata s1 (next s0) = [] /\
               fds s1 f = Some (mkfd (next s0) true false (length (idata s1 (next s0))))).
  { subst s1. cbn [step]. rewrite Hf, Hn. cbn [fl_w o_creat o_append writable o_mode names idata fds].
    unfold updn, updN. rewrite Nat.eqb_refl, !N.eqb_refl. auto. }
  destruct H1 as [Ht [Hd Hfd]].
  rewrite app_assoc, fold_left_app.
  assert (HW : Forall (is_write_on f) (fst (bw_ops B f [] chunks) ++ flush_ops f (snd (bw_ops B f [] chunks)))).
  { apply Forall_app. split; [apply bw_ops_writes|apply flush_writes]. }
  fold (run (fst (bw_ops B f [] chunks) ++ flush_ops f (snd (bw_ops B f [] chunks))) s1).
  destruct (run_writes f (next s0) _ s1 HW Hfd) as [Hn2 [Hd2 Hf2]]. cbn zeta in *.
  set (s2 := run _ s1) in *.
  assert (Hw : written (fst (bw_ops B f [] chunks) ++ flush_ops f (snd (bw_ops B f [] chunks))) = concat chunks).
  { pose proof (bw_ops_conserves B f chunks []) as Hc. cbn [app] in Hc. rewrite <- Hc, written_app. f_equal.
    unfold flush_ops. destruct (snd (bw_ops B f [] chunks)); cbn [written]; [reflexivity|apply app_nil_r]. }
  cbn [fold_left step]. rewrite Hf2. cbn [fd_wr fd_ino]. change (N.eqb TEMP FINAL) with false. cbn match.
  cbn [set_fd names idata]. rewrite Hn2, Ht. unfold content_at. cbn [set_names names idata]. unfold updN.
  change (N.eqb FINAL TEMP) with false. change (N.eqb FINAL FINAL) with true. cbn match.
  rewrite Hd2, Hd, Hw. reflexivity.
Qed.
