(* C20 — property theorems only.  Each is closed by `exact <lemma>` (or by computation for the closed
   examples) and followed by Print Assumptions; the check re-compiles this file on every run. *)
From Coq Require Import List NArith Bool.
From MW Require Import C20.FsTrace C20.Model C20.Proofs C20.ProofsBuffered C20.ModelMove C20.ProofsMove C20.Gen_Sites C20.ProofsSites C20.ModelShort C20.ProofsShort.
Import ListNotations.

(* If the recogniser accepts the trace t of a producer then, from ANY initial file system with nothing
   open and no hard links, after EVERY prefix of t (= a kill at any syscall boundary; failed syscalls
   are ops with ok = false) a reader opening `final` finds it absent, or with the contents it had
   before the producer started, or with contents c that were published by an earlier successful
   rename onto final: c is exactly what the source inode contained at that rename, which is what it
   contained when it was last closed, and no writable descriptor referred to it.  Any number of
   publishes per trace. *)
Theorem C20_safe_publish_sound : forall final t s0,
  safe_publish final t = true -> quiescent s0 ->
  forall k, let s := run (firstn k t) s0 in
    content_at s final = None \/
    content_at s final = content_at s0 final \/
    exists c, content_at s final = Some c /\
      exists j a i, j < k /\ nth_error t j = Some (Rename a final true) /\ a <> final /\
        let sj := run (firstn j t) s0 in
        names sj a = Some i /\ idata sj i = c /\ iclosed sj i = c /\
        (forall f d, fds sj f = Some d -> fd_ino d = i -> fd_wr d = false).
Proof. exact safe_publish_sound. Qed.
Print Assumptions C20_safe_publish_sound.

(* the language is prefix closed: the trace of a killed run is accepted whenever the full one is *)
Theorem C20_safe_publish_prefix_closed : forall final t k,
  safe_publish final t = true -> safe_publish final (firstn k t) = true.
Proof. exact safe_publish_prefix_closed. Qed.
Print Assumptions C20_safe_publish_prefix_closed.

(* short writes / a kill in the middle of a write(2): write granularity is irrelevant *)
Theorem C20_write_granularity_irrelevant : forall final t1 t2 f a b ok,
  safe_publish final (t1 ++ Write f (a ++ b) ok :: t2) =
  safe_publish final (t1 ++ Write f a ok :: Write f b ok :: t2).
Proof. exact safe_publish_write_split. Qed.
Print Assumptions C20_write_granularity_irrelevant.

(* `final` is never opened for writing, truncated or created directly, anywhere in an accepted trace *)
Theorem C20_direct_open_rejected : forall final t1 t2 fl f,
  (writable fl || o_trunc fl || o_creat fl) = true ->
  safe_publish final (t1 ++ Openat final fl f true :: t2) = false.
Proof. exact safe_publish_rejects_direct_open. Qed.
Print Assumptions C20_direct_open_rejected.

(* the hypothesis on the initial state is satisfiable: every state built from a list of files *)
Theorem C20_initial_states_quiescent : forall files, quiescent (mk_fs files).
Proof. exact mk_fs_quiescent. Qed.
Print Assumptions C20_initial_states_quiescent.

(* Non-vacuity: a zip-like trace with seeks, a header patch, a pwrite behind a hole and an ftruncate on
   the temp file is accepted; the reader sees the old version after every prefix but the last, then
   the complete new one. *)
Example C20_zip_like_accepted :
  safe_publish FINAL zip_trace = true /\
  views zip_trace fs_old = repeat (Some old_bytes) 13 ++ [Some zip_bytes] /\
  views zip_trace fs_empty = repeat None 13 ++ [Some zip_bytes].
Proof. vm_compute. repeat split. Qed.
Print Assumptions C20_zip_like_accepted.

(* two publishes in one trace (Status.dump twice); re-truncating the temp name does not touch FINAL *)
Example C20_status_like_accepted :
  safe_publish FINAL status_trace = true /\
  views status_trace fs_old =
    repeat (Some old_bytes) 4 ++ repeat (Some [1; 2]%N) 4 ++ [Some [4; 5; 6]%N].
Proof. vm_compute. repeat split. Qed.
Print Assumptions C20_status_like_accepted.

(* a failed write (injected ENOSPC) followed by close + unlink of the temp file *)
Example C20_enospc_accepted :
  safe_publish FINAL enospc_trace = true /\ views enospc_trace fs_old = repeat (Some old_bytes) 6.
Proof. vm_compute. repeat split. Qed.
Print Assumptions C20_enospc_accepted.

(* open(final,'w'); write; write is rejected by the recogniser AND really has partial prefixes: after
   1 op the reader sees an empty file, after 2 ops half of the new contents *)
Example C20_direct_write_unsafe :
  safe_publish FINAL direct_trace = false /\
  content_at (run direct_trace fs_old) FINAL = Some [1; 2; 3; 4]%N /\
  exists k, let v := content_at (run (firstn k direct_trace) fs_old) FINAL in
    v <> None /\ v <> Some old_bytes /\ v <> Some [1; 2; 3; 4]%N.
Proof. split; [reflexivity|]. split; [reflexivity|]. exists 2. vm_compute. repeat split; discriminate. Qed.
Print Assumptions C20_direct_write_unsafe.

(* rename before close (temp still open for writing): rejected, and really partial after 3 ops *)
Example C20_early_rename_unsafe :
  safe_publish FINAL early_rename_trace = false /\
  content_at (run early_rename_trace fs_old) FINAL = Some [1; 2; 3; 4]%N /\
  content_at (run (firstn 3 early_rename_trace) fs_old) FINAL = Some [1; 2]%N.
Proof. vm_compute. repeat split. Qed.
Print Assumptions C20_early_rename_unsafe.

(* ---- producers that write through a user-space buffer (what a kill loses), for ARBITRARY payloads ----
   bw_ops B f buf chunks = the write(2) calls a buffered file object of capacity B issues for `chunks`, and the bytes
   still pending in user space (Model.v).  producer_ok = open temp; write chunks; flush; close; rename (transport.py
   as it is); producer_early = the rename moved before flush + close (seeded/C20-3). *)

(* close-then-rename is in the proved language for every buffer capacity, descriptor, payload and chunking *)
Theorem C20_buffered_producer_accepted : forall B f chunks, safe_publish FINAL (producer_ok B f chunks) = true.
Proof. exact buffered_producer_accepted. Qed.
Print Assumptions C20_buffered_producer_accepted.

(* ... and what it publishes is exactly the payload *)
Theorem C20_buffered_producer_publishes_payload : forall B f chunks s0,
  names s0 TEMP = None -> fds s0 f = None ->
  content_at (run (producer_ok B f chunks) s0) FINAL = Some (concat chunks).
Proof. exact buffered_producer_publishes_payload. Qed.
Print Assumptions C20_buffered_producer_publishes_payload.

(* rename before flush + close is rejected whatever the sizes are *)
Theorem C20_early_rename_rejected : forall B f chunks, safe_publish FINAL (producer_early B f chunks) = false.
Proof. exact early_rename_rejected. Qed.
Print Assumptions C20_early_rename_rejected.

(* ... and it is really unsafe exactly in the size class the search must cover: whenever bytes are pending in user
   space at the rename (payload size not absorbed by write-through), the prefix ending with the rename shows a strict
   prefix of the payload at FINAL *)
Theorem C20_early_rename_exposes_strict_prefix : forall B f chunks s0,
  names s0 TEMP = None -> fds s0 f = None -> snd (bw_ops B f [] chunks) <> [] ->
  exists k c, content_at (run (firstn k (producer_early B f chunks)) s0) FINAL = Some c /\
              c <> concat chunks /\ exists tail, tail <> [] /\ c ++ tail = concat chunks.
Proof. exact early_rename_strict_prefix. Qed.
Print Assumptions C20_early_rename_exposes_strict_prefix.

(* non-vacuity of the pending-bytes hypothesis: B = 4, chunks of 3 + 3 + 2 bytes: the first two chunks are flushed when
   the next one no longer fits, the last 2 bytes are pending at the rename; with a payload that is a multiple of the write-through size
   nothing is pending (the sizes the first version of the search happened to use) *)
Example C20_pending_tail_exists :
  bw_ops 4 3%N [] [[1; 2; 3]; [4; 5; 6]; [7; 8]]%N = ([Write 3%N [1; 2; 3]%N true; Write 3%N [4; 5; 6]%N true], [7; 8]%N) /\
  snd (bw_ops 4 3%N [] [[1; 2; 3; 4]; [5; 6; 7; 8]]%N) = [].
Proof. vm_compute. split; reflexivity. Qed.
Print Assumptions C20_pending_tail_exists.

(* ---- the temp file is MOVED into place (shutil.move = rename, or - across file systems - copy onto the published
   name; ModelMove.v).  dirof p = directory holding the name p, dev d = file system of directory d; the kernel
   answers rename(a, b) with EXDEV exactly when dev (dirof a) <> dev (dirof b).  producer_move = write the payload to
   TEMP (any buffer capacity / chunking), flush, close, move(TEMP, FINAL); `pieces` = how the copy loop cuts the data.
   (seeded/C20-5: mkstemp(dir = dirname(output) or None) + shutil.move.) *)

(* on one file system the move IS the close-then-rename producer: every theorem about producer_ok applies *)
Theorem C20_move_same_fs_is_rename : forall dirof dev B f h g chunks pieces,
  dev (dirof TEMP) = dev (dirof FINAL) ->
  producer_move dirof dev B f h g chunks pieces = producer_ok B f chunks.
Proof. exact move_same_fs_is_rename. Qed.
Print Assumptions C20_move_same_fs_is_rename.

(* a temp file that is a sibling of the output (same directory, hence same file system) is never cross-device *)
Theorem C20_sibling_never_cross_device : forall dirof dev a b,
  dirof a = dirof b -> cross_device dirof dev a b = false.
Proof. exact sibling_never_cross_device. Qed.
Print Assumptions C20_sibling_never_cross_device.

(* ... so the producer with a sibling temp file satisfies atomic publish wherever $TMPDIR lives: accepted by the
   recogniser (C20_safe_publish_sound applies to every crash prefix) and it publishes exactly the payload *)
Theorem C20_move_sibling_safe : forall dirof dev B f h g chunks pieces,
  dirof TEMP = dirof FINAL ->
  safe_publish FINAL (producer_move dirof dev B f h g chunks pieces) = true /\
  forall s0, names s0 TEMP = None -> fds s0 f = None ->
    content_at (run (producer_move dirof dev B f h g chunks pieces) s0) FINAL = Some (concat chunks).
Proof. exact move_sibling_safe. Qed.
Print Assumptions C20_move_sibling_safe.

(* temp file on another file system: the copy fallback is outside the proved language, whatever the sizes *)
Theorem C20_move_cross_rejected : forall dirof dev B f h g chunks pieces,
  dev (dirof TEMP) <> dev (dirof FINAL) ->
  safe_publish FINAL (producer_move dirof dev B f h g chunks pieces) = false.
Proof. exact move_cross_rejected. Qed.
Print Assumptions C20_move_cross_rejected.

(* ... and it really violates atomic publish: for EVERY cut p1 ++ p2 of what the copy loop writes there is a crash
   point at which a reader of FINAL finds exactly concat p1 (from any initial state in which TEMP is a fresh name and
   the descriptors are free) *)
Theorem C20_move_cross_exposes_prefix : forall dirof dev B f h g chunks p1 p2 s0,
  dev (dirof TEMP) <> dev (dirof FINAL) ->
  names s0 TEMP = None -> fds s0 f = None -> fds s0 g = None -> g <> h ->
  exists k, content_at (run (firstn k (producer_move dirof dev B f h g chunks (p1 ++ p2))) s0) FINAL
            = Some (concat p1).
Proof. exact move_cross_exposes_prefix. Qed.
Print Assumptions C20_move_cross_exposes_prefix.

(* the invariant "absent / previous version / complete new version" is REFUTED for the copy fallback: with a non-empty
   previous version and a non-empty payload some crash prefix shows a file that is none of the three (the empty file
   right after open(FINAL, O_WRONLY|O_CREAT|O_TRUNC) - the 0-byte coll.zip of the replay) *)
Theorem C20_move_cross_refuted : forall dirof dev B f h g chunks pieces s0 old,
  dev (dirof TEMP) <> dev (dirof FINAL) ->
  names s0 TEMP = None -> fds s0 f = None -> fds s0 g = None -> g <> h ->
  content_at s0 FINAL = Some old -> old <> [] -> concat chunks <> [] ->
  exists k, let v := content_at (run (firstn k (producer_move dirof dev B f h g chunks pieces)) s0) FINAL in
            v <> None /\ v <> content_at s0 FINAL /\ v <> Some (concat chunks).
Proof. exact move_cross_refuted. Qed.
Print Assumptions C20_move_cross_refuted.

(* a copy cut before its end exposes a STRICT prefix of the payload *)
Theorem C20_move_cross_strict_prefix : forall dirof dev B f h g chunks p1 p2 s0,
  dev (dirof TEMP) <> dev (dirof FINAL) ->
  names s0 TEMP = None -> fds s0 f = None -> fds s0 g = None -> g <> h ->
  concat (p1 ++ p2) = concat chunks -> concat p2 <> [] ->
  exists k c, content_at (run (firstn k (producer_move dirof dev B f h g chunks (p1 ++ p2))) s0) FINAL = Some c /\
              c <> concat chunks /\ exists tail, tail <> [] /\ c ++ tail = concat chunks.
Proof. exact move_cross_strict_prefix. Qed.
Print Assumptions C20_move_cross_strict_prefix.

(* non-vacuity, both placements: TEMP in directory 1 on device 1 / FINAL in directory 0 on device 0: rejected, and the
   reader sees old, old, ..., EMPTY, half, complete; everything in one directory: accepted, old ... old, complete *)
Example C20_move_concrete :
  let t_cross := producer_move (fun p => p) N.to_nat 4 3%N 3%N 4%N [[1; 2; 3]]%N [[1; 2]; [3]]%N in
  let t_sibling := producer_move (fun _ => 7%N) N.to_nat 4 3%N 3%N 4%N [[1; 2; 3]]%N [[1; 2]; [3]]%N in
  safe_publish FINAL t_cross = false /\
  views t_cross fs_old = repeat (Some old_bytes) 6 ++ [Some []; Some [1; 2]%N] ++ repeat (Some [1; 2; 3]%N) 4 /\
  safe_publish FINAL t_sibling = true /\
  views t_sibling fs_old = repeat (Some old_bytes) 4 ++ [Some [1; 2; 3]%N].
Proof. vm_compute. repeat split. Qed.
Print Assumptions C20_move_concrete.

(* ---- the mkstemp sites of /repo, re-read from the source on every run (vt/gen/c20_sites.py -> Gen_Sites.v):
   site = (which directory mkstemp is given, which call publishes); site_trace = the trace of such a site for an output
   path spelled `sh` (Bare file name | InDir d), current directory cwd, $TMPDIR tmpdir, file systems dev (ModelMove.v) *)

(* sufficient condition, for EVERY spelling of the output, every $TMPDIR and every placement of the file systems:
   publish by rename (a cross-device rename fails cleanly), or move a temp file made in dirname(output) *)
Theorem C20_site_ok_sound : forall s, site_ok s = true ->
  forall dev cwd tmpdir sh B f h g chunks pieces,
    safe_publish FINAL (site_trace s dev cwd tmpdir sh B f h g chunks pieces) = true.
Proof. exact site_ok_sound. Qed.
Print Assumptions C20_site_ok_sound.

(* ... and necessary: every other site (shutil.move of a temp file made with dir=None or dir=(dirname or None)) has an
   environment - bare output name, $TMPDIR on another file system - in which the trace is rejected and a crash leaves
   an EMPTY file under the final name *)
Theorem C20_site_not_ok_refuted : forall s, site_ok s = false ->
  exists dev cwd tmpdir sh, forall B f h g chunks pieces,
    safe_publish FINAL (site_trace s dev cwd tmpdir sh B f h g chunks pieces) = false /\
    forall s0, names s0 TEMP = None -> fds s0 f = None -> fds s0 g = None -> g <> h ->
      exists k, content_at (run (firstn k (site_trace s dev cwd tmpdir sh B f h g chunks pieces)) s0) FINAL = Some [].
Proof. exact site_not_ok_refuted. Qed.
Print Assumptions C20_site_not_ok_refuted.

(* the three sites as they are in /repo NOW (buildzip.py create_zip, make_zip; render.py main) are safe in every
   environment; a source change to an unsafe site changes Gen_Sites.v and this proof no longer checks *)
Theorem C20_repo_sites_safe : Forall (fun s => forall dev cwd tmpdir sh B f h g chunks pieces,
    safe_publish FINAL (site_trace s dev cwd tmpdir sh B f h g chunks pieces) = true) sites.
Proof. exact repo_sites_safe. Qed.
Print Assumptions C20_repo_sites_safe.

Theorem C20_repo_sites_found : length sites = 3.
Proof. exact repo_sites_nonempty. Qed.
Print Assumptions C20_repo_sites_found.

(* ---- SHORT WRITES: write(2) stores fewer bytes than asked and reports the count, no error (almost full disk, quota,
   file-size limit).  In a trace this is just a Write op with fewer bytes (C20_write_granularity_irrelevant); what it
   changes is the producer.  wres = outcome of one write call (all / only k bytes / error); write_all = the loop of
   CPython's io stack (call write(2) with what is left until nothing is left or a call fails);
   producer_checked = open temp, write_all, close, rename only when write_all succeeded (status.py as it is);
   producer_unchecked = one os.write whose result is ignored, fsync, close, rename (seeded/C20-8). (ModelShort.v) *)

(* the write-all producer is in the proved language for every payload and EVERY sequence of write outcomes *)
Theorem C20_short_write_checked_accepted : forall f payload outs,
  safe_publish FINAL (producer_checked f payload outs) = true.
Proof. exact short_checked_accepted. Qed.
Print Assumptions C20_short_write_checked_accepted.

(* ... after the complete run FINAL holds exactly the payload when every byte was stored and is untouched when a call
   failed, however many calls were cut short before *)
Theorem C20_short_write_checked_publishes : forall f payload outs s0,
  names s0 TEMP = None -> fds s0 f = None -> (forall i, names s0 FINAL = Some i -> i < next s0) ->
  content_at (run (producer_checked f payload outs) s0) FINAL =
  if snd (write_all f payload outs) then Some payload else content_at s0 FINAL.
Proof. exact short_checked_publishes. Qed.
Print Assumptions C20_short_write_checked_publishes.

(* ... and every killed prefix of it shows absent / old / a published complete version *)
Theorem C20_short_write_checked_crash_safe : forall f payload outs s0,
  quiescent s0 ->
  forall k, let s := run (firstn k (producer_checked f payload outs)) s0 in
    content_at s FINAL = None \/ content_at s FINAL = content_at s0 FINAL \/
    exists c, content_at s FINAL = Some c /\ published_before FINAL (producer_checked f payload outs) s0 k c.
Proof. exact short_checked_crash_safe. Qed.
Print Assumptions C20_short_write_checked_crash_safe.

(* the unchecked single write: the recogniser ACCEPTS its trace for every outcome (nobody writes to FINAL, the temp
   file is closed before the rename) - the recogniser speaks about who writes where, not about what was meant ... *)
Theorem C20_short_write_unchecked_accepted : forall f payload r,
  safe_publish FINAL (producer_unchecked f payload r) = true.
Proof. exact short_unchecked_accepted. Qed.
Print Assumptions C20_short_write_unchecked_accepted.

(* ... and yet ONE short write makes it publish a strict prefix of the payload, with no failed syscall in the trace:
   this regression class is the reader oracle's (run under real short writes), not the recogniser's *)
Theorem C20_short_write_unchecked_refuted : forall f payload k s0,
  names s0 TEMP = None -> fds s0 f = None -> k < length payload ->
  content_at (run (producer_unchecked f payload (WShort k)) s0) FINAL = Some (firstn k payload) /\
  firstn k payload <> payload /\
  Forall (fun o => match o with Write _ _ false | Close _ false | Rename _ _ false | Fsync _ false => False | _ => True end)
         (producer_unchecked f payload (WShort k)).
Proof. exact short_unchecked_exposes_prefix. Qed.
Print Assumptions C20_short_write_unchecked_refuted.

(* a FAILING write is handled by the unchecked form too (os.write raises): the seed only shows under short writes *)
Theorem C20_short_write_unchecked_error_safe : forall f payload s0,
  names s0 TEMP = None -> fds s0 f = None -> (forall i, names s0 FINAL = Some i -> i < next s0) ->
  content_at (run (producer_unchecked f payload WErr) s0) FINAL = content_at s0 FINAL.
Proof. exact short_unchecked_error_safe. Qed.
Print Assumptions C20_short_write_unchecked_error_safe.

(* the recogniser's verdict does not depend on how many bytes a write stored or whether it succeeded; the soundness
   theorem quantifies over all traces with the bytes ACTUALLY written, so short writes are inside it unchanged *)
Theorem C20_recogniser_blind_to_write_outcome : forall final t1 t2 f a b ok ok',
  safe_publish final (t1 ++ Write f a ok :: t2) = safe_publish final (t1 ++ Write f b ok' :: t2).
Proof. exact safe_publish_write_blind. Qed.
Print Assumptions C20_recogniser_blind_to_write_outcome.

(* the model's short write: the first k bytes are appended and the offset moves by k *)
Theorem C20_short_write_effect : forall s f i bs k,
  fds s f = Some (mkfd i true false (length (idata s i))) ->
  let s' := step s (Write f (firstn k bs) true) in
  idata s' i = idata s i ++ firstn k bs /\ names s' = names s /\
  fds s' f = Some (mkfd i true false (length (idata s i) + length (firstn k bs))).
Proof. exact short_write_effect. Qed.
Print Assumptions C20_short_write_effect.

(* non-vacuity: a 5-byte payload, the kernel stores 2 bytes, then 1, then the rest: three writes, payload published;
   2 bytes then an error: nothing published; the unchecked form with the first outcome alone publishes 2 bytes *)
Example C20_short_write_concrete :
  producer_checked 3%N [1; 2; 3; 4; 5]%N [WShort 2; WShort 1] =
    [Openat TEMP fl_w 3%N true; Write 3%N [1; 2]%N true; Write 3%N [3]%N true; Write 3%N [4; 5]%N true; Close 3%N true;
     Rename TEMP FINAL true] /\
  content_at (run (producer_checked 3%N [1; 2; 3; 4; 5]%N [WShort 2; WShort 1]) fs_old) FINAL = Some [1; 2; 3; 4; 5]%N /\
  content_at (run (producer_checked 3%N [1; 2; 3; 4; 5]%N [WShort 2; WErr]) fs_old) FINAL = Some old_bytes /\
  content_at (run (producer_unchecked 3%N [1; 2; 3; 4; 5]%N (WShort 2)) fs_old) FINAL = Some [1; 2]%N.
Proof. vm_compute. repeat split. Qed.
Print Assumptions C20_short_write_concrete.
