(* C20 — concrete traces used by the examples of Properties.v (executable definitions only).
   The file-system model itself is C20/FsTrace.v.  Paths: 0 = FINAL, 1 = TEMP. *)
From Coq Require Import List NArith Bool.
From MW Require Import C20.FsTrace.
Import ListNotations.
Local Open Scope N_scope.

Definition FINAL : path := 0.
Definition TEMP : path := 1.
Definition old_bytes : bytes := [9; 9; 9].
Definition fs_old : fs := mk_fs [(FINAL, old_bytes)].
Definition fs_empty : fs := mk_fs [].

Definition fl_mkstemp := mkfl RdWr true true false false.     (* O_RDWR|O_CREAT|O_EXCL       *)
Definition fl_wplus   := mkfl RdWr true false true false.     (* "w+b": O_RDWR|O_CREAT|O_TRUNC *)
Definition fl_w       := mkfl WrOnly true false true false.   (* "w" : O_WRONLY|O_CREAT|O_TRUNC *)

(* zipfile-like: mkstemp + close, reopen "w+b", header with a zero CRC + data, seek back and patch
   the header, a pwrite behind a hole, a write into the hole, ftruncate, fsync, close, rename
   (buildzip.py:204-214 with zipfile's seeks, cf. the strace log in the tie) *)
Definition zip_trace : list op :=
  [ Openat TEMP fl_mkstemp 3 true; Close 3 true;
    Openat TEMP fl_wplus 3 true;
    Write 3 [80; 75; 0; 0; 1; 2] true;
    Lseek 3 0 true;
    Write 3 [80; 75; 7; 7] true;
    Lseek 3 6 true;
    Pwrite 3 8 [5; 6] true;
    Write 3 [3] true;
    Ftruncate 3 11 true;
    Fsync 3 true;
    Close 3 true;
    Rename TEMP FINAL true ].
Definition zip_bytes : bytes := [80; 75; 7; 7; 1; 2; 3; 0; 5; 6; 0].

(* Status.dump twice (status.py:119-122): two publishes in one trace *)
Definition status_trace : list op :=
  [ Openat TEMP fl_w 3 true; Write 3 [1; 2] true; Close 3 true; Rename TEMP FINAL true;
    Openat TEMP fl_w 3 true; Write 3 [4; 5; 6] true; Close 3 true; Rename TEMP FINAL true ].

(* ENOSPC on the second write: the producer closes and removes the temp file *)
Definition enospc_trace : list op :=
  [ Openat TEMP fl_wplus 3 true; Write 3 [1; 2] true; Write 3 [3; 4] false; Close 3 true; Unlink TEMP true ].

(* open(final, "w"); write; write; close *)
Definition direct_trace : list op :=
  [ Openat FINAL fl_w 3 true; Write 3 [1; 2] true; Write 3 [3; 4] true; Close 3 true ].

(* rename while the temp file is still open for writing, then keep writing *)
Definition early_rename_trace : list op :=
  [ Openat TEMP fl_w 3 true; Write 3 [1; 2] true; Rename TEMP FINAL true; Write 3 [3; 4] true; Close 3 true ].

(* what a reader sees at FINAL after each prefix of t *)
Definition views (t : list op) (s0 : fs) : list (option bytes) :=
  map (fun k => content_at (run (firstn k t) s0) FINAL) (seq 0 (S (length t))).

(* ------------------------------------------------------------------ a producer with a user-space buffer ------ *)
(* What a kill loses is the user-space buffer of the file object; the syscall trace is all the file system sees.
   bw_ops: the write(2) calls a buffered file object of capacity B issues on descriptor f while the program writes
   `chunks` into it, starting with `buf` pending (CPython Modules/_io/bufferedio.c _io_BufferedWriter_write_impl,
   as used by open(temp_path, "wb") in network/transport.py:69-72 and by the text layer of status.py:120-121):
   data that still fits stays in user space; otherwise the pending bytes are flushed first, then data of at least
   B bytes is written through and shorter data becomes the new pending buffer.
   Result: (syscalls issued, bytes still pending in user space). *)
Fixpoint bw_ops (B : nat) (f : fdnum) (buf : bytes) (chunks : list bytes) : list op * bytes :=
  match chunks with
  | [] => ([], buf)
  | c :: cs =>
      if Nat.leb (length buf + length c) B then bw_ops B f (buf ++ c) cs
      else
        let pre := match buf with [] => [] | _ => [Write f buf true] end in
        if Nat.leb B (length c)
        then (pre ++ Write f c true :: fst (bw_ops B f [] cs), snd (bw_ops B f [] cs))
        else (pre ++ fst (bw_ops B f c cs), snd (bw_ops B f c cs))
  end.

(* close() of the file object: flush what is pending, then close(2) *)
Definition flush_ops (f : fdnum) (buf : bytes) : list op :=
  match buf with [] => [] | _ => [Write f buf true] end.

(* bytes handed to write(2) by a list of ops *)
Fixpoint written (t : list op) : bytes :=
  match t with
  | Write _ bs true :: t' => bs ++ written t'
  | _ :: t' => written t'
  | [] => []
  end.

(* transport.py:65-73 + :124-125 as it is: open temp, write the chunks, leave the with-block (flush + close), rename *)
Definition producer_ok (B : nat) (f : fdnum) (chunks : list bytes) : list op :=
  Openat TEMP fl_w f true :: fst (bw_ops B f [] chunks) ++ flush_ops f (snd (bw_ops B f [] chunks)) ++
  [Close f true; Rename TEMP FINAL true].

(* the regression of seeded/C20-3: the rename sits inside the with-block, before flush + close *)
Definition early_prefix (B : nat) (f : fdnum) (chunks : list bytes) : list op :=
  Openat TEMP fl_w f true :: fst (bw_ops B f [] chunks) ++ [Rename TEMP FINAL true].
Definition producer_early (B : nat) (f : fdnum) (chunks : list bytes) : list op :=
  early_prefix B f chunks ++ flush_ops f (snd (bw_ops B f [] chunks)) ++ [Close f true].
