(* C13 — values (in-memory metabook objects and JSON values share one type) and finite maps as
   key-sorted association lists.  Definitions only. *)
From Coq Require Import List NArith ZArith Bool.
From MW Require Import Common.Str.
Import ListNotations.

(* VObj = an instance of a MetabookObject subclass: class name + __dict__ minus the `type` entry.
   A JSON value is a val without VObj / VErr.  VErr marks "the real call raises". *)
Inductive val :=
| VNull
| VBool (b : bool)
| VInt (z : Z)
| VStr (s : str)
| VList (l : list val)
| VDict (kvs : list (str * val))
| VObj (cname : str) (fields : list (str * val))
| VErr.

(* lexicographic order on code-point lists = Python's str order = the order of sort_keys *)
Fixpoint scmp (a b : str) : comparison :=
  match a, b with
  | [], [] => Eq
  | [], _ :: _ => Lt
  | _ :: _, [] => Gt
  | x :: a', y :: b' => match N.compare x y with Eq => scmp a' b' | c => c end
  end.

Fixpoint assoc {A} (k : str) (l : list (str * A)) : option A :=
  match l with
  | [] => None
  | (k', v) :: r => if str_eqb k k' then Some v else assoc k r
  end.

(* insert / replace in a key-sorted list *)
Fixpoint ins {A} (k : str) (v : A) (l : list (str * A)) : list (str * A) :=
  match l with
  | [] => [(k, v)]
  | (k', v') :: r =>
      match scmp k k' with
      | Lt => (k, v) :: l
      | Eq => (k, v) :: r
      | Gt => (k', v') :: ins k v r
      end
  end.

Fixpoint remove {A} (k : str) (l : list (str * A)) : list (str * A) :=
  match l with
  | [] => []
  | (k', v) :: r => if str_eqb k k' then remove k r else (k', v) :: remove k r
  end.

Definition has_key {A} (k : str) (l : list (str * A)) : bool :=
  match assoc k l with Some _ => true | None => false end.

(* strictly increasing keys *)
Fixpoint sorted_from {A} (k : str) (l : list (str * A)) : bool :=
  match l with
  | [] => true
  | (k', _) :: r => match scmp k k' with Lt => sorted_from k' r | _ => false end
  end.

Definition sorted {A} (l : list (str * A)) : bool :=
  match l with [] => true | (k, _) :: r => sorted_from k r end.

(* build a sorted map from any association list (later entries win, like dict(...)) *)
Definition of_list {A} (l : list (str * A)) : list (str * A) :=
  fold_left (fun acc kv => ins (fst kv) (snd kv) acc) l [].
