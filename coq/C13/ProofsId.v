(* C13 — wfb is sound; to_json factors through nf; the collection-id pre-image. *)
From Coq Require Import List NArith ZArith Bool Lia.
From MW Require Import Common.Str C13.Val C13.Gen_classes C13.Model C13.Wf C13.Proofs C13.ProofsRT.
Import ListNotations.

Lemma class_okb_spec c : class_okb c = true -> class_ok c.
Proof.
  unfold class_okb, class_ok. rewrite existsb_exists. intros ([low [n defs]] & Hin & E).
  cbn in E. apply str_eqb_spec in E. subst n. eauto.
Qed.

Lemma wfb_spec v : wfb v = true -> wf v.
Proof.
  induction v as [| b | z | s | l IH | kvs IH | c f IH | ] using val_ind'; cbn [wfb]; intros H; try constructor; try discriminate.
  - rewrite forallb_forall in H. rewrite Forall_forall in *. intros x Hx. apply IH; auto.
  - apply andb_true_iff in H as [H _]. apply negb_true_iff in H. exact H.
  - apply andb_true_iff in H as [_ H].
    induction IH as [|[k x] r Hx _ IHr]; constructor.
    + cbn in *. apply andb_true_iff in H as [H _]. auto.
    + apply IHr. apply andb_true_iff in H as [_ H]. exact H.
  - rewrite !andb_true_iff in H. destruct H as [[[[H _] _] _] _]. apply class_okb_spec, H.
  - rewrite !andb_true_iff in H. destruct H as [[[[_ H] _] _] _]. apply negb_true_iff in H. exact H.
  - rewrite !andb_true_iff in H. destruct H as [[[_ H] _] _]. apply negb_true_iff in H. exact H.
  - rewrite !andb_true_iff in H. destruct H as [[_ H] _]. exact H.
  - rewrite !andb_true_iff in H. destruct H as [_ H].
    induction IH as [|[k x] r Hx _ IHr]; constructor.
    + cbn in *. apply andb_true_iff in H as [H _]. auto.
    + apply IHr. apply andb_true_iff in H as [_ H]. exact H.
Qed.

(* nf keeps nullness, and to_json only looks at the normal form *)
Lemma nf_null v : is_null (nf v) = is_null v.
Proof. destruct v; reflexivity. Qed.

Lemma to_json_nf v : to_json (nf v) = to_json v.
Proof.
  induction v as [| b | z | s | l IH | kvs IH | c f IH | ] using val_ind'; try reflexivity.
  - rewrite nf_list, !to_json_list, map_map. f_equal. apply map_ext_in. intros x Hx. rewrite Forall_forall in IH. auto.
  - rewrite nf_dict, !to_json_dict, map_vals_comp. f_equal. apply map_vals_ext. exact IH.
  - rewrite nf_obj, !to_json_obj. do 2 f_equal. rewrite kept_kept.
    + apply kept_map_ext. exact IH.
    + apply Forall_forall. intros kv _. apply nf_null.
Qed.

Corollary nf_to_json v1 v2 : nf v1 = nf v2 -> to_json v1 = to_json v2.
Proof. intros E. rewrite <- (to_json_nf v1), <- (to_json_nf v2), E. reflexivity. Qed.

Section Id.
  Variable dumps : val -> str.
  Variable hexH : str -> str.
  Variable repr : option str -> str.
  Variable version : str.
  (* repr of None / of a str is self-delimiting *)
  Hypothesis repr_pf : forall a b x y, repr a ++ x = repr b ++ y -> a = b.
  (* a hex digest is never empty (it has 64 characters) *)
  Hypothesis hexH_nonempty : forall s, hexH s <> [].

  Definition pre := id_preimage dumps hexH repr version.

  (* the request's metabook text parses to j = to_json m: the checksum is taken of the re-serialisation *)
  Lemma pre_dumped b e l m :
    wf m -> pre b e l (Some (to_json m)) = Some (version ++ repr b ++ repr e ++ repr l ++ hexH (dumps (to_json m))).
  Proof.
    intros W. unfold pre, id_preimage. rewrite (loads_dumped m W), (fixed_point m W).
    rewrite <- !app_assoc. reflexivity.
  Qed.

  Lemma pre_invariant b e l m :
    wf m -> pre b e l (Some (to_json (of_json (to_json m)))) = pre b e l (Some (to_json m)).
  Proof. intros W. rewrite (fixed_point m W). reflexivity. Qed.

  Lemma pre_same_metabook b e l m1 m2 :
    wf m1 -> wf m2 -> nf m1 = nf m2 -> pre b e l (Some (to_json m1)) = pre b e l (Some (to_json m2)).
  Proof. intros W1 W2 E. rewrite (nf_to_json m1 m2 E). reflexivity. Qed.

  Lemma heads_eq b1 e1 l1 t1 b2 e2 l2 t2 :
    version ++ repr b1 ++ repr e1 ++ repr l1 ++ t1 = version ++ repr b2 ++ repr e2 ++ repr l2 ++ t2 ->
    b1 = b2 /\ e1 = e2 /\ l1 = l2 /\ t1 = t2.
  Proof.
    intros H. apply app_inv_head in H.
    pose proof (repr_pf _ _ _ _ H) as ->. apply app_inv_head in H.
    pose proof (repr_pf _ _ _ _ H) as ->. apply app_inv_head in H.
    pose proof (repr_pf _ _ _ _ H) as ->. apply app_inv_head in H. auto.
  Qed.

  Lemma pre_separates b1 e1 l1 m1 b2 e2 l2 m2 :
    wf m1 -> wf m2 ->
    pre b1 e1 l1 (Some (to_json m1)) = pre b2 e2 l2 (Some (to_json m2)) ->
    (* sha256 does not collide on the two dumps *)
    (hexH (dumps (to_json m1)) = hexH (dumps (to_json m2)) -> dumps (to_json m1) = dumps (to_json m2)) ->
    (* the JSON printer does not print the two values alike *)
    (dumps (to_json m1) = dumps (to_json m2) -> to_json m1 = to_json m2) ->
    b1 = b2 /\ e1 = e2 /\ l1 = l2 /\ nf m1 = nf m2.
  Proof.
    intros W1 W2 H HH HD. rewrite (pre_dumped _ _ _ m1 W1), (pre_dumped _ _ _ m2 W2) in H.
    injection H as H. destruct (heads_eq _ _ _ _ _ _ _ _ H) as (-> & -> & -> & T).
    repeat split. apply to_json_inj; auto.
  Qed.

  Lemma pre_separates_absent b1 e1 l1 b2 e2 l2 m :
    wf m -> pre b1 e1 l1 None <> pre b2 e2 l2 (Some (to_json m)).
  Proof.
    intros W H. rewrite (pre_dumped _ _ _ m W) in H. unfold pre, id_preimage in H. injection H as H.
    rewrite <- ?app_assoc in H.
    replace (version ++ repr b1 ++ repr e1 ++ repr l1) with (version ++ repr b1 ++ repr e1 ++ repr l1 ++ []) in H
      by (rewrite app_nil_r; reflexivity).
    destruct (heads_eq _ _ _ _ _ _ _ _ H) as (_ & _ & _ & T). symmetry in T. exact (hexH_nonempty _ T).
  Qed.

  Lemma pre_separates_params b1 e1 l1 b2 e2 l2 :
    pre b1 e1 l1 None = pre b2 e2 l2 None -> b1 = b2 /\ e1 = e2 /\ l1 = l2.
  Proof.
    unfold pre, id_preimage. intros H. injection H as H. rewrite <- ?app_assoc in H.
    assert (H' : version ++ repr b1 ++ repr e1 ++ repr l1 ++ [] = version ++ repr b2 ++ repr e2 ++ repr l2 ++ [])
      by (rewrite !app_nil_r; exact H).
    destruct (heads_eq _ _ _ _ _ _ _ _ H') as (-> & -> & -> & _). auto.
  Qed.
End Id.

Lemma to_json_faithful m1 m2 : wf m1 -> wf m2 -> (to_json m1 = to_json m2 <-> nf m1 = nf m2).
Proof. intros W1 W2. split; [exact (to_json_inj m1 m2 W1 W2)|exact (nf_to_json m1 m2)]. Qed.

Lemma id_invariant_full dumps hexH repr version b e l m :
  wf m ->
  id_preimage dumps hexH repr version b e l (Some (to_json m))
    = Some (version ++ repr b ++ repr e ++ repr l ++ hexH (dumps (to_json m))) /\
  id_preimage dumps hexH repr version b e l (Some (to_json (of_json (to_json m))))
    = id_preimage dumps hexH repr version b e l (Some (to_json m)) /\
  (forall m', wf m' -> nf m = nf m' ->
     id_preimage dumps hexH repr version b e l (Some (to_json m')) = id_preimage dumps hexH repr version b e l (Some (to_json m))).
Proof.
  intros W. split; [exact (pre_dumped dumps hexH repr version b e l m W)|].
  split; [exact (pre_invariant dumps hexH repr version b e l m W)|].
  intros m' W' E. symmetry. exact (pre_same_metabook dumps hexH repr version b e l m m' W W' E).
Qed.

(* an instance of the repr hypothesis (non-vacuity): tag + self-delimiting body *)
Definition enc_ex (s : str) : str := flat_map (fun c => [2%N; c]) s ++ [3%N].
Definition repr_ex (o : option str) : str := match o with None => [0%N] | Some s => 1%N :: enc_ex s end.

Lemma enc_ex_pf a : forall b x y, enc_ex a ++ x = enc_ex b ++ y -> a = b.
Proof.
  unfold enc_ex. induction a as [|c a IH]; intros [|d b] x y H; cbn in H.
  - reflexivity.
  - inversion H.
  - inversion H.
  - injection H as H1 H2. subst d. f_equal. eapply IH. exact H2.
Qed.

Lemma repr_ex_pf a b x y : repr_ex a ++ x = repr_ex b ++ y -> a = b.
Proof.
  destruct a as [a|], b as [b|]; cbn; intros H; inversion H; [|reflexivity].
  f_equal. eapply enc_ex_pf. eassumption.
Qed.
