(* C13 — lemmas: maps, round trip and fixed point of to_json / of_json. *)
From Coq Require Import List NArith ZArith Bool Lia.
From MW Require Import Common.Str C13.Val C13.Gen_classes C13.Model.
Import ListNotations.

(* ------------------------------------------------------------------ induction over nested values *)

Section ValInd.
  Variable P : val -> Prop.
  Hypothesis Hnull : P VNull.
  Hypothesis Hbool : forall b, P (VBool b).
  Hypothesis Hint : forall z, P (VInt z).
  Hypothesis Hstr : forall s, P (VStr s).
  Hypothesis Hlist : forall l, Forall P l -> P (VList l).
  Hypothesis Hdict : forall kvs, Forall (fun kv => P (snd kv)) kvs -> P (VDict kvs).
  Hypothesis Hobj : forall c f, Forall (fun kv => P (snd kv)) f -> P (VObj c f).
  Hypothesis Herr : P VErr.

  Fixpoint val_ind' (v : val) : P v :=
    match v with
    | VNull => Hnull
    | VBool b => Hbool b
    | VInt z => Hint z
    | VStr s => Hstr s
    | VList l => Hlist l ((fix go (l : list val) : Forall P l :=
                             match l with [] => Forall_nil _ | x :: r => Forall_cons _ (val_ind' x) (go r) end) l)
    | VDict kvs => Hdict kvs ((fix go (l : list (str * val)) : Forall (fun kv => P (snd kv)) l :=
                                 match l with [] => Forall_nil _ | (k, x) :: r => Forall_cons (k, x) (val_ind' x) (go r) end) kvs)
    | VObj c f => Hobj c f ((fix go (l : list (str * val)) : Forall (fun kv => P (snd kv)) l :=
                               match l with [] => Forall_nil _ | (k, x) :: r => Forall_cons (k, x) (val_ind' x) (go r) end) f)
    | VErr => Herr
    end.
End ValInd.

(* ------------------------------------------------------------------ association lists *)

Lemma scmp_eq a b : scmp a b = Eq <-> a = b.
Proof.
  revert b. induction a as [|x a IH]; intros [|y b]; cbn; split; intro H; try discriminate; try reflexivity.
  - destruct (N.compare_spec x y) as [->|?|?]; try discriminate. apply IH in H. congruence.
  - inversion H; subst. rewrite N.compare_refl. apply IH. reflexivity.
Qed.

Lemma scmp_refl a : scmp a a = Eq.
Proof. apply scmp_eq. reflexivity. Qed.

Lemma str_eqb_scmp a b : str_eqb a b = match scmp a b with Eq => true | _ => false end.
Proof.
  destruct (scmp a b) eqn:E.
  - apply scmp_eq in E. subst. apply str_eqb_refl.
  - apply str_eqb_false. intros ->. rewrite scmp_refl in E. discriminate.
  - apply str_eqb_false. intros ->. rewrite scmp_refl in E. discriminate.
Qed.

Lemma str_eqb_sym a b : str_eqb a b = str_eqb b a.
Proof.
  destruct (str_eqb a b) eqn:E.
  - apply str_eqb_spec in E. subst. symmetry. apply str_eqb_refl.
  - symmetry. apply str_eqb_false. apply str_eqb_false in E. congruence.
Qed.

Lemma assoc_ins {A} k (v : A) l k' :
  assoc k' (ins k v l) = if str_eqb k' k then Some v else assoc k' l.
Proof.
  induction l as [|[k0 v0] l IH]; cbn.
  - reflexivity.
  - destruct (scmp k k0) eqn:E; cbn.
    + apply scmp_eq in E. subst k0. destruct (str_eqb k' k); reflexivity.
    + reflexivity.
    + rewrite IH. destruct (str_eqb k' k0) eqn:E0; [|reflexivity].
      apply str_eqb_spec in E0. subst k0.
      destruct (str_eqb k' k) eqn:E1; [|reflexivity].
      apply str_eqb_spec in E1. subst k'. rewrite scmp_refl in E. discriminate.
Qed.

Lemma has_key_ins {A} k (v : A) l k' : has_key k' (ins k v l) = str_eqb k' k || has_key k' l.
Proof. unfold has_key. rewrite assoc_ins. destruct (str_eqb k' k); reflexivity. Qed.

Lemma remove_absent {A} k (l : list (str * A)) : has_key k l = false -> remove k l = l.
Proof.
  unfold has_key. induction l as [|[k0 v0] l IH]; cbn; [reflexivity|].
  destruct (str_eqb k k0); [discriminate|]. intros H. rewrite IH; [reflexivity|exact H].
Qed.

Lemma remove_ins {A} k (v : A) l : has_key k l = false -> remove k (ins k v l) = l.
Proof.
  unfold has_key. induction l as [|[k0 v0] l IH]; cbn.
  - rewrite str_eqb_refl. reflexivity.
  - destruct (str_eqb k k0) eqn:E0; [discriminate|]. intros H.
    rewrite str_eqb_scmp in E0.
    destruct (scmp k k0) eqn:E; try discriminate; cbn; rewrite ?str_eqb_refl.
    + rewrite str_eqb_scmp, E. rewrite remove_absent; [reflexivity|]. unfold has_key. exact H.
    + rewrite str_eqb_scmp, E. rewrite IH; [reflexivity|exact H].
Qed.

(* map over the values of an association list *)
Definition map_vals (h : val -> val) (l : list (str * val)) : list (str * val) :=
  map (fun kv => (fst kv, h (snd kv))) l.

Lemma assoc_map_vals h l k : assoc k (map_vals h l) = option_map h (assoc k l).
Proof.
  induction l as [|[k0 v0] l IH]; cbn; [reflexivity|]. destruct (str_eqb k k0); [reflexivity|exact IH].
Qed.

Lemma has_key_map_vals h l k : has_key k (map_vals h l) = has_key k l.
Proof. unfold has_key. rewrite assoc_map_vals. destruct (assoc k l); reflexivity. Qed.

Lemma map_vals_ins h k v l : map_vals h (ins k v l) = ins k (h v) (map_vals h l).
Proof.
  unfold map_vals. induction l as [|[k0 v0] l IH]; cbn [map ins fst snd]; [reflexivity|].
  destruct (scmp k k0); cbn [map fst snd]; [reflexivity|reflexivity|]. rewrite IH. reflexivity.
Qed.

(* the entries _json keeps, with h applied to the values *)
Fixpoint kept_map (c : str) (h : val -> val) (l : list (str * val)) : list (str * val) :=
  match l with
  | [] => []
  | (k, x) :: r => if keep c k x then (k, h x) :: kept_map c h r else kept_map c h r
  end.

Lemma has_key_kept c h l k : has_key k (kept_map c h l) = true -> has_key k l = true.
Proof.
  unfold has_key. induction l as [|[k0 v0] l IH]; cbn; [discriminate|].
  destruct (keep c k0 v0); cbn; destruct (str_eqb k k0); auto.
Qed.

Lemma kept_map_ext c h h' l :
  Forall (fun kv => h (snd kv) = h' (snd kv)) l -> kept_map c h l = kept_map c h' l.
Proof.
  induction 1 as [|[k x] l Hx _ IH]; cbn; [reflexivity|]. cbn in Hx. rewrite Hx, IH. reflexivity.
Qed.

(* inserting an entry that is then dropped *)
Lemma kept_map_ins_dropped c h k v l :
  has_key k l = false -> keep c k v = false -> kept_map c h (ins k v l) = kept_map c h l.
Proof.
  unfold has_key. intros Hk Hd. induction l as [|[k0 v0] l IH]; cbn.
  - rewrite Hd. reflexivity.
  - cbn in Hk. destruct (str_eqb k k0) eqn:E0; [discriminate|].
    rewrite str_eqb_scmp in E0.
    destruct (scmp k k0) eqn:E; try discriminate; cbn; rewrite ?Hd; [reflexivity|].
    rewrite IH; [reflexivity|exact Hk].
Qed.

(* to_json / of_json in terms of the list combinators *)
Lemma to_json_obj c f : to_json (VObj c f) = VDict (ins k_type (VStr c) (kept_map c to_json f)).
Proof.
  cbn [to_json]. do 2 f_equal. induction f as [|[k x] f IH]; [reflexivity|]. cbn [kept_map]. rewrite IH. reflexivity.
Qed.

Lemma to_json_dict kvs : to_json (VDict kvs) = VDict (map_vals to_json kvs).
Proof. cbn [to_json]. f_equal. induction kvs as [|[k x] r IH]; [reflexivity|]. cbn. rewrite IH. reflexivity. Qed.

Lemma of_json_dict kvs : of_json (VDict kvs) = object_hook (map_vals of_json kvs).
Proof. cbn [of_json]. f_equal. induction kvs as [|[k x] r IH]; [reflexivity|]. cbn. rewrite IH. reflexivity. Qed.

(* ------------------------------------------------------------------ facts about the generated class table *)

(* c is the name of a class object_hook can build *)
Definition class_ok (c : str) : Prop := exists low defs, In (low, (c, defs)) classes.

Definition default_ok (kd : str * val) : bool :=
  negb (starts_us (fst kd)) && negb (is_null (snd kd)) && negb (has_err (snd kd)).

(* re-checked against the regenerated table on every run (finite case analysis) *)
Lemma class_facts c :
  class_ok c ->
  assoc (lower c) classes = Some (c, defaults_of c) /\
  has_key k_image (defaults_of c) = false /\ has_key k_type (defaults_of c) = false /\
  forallb default_ok (defaults_of c) = true.
Proof.
  intros (low & defs & H). unfold classes in H. cbn [In] in H.
  repeat (destruct H as [H|H]; [inversion H; subst; vm_compute; repeat split|]).
  contradiction.
Qed.
