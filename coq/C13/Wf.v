(* C13 — executable version of the well-formedness predicate (definitions only; extracted so that the
   harness can measure how many sampled states lie in the theorems' domain). *)
From Coq Require Import List NArith ZArith Bool.
From MW Require Import Common.Str C13.Val C13.Gen_classes C13.Model.
Import ListNotations.

Definition class_okb (c : str) : bool := existsb (fun e => str_eqb (fst (snd e)) c) classes.

Fixpoint wfb (v : val) : bool :=
  match v with
  | VObj c f =>
      class_okb c && negb (has_key k_type f) && negb (has_key k_self f)
      && forallb (fun kd => has_key (fst kd) f) (defaults_of c)
      && (fix all (l : list (str * val)) : bool := match l with [] => true | (_, x) :: r => wfb x && all r end) f
  | VDict kvs =>
      negb (has_key k_type kvs)
      && (fix all (l : list (str * val)) : bool := match l with [] => true | (_, x) :: r => wfb x && all r end) kvs
  | VList l => forallb wfb l
  | VErr => false
  | _ => true
  end.

(* a JSON value in canonical form *)
Fixpoint jcanon (v : val) : bool :=
  match v with
  | VObj _ _ | VErr => false
  | VDict kvs =>
      sorted kvs && (fix all (l : list (str * val)) : bool := match l with [] => true | (_, x) :: r => jcanon x && all r end) kvs
  | VList l => forallb jcanon l
  | _ => true
  end.

(* a metabook value all of whose maps are key-sorted (the model's constructors only build such) *)
Fixpoint msorted (v : val) : bool :=
  match v with
  | VErr => false
  | VObj _ f =>
      sorted f && (fix all (l : list (str * val)) : bool := match l with [] => true | (_, x) :: r => msorted x && all r end) f
  | VDict kvs =>
      sorted kvs && (fix all (l : list (str * val)) : bool := match l with [] => true | (_, x) :: r => msorted x && all r end) kvs
  | VList l => forallb msorted l
  | _ => true
  end.

