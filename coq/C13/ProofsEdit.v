(* C13 — in-place edits of a live metabook (ModelEdit.v) keep it inside the theorems' domain, at any depth; hence the
   round trip / fixed point hold at every moment of an object's life, and its checksum -- a function of to_json alone --
   changes between two moments exactly when the dumped JSON value (equivalently: the normal form) changes. *)
From Coq Require Import List NArith ZArith Bool Arith Lia.
From MW Require Import Common.Str C13.Val C13.Gen_classes C13.Model C13.ModelEdit C13.Proofs C13.ProofsRT C13.ProofsId C13.ProofsApi.
Import ListNotations.

Definition key_ok (k : str) : Prop := str_eqb k_type k = false /\ str_eqb k_self k = false.

(* the values put into the metabook are wf, no attribute / dict key called `type` or `self` is written *)
Definition edit_ok (e : edit) : Prop :=
  match e with
  | ESet k x => wf x /\ key_ok k
  | EAppend x => wf x
  | EInsert _ x => wf x
  | EPop _ => True
  | EReverse => True
  | EListAppend k x => wf x /\ key_ok k
  | EInner k _ k2 x => wf x /\ key_ok k /\ key_ok k2
  end.

Lemma obj_ins_wf c f k x : wf (VObj c f) -> wf x -> key_ok k -> wf (VObj c (ins k x f)).
Proof.
  intros Hv Hx [Ht Hs]. destruct (wf_obj_inv _ _ Hv) as (Hc & H1 & H2 & H3 & H4).
  constructor; [exact Hc| | | |apply vals_wf_ins; assumption].
  - rewrite has_key_ins, Ht. exact H1.
  - rewrite has_key_ins, Hs. exact H2.
  - apply forallb_has_key_ins. exact H3.
Qed.

Lemma items_key_ok : key_ok k_items.
Proof. split; reflexivity. Qed.

Lemma Forall_upd_nth {A} (P : A -> Prop) g : (forall x, P x -> P (g x)) ->
  forall l n, Forall P l -> Forall P (upd_nth n g l).
Proof.
  intros Hg. induction l as [|x l IH]; intros n H; [destruct n; constructor|].
  inversion H; subst. destruct n; cbn [upd_nth]; constructor; auto.
Qed.

Lemma Forall_insert_at {A} (P : A -> Prop) x : P x -> forall n l, Forall P l -> Forall P (insert_at n x l).
Proof.
  intros Hx. induction n as [|n IH]; intros l H; cbn [insert_at].
  - constructor; assumption.
  - destruct l as [|y r]; [constructor; [assumption|constructor]|]. inversion H; subst. constructor; auto.
Qed.

Lemma Forall_remove_nth {A} (P : A -> Prop) : forall l n, Forall P l -> Forall P (remove_nth n l).
Proof.
  induction l as [|x l IH]; intros n H; [destruct n; constructor|].
  inversion H; subst. destruct n; cbn [remove_nth]; [assumption|constructor; auto].
Qed.

Lemma wf_list_inv l : wf (VList l) -> Forall wf l.
Proof. intros H. inversion H; subst. assumption. Qed.

Lemma inner_set_wf k2 x y : wf y -> wf x -> key_ok k2 -> wf (inner_set k2 x y).
Proof.
  intros Hy Hx Hk. destruct y; cbn [inner_set]; try exact Hy.
  - inversion Hy; subst. destruct Hk as [Ht _]. constructor.
    + rewrite has_key_ins, Ht. assumption.
    + apply vals_wf_ins; assumption.
  - apply obj_ins_wf; assumption.
Qed.

Lemma apply_edit_wf e v : wf v -> edit_ok e -> wf (apply_edit e v).
Proof.
  intros Hv He. destruct v; try exact Hv. cbn [apply_edit].
  destruct (wf_obj_inv _ _ Hv) as (_ & _ & _ & _ & H4).
  destruct e as [k x|x|i x|i| |k x|k i k2 x]; cbn [edit_ok] in He.
  - destruct He as [Hx Hk]. apply obj_ins_wf; assumption.
  - destruct (assoc k_items fields) as [[| | | |l| | |]|] eqn:E; try exact Hv.
    pose proof (wf_list_inv _ (assoc_vals_wf _ _ _ H4 E)) as Hl.
    apply obj_ins_wf; [exact Hv| |exact items_key_ok]. constructor. apply Forall_app. split; [exact Hl|constructor; [exact He|constructor]].
  - destruct (assoc k_items fields) as [[| | | |l| | |]|] eqn:E; try exact Hv.
    pose proof (wf_list_inv _ (assoc_vals_wf _ _ _ H4 E)) as Hl.
    apply obj_ins_wf; [exact Hv| |exact items_key_ok]. constructor. apply Forall_insert_at; assumption.
  - destruct (assoc k_items fields) as [[| | | |[|y r]| | |]|] eqn:E; try exact Hv.
    pose proof (wf_list_inv _ (assoc_vals_wf _ _ _ H4 E)) as Hl.
    apply obj_ins_wf; [exact Hv| |exact items_key_ok]. constructor. apply Forall_remove_nth; assumption.
  - destruct (assoc k_items fields) as [[| | | |l| | |]|] eqn:E; try exact Hv.
    pose proof (wf_list_inv _ (assoc_vals_wf _ _ _ H4 E)) as Hl.
    apply obj_ins_wf; [exact Hv| |exact items_key_ok]. constructor. apply Forall_rev. exact Hl.
  - destruct He as [Hx Hk]. destruct (assoc k fields) as [[| | | |l| | |]|] eqn:E; try exact Hv.
    pose proof (wf_list_inv _ (assoc_vals_wf _ _ _ H4 E)) as Hl.
    apply obj_ins_wf; [exact Hv| |exact Hk]. constructor. apply Forall_app. split; [exact Hl|constructor; [exact Hx|constructor]].
  - destruct He as (Hx & Hk & Hk2). destruct (assoc k fields) as [[| | | |[|y r]|kvs|c' f'|]|] eqn:E; try exact Hv.
    + pose proof (wf_list_inv _ (assoc_vals_wf _ _ _ H4 E)) as Hl.
      apply obj_ins_wf; [exact Hv| |exact Hk]. constructor. apply Forall_upd_nth; [|exact Hl].
      intros z Hz. apply inner_set_wf; assumption.
    + apply obj_ins_wf; [exact Hv| |exact Hk]. apply inner_set_wf; [exact (assoc_vals_wf _ _ _ H4 E)|exact Hx|exact Hk2].
    + apply obj_ins_wf; [exact Hv| |exact Hk]. apply inner_set_wf; [exact (assoc_vals_wf _ _ _ H4 E)|exact Hx|exact Hk2].
Qed.

(* an in-place edit at ANY depth keeps a wf metabook wf *)
Lemma edit_at_wf e : edit_ok e -> forall path v, wf v -> wf (edit_at path e v).
Proof.
  intros He. induction path as [|i p IH]; intros v Hv; cbn [edit_at].
  - apply apply_edit_wf; assumption.
  - destruct v; try exact Hv.
    destruct (wf_obj_inv _ _ Hv) as (_ & _ & _ & _ & H4).
    destruct (assoc k_items fields) as [[| | | |[|y r]| | |]|] eqn:E; try exact Hv.
    pose proof (wf_list_inv _ (assoc_vals_wf _ _ _ H4 E)) as Hl.
    apply obj_ins_wf; [exact Hv| |exact items_key_ok]. constructor. apply Forall_upd_nth; [|exact Hl].
    intros z Hz. apply IH, Hz.
Qed.

(* ------------------------------------------------------------------ the life of one metabook object *)

Inductive xop :=
| XApi (o : bop)                              (* append_article / items.append(Class(..)) / setattr on the Collection *)
| XEdit (path : list nat) (e : edit).         (* in-place edit of the object reached through items[i % len].. *)

Definition xop_ok (o : xop) : Prop := match o with XApi o => bop_ok o | XEdit _ e => edit_ok e end.

Definition apply_xop (m : val) (o : xop) : val :=
  match o with XApi o => apply_bop m o | XEdit p e => edit_at p e m end.

Fixpoint live_from (m : val) (ops : list xop) : option val :=
  match ops with
  | [] => Some m
  | o :: r => let m' := apply_xop m o in if has_err m' then None else live_from m' r
  end.

Lemma live_from_wf ops : forall m m', wf m -> Forall xop_ok ops -> live_from m ops = Some m' -> wf m'.
Proof.
  induction ops as [|o ops IH]; intros m m' Hm Ho; cbn [live_from].
  - intros E. inversion E; subst. exact Hm.
  - inversion Ho; subst. destruct o as [o|p e]; cbn [apply_xop xop_ok] in *.
    + destruct (apply_bop_wf m o Hm H1) as [E|W]; [rewrite E; discriminate|].
      rewrite (wf_no_err _ W). apply IH; assumption.
    + pose proof (edit_at_wf e H1 p m Hm) as W. rewrite (wf_no_err _ W). apply IH; assumption.
Qed.

Lemma new_collection_wf kw0 : kw_ok kw0 -> wf (new_obj (lower k_Collection) kw0).
Proof.
  intros Hk. destruct (new_obj_wf (lower k_Collection) kw0 Hk) as [E|W]; [|exact W].
  exfalso. revert E. unfold new_obj. vm_compute. discriminate.
Qed.

(* every state in the life of a Collection -- API calls interleaved with in-place edits at any depth -- is wf, so the
   round trip and the fixed point hold for it *)
Lemma live_wf kw0 ops m :
  kw_ok kw0 -> Forall xop_ok ops -> live_from (new_obj (lower k_Collection) kw0) ops = Some m ->
  wf m /\ nf (of_json (to_json m)) = nf m /\ to_json (of_json (to_json m)) = to_json m.
Proof.
  intros Hk Ho E. pose proof (live_from_wf ops _ m (new_collection_wf kw0 Hk) Ho E) as W.
  split; [exact W|]. split; [apply roundtrip, W|apply fixed_point, W].
Qed.

(* two moments of one object's life (m1 after ops1, m2 after ops1 ++ ops2): unless sha256 collides on the two dumps or
   the JSON printer prints two different values alike, the checksums are equal iff the dumped JSON values are equal iff
   the metabooks are the same (nf) -- whatever was edited in between and however deep *)
Lemma checksum_over_life dumps hexH kw0 ops1 ops2 m1 m2 :
  kw_ok kw0 -> Forall xop_ok ops1 -> Forall xop_ok ops2 ->
  live_from (new_obj (lower k_Collection) kw0) ops1 = Some m1 -> live_from m1 ops2 = Some m2 ->
  (hexH (dumps (to_json m1)) = hexH (dumps (to_json m2)) -> dumps (to_json m1) = dumps (to_json m2)) ->
  (dumps (to_json m1) = dumps (to_json m2) -> to_json m1 = to_json m2) ->
  (checksum dumps hexH m1 = checksum dumps hexH m2 <-> to_json m1 = to_json m2) /\
  (checksum dumps hexH m1 = checksum dumps hexH m2 <-> nf m1 = nf m2).
Proof.
  intros Hk H1 H2 E1 E2 Hh Hd.
  pose proof (live_from_wf ops1 _ m1 (new_collection_wf kw0 Hk) H1 E1) as W1.
  pose proof (live_from_wf ops2 _ m2 W1 H2 E2) as W2.
  assert (A : checksum dumps hexH m1 = checksum dumps hexH m2 <-> to_json m1 = to_json m2).
  { unfold checksum. split; [intros H; apply Hd, Hh, H|intros H; rewrite H; reflexivity]. }
  split; [exact A|]. rewrite A. apply to_json_faithful; assumption.
Qed.

(* the checksum of the live object is the checksum of a fresh copy of its content (loads(dumps())), at every moment *)
Lemma checksum_of_fresh_copy dumps hexH kw0 ops m :
  kw_ok kw0 -> Forall xop_ok ops -> live_from (new_obj (lower k_Collection) kw0) ops = Some m ->
  loads (to_json m) = Some (of_json (to_json m)) /\
  checksum dumps hexH (of_json (to_json m)) = checksum dumps hexH m.
Proof.
  intros Hk Ho E. destruct (live_wf kw0 ops m Hk Ho E) as (W & _ & F).
  split; [apply loads_dumped, W|]. unfold checksum. rewrite F. reflexivity.
Qed.

(* non-vacuity: a book with a chapter of two articles; the revision of the second one is changed in place, the chapter's
   items are reversed, an article is appended to mb.items, a license dict is edited in place: every edit applies and
   every one changes the normal form *)
Definition k_revision : str := [114;101;118;105;115;105;111;110]%N.
Definition ex_ops1 : list xop :=
  [XApi (BAddItem (lower k_Chapter) [(k_title, VStr [67]%N)]); XApi (BAppend [65]%N None [(k_revision, VStr [49]%N)]);
   XApi (BAppend [66]%N None [])].
Definition ex_edits : list xop :=
  [XEdit [0; 3]%nat (ESet k_revision (VStr [50]%N));
   XEdit [0]%nat EReverse;
   XEdit [] (EAppend (new_obj (lower k_Article) [(k_title, VStr [68]%N)]));
   XEdit [2; 0]%nat (ESet k_title (VStr [69]%N))].

Lemma ex_live :
  Forall xop_ok ex_ops1 /\ Forall xop_ok ex_edits /\
  exists m1, live_from (new_obj (lower k_Collection) []) ex_ops1 = Some m1 /\
  forall n, (n < length ex_edits)%nat ->
    exists a b, live_from m1 (firstn n ex_edits) = Some a /\ live_from m1 (firstn (S n) ex_edits) = Some b /\ nf a <> nf b.
Proof.
  assert (WA : wf (new_obj (lower k_Article) [(k_title, VStr [68]%N)])).
  { destruct (new_obj_wf (lower k_Article) [(k_title, VStr [68]%N)]) as [E|W]; [|vm_compute in E; discriminate E|exact W].
    constructor; [|constructor]. cbn [fst snd]. split; [constructor|split; reflexivity]. }
  split.
  { unfold ex_ops1. constructor; [|constructor; [|constructor; [|constructor]]]; cbn [xop_ok bop_ok].
    - constructor; [|constructor]. cbn [fst snd]. split; [constructor|split; reflexivity].
    - constructor; [|constructor]. cbn [fst snd]. split; [constructor|split; reflexivity].
    - constructor. }
  split.
  - unfold ex_edits. constructor; [|constructor; [|constructor; [|constructor; [|constructor]]]]; cbn [xop_ok edit_ok].
    + split; [constructor|split; reflexivity].
    + exact I.
    + exact WA.
    + split; [constructor|split; reflexivity].
  - eexists. split; [vm_compute; reflexivity|].
    intros n Hn. cbn [length ex_edits] in Hn.
    destruct n as [|[|[|[|n]]]]; [| | | |exfalso; lia];
      (eexists; eexists; split; [vm_compute; reflexivity|split; [vm_compute; reflexivity|intro H; vm_compute in H; discriminate H]]).
Qed.
