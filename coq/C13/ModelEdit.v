(* C13 — executable model of IN-PLACE edits of a live metabook below (and at) the top level: what a consumer does
   between two calc_checksum / make_collection_id calls without going through Collection's own API
   (article.revision = .., chapter.title = .., chapter.items.reverse(), mb.items.append(..), mb.wikis.append(..),
   mb.licenses[0]["name"] = ..).  Mirrors vt/harness/c13_impl.py nav / apply_edit line by line: an edit that does not
   apply (no such item, attribute of another shape) is skipped.  Definitions only. *)
From Coq Require Import List NArith ZArith Bool Arith.
From MW Require Import Common.Str C13.Val C13.Gen_classes C13.Model.
Import ListNotations.

Inductive edit :=
| ESet (k : str) (x : val)                      (* setattr(target, k, x) *)
| EAppend (x : val)                             (* target.items.append(x) *)
| EInsert (i : nat) (x : val)                   (* target.items.insert(i % (len+1), x) *)
| EPop (i : nat)                                (* target.items.pop(i % len) *)
| EReverse                                      (* target.items.reverse() *)
| EListAppend (k : str) (x : val)               (* target.k.append(x), k list-valued *)
| EInner (k : str) (i : nat) (k2 : str) (x : val).
                                                (* y = target.k (or target.k[i % len] if a list); y[k2] = x (dict) / setattr(y, k2, x) *)

Fixpoint upd_nth {A} (n : nat) (g : A -> A) (l : list A) : list A :=
  match l, n with
  | [], _ => []
  | x :: r, O => g x :: r
  | x :: r, S n' => x :: upd_nth n' g r
  end.

Fixpoint insert_at {A} (n : nat) (x : A) (l : list A) : list A :=
  match n, l with
  | O, _ => x :: l
  | S n', y :: r => y :: insert_at n' x r
  | S _, [] => [x]
  end.

Fixpoint remove_nth {A} (n : nat) (l : list A) : list A :=
  match l, n with
  | [], _ => []
  | _ :: r, O => r
  | x :: r, S n' => x :: remove_nth n' r
  end.

(* y[k2] = x on a plain dict, setattr(y, k2, x) on an object; anything else is left alone *)
Definition inner_set (k2 : str) (x : val) (y : val) : val :=
  match y with
  | VDict kvs => VDict (ins k2 x kvs)
  | VObj c f => VObj c (ins k2 x f)
  | _ => y
  end.

(* the edit applied to the object it addresses *)
Definition apply_edit (e : edit) (v : val) : val :=
  match v with
  | VObj c f =>
      match e with
      | ESet k x => VObj c (ins k x f)
      | EAppend x =>
          match assoc k_items f with Some (VList l) => VObj c (ins k_items (VList (l ++ [x])) f) | _ => v end
      | EInsert i x =>
          match assoc k_items f with
          | Some (VList l) => VObj c (ins k_items (VList (insert_at (Nat.modulo i (S (length l))) x l)) f)
          | _ => v
          end
      | EPop i =>
          match assoc k_items f with
          | Some (VList (y :: r)) => VObj c (ins k_items (VList (remove_nth (Nat.modulo i (length (y :: r))) (y :: r))) f)
          | _ => v
          end
      | EReverse =>
          match assoc k_items f with Some (VList l) => VObj c (ins k_items (VList (rev l)) f) | _ => v end
      | EListAppend k x =>
          match assoc k f with Some (VList l) => VObj c (ins k (VList (l ++ [x])) f) | _ => v end
      | EInner k i k2 x =>
          match assoc k f with
          | Some (VList (y :: r)) => VObj c (ins k (VList (upd_nth (Nat.modulo i (length (y :: r))) (inner_set k2 x) (y :: r))) f)
          | Some (VDict kvs) => VObj c (ins k (inner_set k2 x (VDict kvs)) f)
          | Some (VObj c' f') => VObj c (ins k (inner_set k2 x (VObj c' f')) f)
          | _ => v
          end
      end
  | _ => v
  end.

(* follow .items[i % len] for every i of the path, then edit; a path that cannot be followed leaves the value alone *)
Fixpoint edit_at (path : list nat) (e : edit) (v : val) : val :=
  match path with
  | [] => apply_edit e v
  | i :: p =>
      match v with
      | VObj c f =>
          match assoc k_items f with
          | Some (VList (y :: r)) =>
              VObj c (ins k_items (VList (upd_nth (Nat.modulo i (length (y :: r))) (edit_at p e) (y :: r))) f)
          | _ => v
          end
      | _ => v
      end
  end.

(* the checksum of a live metabook (metabook.py calc_checksum): hex digest of the sorted-key dump, parametric in the
   text printer and the digest -- a function of to_json alone *)
Definition checksum (dumps : val -> str) (hexH : str -> str) (m : val) : str := hexH (dumps (to_json m)).
