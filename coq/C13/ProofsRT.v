(* C13 — round trip and fixed point of to_json / of_json on well-formed metabooks. *)
From Coq Require Import List NArith ZArith Bool Lia.
From MW Require Import Common.Str C13.Val C13.Gen_classes C13.Model C13.Proofs.
Import ListNotations.

(* Well-formed metabook values: what the constructors of metabook.py build.
   - an object belongs to a class object_hook knows, has no attribute called `type` (kept outside the
     field map) or `self`, and still has an entry for every class-level default (they are set by __init__
     and never deleted);
   - a plain dict has no `type` key (so object_hook leaves it alone). *)
Inductive wf : val -> Prop :=
| wf_null : wf VNull
| wf_bool b : wf (VBool b)
| wf_int z : wf (VInt z)
| wf_str s : wf (VStr s)
| wf_list l : Forall wf l -> wf (VList l)
| wf_dict kvs : has_key k_type kvs = false -> Forall (fun kv => wf (snd kv)) kvs -> wf (VDict kvs)
| wf_obj c f :
    class_ok c -> has_key k_type f = false -> has_key k_self f = false ->
    forallb (fun kd => has_key (fst kd) f) (defaults_of c) = true ->
    Forall (fun kv => wf (snd kv)) f -> wf (VObj c f).

(* Normal form = "the same metabook": the class, every attribute that is not private ("_" prefix) and not
   an absent-equivalent None, recursively, list order kept. *)
Fixpoint nf (v : val) : val :=
  match v with
  | VObj c f =>
      VObj c ((fix go (l : list (str * val)) : list (str * val) :=
                 match l with
                 | [] => []
                 | (k, x) :: r => if keep c k x then (k, nf x) :: go r else go r
                 end) f)
  | VDict kvs =>
      VDict ((fix go (l : list (str * val)) : list (str * val) :=
                match l with [] => [] | (k, x) :: r => (k, nf x) :: go r end) kvs)
  | VList l => VList (map nf l)
  | _ => v
  end.

Lemma nf_obj c f : nf (VObj c f) = VObj c (kept_map c nf f).
Proof. cbn [nf]. f_equal. induction f as [|[k x] f IH]; [reflexivity|]. cbn [kept_map]. rewrite IH. reflexivity. Qed.

Lemma nf_dict kvs : nf (VDict kvs) = VDict (map_vals nf kvs).
Proof. cbn [nf]. f_equal. induction kvs as [|[k x] r IH]; [reflexivity|]. cbn. rewrite IH. reflexivity. Qed.

Definition any_err (l : list (str * val)) : bool := existsb (fun kv => has_err (snd kv)) l.

Lemma has_err_obj c f : has_err (VObj c f) = any_err f.
Proof. cbn [has_err]. unfold any_err. induction f as [|[k x] f IH]; [reflexivity|]. cbn. rewrite IH. reflexivity. Qed.

Lemma has_err_dict kvs : has_err (VDict kvs) = any_err kvs.
Proof. cbn [has_err]. unfold any_err. induction kvs as [|[k x] f IH]; [reflexivity|]. cbn. rewrite IH. reflexivity. Qed.

Lemma any_err_ins k v l : has_err v = false -> any_err l = false -> any_err (ins k v l) = false.
Proof.
  unfold any_err. intros Hv. induction l as [|[k0 v0] l IH]; cbn; intros H.
  - rewrite Hv. reflexivity.
  - apply orb_false_iff in H as [H0 H1].
    destruct (scmp k k0); cbn; rewrite ?Hv, ?H0, ?H1; cbn; auto.
Qed.

Lemma any_err_kept c h l :
  Forall (fun kv => has_err (h (snd kv)) = false) l -> any_err (kept_map c h l) = false.
Proof.
  unfold any_err. induction 1 as [|[k x] l Hx _ IH]; cbn; [reflexivity|].
  destruct (keep c k x); cbn; [cbn in Hx; rewrite Hx|]; exact IH.
Qed.

Lemma any_err_map_vals h l :
  Forall (fun kv => has_err (h (snd kv)) = false) l -> any_err (map_vals h l) = false.
Proof.
  unfold any_err, map_vals. induction 1 as [|[k x] l Hx _ IH]; cbn; [reflexivity|]. cbn in Hx. rewrite Hx. exact IH.
Qed.

Lemma map_vals_comp g h l : map_vals g (map_vals h l) = map_vals (fun x => g (h x)) l.
Proof. unfold map_vals. rewrite map_map. reflexivity. Qed.

Lemma map_vals_ext h h' l : Forall (fun kv => h (snd kv) = h' (snd kv)) l -> map_vals h l = map_vals h' l.
Proof.
  unfold map_vals. induction 1 as [|[k x] l Hx _ IH]; cbn; [reflexivity|]. cbn in Hx. rewrite Hx, IH. reflexivity.
Qed.

Lemma map_vals_kept g c h l : map_vals g (kept_map c h l) = kept_map c (fun x => g (h x)) l.
Proof.
  unfold map_vals. induction l as [|[k x] l IH]; cbn [kept_map map]; [reflexivity|].
  destruct (keep c k x); cbn [map fst snd]; rewrite IH; reflexivity.
Qed.

(* keep looks at the value only through is_null *)
Lemma keep_null c k x y : is_null x = is_null y -> keep c k x = keep c k y.
Proof. unfold keep. intros ->. reflexivity. Qed.

Lemma kept_kept c g h l :
  Forall (fun kv => is_null (h (snd kv)) = is_null (snd kv)) l ->
  kept_map c g (kept_map c h l) = kept_map c (fun x => g (h x)) l.
Proof.
  induction 1 as [|[k x] l Hx _ IH]; cbn; [reflexivity|]. cbn in Hx.
  destruct (keep c k x) eqn:E; cbn; [|exact IH].
  rewrite (keep_null c k _ _ Hx), E, IH. reflexivity.
Qed.

Lemma has_key_kept_all c h l k :
  (forall x, keep c k x = true) -> has_key k (kept_map c h l) = has_key k l.
Proof.
  unfold has_key. intros Hk. induction l as [|[k0 v0] l IH]; cbn; [reflexivity|].
  destruct (str_eqb k k0) eqn:E.
  - apply str_eqb_spec in E. subst k0. rewrite Hk. cbn. rewrite str_eqb_refl. reflexivity.
  - destruct (keep c k0 v0); cbn; rewrite ?E; exact IH.
Qed.

Lemma has_key_kept_false c h l k : has_key k l = false -> has_key k (kept_map c h l) = false.
Proof.
  intros H. destruct (has_key k (kept_map c h l)) eqn:E; [|reflexivity].
  apply has_key_kept in E. congruence.
Qed.

Lemma fold_noop (defs acc : list (str * val)) :
  forallb (fun kd => has_key (fst kd) acc) defs = true ->
  fold_left (fun acc kd => if has_key (fst kd) acc then acc else ins (fst kd) (snd kd) acc) defs acc = acc.
Proof.
  induction defs as [|[k d] defs IH]; cbn; [reflexivity|]. intros H. apply andb_true_iff in H as [H0 H1].
  rewrite H0. apply IH. exact H1.
Qed.

Lemma In_has_key {A} k (d : A) l : In (k, d) l -> has_key k l = true.
Proof.
  unfold has_key. induction l as [|[k0 v0] l IH]; cbn; [contradiction|].
  intros [H|H]; [inversion H; subst; rewrite str_eqb_refl; reflexivity|].
  destruct (str_eqb k k0); [reflexivity|apply IH; exact H].
Qed.

Definition rt (v : val) : val := of_json (to_json v).

Lemma to_json_list l : to_json (VList l) = VList (map to_json l).
Proof. reflexivity. Qed.
Lemma of_json_list l : of_json (VList l) = VList (map of_json l).
Proof. reflexivity. Qed.
Lemma nf_list l : nf (VList l) = VList (map nf l).
Proof. reflexivity. Qed.
Lemma has_err_list l : has_err (VList l) = existsb has_err l.
Proof. reflexivity. Qed.
Lemma rt_list l : rt (VList l) = VList (map rt l).
Proof. unfold rt. rewrite to_json_list, of_json_list, map_map. reflexivity. Qed.

(* what loading a dumped object yields *)
Lemma rt_obj c f :
  class_ok c -> has_key k_type f = false -> has_key k_self f = false ->
  forallb (fun kd => has_key (fst kd) f) (defaults_of c) = true ->
  let kw := kept_map c rt f in
  rt (VObj c f) = VObj c (if has_key k_image kw then kw else ins k_image VNull kw).
Proof.
  intros Hc Ht Hs Hd kw. unfold rt at 1. rewrite to_json_obj, of_json_dict, map_vals_ins, map_vals_kept.
  change (of_json (VStr c)) with (VStr c). fold rt. fold kw.
  destruct (class_facts c Hc) as (F1 & F2 & F3 & F4).
  unfold object_hook. rewrite assoc_ins, str_eqb_refl, F1.
  assert (Hs' : has_key k_self (ins k_type (VStr c) kw) = false).
  { rewrite has_key_ins. unfold kw. rewrite has_key_kept_false by exact Hs. reflexivity. }
  rewrite Hs'. f_equal.
  rewrite remove_ins by (unfold kw; apply has_key_kept_false; exact Ht).
  unfold init_fields. cbn [fold_left fst snd].
  apply fold_noop.
  (* every default key is still there *)
  rewrite forallb_forall in *. intros [k d] Hin. cbn [fst].
  assert (Hk : has_key k kw = true).
  { unfold kw. rewrite has_key_kept_all.
    - exact (Hd (k, d) Hin).
    - intros x. unfold keep. specialize (F4 (k, d) Hin). unfold default_ok in F4. cbn [fst snd] in F4.
      rewrite !andb_true_iff in F4. destruct F4 as [[Fu _] _]. rewrite Fu. cbn [andb].
      rewrite (In_has_key k d _ Hin). apply orb_true_r. }
  destruct (has_key k_image kw); [exact Hk|]. rewrite has_key_ins, Hk. apply orb_true_r.
Qed.

Lemma keep_image_null c : class_ok c -> keep c k_image VNull = false.
Proof.
  intros Hc. destruct (class_facts c Hc) as (_ & F2 & _). unfold keep. rewrite F2. reflexivity.
Qed.

Theorem roundtrip_all v :
  wf v ->
  to_json (rt v) = to_json v /\ nf (rt v) = nf v /\ has_err (rt v) = false /\ is_null (rt v) = is_null v.
Proof.
  induction v as [| b | z | s | l IH | kvs IH | c f IH | ] using val_ind'; intros W; inversion W; subst;
    try (repeat split; reflexivity).
  - (* list *)
    assert (A : Forall (fun x => to_json (rt x) = to_json x /\ nf (rt x) = nf x /\ has_err (rt x) = false /\ is_null (rt x) = is_null x) l).
    { rewrite Forall_forall in *. intros x Hx. apply IH; auto. }
    clear IH W. rewrite rt_list.
    repeat split.
    + rewrite !to_json_list, map_map. f_equal. apply map_ext_in. intros x Hx. rewrite Forall_forall in A. apply (A x Hx).
    + rewrite !nf_list, map_map. f_equal. apply map_ext_in. intros x Hx. rewrite Forall_forall in A. apply (A x Hx).
    + rewrite has_err_list. clear H0. induction A as [|x l (_ & _ & Hx & _) _ IHl]; cbn [map existsb]; [reflexivity|]. rewrite Hx. exact IHl.
  - (* plain dict *)
    assert (A : Forall (fun kv => to_json (rt (snd kv)) = to_json (snd kv) /\ nf (rt (snd kv)) = nf (snd kv)
                                 /\ has_err (rt (snd kv)) = false /\ is_null (rt (snd kv)) = is_null (snd kv)) kvs).
    { rewrite Forall_forall in *. intros x Hx. apply IH; auto. }
    clear IH W.
    assert (R : rt (VDict kvs) = VDict (map_vals rt kvs)).
    { unfold rt at 1. rewrite to_json_dict, of_json_dict, map_vals_comp. fold rt.
      unfold object_hook. rewrite assoc_map_vals.
      unfold has_key in H0. destruct (assoc k_type kvs); [discriminate|]. reflexivity. }
    rewrite R. repeat split.
    + rewrite !to_json_dict, map_vals_comp. f_equal. apply map_vals_ext.
      eapply Forall_impl; [|exact A]. intros kv H. apply H.
    + rewrite !nf_dict, map_vals_comp. f_equal. apply map_vals_ext.
      eapply Forall_impl; [|exact A]. intros kv H. apply H.
    + rewrite has_err_dict. apply any_err_map_vals. eapply Forall_impl; [|exact A]. intros kv H. apply H.
  - (* object *)
    assert (A : Forall (fun kv => to_json (rt (snd kv)) = to_json (snd kv) /\ nf (rt (snd kv)) = nf (snd kv)
                                 /\ has_err (rt (snd kv)) = false /\ is_null (rt (snd kv)) = is_null (snd kv)) f).
    { rewrite Forall_forall in *. intros x Hx. apply IH; auto. }
    clear IH W.
    rewrite (rt_obj c f H1 H2 H3 H4). cbv zeta.
    set (kw := kept_map c rt f).
    assert (Hnull : Forall (fun kv => is_null (rt (snd kv)) = is_null (snd kv)) f)
      by (eapply Forall_impl; [|exact A]; intros kv H; apply H).
    assert (K : forall h, kept_map c h (if has_key k_image kw then kw else ins k_image VNull kw) = kept_map c h kw).
    { intros h. destruct (has_key k_image kw) eqn:E; [reflexivity|].
      apply kept_map_ins_dropped; [exact E|apply keep_image_null; exact H1]. }
    repeat split.
    + rewrite !to_json_obj, K. unfold kw. rewrite kept_kept by exact Hnull. do 2 f_equal.
      apply kept_map_ext. eapply Forall_impl; [|exact A]. intros kv H. apply H.
    + rewrite !nf_obj, K. unfold kw. rewrite kept_kept by exact Hnull. f_equal.
      apply kept_map_ext. eapply Forall_impl; [|exact A]. intros kv H. apply H.
    + rewrite has_err_obj.
      assert (E : any_err kw = false).
      { unfold kw. apply any_err_kept. eapply Forall_impl; [|exact A]. intros kv H. apply H. }
      destruct (has_key k_image kw); [exact E|]. apply any_err_ins; [reflexivity|exact E].
Qed.

Corollary fixed_point v : wf v -> to_json (of_json (to_json v)) = to_json v.
Proof. intros W. apply (roundtrip_all v W). Qed.

Corollary roundtrip v : wf v -> nf (of_json (to_json v)) = nf v.
Proof. intros W. apply (roundtrip_all v W). Qed.

Corollary loads_dumped v : wf v -> loads (to_json v) = Some (of_json (to_json v)).
Proof. intros W. unfold loads. destruct (roundtrip_all v W) as (_ & _ & E & _). unfold rt in E. rewrite E. reflexivity. Qed.

(* to_json determines the metabook up to nf *)
Corollary to_json_inj v1 v2 : wf v1 -> wf v2 -> to_json v1 = to_json v2 -> nf v1 = nf v2.
Proof.
  intros W1 W2 E. rewrite <- (roundtrip v1 W1), <- (roundtrip v2 W2), E. reflexivity.
Qed.
