(* C13 — to_json produces canonical JSON values (pure JSON, every map strictly key-sorted), so that the
   codec premise of the separation theorem reduces to injectivity of the printer on canonical values. *)
From Coq Require Import List NArith ZArith Bool Lia.
From MW Require Import Common.Str C13.Val C13.Gen_classes C13.Model C13.Wf C13.Proofs C13.ProofsRT C13.ProofsId.
Import ListNotations.

Definition all_vals (p : val -> bool) (l : list (str * val)) : bool := forallb (fun kv => p (snd kv)) l.

Lemma jcanon_dict kvs : jcanon (VDict kvs) = sorted kvs && all_vals jcanon kvs.
Proof. cbn [jcanon]. f_equal. unfold all_vals. induction kvs as [|[k x] r IH]; [reflexivity|]. cbn. rewrite IH. reflexivity. Qed.
Lemma msorted_dict kvs : msorted (VDict kvs) = sorted kvs && all_vals msorted kvs.
Proof. cbn [msorted]. f_equal. unfold all_vals. induction kvs as [|[k x] r IH]; [reflexivity|]. cbn. rewrite IH. reflexivity. Qed.
Lemma msorted_obj c f : msorted (VObj c f) = sorted f && all_vals msorted f.
Proof. cbn [msorted]. f_equal. unfold all_vals. induction f as [|[k x] r IH]; [reflexivity|]. cbn. rewrite IH. reflexivity. Qed.

(* ------------------------------------------------------------------ the order *)

Lemma scmp_antisym a : forall b, scmp b a = CompOpp (scmp a b).
Proof.
  induction a as [|x a IH]; intros [|y b]; cbn; try reflexivity.
  rewrite (N.compare_antisym x y). destruct (N.compare x y); cbn; [apply IH|reflexivity|reflexivity].
Qed.

Lemma scmp_lt_trans a : forall b c, scmp a b = Lt -> scmp b c = Lt -> scmp a c = Lt.
Proof.
  induction a as [|x a IH]; intros [|y b] [|z c]; cbn; try discriminate; try reflexivity.
  destruct (N.compare_spec x y) as [->|Hxy|Hxy]; try discriminate.
  - destruct (N.compare_spec y z) as [->|Hyz|Hyz]; try discriminate; [apply IH|reflexivity].
  - intros _. destruct (N.compare_spec y z) as [->|Hyz|Hyz]; try discriminate.
    + intros _. destruct (N.compare_spec x z); [lia|reflexivity|lia].
    + intros _. destruct (N.compare_spec x z); [lia|reflexivity|lia].
Qed.

Lemma sorted_from_weaken {A} k k' (l : list (str * A)) : scmp k k' = Lt -> sorted_from k' l = true -> sorted_from k l = true.
Proof.
  destruct l as [|[k0 v0] l]; cbn; [reflexivity|]. intros H.
  destruct (scmp k' k0) eqn:E; try discriminate. rewrite (scmp_lt_trans _ _ _ H E). auto.
Qed.

Lemma sorted_from_sorted {A} k (l : list (str * A)) : sorted_from k l = true -> sorted l = true.
Proof. destruct l as [|[k0 v0] l]; cbn; [reflexivity|]. destruct (scmp k k0); try discriminate. auto. Qed.

Lemma ins_sorted_from {A} k0 k (v : A) l :
  scmp k0 k = Lt -> sorted_from k0 l = true -> sorted_from k0 (ins k v l) = true.
Proof.
  revert k0. induction l as [|[k1 v1] l IH]; intros k0 H0 H; cbn.
  - rewrite H0. reflexivity.
  - cbn in H. destruct (scmp k0 k1) eqn:E01; try discriminate.
    destruct (scmp k k1) eqn:E; cbn.
    + apply scmp_eq in E. subst k1. rewrite H0. exact H.
    + rewrite H0. cbn. rewrite E. exact H.
    + rewrite E01. apply IH; [|exact H].
      rewrite scmp_antisym, E. reflexivity.
Qed.

Lemma ins_sorted {A} k (v : A) l : sorted l = true -> sorted (ins k v l) = true.
Proof.
  destruct l as [|[k1 v1] l]; cbn; [reflexivity|]. intros H.
  destruct (scmp k k1) eqn:E; cbn.
  - apply scmp_eq in E. subst k1. exact H.
  - rewrite E. exact H.
  - apply ins_sorted_from; [|exact H]. rewrite scmp_antisym, E. reflexivity.
Qed.

Lemma kept_sorted_from c h k l : sorted_from k l = true -> sorted_from k (kept_map c h l) = true.
Proof.
  revert k. induction l as [|[k1 v1] l IH]; intros k H; cbn; [reflexivity|].
  cbn in H. destruct (scmp k k1) eqn:E; try discriminate.
  destruct (keep c k1 v1); cbn.
  - rewrite E. apply IH. exact H.
  - apply IH. eapply sorted_from_weaken; eassumption.
Qed.

Lemma kept_sorted c h l : sorted l = true -> sorted (kept_map c h l) = true.
Proof.
  destruct l as [|[k1 v1] l]; cbn; [reflexivity|]. intros H.
  destruct (keep c k1 v1); cbn.
  - apply kept_sorted_from. exact H.
  - eapply sorted_from_sorted. apply kept_sorted_from. exact H.
Qed.

Lemma map_vals_sorted_from h k l : sorted_from k (map_vals h l) = sorted_from k l.
Proof.
  unfold map_vals. revert k. induction l as [|[k1 v1] l IH]; intros k; cbn; [reflexivity|].
  destruct (scmp k k1); try reflexivity. apply IH.
Qed.

Lemma map_vals_sorted h l : sorted (map_vals h l) = sorted l.
Proof. destruct l as [|[k1 v1] l]; cbn; [reflexivity|]. apply map_vals_sorted_from. Qed.

Lemma all_vals_ins p k v l : p v = true -> all_vals p l = true -> all_vals p (ins k v l) = true.
Proof.
  unfold all_vals. intros Hv. induction l as [|[k1 v1] l IH]; cbn; intros H.
  - rewrite Hv. reflexivity.
  - apply andb_true_iff in H as [H0 H1]. destruct (scmp k k1); cbn; rewrite ?Hv, ?H0, ?H1; cbn; auto.
Qed.

Lemma all_vals_kept p c h l :
  Forall (fun kv => p (h (snd kv)) = true) l -> all_vals p (kept_map c h l) = true.
Proof.
  unfold all_vals. induction 1 as [|[k x] l Hx _ IH]; cbn; [reflexivity|].
  destruct (keep c k x); cbn; [cbn in Hx; rewrite Hx|]; exact IH.
Qed.

Lemma all_vals_map p h l :
  Forall (fun kv => p (h (snd kv)) = true) l -> all_vals p (map_vals h l) = true.
Proof.
  unfold all_vals, map_vals. induction 1 as [|[k x] l Hx _ IH]; cbn; [reflexivity|]. cbn in Hx. rewrite Hx. exact IH.
Qed.

Theorem to_json_canon v : msorted v = true -> jcanon (to_json v) = true.
Proof.
  induction v as [| b | z | s | l IH | kvs IH | c f IH | ] using val_ind'; intros H; try reflexivity; try discriminate.
  - rewrite to_json_list. cbn [jcanon msorted] in *. rewrite forallb_forall in *. intros y Hy.
    apply in_map_iff in Hy as (x & <- & Hx). rewrite Forall_forall in IH. apply IH; auto.
  - rewrite msorted_dict in H. apply andb_true_iff in H as [Hs Ha].
    rewrite to_json_dict, jcanon_dict, map_vals_sorted, Hs. cbn [andb].
    apply all_vals_map. unfold all_vals in Ha. rewrite forallb_forall in Ha. rewrite Forall_forall in *.
    intros kv Hkv. apply IH; auto.
  - rewrite msorted_obj in H. apply andb_true_iff in H as [Hs Ha].
    rewrite to_json_obj, jcanon_dict. apply andb_true_iff. split.
    + apply ins_sorted, kept_sorted, Hs.
    + apply all_vals_ins; [reflexivity|]. apply all_vals_kept.
      unfold all_vals in Ha. rewrite forallb_forall in Ha. rewrite Forall_forall in *. intros kv Hkv. apply IH; auto.
Qed.

Section IdCanon.
  Variable dumps : val -> str.
  Variable hexH : str -> str.
  Variable repr : option str -> str.
  Variable version : str.
  Hypothesis repr_pf : forall a b x y, repr a ++ x = repr b ++ y -> a = b.
  (* json.dumps(sort_keys=True) prints different canonical JSON values differently *)
  Hypothesis dumps_inj : forall j1 j2, jcanon j1 = true -> jcanon j2 = true -> dumps j1 = dumps j2 -> j1 = j2.

  Lemma pre_separates_canon b1 e1 l1 m1 b2 e2 l2 m2 :
    wf m1 -> wf m2 -> msorted m1 = true -> msorted m2 = true ->
    id_preimage dumps hexH repr version b1 e1 l1 (Some (to_json m1))
      = id_preimage dumps hexH repr version b2 e2 l2 (Some (to_json m2)) ->
    (hexH (dumps (to_json m1)) = hexH (dumps (to_json m2)) -> dumps (to_json m1) = dumps (to_json m2)) ->
    b1 = b2 /\ e1 = e2 /\ l1 = l2 /\ nf m1 = nf m2.
  Proof.
    intros W1 W2 S1 S2 H HH.
    apply (pre_separates dumps hexH repr version repr_pf b1 e1 l1 m1 b2 e2 l2 m2 W1 W2 H HH).
    apply dumps_inj; apply to_json_canon; assumption.
  Qed.
End IdCanon.
