(* C13 — property theorems only.  Each is closed by `exact <lemma>` and followed by
   Print Assumptions; the check re-compiles this file on every run. *)
From Coq Require Import List NArith ZArith Bool.
From MW Require Import Common.Str C13.Val C13.Gen_classes C13.Model C13.Wf C13.Proofs C13.ProofsRT C13.ProofsId C13.ProofsCanon C13.ProofsApi C13.ModelEdit C13.ProofsEdit C13.ProofsSorted.
Import ListNotations.

(* Values: VObj c f = instance of metabook class c with attribute map f (the `type` entry is c itself);
   JSON values are vals without VObj; maps are key-sorted association lists, so key order and whitespace
   of a JSON text are quotiented by construction.  to_json = myjson.dumps up to the text codec (MbEncoder +
   _json with the proposed fix), of_json = myjson.loads (object_hook).  wf = what metabook.py's
   constructors build (see ProofsRT.v); nf = the metabook up to private/None-equivalent entries. *)

(* loading what was dumped gives the same metabook: same class, same attributes (after dropping "_"
   entries and absent-equivalent Nones), recursively, same item order *)
Theorem C13_roundtrip : forall m, wf m -> nf (of_json (to_json m)) = nf m.
Proof. exact roundtrip. Qed.
Print Assumptions C13_roundtrip.

(* re-serialising is a fixed point *)
Theorem C13_fixed_point : forall m, wf m -> to_json (of_json (to_json m)) = to_json m.
Proof. exact fixed_point. Qed.
Print Assumptions C13_fixed_point.

(* loading a dumped metabook never raises *)
Theorem C13_loads_succeeds : forall m, wf m -> loads (to_json m) = Some (of_json (to_json m)).
Proof. exact loads_dumped. Qed.
Print Assumptions C13_loads_succeeds.

(* the JSON value determines the metabook, and conversely depends on nothing but its normal form *)
Theorem C13_to_json_faithful : forall m1 m2, wf m1 -> wf m2 -> (to_json m1 = to_json m2 <-> nf m1 = nf m2).
Proof. exact to_json_faithful. Qed.
Print Assumptions C13_to_json_faithful.

(* Collection id.  id_preimage is the string make_collection_id feeds to sha256, as a function of the
   PARSED metabook text (so key order / whitespace cannot matter), parametric in dumps, the hex digest,
   repr and the version string.  For a request carrying the dump of m:
   (1) the pre-image is version ++ repr(base_url) ++ repr(script_extension) ++ repr(login) ++ hexH(dumps(to_json m));
   (2) a request carrying the re-serialisation of that dump has the same pre-image;
   (3) so have requests carrying dumps of equal metabooks. *)
Theorem C13_id_invariant : forall dumps hexH repr version b e l m,
  wf m ->
  id_preimage dumps hexH repr version b e l (Some (to_json m))
    = Some (version ++ repr b ++ repr e ++ repr l ++ hexH (dumps (to_json m))) /\
  id_preimage dumps hexH repr version b e l (Some (to_json (of_json (to_json m))))
    = id_preimage dumps hexH repr version b e l (Some (to_json m)) /\
  (forall m', wf m' -> nf m = nf m' ->
     id_preimage dumps hexH repr version b e l (Some (to_json m')) = id_preimage dumps hexH repr version b e l (Some (to_json m))).
Proof. exact id_invariant_full. Qed.
Print Assumptions C13_id_invariant.

(* Separation: if two requests have the same pre-image then, unless sha256 collides on the two dumps or
   the JSON printer prints two different values alike, they agree in base_url, script_extension, login
   credentials and in the metabook (hence: a different article title, revision, item order, chapter
   title or URL gives a different pre-image).  repr is only assumed self-delimiting. *)
Theorem C13_id_separates : forall dumps hexH repr version,
  (forall a b x y, repr a ++ x = repr b ++ y -> a = b) ->
  forall b1 e1 l1 m1 b2 e2 l2 m2,
  wf m1 -> wf m2 ->
  id_preimage dumps hexH repr version b1 e1 l1 (Some (to_json m1))
    = id_preimage dumps hexH repr version b2 e2 l2 (Some (to_json m2)) ->
  (hexH (dumps (to_json m1)) = hexH (dumps (to_json m2)) -> dumps (to_json m1) = dumps (to_json m2)) ->
  (dumps (to_json m1) = dumps (to_json m2) -> to_json m1 = to_json m2) ->
  b1 = b2 /\ e1 = e2 /\ l1 = l2 /\ nf m1 = nf m2.
Proof. intros dumps hexH repr version Hr. exact (pre_separates dumps hexH repr version Hr). Qed.
Print Assumptions C13_id_separates.

Theorem C13_id_separates_absent : forall dumps hexH repr version,
  (forall a b x y, repr a ++ x = repr b ++ y -> a = b) -> (forall s, hexH s <> []) ->
  forall b1 e1 l1 b2 e2 l2 m, wf m ->
  id_preimage dumps hexH repr version b1 e1 l1 None <> id_preimage dumps hexH repr version b2 e2 l2 (Some (to_json m)).
Proof. intros dumps hexH repr version Hr Hh. exact (pre_separates_absent dumps hexH repr version Hr Hh). Qed.
Print Assumptions C13_id_separates_absent.

Theorem C13_id_separates_params : forall dumps hexH repr version,
  (forall a b x y, repr a ++ x = repr b ++ y -> a = b) ->
  forall b1 e1 l1 b2 e2 l2,
  id_preimage dumps hexH repr version b1 e1 l1 None = id_preimage dumps hexH repr version b2 e2 l2 None ->
  b1 = b2 /\ e1 = e2 /\ l1 = l2.
Proof. intros dumps hexH repr version Hr. exact (pre_separates_params dumps hexH repr version Hr). Qed.
Print Assumptions C13_id_separates_params.

(* to_json of a metabook whose maps are key-sorted (all the model's constructors build such, and the
   harness measures it on every sampled state) is a canonical JSON value: no objects left, every map strictly
   key-sorted.  Hence the printer premise of C13_id_separates follows from injectivity of
   json.dumps(sort_keys=True) on canonical values: *)
Theorem C13_to_json_canonical : forall m, msorted m = true -> jcanon (to_json m) = true.
Proof. exact to_json_canon. Qed.
Print Assumptions C13_to_json_canonical.

Theorem C13_id_separates_canon : forall dumps hexH repr version,
  (forall a b x y, repr a ++ x = repr b ++ y -> a = b) ->
  (forall j1 j2, jcanon j1 = true -> jcanon j2 = true -> dumps j1 = dumps j2 -> j1 = j2) ->
  forall b1 e1 l1 m1 b2 e2 l2 m2,
  wf m1 -> wf m2 -> msorted m1 = true -> msorted m2 = true ->
  id_preimage dumps hexH repr version b1 e1 l1 (Some (to_json m1))
    = id_preimage dumps hexH repr version b2 e2 l2 (Some (to_json m2)) ->
  (hexH (dumps (to_json m1)) = hexH (dumps (to_json m2)) -> dumps (to_json m1) = dumps (to_json m2)) ->
  b1 = b2 /\ e1 = e2 /\ l1 = l2 /\ nf m1 = nf m2.
Proof. intros dumps hexH repr version Hr Hd. exact (pre_separates_canon dumps hexH repr version Hr Hd). Qed.
Print Assumptions C13_id_separates_canon.

(* the executable check the harness runs on every sampled state implies wf *)
Theorem C13_wfb_sound : forall v, wfb v = true -> wf v.
Proof. exact wfb_spec. Qed.
Print Assumptions C13_wfb_sound.

(* ---------------------------------------------------------------------------------------------------------
   The API keeps metabooks inside the theorems' domain.  kw_ok kw: the keyword values are wf and no keyword is
   called `type` or `self`.  A model value containing VErr = the real call raised. *)

(* Collection.append_article: the call raises, or the result is wf again *)
Theorem C13_append_article_wf : forall title dt kw coll,
  wf coll -> kw_ok kw ->
  has_err (append_article title dt kw coll) = true \/ wf (append_article title dt kw coll).
Proof. exact append_article_wf. Qed.
Print Assumptions C13_append_article_wf.

(* constructors of every known class, items.append, setattr *)
Theorem C13_constructors_wf :
  (forall low kw, kw_ok kw -> new_obj low kw = VErr \/ wf (new_obj low kw)) /\
  (forall x v, wf v -> wf x -> append_item x v = VErr \/ wf (append_item x v)) /\
  (forall k x v, wf v -> wf x -> str_eqb k_type k = false -> str_eqb k_self k = false ->
                 set_field k x v = VErr \/ wf (set_field k x v)).
Proof. exact constructors_wf_full. Qed.
Print Assumptions C13_constructors_wf.

(* Collection.walk / get_articles return wf objects only *)
Theorem C13_walk_wf : forall coll, wf coll -> Forall wf (walk_items coll).
Proof. exact walk_items_wf. Qed.
Print Assumptions C13_walk_wf.

(* every collection built by ANY sequence of append_article / items.append(Class(..)) / setattr calls that did not
   raise, starting from Collection(kw0), is wf -- so the round trip, the fixed point (and with them the id theorems)
   hold for it, and what walk() returns is wf *)
Theorem C13_api_built_wf : forall kw0 ops m,
  kw_ok kw0 -> Forall bop_ok ops ->
  build_from (new_obj (lower k_Collection) kw0) ops = Some m -> wf m.
Proof. exact api_built_wf. Qed.
Print Assumptions C13_api_built_wf.

Theorem C13_api_built_roundtrip : forall kw0 ops m,
  kw_ok kw0 -> Forall bop_ok ops ->
  build_from (new_obj (lower k_Collection) kw0) ops = Some m ->
  nf (of_json (to_json m)) = nf m /\ to_json (of_json (to_json m)) = to_json m /\ Forall wf (walk_items m).
Proof. exact api_built_roundtrip. Qed.
Print Assumptions C13_api_built_roundtrip.

(* Non-vacuity.  (1) the repr hypothesis has an instance.  (2) Collections built through the API are wf, and
   differ in nf when an article title / its revision / the order / a chapter title differs. *)
Example C13_example_repr : exists repr : option str -> str, forall a b x y, repr a ++ x = repr b ++ y -> a = b.
Proof. exists repr_ex. exact repr_ex_pf. Qed.
Print Assumptions C13_example_repr.

Example C13_example_built :
  let coll := new_obj (lower k_Collection) [] in
  let rev := [([114;101;118;105;115;105;111;110]%N, VStr [49]%N)] in
  let a := append_article [65]%N None [] in
  let a' := append_article [66]%N None [] in
  let ar := append_article [65]%N None rev in
  let ch t := append_item (new_obj (lower k_Chapter) [(k_title, VStr t)]) in
  let m1 := a' (a (ch [67]%N coll)) in
  wfb m1 = true /\ msorted m1 = true /\ wfb (a (a' (ch [67]%N coll))) = true /\ wfb (ar coll) = true /\
  nf (a coll) <> nf (a' coll) /\ nf (a coll) <> nf (ar coll) /\
  nf m1 <> nf (a (a' (ch [67]%N coll))) /\ nf m1 <> nf (a' (a (ch [68]%N coll))) /\
  get_items (new_obj (lower k_Collection) []) = Some [] /\
  to_json (of_json (to_json m1)) = to_json m1.
Proof.
  cbv zeta. repeat split; try (vm_compute; reflexivity); intro H; vm_compute in H; discriminate H.
Qed.
Print Assumptions C13_example_built.

(* (3) op sequences that do not raise exist: a chapter, two articles (one with revision 0), a falsy title *)
Example C13_example_api :
  let ops := [BAddItem (lower k_Chapter) [(k_title, VStr [67]%N)];
              BAppend [65]%N None [([114;101;118;105;115;105;111;110]%N, VInt 0)];
              BAppend [66]%N (Some [68]%N) [];
              BSet k_title (VStr [])] in
  Forall bop_ok ops /\
  exists m, build_from (new_obj (lower k_Collection) []) ops = Some m /\ length (walk_items m) = 3%nat.
Proof. exact ex_api. Qed.
Print Assumptions C13_example_api.

(* ---------------------------------------------------------------------------------------------------------
   The LIFE of one metabook object.  Besides the API calls above, a consumer edits the object in place, at any depth
   (ModelEdit.v: edit_at path e follows .items[i % len] for every i of path, then setattr / items.append / insert / pop /
   reverse / append to a list-valued attribute / assignment inside a dict or object held by an attribute; an edit that does
   not apply is skipped).  edit_ok e: the values written are wf and nothing called `type` / `self` is written. *)

(* an in-place edit at any depth keeps the metabook in the theorems' domain *)
Theorem C13_edit_at_wf : forall e, edit_ok e -> forall path v, wf v -> wf (edit_at path e v).
Proof. exact edit_at_wf. Qed.
Print Assumptions C13_edit_at_wf.

(* every state reached by API calls interleaved with in-place edits (none of which raised) is wf, round-trips and
   re-serialises to the same JSON value *)
Theorem C13_live_roundtrip : forall kw0 ops m,
  kw_ok kw0 -> Forall xop_ok ops -> live_from (new_obj (lower k_Collection) kw0) ops = Some m ->
  wf m /\ nf (of_json (to_json m)) = nf m /\ to_json (of_json (to_json m)) = to_json m.
Proof. exact live_wf. Qed.
Print Assumptions C13_live_roundtrip.

(* calc_checksum = hexH (dumps (to_json m)) has no memory: for two moments m1 (after ops1) and m2 (after ops1 ++ ops2) of
   one object's life -- unless sha256 collides on the two dumps or the printer prints two different JSON values alike --
   the checksum changes exactly when the dumped JSON value changes, i.e. exactly when the metabook (nf) changes *)
Theorem C13_checksum_over_life : forall dumps hexH kw0 ops1 ops2 m1 m2,
  kw_ok kw0 -> Forall xop_ok ops1 -> Forall xop_ok ops2 ->
  live_from (new_obj (lower k_Collection) kw0) ops1 = Some m1 -> live_from m1 ops2 = Some m2 ->
  (hexH (dumps (to_json m1)) = hexH (dumps (to_json m2)) -> dumps (to_json m1) = dumps (to_json m2)) ->
  (dumps (to_json m1) = dumps (to_json m2) -> to_json m1 = to_json m2) ->
  (checksum dumps hexH m1 = checksum dumps hexH m2 <-> to_json m1 = to_json m2) /\
  (checksum dumps hexH m1 = checksum dumps hexH m2 <-> nf m1 = nf m2).
Proof. exact checksum_over_life. Qed.
Print Assumptions C13_checksum_over_life.

(* at every moment the checksum of the live object is that of a fresh copy of its content *)
Theorem C13_checksum_of_fresh_copy : forall dumps hexH kw0 ops m,
  kw_ok kw0 -> Forall xop_ok ops -> live_from (new_obj (lower k_Collection) kw0) ops = Some m ->
  loads (to_json m) = Some (of_json (to_json m)) /\
  checksum dumps hexH (of_json (to_json m)) = checksum dumps hexH m.
Proof. exact checksum_of_fresh_copy. Qed.
Print Assumptions C13_checksum_of_fresh_copy.

(* non-vacuity: a chapter with two articles; an article's revision is changed in place (depth 2), the chapter's items are
   reversed (depth 1), an article is appended to mb.items (depth 0), an article's title is changed: every edit applies
   and every single one changes the normal form *)
Example C13_example_live :
  Forall xop_ok ex_ops1 /\ Forall xop_ok ex_edits /\
  exists m1, live_from (new_obj (lower k_Collection) []) ex_ops1 = Some m1 /\
  forall n, (n < length ex_edits)%nat ->
    exists a b, live_from m1 (firstn n ex_edits) = Some a /\ live_from m1 (firstn (S n) ex_edits) = Some b /\ nf a <> nf b.
Proof. exact ex_live. Qed.
Print Assumptions C13_example_live.

(* srt = all maps key-sorted (msorted without its VErr clause).  Every state in the life of a Collection whose inputs
   have key-sorted maps has key-sorted maps, so its dump is a canonical JSON value ... *)
Theorem C13_live_canonical : forall kw0 ops m,
  kw_ok kw0 -> Forall xop_ok ops -> all_vals srt kw0 = true -> forallb xop_srt ops = true ->
  live_from (new_obj (lower k_Collection) kw0) ops = Some m ->
  msorted m = true /\ jcanon (to_json m) = true.
Proof. exact live_msorted. Qed.
Print Assumptions C13_live_canonical.

(* ... and the printer premise of C13_checksum_over_life reduces to injectivity of json.dumps(sort_keys=True) on canonical
   JSON values *)
Theorem C13_checksum_over_life_canon : forall dumps hexH kw0 ops1 ops2 m1 m2,
  (forall j1 j2, jcanon j1 = true -> jcanon j2 = true -> dumps j1 = dumps j2 -> j1 = j2) ->
  kw_ok kw0 -> Forall xop_ok ops1 -> Forall xop_ok ops2 ->
  all_vals srt kw0 = true -> forallb xop_srt ops1 = true -> forallb xop_srt ops2 = true ->
  live_from (new_obj (lower k_Collection) kw0) ops1 = Some m1 -> live_from m1 ops2 = Some m2 ->
  (hexH (dumps (to_json m1)) = hexH (dumps (to_json m2)) -> dumps (to_json m1) = dumps (to_json m2)) ->
  (checksum dumps hexH m1 = checksum dumps hexH m2 <-> nf m1 = nf m2).
Proof. exact checksum_over_life_canon. Qed.
Print Assumptions C13_checksum_over_life_canon.
