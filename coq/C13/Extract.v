From Coq Require Import Extraction ExtrOcamlBasic.
From MW Require Import Common.Str C13.Val C13.Gen_classes C13.Model C13.Wf C13.ModelEdit.
Extraction "../ocaml/c13/c13_model.ml" to_json of_json loads new_obj set_field append_article append_item
  walk_items wfb msorted lower strip py_isspace sorted of_list classes edit_at.
