(* C13 — every state in the life of a Collection (API calls + in-place edits at any depth) has key-sorted maps
   (msorted), so its dump is a canonical JSON value and the printer premise of the separation theorems is the
   injectivity of json.dumps(sort_keys=True) on canonical values only.
   srt = msorted without the VErr clause: preserved by every operation unconditionally; a value without VErr that is
   srt is msorted. *)
From Coq Require Import List NArith ZArith Bool Arith Lia.
From MW Require Import Common.Str C13.Val C13.Gen_classes C13.Model C13.Wf C13.ModelEdit C13.Proofs C13.ProofsRT C13.ProofsId
  C13.ProofsCanon C13.ProofsApi C13.ProofsEdit.
Import ListNotations.

Fixpoint srt (v : val) : bool :=
  match v with
  | VObj _ f =>
      sorted f && (fix all (l : list (str * val)) : bool := match l with [] => true | (_, x) :: r => srt x && all r end) f
  | VDict kvs =>
      sorted kvs && (fix all (l : list (str * val)) : bool := match l with [] => true | (_, x) :: r => srt x && all r end) kvs
  | VList l => forallb srt l
  | _ => true
  end.

Lemma srt_dict kvs : srt (VDict kvs) = sorted kvs && all_vals srt kvs.
Proof. cbn [srt]. f_equal. unfold all_vals. induction kvs as [|[k x] r IH]; [reflexivity|]. cbn. rewrite IH. reflexivity. Qed.
Lemma srt_obj c f : srt (VObj c f) = sorted f && all_vals srt f.
Proof. cbn [srt]. f_equal. unfold all_vals. induction f as [|[k x] r IH]; [reflexivity|]. cbn. rewrite IH. reflexivity. Qed.

Lemma all_vals_srt_msorted l :
  Forall (fun kv => srt (snd kv) = true -> has_err (snd kv) = false -> msorted (snd kv) = true) l ->
  all_vals srt l = true -> any_err l = false -> all_vals msorted l = true.
Proof.
  unfold all_vals, any_err. induction 1 as [|kv l Hx _ IH]; cbn [forallb existsb]; [reflexivity|].
  intros Hs He. apply andb_true_iff in Hs as [Hs1 Hs2]. apply orb_false_iff in He as [He1 He2].
  rewrite (Hx Hs1 He1). cbn. apply IH; assumption.
Qed.

Lemma srt_msorted v : srt v = true -> has_err v = false -> msorted v = true.
Proof.
  induction v as [| b | z | s | l IH | kvs IH | c f IH | ] using val_ind'; intros Hs He; try reflexivity; try discriminate.
  - cbn [srt msorted] in *. rewrite has_err_list in He.
    induction IH as [|x r Hx _ IHr]; [reflexivity|]. cbn [forallb existsb] in *.
    apply andb_true_iff in Hs as [Hs1 Hs2]. apply orb_false_iff in He as [He1 He2].
    rewrite (Hx Hs1 He1). cbn. apply IHr; assumption.
  - rewrite srt_dict in Hs. rewrite has_err_dict in He. rewrite msorted_dict. apply andb_true_iff in Hs as [Hs1 Hs2].
    rewrite Hs1. cbn. apply all_vals_srt_msorted; assumption.
  - rewrite srt_obj in Hs. rewrite has_err_obj in He. rewrite msorted_obj. apply andb_true_iff in Hs as [Hs1 Hs2].
    rewrite Hs1. cbn. apply all_vals_srt_msorted; assumption.
Qed.

(* ------------------------------------------------------------------ building blocks *)

Lemma srt_obj_ins c f k x : srt (VObj c f) = true -> srt x = true -> srt (VObj c (ins k x f)) = true.
Proof.
  rewrite !srt_obj. intros H Hx. apply andb_true_iff in H as [H1 H2]. apply andb_true_iff. split.
  - apply ins_sorted, H1.
  - apply all_vals_ins; assumption.
Qed.

Lemma srt_dict_ins kvs k x : srt (VDict kvs) = true -> srt x = true -> srt (VDict (ins k x kvs)) = true.
Proof.
  rewrite !srt_dict. intros H Hx. apply andb_true_iff in H as [H1 H2]. apply andb_true_iff. split.
  - apply ins_sorted, H1.
  - apply all_vals_ins; assumption.
Qed.

Lemma assoc_all_vals p k l v : all_vals p l = true -> assoc k l = Some v -> p v = true.
Proof.
  unfold all_vals. induction l as [|[k0 v0] l IH]; cbn [assoc forallb]; [discriminate|].
  intros H. apply andb_true_iff in H as [H1 H2]. destruct (str_eqb k k0); [intros E; inversion E; subst; exact H1|apply IH, H2].
Qed.

Lemma srt_field c f k v : srt (VObj c f) = true -> assoc k f = Some v -> srt v = true.
Proof. rewrite srt_obj. intros H. apply andb_true_iff in H as [_ H]. apply assoc_all_vals, H. Qed.

Lemma srt_list_app l x : srt (VList l) = true -> srt x = true -> srt (VList (l ++ [x])) = true.
Proof. cbn [srt]. intros H Hx. rewrite forallb_app, H. cbn. rewrite Hx. reflexivity. Qed.

Lemma forallb_rev {A} (p : A -> bool) l : forallb p (rev l) = forallb p l.
Proof.
  induction l as [|x l IH]; [reflexivity|]. cbn [rev forallb]. rewrite forallb_app, IH. cbn. rewrite andb_true_r. apply andb_comm.
Qed.

Lemma forallb_upd_nth {A} (p : A -> bool) g : (forall x, p x = true -> p (g x) = true) ->
  forall l n, forallb p l = true -> forallb p (upd_nth n g l) = true.
Proof.
  intros Hg. induction l as [|x l IH]; intros n H; [destruct n; reflexivity|].
  cbn [forallb] in H. apply andb_true_iff in H as [H1 H2].
  destruct n; cbn [upd_nth forallb]; apply andb_true_iff; split; auto.
Qed.

Lemma forallb_insert_at {A} (p : A -> bool) x : p x = true -> forall n l, forallb p l = true -> forallb p (insert_at n x l) = true.
Proof.
  intros Hx. induction n as [|n IH]; intros l H; cbn [insert_at].
  - cbn [forallb]. rewrite Hx. exact H.
  - destruct l as [|y r]; [cbn; rewrite Hx; reflexivity|]. cbn [forallb] in *. apply andb_true_iff in H as [H1 H2].
    rewrite H1. cbn. apply IH, H2.
Qed.

Lemma forallb_remove_nth {A} (p : A -> bool) : forall l n, forallb p l = true -> forallb p (remove_nth n l) = true.
Proof.
  induction l as [|x l IH]; intros n H; [destruct n; reflexivity|].
  cbn [forallb] in H. apply andb_true_iff in H as [H1 H2].
  destruct n; cbn [remove_nth]; [exact H2|]. cbn [forallb]. rewrite H1. cbn. apply IH, H2.
Qed.

(* ------------------------------------------------------------------ constructors and API *)

Lemma of_list_from_srt kw : forall acc,
  sorted acc = true -> all_vals srt acc = true -> all_vals srt kw = true ->
  sorted (fold_left (fun a kv => ins (fst kv) (snd kv) a) kw acc) = true /\
  all_vals srt (fold_left (fun a kv => ins (fst kv) (snd kv) a) kw acc) = true.
Proof.
  induction kw as [|[k v] kw IH]; intros acc Hs Ha Hk; cbn [fold_left]; [split; assumption|].
  unfold all_vals in Hk. cbn [forallb] in Hk. apply andb_true_iff in Hk as [Hv Hk].
  apply IH; [apply ins_sorted, Hs|apply all_vals_ins; assumption|exact Hk].
Qed.

Lemma init_fields_srt defs : forall kwm,
  all_vals srt defs = true -> sorted kwm = true -> all_vals srt kwm = true ->
  sorted (fold_left (fun acc kd => if has_key (fst kd) acc then acc else ins (fst kd) (snd kd) acc) defs kwm) = true /\
  all_vals srt (fold_left (fun acc kd => if has_key (fst kd) acc then acc else ins (fst kd) (snd kd) acc) defs kwm) = true.
Proof.
  induction defs as [|[k d] defs IH]; intros kwm Hd Hs Ha; cbn [fold_left]; [split; assumption|].
  unfold all_vals in Hd. cbn [forallb] in Hd. apply andb_true_iff in Hd as [Hd1 Hd2]. cbn [fst snd] in *.
  destruct (has_key k kwm); [apply IH; assumption|].
  apply IH; [exact Hd2|apply ins_sorted, Hs|apply all_vals_ins; assumption].
Qed.

Lemma class_defaults_srt : forallb (fun row => all_vals srt (snd (snd row))) classes = true.
Proof. vm_compute. reflexivity. Qed.

Lemma assoc_In {A} k (l : list (str * A)) v : assoc k l = Some v -> exists k', In (k', v) l.
Proof.
  induction l as [|[k0 v0] l IH]; cbn [assoc]; [discriminate|].
  destruct (str_eqb k k0); [intros E; inversion E; subst; exists k0; left; reflexivity|].
  intros E. destruct (IH E) as [k' H]. exists k'. right. exact H.
Qed.

Lemma new_obj_srt low kw : all_vals srt kw = true -> srt (new_obj low kw) = true.
Proof.
  intros Hk. unfold new_obj. destruct (assoc low classes) as [[name defs]|] eqn:E; [|reflexivity].
  destruct (assoc_In _ _ _ E) as [k' Hin].
  pose proof class_defaults_srt as Hc. rewrite forallb_forall in Hc. specialize (Hc _ Hin). cbn [snd] in Hc.
  destruct (of_list_from_srt kw [] eq_refl eq_refl Hk) as [S1 A1]. fold (of_list kw) in S1, A1.
  rewrite srt_obj. unfold init_fields.
  destruct (init_fields_srt ((k_image, VNull) :: defs) (of_list kw)) as [S2 A2]; [|exact S1|exact A1|rewrite S2, A2; reflexivity].
  unfold all_vals. cbn [forallb snd srt]. exact Hc.
Qed.

Lemma set_field_srt k x v : srt v = true -> srt x = true -> srt (set_field k x v) = true.
Proof. intros Hv Hx. destruct v; try reflexivity. cbn [set_field]. apply srt_obj_ins; assumption. Qed.

Lemma get_items_srt v l : srt v = true -> get_items v = Some l -> srt (VList l) = true.
Proof.
  destruct v; try discriminate. cbn [get_items]. intros Hv.
  destruct (assoc k_items fields) as [[| | | |l0| | |]|] eqn:E; try discriminate.
  intros H. inversion H; subst. apply (srt_field _ _ _ _ Hv E).
Qed.

Lemma append_item_srt x v : srt v = true -> srt x = true -> srt (append_item x v) = true.
Proof.
  intros Hv Hx. unfold append_item. destruct v; try reflexivity.
  destruct (get_items (VObj cname fields)) as [l|] eqn:E; [|reflexivity].
  apply srt_obj_ins; [exact Hv|]. apply srt_list_app; [apply (get_items_srt _ _ Hv E)|exact Hx].
Qed.

Lemma append_article_srt title dt kw coll :
  srt coll = true -> all_vals srt kw = true -> srt (append_article title dt kw coll) = true.
Proof.
  intros Hc Hk. unfold append_article. set (art := new_obj (lower k_Article) _).
  assert (Ha : srt art = true).
  { apply new_obj_srt. unfold all_vals. cbn [forallb snd]. destruct dt; cbn [srt]; exact Hk. }
  destruct (get_items coll) as [l|] eqn:E; [|reflexivity].
  pose proof (get_items_srt _ _ Hc E) as Hl. cbn [srt] in Hl.
  destruct (rev l) as [|last before] eqn:R; [apply append_item_srt; assumption|].
  destruct (is_chapter last); [|apply append_item_srt; assumption].
  assert (Hr : forallb srt (rev l) = true) by (rewrite forallb_rev; exact Hl).
  rewrite R in Hr. cbn [forallb] in Hr. apply andb_true_iff in Hr as [Hlast Hbefore].
  apply set_field_srt; [exact Hc|]. cbn [srt]. rewrite forallb_app, forallb_rev, Hbefore. cbn [forallb andb].
  rewrite (append_item_srt art last Hlast Ha). reflexivity.
Qed.

(* ------------------------------------------------------------------ edits *)

Lemma inner_set_srt k2 x y : srt y = true -> srt x = true -> srt (inner_set k2 x y) = true.
Proof.
  intros Hy Hx. destruct y; cbn [inner_set]; try exact Hy.
  - apply srt_dict_ins; assumption.
  - apply srt_obj_ins; assumption.
Qed.

Definition edit_srt (e : edit) : bool :=
  match e with
  | ESet _ x | EAppend x | EInsert _ x | EListAppend _ x | EInner _ _ _ x => srt x
  | EPop _ | EReverse => true
  end.

Lemma apply_edit_srt e v : srt v = true -> edit_srt e = true -> srt (apply_edit e v) = true.
Proof.
  intros Hv He. destruct v; try exact Hv. cbn [apply_edit].
  destruct e as [k x|x|i x|i| |k x|k i k2 x]; cbn [edit_srt] in He.
  - apply srt_obj_ins; assumption.
  - destruct (assoc k_items fields) as [[| | | |l| | |]|] eqn:E; try exact Hv.
    apply srt_obj_ins; [exact Hv|]. apply srt_list_app; [apply (srt_field _ _ _ _ Hv E)|exact He].
  - destruct (assoc k_items fields) as [[| | | |l| | |]|] eqn:E; try exact Hv.
    apply srt_obj_ins; [exact Hv|]. pose proof (srt_field _ _ _ _ Hv E) as Hl. cbn [srt] in *.
    apply forallb_insert_at; assumption.
  - destruct (assoc k_items fields) as [[| | | |[|y r]| | |]|] eqn:E; try exact Hv.
    apply srt_obj_ins; [exact Hv|]. pose proof (srt_field _ _ _ _ Hv E) as Hl. cbn [srt] in Hl |- *.
    apply forallb_remove_nth; assumption.
  - destruct (assoc k_items fields) as [[| | | |l| | |]|] eqn:E; try exact Hv.
    apply srt_obj_ins; [exact Hv|]. pose proof (srt_field _ _ _ _ Hv E) as Hl. cbn [srt] in Hl |- *.
    rewrite forallb_rev. exact Hl.
  - destruct (assoc k fields) as [[| | | |l| | |]|] eqn:E; try exact Hv.
    apply srt_obj_ins; [exact Hv|]. apply srt_list_app; [apply (srt_field _ _ _ _ Hv E)|exact He].
  - destruct (assoc k fields) as [[| | | |[|y r]|kvs|c' f'|]|] eqn:E; try exact Hv.
    + apply srt_obj_ins; [exact Hv|]. pose proof (srt_field _ _ _ _ Hv E) as Hl. cbn [srt] in Hl |- *.
      apply forallb_upd_nth; [|exact Hl]. intros z Hz. apply inner_set_srt; assumption.
    + apply srt_obj_ins; [exact Hv|]. apply inner_set_srt; [apply (srt_field _ _ _ _ Hv E)|exact He].
    + apply srt_obj_ins; [exact Hv|]. apply inner_set_srt; [apply (srt_field _ _ _ _ Hv E)|exact He].
Qed.

Lemma edit_at_srt e : edit_srt e = true -> forall path v, srt v = true -> srt (edit_at path e v) = true.
Proof.
  intros He. induction path as [|i p IH]; intros v Hv; cbn [edit_at].
  - apply apply_edit_srt; assumption.
  - destruct v; try exact Hv.
    destruct (assoc k_items fields) as [[| | | |[|y r]| | |]|] eqn:E; try exact Hv.
    apply srt_obj_ins; [exact Hv|]. pose proof (srt_field _ _ _ _ Hv E) as Hl. cbn [srt] in Hl |- *.
    apply forallb_upd_nth; [|exact Hl]. intros z Hz. apply IH, Hz.
Qed.

(* ------------------------------------------------------------------ the life of an object *)

Definition xop_srt (o : xop) : bool :=
  match o with
  | XApi (BAppend _ _ kw) => all_vals srt kw
  | XApi (BAddItem _ kw) => all_vals srt kw
  | XApi (BSet _ x) => srt x
  | XEdit _ e => edit_srt e
  end.

Lemma apply_xop_srt m o : srt m = true -> xop_srt o = true -> srt (apply_xop m o) = true.
Proof.
  intros Hm Ho. destruct o as [[t dt kw|low kw|k x]|p e]; cbn [apply_xop apply_bop xop_srt] in *.
  - apply append_article_srt; assumption.
  - apply append_item_srt; [exact Hm|apply new_obj_srt, Ho].
  - apply set_field_srt; assumption.
  - apply edit_at_srt; assumption.
Qed.

Lemma live_from_srt ops : forall m m', srt m = true -> forallb xop_srt ops = true -> live_from m ops = Some m' ->
  srt m' = true /\ (has_err m = false -> has_err m' = false).
Proof.
  induction ops as [|o ops IH]; intros m m' Hm Ho; cbn [live_from].
  - intros E. inversion E; subst. split; [exact Hm|auto].
  - cbn [forallb] in Ho. apply andb_true_iff in Ho as [Ho1 Ho2].
    destruct (has_err (apply_xop m o)) eqn:He; [discriminate|]. intros E.
    destruct (IH _ _ (apply_xop_srt m o Hm Ho1) Ho2 E) as [S N]. split; [exact S|intros _; apply N, He].
Qed.

(* every state in the life of a Collection whose inputs have key-sorted maps has key-sorted maps: its dump is a
   canonical JSON value *)
Lemma live_msorted kw0 ops m :
  kw_ok kw0 -> Forall xop_ok ops -> all_vals srt kw0 = true -> forallb xop_srt ops = true ->
  live_from (new_obj (lower k_Collection) kw0) ops = Some m ->
  msorted m = true /\ jcanon (to_json m) = true.
Proof.
  intros Hw Hwo Hk Ho E.
  assert (S0 : srt (new_obj (lower k_Collection) kw0) = true) by (apply new_obj_srt, Hk).
  destruct (live_from_srt ops _ m S0 Ho E) as [S _].
  destruct (live_wf kw0 ops m Hw Hwo E) as [W _].
  assert (M : msorted m = true) by (apply srt_msorted; [exact S|apply wf_no_err, W]).
  split; [exact M|apply to_json_canon, M].
Qed.

(* two moments of one object's life: with json.dumps(sort_keys=True) injective on CANONICAL JSON values only, the
   checksum changes exactly when the metabook (nf) changes, unless sha256 collides on the two dumps *)
Lemma checksum_over_life_canon dumps hexH kw0 ops1 ops2 m1 m2 :
  (forall j1 j2, jcanon j1 = true -> jcanon j2 = true -> dumps j1 = dumps j2 -> j1 = j2) ->
  kw_ok kw0 -> Forall xop_ok ops1 -> Forall xop_ok ops2 ->
  all_vals srt kw0 = true -> forallb xop_srt ops1 = true -> forallb xop_srt ops2 = true ->
  live_from (new_obj (lower k_Collection) kw0) ops1 = Some m1 -> live_from m1 ops2 = Some m2 ->
  (hexH (dumps (to_json m1)) = hexH (dumps (to_json m2)) -> dumps (to_json m1) = dumps (to_json m2)) ->
  (checksum dumps hexH m1 = checksum dumps hexH m2 <-> nf m1 = nf m2).
Proof.
  intros Hd Hw H1 H2 Hk S1 S2 E1 E2 Hh.
  destruct (live_msorted kw0 ops1 m1 Hw H1 Hk S1 E1) as [_ C1].
  assert (E12 : live_from (new_obj (lower k_Collection) kw0) (ops1 ++ ops2) = Some m2).
  { clear -E1 E2. revert E1. generalize (new_obj (lower k_Collection) kw0). induction ops1 as [|o r IH]; intros m0; cbn [live_from app].
    - intros E. inversion E; subst. exact E2.
    - destruct (has_err (apply_xop m0 o)); [discriminate|]. apply IH. }
  destruct (live_msorted kw0 (ops1 ++ ops2) m2 Hw) as [_ C2];
    [apply Forall_app; split; assumption|exact Hk|rewrite forallb_app, S1, S2; reflexivity|exact E12|].
  apply (checksum_over_life dumps hexH kw0 ops1 ops2 m1 m2 Hw H1 H2 E1 E2 Hh).
  intros H. apply Hd; assumption.
Qed.
