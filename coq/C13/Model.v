(* C13 — executable model of mwlib.core.metabook (MetabookObject.__init__ :15-31, _json :61-66 WITH THE
   PROPOSED FIX fixes/C13-null-default-roundtrip.diff, Collection.append_article :97-106, walk :111-121),
   mwlib.utils.myjson (object_hook :14-38) and the pre-image of nserve.make_collection_id (nserve.py:80-98).
   Definitions only. *)
From Coq Require Import List NArith ZArith Bool String Ascii.
From MW Require Import Common.Str C13.Val C13.Gen_classes.
Import ListNotations.
Local Open Scope N_scope.

Definition s2l (s : string) : str := map N_of_ascii (list_ascii_of_string s).

Definition k_type : str := Eval compute in s2l "type".
Definition k_image : str := Eval compute in s2l "image".
Definition k_self : str := Eval compute in s2l "self".
Definition k_items : str := Eval compute in s2l "items".
Definition k_title : str := Eval compute in s2l "title".
Definition k_displaytitle : str := Eval compute in s2l "displaytitle".
Definition k_Article : str := Eval compute in s2l "Article".
Definition k_Chapter : str := Eval compute in s2l "Chapter".
Definition k_Collection : str := Eval compute in s2l "Collection".

(* ------------------------------------------------------------------ class table *)

(* defaults of a class given its NAME (VObj carries the name) *)
Fixpoint defaults_in (name : str) (tbl : list (str * (str * list (str * val)))) : list (str * val) :=
  match tbl with
  | [] => []
  | (_, (n, d)) :: r => if str_eqb name n then d else defaults_in name r
  end.
Definition defaults_of (name : str) : list (str * val) := defaults_in name classes.

(* str.lower() as far as it can produce an ASCII letter: A-Z, U+212A KELVIN SIGN -> k, U+0130 -> i + U+0307
   (the tie checks over all code points that no other character lowers to anything containing ASCII; a
   character without ASCII in its lowering can never make the result equal to an all-ASCII class key,
   whatever non-ASCII text it lowers to, so it is modelled as itself) *)
Definition lower_char (c : N) : str :=
  if (65 <=? c) && (c <=? 90) then [c + 32]
  else if c =? 8490 then [107]
  else if c =? 304 then [105; 775]
  else [c].
Definition lower (s : str) : str := flat_map lower_char s.

Definition is_null (v : val) : bool := match v with VNull => true | _ => false end.
Definition starts_us (k : str) : bool := match k with 95 :: _ => true | _ => false end.

(* _json (fixed): an entry is dropped iff its name starts with "_", or its value is None and the class
   has no non-None default for it (so that loading restores exactly what was dropped) *)
Definition keep (cname k : str) (v : val) : bool :=
  negb (starts_us k) && (negb (is_null v) || has_key k (defaults_of cname)).

(* ------------------------------------------------------------------ to_json / of_json *)

(* json.dumps(obj, cls=MbEncoder): objects become dicts via _json; maps are key-sorted *)
Fixpoint to_json (v : val) : val :=
  match v with
  | VObj c f =>
      VDict (ins k_type (VStr c)
               ((fix go (l : list (str * val)) : list (str * val) :=
                   match l with
                   | [] => []
                   | (k, x) :: r => if keep c k x then (k, to_json x) :: go r else go r
                   end) f))
  | VDict kvs =>
      VDict ((fix go (l : list (str * val)) : list (str * val) :=
                match l with [] => [] | (k, x) :: r => (k, to_json x) :: go r end) kvs)
  | VList l => VList (map to_json l)
  | _ => v
  end.

(* MetabookObject.__init__ with keywords kw: image=None, then the class defaults, then kw; `type` is the class *)
Definition init_fields (defs kw : list (str * val)) : list (str * val) :=
  fold_left (fun acc kd => if has_key (fst kd) acc then acc else ins (fst kd) (snd kd) acc)
            ((k_image, VNull) :: defs) kw.

(* myjson.object_hook on a dict whose values are already decoded *)
Definition object_hook (kvs : list (str * val)) : val :=
  match assoc k_type kvs with
  | None => VDict kvs
  | Some (VStr t) =>
      match assoc (lower t) classes with
      | Some (name, defs) =>
          if has_key k_self kvs then VErr          (* klass with a keyword named self -> TypeError *)
          else VObj name (init_fields defs (remove k_type kvs))
      | None => VDict kvs                           (* "No class found for document type" *)
      end
  | Some _ => VErr                                  (* dct["type"].lower() on a non-string *)
  end.

(* json.loads(text, object_hook=object_hook) on the parsed JSON value *)
Fixpoint of_json (v : val) : val :=
  match v with
  | VDict kvs =>
      object_hook ((fix go (l : list (str * val)) : list (str * val) :=
                      match l with [] => [] | (k, x) :: r => (k, of_json x) :: go r end) kvs)
  | VList l => VList (map of_json l)
  | _ => v
  end.

Fixpoint has_err (v : val) : bool :=
  match v with
  | VErr => true
  | VList l => existsb has_err l
  | VDict kvs => (fix go (l : list (str * val)) : bool := match l with [] => false | (_, x) :: r => has_err x || go r end) kvs
  | VObj _ f => (fix go (l : list (str * val)) : bool := match l with [] => false | (_, x) :: r => has_err x || go r end) f
  | _ => false
  end.

Definition loads (j : val) : option val := let m := of_json j in if has_err m then None else Some m.

(* ------------------------------------------------------------------ building metabooks *)

Definition new_obj (lowname : str) (kw : list (str * val)) : val :=
  match assoc lowname classes with
  | Some (name, defs) => VObj name (init_fields defs (of_list kw))
  | None => VErr
  end.

Definition py_isspace (c : N) : bool :=
  ((9 <=? c) && (c <=? 13)) || ((28 <=? c) && (c <=? 32)) || (c =? 133) || (c =? 160) || (c =? 5760)
  || ((8192 <=? c) && (c <=? 8202)) || (c =? 8232) || (c =? 8233) || (c =? 8239) || (c =? 8287) || (c =? 12288).
Fixpoint lstrip (s : str) : str :=
  match s with c :: s' => if py_isspace c then lstrip s' else s | [] => [] end.
Definition strip (s : str) : str := rev (lstrip (rev (lstrip s))).

Definition set_field (k : str) (x : val) (v : val) : val :=
  match v with VObj c f => VObj c (ins k x f) | _ => VErr end.

Definition get_items (v : val) : option (list val) :=
  match v with
  | VObj _ f => match assoc k_items f with Some (VList l) => Some l | _ => None end
  | _ => None
  end.

Definition is_chapter (v : val) : bool := match v with VObj c _ => str_eqb c k_Chapter | _ => false end.

Definition append_item (x : val) (v : val) : val :=
  match v, get_items v with
  | VObj c f, Some l => VObj c (ins k_items (VList (l ++ [x])) f)
  | _, _ => VErr
  end.

(* Collection.append_article(title, displaytitle, kw) *)
Definition append_article (title : str) (dt : option str) (kw : list (str * val)) (coll : val) : val :=
  let art := new_obj (lower k_Article)
               ((k_title, VStr (strip title)) ::
                (k_displaytitle, match dt with Some d => VStr (strip d) | None => VNull end) :: kw) in
  match get_items coll with
  | Some l =>
      match rev l with
      | last :: before =>
          if is_chapter last
          then (* self.items[-1].items.append(art) *)
               set_field k_items (VList (rev before ++ [append_item art last])) coll
          else append_item art coll
      | [] => append_item art coll
      end
  | None => VErr
  end.

(* Collection.walk(filter_type): pre-order over items; here: the class names and titles in order *)
Fixpoint walk (v : val) : list val :=
  match v with
  | VObj c f =>
      v :: (fix go (l : list (str * val)) : list val :=
              match l with
              | [] => []
              | (k, x) :: r =>
                  if str_eqb k k_items
                  then match x with VList xs => flat_map walk xs | _ => [] end
                  else go r
              end) f
  | _ => [v]
  end.

Definition walk_items (coll : val) : list val :=
  match get_items coll with Some l => flat_map walk l | None => [] end.

(* ------------------------------------------------------------------ collection id *)

Section CollectionId.
  (* third-party oracles: json.dumps(sort_keys=True, indent=4) on a JSON value, hex(sha256(utf8 .)),
     repr of None / a str, str(_version.version) *)
  Variable dumps : val -> str.
  Variable hexH : str -> str.
  Variable repr : option str -> str.
  Variable version : str.

  (* the string make_collection_id hashes; metabook = the parsed JSON value of data["metabook"] when that
     text is non-empty.  None = json.loads / calc_checksum raised. *)
  Definition id_preimage (base_url script_ext login : option str) (metabook : option val) : option str :=
    let head := version ++ repr base_url ++ repr script_ext ++ repr login in
    match metabook with
    | None => Some head
    | Some j =>
        match loads j with
        | Some m => Some (head ++ hexH (dumps (to_json m)))
        | None => None
        end
    end.
End CollectionId.
