(* C13 — the metabook API keeps collections inside the domain of the round-trip theorems: objects built by the
   constructors (new_obj = MetabookObject.__init__ of a known class), Collection.append_article, items.append and
   setattr are wf, and what Collection.walk returns is wf.  Hence C13_roundtrip / C13_fixed_point / the id theorems
   apply to every collection built through the API (by an op sequence that did not raise). *)
From Coq Require Import List NArith ZArith Bool Lia.
From MW Require Import Common.Str C13.Val C13.Gen_classes C13.Model C13.Wf C13.Proofs C13.ProofsRT C13.ProofsId.
Import ListNotations.

(* ------------------------------------------------------------------ maps *)

Definition vals_wf (l : list (str * val)) : Prop := Forall (fun kv => wf (snd kv)) l.

Lemma vals_wf_ins k v l : wf v -> vals_wf l -> vals_wf (ins k v l).
Proof.
  intros Hv. unfold vals_wf. induction l as [|[k0 v0] l IH]; cbn [ins]; intros H.
  - constructor; [exact Hv|constructor].
  - destruct (scmp k k0).
    + inversion H; subst. constructor; assumption.
    + constructor; assumption.
    + inversion H; subst. constructor; [assumption|apply IH; assumption].
Qed.

Lemma assoc_vals_wf k l v : vals_wf l -> assoc k l = Some v -> wf v.
Proof.
  unfold vals_wf. induction l as [|[k0 v0] l IH]; cbn [assoc]; [discriminate|].
  intros H. inversion H; subst. destruct (str_eqb k k0); [intros E; inversion E; subst; assumption|apply IH; assumption].
Qed.

(* keyword arguments: well-formed values, no keyword called `type` or `self` *)
Definition kw_ok (kw : list (str * val)) : Prop :=
  Forall (fun kv => wf (snd kv) /\ str_eqb k_type (fst kv) = false /\ str_eqb k_self (fst kv) = false) kw.

Lemma of_list_from_ok kw : forall acc,
  kw_ok kw -> vals_wf acc -> has_key k_type acc = false -> has_key k_self acc = false ->
  let r := fold_left (fun acc kv => ins (fst kv) (snd kv) acc) kw acc in
  vals_wf r /\ has_key k_type r = false /\ has_key k_self r = false.
Proof.
  induction kw as [|[k v] kw IH]; intros acc Hk Ha Ht Hs; cbn [fold_left]; [auto|].
  inversion Hk as [|x l (Hv & H1 & H2) Hk']; subst. cbn [fst snd] in *.
  apply IH; [exact Hk'|apply vals_wf_ins; assumption| |]; rewrite has_key_ins; [rewrite H1|rewrite H2]; assumption.
Qed.

Lemma of_list_ok kw : kw_ok kw ->
  vals_wf (of_list kw) /\ has_key k_type (of_list kw) = false /\ has_key k_self (of_list kw) = false.
Proof. intros H. unfold of_list. apply of_list_from_ok; [exact H|constructor|reflexivity|reflexivity]. Qed.

(* ------------------------------------------------------------------ __init__ *)

Definition add_default (acc : list (str * val)) (kd : str * val) : list (str * val) :=
  if has_key (fst kd) acc then acc else ins (fst kd) (snd kd) acc.

Lemma add_default_mono acc kd k : has_key k acc = true -> has_key k (add_default acc kd) = true.
Proof.
  unfold add_default. intros H. destruct (has_key (fst kd) acc); [exact H|]. rewrite has_key_ins, H. apply orb_true_r.
Qed.

Lemma fold_default_mono defs : forall acc k, has_key k acc = true -> has_key k (fold_left add_default defs acc) = true.
Proof. induction defs as [|kd defs IH]; intros acc k H; cbn [fold_left]; [exact H|]. apply IH, add_default_mono, H. Qed.

Lemma fold_default_present defs : forall acc,
  forallb (fun kd => has_key (fst kd) (fold_left add_default defs acc)) defs = true.
Proof.
  induction defs as [|kd defs IH]; intros acc; cbn [fold_left forallb]; [reflexivity|].
  rewrite IH, andb_true_r. apply fold_default_mono. unfold add_default.
  destruct (has_key (fst kd) acc) eqn:E; [exact E|]. rewrite has_key_ins, str_eqb_refl. reflexivity.
Qed.

Lemma fold_default_props defs : forall acc k,
  Forall (fun kd => wf (snd kd)) defs -> vals_wf acc ->
  has_key k acc = false -> has_key k defs = false ->
  vals_wf (fold_left add_default defs acc) /\ has_key k (fold_left add_default defs acc) = false.
Proof.
  induction defs as [|[k0 d0] defs IH]; intros acc k Hd Ha Hk Hkd; cbn [fold_left]; [auto|].
  inversion Hd; subst. unfold has_key in Hkd. cbn [assoc] in Hkd.
  destruct (str_eqb k k0) eqn:E; [discriminate|].
  apply IH; [assumption| | |exact Hkd]; unfold add_default; cbn [fst snd]; destruct (has_key k0 acc); try assumption.
  - apply vals_wf_ins; assumption.
  - rewrite has_key_ins, E. exact Hk.
Qed.

(* facts about the generated class table (finite case analysis, re-checked against the regenerated table on every run) *)
Definition class_row_ok (row : str * (str * list (str * val))) : bool :=
  let '(low, (name, defs)) := row in
  str_eqb (lower name) low && negb (has_key k_self defs) && negb (has_key k_type defs) && negb (has_key k_image defs)
  && forallb (fun kd => wfb (snd kd)) defs
  && (fix eqd (a b : list (str * val)) : bool :=
        match a, b with
        | [], [] => true
        | (k, _) :: a', (k', _) :: b' => str_eqb k k' && eqd a' b'
        | _, _ => false
        end) (defaults_of name) defs
  && Nat.eqb (length (defaults_of name)) (length defs).

Lemma class_rows_ok : forallb class_row_ok classes = true.
Proof. vm_compute. reflexivity. Qed.

Lemma class_lookup low name defs :
  assoc low classes = Some (name, defs) ->
  class_ok name /\ defaults_of name = defs /\ has_key k_self defs = false /\ has_key k_type defs = false /\
  Forall (fun kd => wf (snd kd)) defs.
Proof.
  intros H.
  assert (Hin : In (low, (name, defs)) classes).
  { revert H. generalize classes. induction l as [|[k0 v0] l IH]; cbn [assoc]; [discriminate|].
    destruct (str_eqb low k0) eqn:E; [|intros H; right; apply IH; exact H].
    intros H. inversion H; subst. apply str_eqb_spec in E. subst. left. reflexivity. }
  split; [exists low, defs; exact Hin|].
  unfold classes in Hin. cbn [In] in Hin.
  repeat (destruct Hin as [Hin|Hin];
          [inversion Hin; subst; split; [vm_compute; reflexivity|]; split; [reflexivity|]; split; [reflexivity|];
           repeat constructor|]).
  contradiction.
Qed.

Lemma init_fields_wf c defs kwm :
  class_ok c -> defaults_of c = defs -> has_key k_self defs = false -> has_key k_type defs = false ->
  Forall (fun kd => wf (snd kd)) defs ->
  vals_wf kwm -> has_key k_type kwm = false -> has_key k_self kwm = false ->
  wf (VObj c (init_fields defs kwm)).
Proof.
  intros Hc Hd Hs Ht Hw Hk Hkt Hks. unfold init_fields. fold add_default.
  assert (Hw' : Forall (fun kd => wf (snd kd)) ((k_image, VNull) :: defs)) by (constructor; [constructor|exact Hw]).
  constructor.
  - exact Hc.
  - apply (fold_default_props ((k_image, VNull) :: defs) kwm k_type Hw' Hk Hkt).
    unfold has_key in *. cbn [assoc]. exact Ht.
  - apply (fold_default_props ((k_image, VNull) :: defs) kwm k_self Hw' Hk Hks).
    unfold has_key in *. cbn [assoc]. exact Hs.
  - rewrite Hd. pose proof (fold_default_present ((k_image, VNull) :: defs) kwm) as P.
    cbn [forallb] in P. apply andb_true_iff in P as [_ P]. exact P.
  - apply (fold_default_props ((k_image, VNull) :: defs) kwm k_type Hw' Hk Hkt).
    unfold has_key in *. cbn [assoc]. exact Ht.
Qed.

(* MetabookObject.__init__ with keywords kw of any known class *)
Lemma new_obj_wf low kw : kw_ok kw -> new_obj low kw = VErr \/ wf (new_obj low kw).
Proof.
  intros Hk. unfold new_obj. destruct (assoc low classes) as [[name defs]|] eqn:E; [|left; reflexivity].
  right. destruct (class_lookup low name defs E) as (Hc & Hd & Hs & Ht & Hw).
  destruct (of_list_ok kw Hk) as (H1 & H2 & H3).
  apply init_fields_wf; assumption.
Qed.

(* ------------------------------------------------------------------ items.append, setattr, append_article *)

Lemma wf_obj_inv c f : wf (VObj c f) ->
  class_ok c /\ has_key k_type f = false /\ has_key k_self f = false /\
  forallb (fun kd => has_key (fst kd) f) (defaults_of c) = true /\ vals_wf f.
Proof. intros H. inversion H; subst. auto. Qed.

Lemma forallb_has_key_ins (defs : list (str * val)) k (v : val) f :
  forallb (fun kd => has_key (fst kd) f) defs = true ->
  forallb (fun kd => has_key (fst kd) (ins k v f)) defs = true.
Proof.
  rewrite !forallb_forall. intros H x Hx. rewrite has_key_ins, (H x Hx). apply orb_true_r.
Qed.

(* setattr(obj, k, x) for an attribute not called type / self *)
Lemma set_field_wf k x v :
  wf v -> wf x -> str_eqb k_type k = false -> str_eqb k_self k = false ->
  set_field k x v = VErr \/ wf (set_field k x v).
Proof.
  intros Hv Hx Ht Hs. destruct v; try (left; reflexivity). right. cbn [set_field].
  destruct (wf_obj_inv _ _ Hv) as (Hc & H1 & H2 & H3 & H4).
  constructor; [exact Hc| | | |apply vals_wf_ins; assumption].
  - rewrite has_key_ins, Ht. exact H1.
  - rewrite has_key_ins, Hs. exact H2.
  - apply forallb_has_key_ins. exact H3.
Qed.

Lemma k_items_not_type : str_eqb k_type k_items = false. Proof. reflexivity. Qed.
Lemma k_items_not_self : str_eqb k_self k_items = false. Proof. reflexivity. Qed.

Lemma get_items_wf v l : wf v -> get_items v = Some l -> Forall wf l.
Proof.
  intros Hv. destruct v; try discriminate. cbn [get_items].
  destruct (assoc k_items fields) as [[| | | |l0| | |]|] eqn:E; try discriminate.
  intros H. inversion H; subst. destruct (wf_obj_inv _ _ Hv) as (_ & _ & _ & _ & H4).
  pose proof (assoc_vals_wf _ _ _ H4 E) as W. inversion W; subst. assumption.
Qed.

(* obj.items.append(x) *)
Lemma append_item_wf x v : wf v -> wf x -> append_item x v = VErr \/ wf (append_item x v).
Proof.
  intros Hv Hx. unfold append_item. destruct v; try (left; reflexivity).
  destruct (get_items (VObj cname fields)) as [l|] eqn:E; [|left; reflexivity]. right.
  pose proof (get_items_wf _ _ Hv E) as Hl.
  destruct (wf_obj_inv _ _ Hv) as (Hc & H1 & H2 & H3 & H4).
  constructor; [exact Hc| | | |].
  - rewrite has_key_ins, k_items_not_type. exact H1.
  - rewrite has_key_ins, k_items_not_self. exact H2.
  - apply forallb_has_key_ins. exact H3.
  - apply vals_wf_ins; [|exact H4]. constructor. apply Forall_app. split; [exact Hl|constructor; [exact Hx|constructor]].
Qed.

Lemma article_kw_ok title dt kw : kw_ok kw ->
  kw_ok ((k_title, VStr (strip title)) :: (k_displaytitle, match dt with Some d => VStr (strip d) | None => VNull end) :: kw).
Proof.
  intros H. constructor; [|constructor; [|exact H]]; cbn [fst snd]; (split; [|split; reflexivity]).
  - constructor.
  - destruct dt; constructor.
Qed.

(* has_err of a value: a wf value has none *)
Lemma any_err_false l :
  Forall (fun kv => wf (snd kv) -> has_err (snd kv) = false) l -> Forall (fun kv => wf (snd kv)) l -> any_err l = false.
Proof.
  unfold any_err. induction l as [|kv l IH]; intros H1 H2; [reflexivity|].
  inversion H1; subst. inversion H2; subst. cbn [existsb]. rewrite (H3 H5). cbn. apply IH; assumption.
Qed.

Lemma wf_no_err v : wf v -> has_err v = false.
Proof.
  induction v as [| b | z | s | l IH | kvs IH | c f IH | ] using val_ind'; intros H; try reflexivity.
  - inversion H as [| | | |l0 Hl| |]; subst. rewrite has_err_list.
    induction IH as [|x r Hx _ IHr]; [reflexivity|]. inversion Hl; subst. cbn [existsb]. rewrite (Hx H2). cbn.
    apply IHr; [constructor|]; assumption.
  - inversion H as [| | | | |k0 Hk Hl|]; subst. rewrite has_err_dict. apply any_err_false; assumption.
  - destruct (wf_obj_inv _ _ H) as (_ & _ & _ & _ & Hl). rewrite has_err_obj. apply any_err_false; assumption.
  - inversion H.
Qed.

(* Collection.append_article: either the real call raises (the model value contains VErr) or the result is wf *)
Lemma append_article_wf title dt kw coll :
  wf coll -> kw_ok kw ->
  has_err (append_article title dt kw coll) = true \/ wf (append_article title dt kw coll).
Proof.
  intros Hc Hk. unfold append_article.
  set (art := new_obj (lower k_Article) _).
  assert (Ha : art = VErr \/ wf art) by (apply new_obj_wf, article_kw_ok, Hk).
  destruct (get_items coll) as [l|] eqn:E; [|left; reflexivity].
  pose proof (get_items_wf _ _ Hc E) as Hl.
  assert (Top : has_err (append_item art coll) = true \/ wf (append_item art coll)).
  { destruct Ha as [Ha|Ha].
    - rewrite Ha. left. unfold append_item. destruct coll; try reflexivity. rewrite E.
      rewrite has_err_obj. unfold any_err. rewrite existsb_exists. exists (k_items, VList (l ++ [VErr])).
      split.
      + assert (A : assoc k_items (ins k_items (VList (l ++ [VErr])) fields) = Some (VList (l ++ [VErr])))
          by (rewrite assoc_ins, str_eqb_refl; reflexivity).
        revert A. generalize (ins k_items (VList (l ++ [VErr])) fields). intros m.
        induction m as [|[k0 v0] m IH]; cbn [assoc]; [discriminate|].
        destruct (str_eqb k_items k0) eqn:E0; [intros A; inversion A; subst; apply str_eqb_spec in E0; subst; left; reflexivity|].
        intros A. right. apply IH, A.
      + cbn [snd]. rewrite has_err_list, existsb_app. cbn. apply orb_true_r.
    - destruct (append_item_wf art coll Hc Ha) as [H|H]; [left; rewrite H; reflexivity|right; exact H]. }
  destruct (rev l) as [|last before] eqn:R; [exact Top|].
  destruct (is_chapter last) eqn:Ch; [|exact Top].
  (* the last item is a chapter: the article goes into it *)
  assert (Hlast : wf last /\ Forall wf (rev before)).
  { assert (Hr : Forall wf (rev l)) by (apply Forall_rev; exact Hl). rewrite R in Hr. inversion Hr; subst.
    split; [assumption|apply Forall_rev; assumption]. }
  destruct Hlast as [Hlast Hbefore].
  assert (In1 : has_err (append_item art last) = true \/ wf (append_item art last)).
  { destruct Ha as [Ha|Ha].
    - left. rewrite Ha. unfold append_item. destruct last; try reflexivity.
      destruct (get_items (VObj cname fields)) as [l1|]; [|reflexivity].
      rewrite has_err_obj. unfold any_err. rewrite existsb_exists. exists (k_items, VList (l1 ++ [VErr])).
      split.
      + assert (A : assoc k_items (ins k_items (VList (l1 ++ [VErr])) fields) = Some (VList (l1 ++ [VErr])))
          by (rewrite assoc_ins, str_eqb_refl; reflexivity).
        revert A. generalize (ins k_items (VList (l1 ++ [VErr])) fields). intros m.
        induction m as [|[k0 v0] m IH]; cbn [assoc]; [discriminate|].
        destruct (str_eqb k_items k0) eqn:E0; [intros A; inversion A; subst; apply str_eqb_spec in E0; subst; left; reflexivity|].
        intros A. right. apply IH, A.
      + cbn [snd]. rewrite has_err_list, existsb_app. cbn. apply orb_true_r.
    - destruct (append_item_wf art last Hlast Ha) as [H|H]; [left; rewrite H; reflexivity|right; exact H]. }
  destruct coll; try (left; reflexivity). cbn [set_field].
  destruct In1 as [In1|In1].
  - left. rewrite has_err_obj. unfold any_err. rewrite existsb_exists.
    exists (k_items, VList (rev before ++ [append_item art last])). split.
    + assert (A : assoc k_items (ins k_items (VList (rev before ++ [append_item art last])) fields)
                  = Some (VList (rev before ++ [append_item art last]))) by (rewrite assoc_ins, str_eqb_refl; reflexivity).
      revert A. generalize (ins k_items (VList (rev before ++ [append_item art last])) fields). intros m.
      induction m as [|[k0 v0] m IH]; cbn [assoc]; [discriminate|].
      destruct (str_eqb k_items k0) eqn:E0; [intros A; inversion A; subst; apply str_eqb_spec in E0; subst; left; reflexivity|].
      intros A. right. apply IH, A.
    + cbn [snd]. rewrite has_err_list, existsb_app. cbn [existsb]. rewrite In1. cbn. apply orb_true_r.
  - right. destruct (wf_obj_inv _ _ Hc) as (Hcl & H1 & H2 & H3 & H4).
    constructor; [exact Hcl| | | |].
    + rewrite has_key_ins, k_items_not_type. exact H1.
    + rewrite has_key_ins, k_items_not_self. exact H2.
    + apply forallb_has_key_ins. exact H3.
    + apply vals_wf_ins; [|exact H4]. constructor. apply Forall_app. split; [exact Hbefore|constructor; [exact In1|constructor]].
Qed.

(* ------------------------------------------------------------------ walk *)

Definition walk_ok (v : val) : Prop :=
  wf v -> Forall wf (walk v) /\ (forall xs, v = VList xs -> Forall wf (flat_map walk xs)).

Lemma walk_ok_all v : walk_ok v.
Proof.
  induction v as [| b | z | s | l IH | kvs IH | c f IH | ] using val_ind'; intros H;
    try (split; [constructor; [exact H|constructor]|intros xs E; discriminate E]).
  - (* list *)
    split; [constructor; [exact H|constructor]|]. intros xs E. inversion E; subst xs. clear E.
    inversion H as [| | | |l0 Hl| |]; subst.
    induction IH as [|y r Hy _ IHr]; cbn [flat_map]; [constructor|]. inversion Hl; subst.
    apply Forall_app. split; [apply (Hy H2)|apply IHr; [constructor|]; assumption].
  - (* object *)
    split; [|intros xs E; discriminate E]. cbn [walk]. constructor; [exact H|].
    destruct (wf_obj_inv _ _ H) as (_ & _ & _ & _ & Hl). unfold vals_wf in Hl. clear H.
    induction IH as [|[k x] r Hx _ IHr]; [constructor|]. inversion Hl; subst. cbn [snd] in *.
    destruct (str_eqb k k_items); [|apply IHr; assumption].
    destruct x; try constructor. apply (Hx H1). reflexivity.
Qed.

Lemma walk_wf v : wf v -> Forall wf (walk v).
Proof. intros H. apply (walk_ok_all v H). Qed.

(* Collection.walk(): everything it returns is a wf object *)
Lemma walk_items_wf coll : wf coll -> Forall wf (walk_items coll).
Proof.
  intros H. unfold walk_items. destruct (get_items coll) as [l|] eqn:E; [|constructor].
  pose proof (get_items_wf _ _ H E) as Hl. clear E. induction Hl as [|y r Hy _ IHr]; cbn [flat_map]; [constructor|].
  apply Forall_app. split; [apply walk_wf, Hy|exact IHr].
Qed.

(* ------------------------------------------------------------------ op sequences *)

Inductive bop :=
| BAppend (title : str) (dt : option str) (kw : list (str * val))      (* coll.append_article(title, dt, kw..) *)
| BAddItem (low : str) (kw : list (str * val))                          (* coll.items.append(Class(kw..)) *)
| BSet (k : str) (x : val).                                             (* setattr(coll, k, x) *)

Definition bop_ok (o : bop) : Prop :=
  match o with
  | BAppend _ _ kw => kw_ok kw
  | BAddItem _ kw => kw_ok kw
  | BSet k x => wf x /\ str_eqb k_type k = false /\ str_eqb k_self k = false
  end.

Definition apply_bop (m : val) (o : bop) : val :=
  match o with
  | BAppend t dt kw => append_article t dt kw m
  | BAddItem low kw => append_item (new_obj low kw) m
  | BSet k x => set_field k x m
  end.

(* a real op sequence stops at the first call that raises: None *)
Fixpoint build_from (m : val) (ops : list bop) : option val :=
  match ops with
  | [] => Some m
  | o :: r => let m' := apply_bop m o in if has_err m' then None else build_from m' r
  end.

Lemma has_err_VErr_in_items x v : x = VErr -> has_err (append_item x v) = true.
Proof.
  intros ->. unfold append_item. destruct v; try reflexivity. destruct (get_items (VObj cname fields)) as [l|]; [|reflexivity].
  rewrite has_err_obj. unfold any_err. rewrite existsb_exists. exists (k_items, VList (l ++ [VErr])). split.
  - assert (A : assoc k_items (ins k_items (VList (l ++ [VErr])) fields) = Some (VList (l ++ [VErr])))
      by (rewrite assoc_ins, str_eqb_refl; reflexivity).
    revert A. generalize (ins k_items (VList (l ++ [VErr])) fields). intros m.
    induction m as [|[k0 v0] m IH]; cbn [assoc]; [discriminate|].
    destruct (str_eqb k_items k0) eqn:E0; [intros A; inversion A; subst; apply str_eqb_spec in E0; subst; left; reflexivity|].
    intros A. right. apply IH, A.
  - cbn [snd]. rewrite has_err_list, existsb_app. cbn. apply orb_true_r.
Qed.

Lemma apply_bop_wf m o : wf m -> bop_ok o -> has_err (apply_bop m o) = true \/ wf (apply_bop m o).
Proof.
  intros Hm Ho. destruct o as [t dt kw|low kw|k x]; cbn [apply_bop bop_ok] in *.
  - apply append_article_wf; assumption.
  - destruct (new_obj_wf low kw Ho) as [E|W].
    + left. apply has_err_VErr_in_items, E.
    + destruct (append_item_wf _ m Hm W) as [E|W']; [left; rewrite E; reflexivity|right; exact W'].
  - destruct Ho as (Hx & Ht & Hs). destruct (set_field_wf k x m Hm Hx Ht Hs) as [E|W]; [left; rewrite E; reflexivity|right; exact W].
Qed.

Lemma build_from_wf ops : forall m m', wf m -> Forall bop_ok ops -> build_from m ops = Some m' -> wf m'.
Proof.
  induction ops as [|o ops IH]; intros m m' Hm Ho; cbn [build_from].
  - intros E. inversion E; subst. exact Hm.
  - inversion Ho; subst. destruct (apply_bop_wf m o Hm H1) as [E|W]; [rewrite E; discriminate|].
    rewrite (wf_no_err _ W). apply IH; assumption.
Qed.

(* every collection built through the API by an op sequence that did not raise is in the domain of the round-trip,
   fixed-point and id theorems *)
Lemma api_built_wf kw0 ops m :
  kw_ok kw0 -> Forall bop_ok ops ->
  build_from (new_obj (lower k_Collection) kw0) ops = Some m -> wf m.
Proof.
  intros Hk Ho. destruct (new_obj_wf (lower k_Collection) kw0 Hk) as [E|W].
  - rewrite E. destruct ops as [|o ops]; cbn [build_from]; [intros H; inversion H; subst|].
    + exfalso. revert E. unfold new_obj. vm_compute. discriminate.
    + destruct o; cbn [apply_bop append_article append_item set_field get_items]; cbn; discriminate.
  - apply build_from_wf; assumption.
Qed.

Lemma api_built_roundtrip kw0 ops m :
  kw_ok kw0 -> Forall bop_ok ops ->
  build_from (new_obj (lower k_Collection) kw0) ops = Some m ->
  nf (of_json (to_json m)) = nf m /\ to_json (of_json (to_json m)) = to_json m /\ Forall wf (walk_items m).
Proof.
  intros Hk Ho E. pose proof (api_built_wf kw0 ops m Hk Ho E) as W.
  split; [apply roundtrip, W|]. split; [apply fixed_point, W|apply walk_items_wf, W].
Qed.

Lemma ex_api :
  let ops := [BAddItem (lower k_Chapter) [(k_title, VStr [67]%N)];
              BAppend [65]%N None [([114;101;118;105;115;105;111;110]%N, VInt 0)];
              BAppend [66]%N (Some [68]%N) [];
              BSet k_title (VStr [])] in
  Forall bop_ok ops /\
  exists m, build_from (new_obj (lower k_Collection) []) ops = Some m /\ length (walk_items m) = 3%nat.
Proof.
  cbv zeta. split.
  - repeat constructor.
  - eexists. split; [vm_compute; reflexivity|vm_compute; reflexivity].
Qed.

Lemma constructors_wf_full :
  (forall low kw, kw_ok kw -> new_obj low kw = VErr \/ wf (new_obj low kw)) /\
  (forall x v, wf v -> wf x -> append_item x v = VErr \/ wf (append_item x v)) /\
  (forall k x v, wf v -> wf x -> str_eqb k_type k = false -> str_eqb k_self k = false ->
                 set_field k x v = VErr \/ wf (set_field k x v)).
Proof. exact (conj new_obj_wf (conj append_item_wf set_field_wf)). Qed.
