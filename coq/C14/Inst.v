(* C14 — the archive model instantiated: title normalisation = the C12 model with CPython's tables and the bundled
   sites; the JSON header codec and the redirect matcher are oracles given as finite tables by the caller. *)
From Coq Require Import List NArith ZArith Bool.
From MW Require Import Common.Str C12.Model C12.Inst C14.Model.
Import ListNotations.

(* json.loads on the header lines of one archive: the inverse of the (injective) dumps on the records written *)
Definition loads_tbl (tbl : list rec) (j : str) : option meta :=
  match find (fun r => str_eqb (r_json r) j) tbl with
  | Some r => Some (r_meta r)
  | None => None
  end.

Definition redirect_tbl (tbl : list (str * str)) (t : str) : option str := dict_get str_eqb t tbl.

Definition written (ops : list wop) : list rec := write_ops [] ops.
Definition archive_file (ops : list wop) : str := file_of (written ops).
Definition archive_index (ops : list wop) : option index :=
  read_revisions (loads_tbl (written ops)) (archive_file ops).

Definition q_get (rtab : list (str * str)) (ix : index) (redirects : list (str * str)) (name : str) (rev : option Z)
  : option page := get_page (redirect_tbl rtab) ix redirects name rev.

Definition q_norm (st : site) (rtab : list (str * str)) (ix : index) (redirects : list (str * str)) (name : str) (dns : Z)
  : result (option page) :=
  match py_get_fqname st name dns with
  | Ok fq => Ok (get_page (redirect_tbl rtab) ix redirects fq None)
  | KeyError => KeyError
  end.

Definition q_image (st en : site) (stored_titles : list str) (name : str) : result (option str) :=
  image_lookup (py_splitname st) (py_get_fqname en) (map stored_name stored_titles) name.
