(* C14 — images are kept apart whatever their length: fs_escape never shortens a title of the property's alphabet, two such
   titles sharing a prefix of ANY length get different file names, and every stored image is served with ITS OWN bytes. *)
From Coq Require Import List NArith ZArith Bool Lia.
From MW Require Import Common.Str C12.Model C12.ListLemmas C12.Proofs C12.Inst C12.ProofsInst.
From MW Require Import C14.Model C14.Inst C14.ProofsIndex C14.ProofsEscape C14.ProofsImage.
Import ListNotations. Open Scope N_scope.

(* ---------- no truncation: the file name is at least as long as the title ---------- *)
Lemma code_nonempty c : alpha c = true -> (1 <= length (code c))%nat.
Proof.
  intros H. destruct (code_shape c H) as [[k [E _]]|[[_ E]|[_ E]]]; rewrite E; cbn [length]; lia.
Qed.

Lemma flat_map_code_length s : forallb alpha s = true -> (length s <= length (flat_map code s))%nat.
Proof.
  induction s as [|c s IH]; [reflexivity|]. cbn [forallb flat_map length]. intros H.
  apply andb_true_iff in H as [H1 H2]. rewrite app_length. pose proof (code_nonempty c H1). pose proof (IH H2). lia.
Qed.

Theorem fs_escape_no_truncation : forall s, forallb alpha s = true -> ends_nonspace s ->
  (length s <= length (fs_escape s))%nat.
Proof.
  intros s Ha He. rewrite (fs_escape_on_alpha s Ha He). exact (flat_map_code_length s Ha).
Qed.

(* ---------- a shared prefix of any length does not merge two titles ---------- *)
Lemma map_app_cancel {A B} (f : A -> B) p x y : map f (p ++ x) = map f (p ++ y) -> map f x = map f y.
Proof. rewrite !map_app. apply app_inv_head. Qed.

Theorem long_titles_kept_apart : forall p x y,
  forallb alpha (p ++ x) = true -> forallb alpha (p ++ y) = true ->
  ends_nonspace (p ++ x) -> ends_nonspace (p ++ y) ->
  map us2sp x <> map us2sp y ->
  fs_escape (p ++ x) <> fs_escape (p ++ y).
Proof.
  intros p x y Ax Ay Ex Ey Hne E. apply Hne.
  apply (map_app_cancel us2sp p). exact (fs_escape_injective _ _ Ax Ay Ex Ey E).
Qed.

(* ---------- the directory: every title gets its own bytes back ---------- *)
Lemma store_get_gen {D} (key : str) (d : D) : forall imgs fs,
  (forall T' d', In (T', d') imgs -> stored_name T' = key -> d' = d) ->
  (exists T, In (T, d) imgs /\ stored_name T = key) \/ dict_get str_eqb key fs = Some d ->
  dict_get str_eqb key (fold_left (fun fs im => dict_set str_eqb (stored_name (fst im)) (snd im) fs) imgs fs) = Some d.
Proof.
  induction imgs as [|[T0 d0] imgs IH]; intros fs Hc H.
  - cbn [fold_left]. destruct H as [[T [[] _]]|H]. exact H.
  - cbn [fold_left fst snd]. apply IH; [intros T' d' Hin; apply Hc; right; exact Hin|].
    destruct (str_eqb (stored_name T0) key) eqn:Ek.
    + apply str_eqb_spec in Ek. right.
      assert (d0 = d) by (apply (Hc T0 d0 (or_introl eq_refl) Ek)). subst d0.
      rewrite Ek. apply (get_set_same str_eqb str_eqb_spec).
    + destruct H as [[T [[Hin|Hin] Hk]]|H].
      * inversion Hin; subst. rewrite str_eqb_refl in Ek. discriminate Ek.
      * left. exists T. split; assumption.
      * right. rewrite (get_set_other str_eqb str_eqb_spec); [exact H|].
        intros Heq. subst key. rewrite str_eqb_refl in Ek. discriminate Ek.
Qed.

Theorem stored_own_bytes : forall {D} (imgs : list (str * D)) T d,
  In (T, d) imgs ->
  (forall T' d', In (T', d') imgs -> forallb alpha T' = true /\ ends_nonspace T') ->
  (forall T' d', In (T', d') imgs -> map us2sp T' = map us2sp T -> d' = d) ->
  dict_get str_eqb (stored_name T) (store_images imgs) = Some d.
Proof.
  intros D imgs T d Hin Hal Hfun. unfold store_images. apply store_get_gen.
  - intros T' d' Hin' Ek. apply (Hfun T' d' Hin'). unfold stored_name in Ek.
    destruct (Hal T' d' Hin') as [A1 A2]. destruct (Hal T d Hin) as [B1 B2].
    exact (fs_escape_injective T' T A1 B1 A2 B2 Ek).
  - left. exists T. split; [exact Hin | reflexivity].
Qed.

(* with the spelling theorem: asked under any spelling of the C12 grammar, a stored image comes back with its own bytes,
   however many other images (with titles of any length, sharing prefixes of any length) are stored next to it *)
Theorem image_own_bytes_by_spelling : forall {D} nm st en L n s NS' W p P' E1 C E3 E4 (imgs : list (str * D)) d,
  In (nm, st) all_sites -> In n (names_of st 6%Z) -> n <> [] -> star_of st 6%Z = Some L ->
  cv py_upper_char py_lower_char s n -> expands s NS' ->
  Forall (ws' py_is_ws) W -> Forall (edge' py_is_ws) E1 ->
  Forall (edge' py_is_ws) (match C with Some E2 => E2 | None => [] end) ->
  Forall (edge' py_is_ws) E3 -> Forall (edge' py_is_ws) E4 ->
  tidy py_is_ws p -> expands p P' ->
  let T := prefix_of L ++ maybe_capitalize py_upper_char (s_capitalize st) p in
  ~ In 47 T -> In (T, d) imgs ->
  (forall T' d', In (T', d') imgs -> forallb alpha T' = true /\ ends_nonspace T') ->
  (forall T' d', In (T', d') imgs -> map us2sp T' = map us2sp T -> d' = d) ->
  image_bytes (store_images imgs) (q_image st en (map fst imgs) (E1 ++ lead C ++ NS' ++ W ++ c_colon :: E3 ++ P' ++ E4)) = Some d.
Proof.
  intros D nm st en L n s NS' W p P' E1 C E3 E4 imgs d Hin Hn Hne HL Hcv Hex HW H1 HC H3 H4 Hp Hexp T Hslash Hst Hal Hfun.
  assert (HT : In T (map fst imgs)) by (apply in_map_iff; exists (T, d); split; [reflexivity | exact Hst]).
  rewrite (image_found_by_spelling nm st en L n s NS' W p P' E1 C E3 E4 (map fst imgs) Hin Hn Hne HL Hcv Hex HW H1 HC H3 H4 Hp Hexp Hslash HT).
  cbn [image_bytes]. exact (stored_own_bytes imgs T d Hst Hal Hfun).
Qed.

Theorem image_own_bytes_by_bare_name : forall {D} nm st en L p P' E1 E4 (imgs : list (str * D)) d,
  In (nm, st) all_sites -> star_of st 6%Z = Some L ->
  Forall (edge' py_is_ws) E1 -> Forall (edge' py_is_ws) E4 ->
  tidy py_is_ws p -> ~ In c_colon p -> expands p P' ->
  let T := prefix_of L ++ maybe_capitalize py_upper_char (s_capitalize st) p in
  ~ In 47 T -> In (T, d) imgs ->
  (forall T' d', In (T', d') imgs -> forallb alpha T' = true /\ ends_nonspace T') ->
  (forall T' d', In (T', d') imgs -> map us2sp T' = map us2sp T -> d' = d) ->
  image_bytes (store_images imgs) (q_image st en (map fst imgs) (E1 ++ P' ++ E4)) = Some d.
Proof.
  intros D nm st en L p P' E1 E4 imgs d Hin HL H1 H4 Hp Hnc Hexp T Hslash Hst Hal Hfun.
  assert (HT : In T (map fst imgs)) by (apply in_map_iff; exists (T, d); split; [reflexivity | exact Hst]).
  rewrite (image_found_plain nm st en L p P' E1 E4 (map fst imgs) Hin HL H1 H4 Hp Hnc Hexp Hslash HT).
  cbn [image_bytes]. exact (stored_own_bytes imgs T d Hst Hal Hfun).
Qed.

(* non-vacuity at MediaWiki's title limit and far beyond: 250 / 2000 shared characters, different last character *)
Example long_titles_example :
  fs_escape (repeat 97 250 ++ [49]) <> fs_escape (repeat 97 250 ++ [50]) /\
  fs_escape (65 :: repeat 233 2000 ++ [49; 46; 112; 110; 103]) <> fs_escape (65 :: repeat 233 2000 ++ [50; 46; 112; 110; 103]) /\
  length (fs_escape (repeat 97 250 ++ [49])) = 251%nat.
Proof.
  split; [|split].
  - apply (long_titles_kept_apart (repeat 97 250) [49] [50]); try (vm_compute; reflexivity); try (vm_compute; split; reflexivity).
    vm_compute. discriminate.
  - apply (long_titles_kept_apart (65 :: repeat 233 2000) [49; 46; 112; 110; 103] [50; 46; 112; 110; 103]);
      try (vm_compute; reflexivity); try (vm_compute; split; reflexivity).
    vm_compute. discriminate.
  - vm_compute. reflexivity.
Qed.
