(* C14 — the revision index and the lookups: by revision id, newest revision by title, redirects. *)
From Coq Require Import List NArith ZArith Bool Lia Sorting.Sorted.
From MW Require Import Common.Str C12.Model C14.Model.
Import ListNotations.

Definition page_of (r : rec) : page := {| p_meta := r_meta r; p_text := r_text r |}.
Definition hs_of (rs : list rec) : list (str * str) := map (fun r => (r_json r, r_text r)) rs.
Definition rev_of (r : rec) : option Z := m_revid (r_meta r).
Definition title_of (r : rec) : str := m_title (r_meta r).
Definition revids (rs : list rec) : list Z := flat_map (fun r => match rev_of r with Some v => [v] | None => [] end) rs.

(* ---- association lists ---- *)
Section Dict.
  Context {K V : Type} (eqb : K -> K -> bool).
  Hypothesis eqb_spec : forall a b, eqb a b = true <-> a = b.

  Lemma eqb_refl' a : eqb a a = true.
  Proof. apply eqb_spec. reflexivity. Qed.
  Lemma eqb_neq a b : a <> b -> eqb a b = false.
  Proof. intros H. destruct (eqb a b) eqn:E; [apply eqb_spec in E; contradiction | reflexivity]. Qed.

  Lemma get_set_same k (v : V) d : dict_get eqb k (dict_set eqb k v d) = Some v.
  Proof.
    induction d as [|[k' v'] d IH]; cbn; [rewrite eqb_refl'; reflexivity|].
    destruct (eqb k k') eqn:E; cbn; [rewrite eqb_refl'; reflexivity | rewrite E; exact IH].
  Qed.

  Lemma get_set_other k k2 (v : V) d : k2 <> k -> dict_get eqb k2 (dict_set eqb k v d) = dict_get eqb k2 d.
  Proof.
    intros Hne. induction d as [|[k' v'] d IH]; cbn; [rewrite eqb_neq by exact Hne; reflexivity|].
    destruct (eqb k k') eqn:E; cbn.
    - apply eqb_spec in E. subst k'. rewrite eqb_neq by exact Hne. reflexivity.
    - destruct (eqb k2 k'); [reflexivity | exact IH].
  Qed.

  Lemma in_set k (v : V) d x : In x (dict_set eqb k v d) -> x = (k, v) \/ In x d.
  Proof.
    induction d as [|[k' v'] d IH]; cbn; [intros [H|[]]; auto|].
    destruct (eqb k k'); cbn; intros [H|H]; auto. destruct (IH H); auto.
  Qed.

  Lemma keys_set k (v : V) d : NoDup (map fst d) -> NoDup (map fst (dict_set eqb k v d)).
  Proof.
    induction d as [|[k' v'] d IH]; cbn; intros H; [constructor; [intros []|constructor]|].
    inversion H as [|? ? Hn Hd]; subst. destruct (eqb k k') eqn:E; cbn.
    - apply eqb_spec in E. subst k'. constructor; assumption.
    - constructor; [|exact (IH Hd)]. intros X. apply in_map_iff in X as [[a b] [Ea Hin]]. cbn in Ea. subst a.
      apply in_set in Hin as [Hin|Hin]; [inversion Hin; subst; rewrite eqb_refl' in E; discriminate|].
      apply Hn. apply in_map_iff. exists (k', b). auto.
  Qed.

  Lemma get_in k (v : V) d : dict_get eqb k d = Some v -> In (k, v) d.
  Proof.
    induction d as [|[k' v'] d IH]; cbn; [discriminate|]. destruct (eqb k k') eqn:E.
    - apply eqb_spec in E. subst. intros H. inversion H. left. reflexivity.
    - intros H. right. exact (IH H).
  Qed.

  Lemma in_get k (v : V) d : NoDup (map fst d) -> In (k, v) d -> dict_get eqb k d = Some v.
  Proof.
    induction d as [|[k' v'] d IH]; cbn; intros Hn Hin; [contradiction|]. inversion Hn as [|? ? Hx Hd]; subst.
    destruct Hin as [Hin|Hin].
    - inversion Hin; subst. rewrite eqb_refl'. reflexivity.
    - destruct (eqb k k') eqn:E; [|exact (IH Hd Hin)]. apply eqb_spec in E. subst k'.
      exfalso. apply Hx. apply in_map_iff. exists (k, v). auto.
  Qed.

  Lemma get_app_one k k' (v : V) d : dict_get eqb k (d ++ [(k', v)]) =
    match dict_get eqb k d with Some x => Some x | None => if eqb k k' then Some v else None end.
  Proof. induction d as [|[a b] d IH]; cbn; [reflexivity|]. destruct (eqb k a); [reflexivity | exact IH]. Qed.
End Dict.

Lemma Zeqb_spec a b : Z.eqb a b = true <-> a = b.
Proof. apply Z.eqb_eq. Qed.

(* ---- phase 1: the records, in file order ---- *)
Definition load_rec (ix : index) (r : rec) : index :=
  match rev_of r with
  | None => {| by_rev := by_rev ix; by_title := dict_set str_eqb (title_of r) (page_of r) (by_title ix) |}
  | Some v => {| by_rev := dict_set Z.eqb v (page_of r) (by_rev ix); by_title := by_title ix |}
  end.
Definition load_recs (rs : list rec) (ix : index) : index := fold_left load_rec rs ix.

Lemma load_pages_recs loads rs : (forall r, In r rs -> loads (r_json r) = Some (r_meta r)) ->
  forall ix, load_pages loads (hs_of rs) ix = Some (load_recs rs ix).
Proof.
  induction rs as [|r rs IH]; intros H ix; [reflexivity|]. cbn [hs_of map load_pages].
  rewrite (H r (or_introl eq_refl)). unfold load_recs. cbn [fold_left]. unfold load_rec at 2, rev_of, title_of, page_of.
  destruct (m_revid (r_meta r)); apply IH; intros r' Hr'; apply H; right; exact Hr'.
Qed.

Lemma by_rev_absent v rs : (forall r, In r rs -> rev_of r <> Some v) ->
  forall ix, dict_get Z.eqb v (by_rev (load_recs rs ix)) = dict_get Z.eqb v (by_rev ix).
Proof.
  induction rs as [|r rs IH]; intros H ix; [reflexivity|]. unfold load_recs. cbn [fold_left]. fold (load_recs rs (load_rec ix r)).
  rewrite IH by (intros r' Hr'; apply H; right; exact Hr'). unfold load_rec.
  destruct (rev_of r) as [w|] eqn:E; [|reflexivity]. cbn [by_rev].
  apply (get_set_other Z.eqb Zeqb_spec). intros ->. exact (H r (or_introl eq_refl) E).
Qed.

Lemma revids_in r v rs : In r rs -> rev_of r = Some v -> In v (revids rs).
Proof. intros Hin Hv. unfold revids. apply in_flat_map. exists r. split; [exact Hin|]. rewrite Hv. left. reflexivity. Qed.

(* by revision id *)
Lemma by_rev_found rs r v : NoDup (revids rs) -> In r rs -> rev_of r = Some v ->
  forall ix, dict_get Z.eqb v (by_rev (load_recs rs ix)) = Some (page_of r).
Proof.
  induction rs as [|x rs IH]; intros Hn Hin Hv ix; [contradiction|].
  unfold load_recs. cbn [fold_left]. fold (load_recs rs (load_rec ix x)).
  assert (Hsplit : revids (x :: rs) = (match rev_of x with Some w => [w] | None => [] end) ++ revids rs) by reflexivity.
  rewrite Hsplit in Hn. destruct Hin as [->|Hin].
  - rewrite Hv in Hn. cbn in Hn. inversion Hn as [|? ? Hx Hd]; subst.
    rewrite by_rev_absent by (intros r' Hr' E; apply Hx; exact (revids_in r' v rs Hr' E)).
    unfold load_rec. rewrite Hv. cbn [by_rev]. apply (get_set_same Z.eqb Zeqb_spec).
  - apply IH; [|exact Hin|exact Hv]. destruct (rev_of x); [inversion Hn; assumption | exact Hn].
Qed.

Lemma by_rev_keys rs : forall ix, NoDup (map fst (by_rev ix)) -> NoDup (map fst (by_rev (load_recs rs ix))).
Proof.
  induction rs as [|r rs IH]; intros ix H; [exact H|]. unfold load_recs. cbn [fold_left]. apply IH.
  unfold load_rec. destruct (rev_of r); [|exact H]. cbn [by_rev]. apply (keys_set Z.eqb Zeqb_spec). exact H.
Qed.

Lemma by_rev_sound rs : forall ix v p, In (v, p) (by_rev (load_recs rs ix)) ->
  (exists r, In r rs /\ rev_of r = Some v /\ p = page_of r) \/ In (v, p) (by_rev ix).
Proof.
  induction rs as [|r rs IH]; intros ix v p H; [right; exact H|]. unfold load_recs in H. cbn [fold_left] in H.
  apply IH in H as [[r' [A [B C]]]|H]; [left; exists r'; split; [right; exact A | auto]|].
  unfold load_rec in H. destruct (rev_of r) as [w|] eqn:E; [|right; exact H]. cbn [by_rev] in H.
  apply in_set in H as [H|H]; [|right; exact H]. inversion H; subst. left. exists r. split; [left; reflexivity | auto].
Qed.

Lemma by_title_absent t rs : (forall r, In r rs -> title_of r = t -> rev_of r <> None) ->
  forall ix, dict_get str_eqb t (by_title (load_recs rs ix)) = dict_get str_eqb t (by_title ix).
Proof.
  induction rs as [|r rs IH]; intros H ix; [reflexivity|]. unfold load_recs. cbn [fold_left]. fold (load_recs rs (load_rec ix r)).
  rewrite IH by (intros r' Hr'; apply H; right; exact Hr'). unfold load_rec.
  destruct (rev_of r) as [w|] eqn:E; [reflexivity|]. cbn [by_title].
  apply (get_set_other str_eqb str_eqb_spec). intros X. exact (H r (or_introl eq_refl) (eq_sym X) E).
Qed.

(* ---- phase 2: titles from the revisions, newest first ---- *)
Definition desc (a b : Z * page) : Prop := (fst b <= fst a)%Z.

Lemma insert_desc_in x a l : In x (insert_desc a l) <-> x = a \/ In x l.
Proof.
  induction l as [|y l IH]; cbn; [intuition (subst; auto)|]. destruct (Z.leb (fst y) (fst a)); cbn; [intuition (subst; auto)|].
  rewrite IH. intuition (subst; auto).
Qed.

Lemma sort_desc_in x l : In x (sort_desc l) <-> In x l.
Proof.
  induction l as [|a l IH]; [cbn; tauto|]. unfold sort_desc in *. cbn [fold_right]. rewrite insert_desc_in, IH. cbn. intuition (subst; auto).
Qed.

Lemma insert_desc_sorted a l : StronglySorted desc l -> StronglySorted desc (insert_desc a l).
Proof.
  induction 1 as [|y l Hs IH Hall]; cbn; [constructor; constructor|].
  destruct (Z.leb_spec (fst y) (fst a)) as [Hle|Hgt].
  - constructor; [constructor; assumption|]. constructor; [exact Hle|].
    rewrite Forall_forall in *. intros z Hz. unfold desc in *. specialize (Hall z Hz). lia.
  - constructor; [exact IH|]. apply Forall_forall. intros z Hz. apply insert_desc_in in Hz as [->|Hz].
    + unfold desc. lia.
    + rewrite Forall_forall in Hall. exact (Hall z Hz).
Qed.

Lemma sort_desc_sorted l : StronglySorted desc (sort_desc l).
Proof. induction l as [|a l IH]; [constructor|]. unfold sort_desc in *. cbn [fold_right]. apply insert_desc_sorted. exact IH. Qed.

Definition ptitle (kp : Z * page) : str := m_title (p_meta (snd kp)).
Definition add_step (bt : list (str * page)) (kp : Z * page) : list (str * page) :=
  match dict_get str_eqb (ptitle kp) bt with Some _ => bt | None => bt ++ [(ptitle kp, snd kp)] end.

Lemma add_titles_unfold ix : by_title (add_titles ix) = fold_left add_step (sort_desc (by_rev ix)) (by_title ix).
Proof. reflexivity. Qed.

Lemma fold_first t S : forall bt, dict_get str_eqb t (fold_left add_step S bt) =
  match dict_get str_eqb t bt with
  | Some p => Some p
  | None => option_map (@snd Z page) (find (fun kp => str_eqb (ptitle kp) t) S)
  end.
Proof.
  induction S as [|kp S IH]; intros bt; cbn [fold_left find]; [destruct (dict_get str_eqb t bt); reflexivity|].
  rewrite IH. unfold add_step at 1.
  destruct (dict_get str_eqb (ptitle kp) bt) as [q|] eqn:E.
  - destruct (dict_get str_eqb t bt) eqn:E2; [reflexivity|].
    destruct (str_eqb (ptitle kp) t) eqn:E3; [|reflexivity]. apply str_eqb_spec in E3. congruence.
  - rewrite (get_app_one str_eqb). destruct (dict_get str_eqb t bt); [reflexivity|].
    destruct (str_eqb t (ptitle kp)) eqn:E3.
    + apply str_eqb_spec in E3. subst t. rewrite str_eqb_refl. reflexivity.
    + destruct (str_eqb (ptitle kp) t) eqn:E4; [apply str_eqb_spec in E4; subst t; rewrite str_eqb_refl in E3; discriminate | reflexivity].
Qed.

Lemma find_sorted_max (P : Z * page -> bool) S x : StronglySorted desc S -> find P S = Some x ->
  forall y, In y S -> P y = true -> (fst y <= fst x)%Z.
Proof.
  induction 1 as [|a S Hs IH Hall]; cbn [find]; [discriminate|]. destruct (P a) eqn:E.
  - intros H y Hy Py. inversion H; subst. destruct Hy as [->|Hy]; [lia|]. rewrite Forall_forall in Hall. exact (Hall y Hy).
  - intros H y Hy Py. destruct Hy as [->|Hy]; [congruence|]. exact (IH H y Hy Py).
Qed.

Definition empty_index : index := {| by_rev := []; by_title := [] |}.
Definition index_of (rs : list rec) : index := add_titles (load_recs rs empty_index).

(* what the reader builds from the parsed records *)
Lemma read_index loads rs : (forall r, In r rs -> loads (r_json r) = Some (r_meta r)) ->
  match load_pages loads (hs_of rs) empty_index with Some ix => Some (add_titles ix) | None => None end = Some (index_of rs).
Proof. intros H. rewrite (load_pages_recs loads rs H). reflexivity. Qed.

(* BY REVISION ID *)
Theorem index_by_revid rs r v : NoDup (revids rs) -> In r rs -> rev_of r = Some v ->
  dict_get Z.eqb v (by_rev (index_of rs)) = Some (page_of r).
Proof. intros Hn Hin Hv. unfold index_of. cbn [add_titles by_rev]. apply by_rev_found; assumption. Qed.

(* BY TITLE: THE NEWEST REVISION.  If every record of title t carries a revision id, the page served under t is the
   record with the greatest revision id, in whatever order the records were written. *)
Theorem index_by_title_newest rs r v t : NoDup (revids rs) -> In r rs -> title_of r = t -> rev_of r = Some v ->
  (forall r', In r' rs -> title_of r' = t -> exists v', rev_of r' = Some v' /\ (v' <= v)%Z) ->
  dict_get str_eqb t (by_title (index_of rs)) = Some (page_of r).
Proof.
  intros Hn Hin Ht Hv Hmax. unfold index_of. rewrite add_titles_unfold. rewrite fold_first.
  rewrite by_title_absent by (intros r' Hr' Et E; destruct (Hmax r' Hr' Et) as [v' [A _]]; congruence). cbn [by_title empty_index dict_get].
  set (B := by_rev (load_recs rs empty_index)).
  assert (HB : dict_get Z.eqb v B = Some (page_of r)) by (apply by_rev_found; assumption).
  assert (HinS : In (v, page_of r) (sort_desc B)) by (apply sort_desc_in; apply (get_in Z.eqb Zeqb_spec); exact HB).
  destruct (find (fun kp => str_eqb (ptitle kp) t) (sort_desc B)) as [[v' p']|] eqn:Ef.
  - cbn [option_map snd]. f_equal.
    pose proof (find_some _ _ Ef) as [Hin' Hp']. cbn in Hp'. apply str_eqb_spec in Hp'.
    assert (Hle : (v <= v')%Z).
    { apply (find_sorted_max _ _ _ (sort_desc_sorted B) Ef (v, page_of r) HinS). unfold ptitle. cbn. unfold title_of in Ht. rewrite Ht. apply str_eqb_refl. }
    apply (proj1 (sort_desc_in _ _)) in Hin'. pose proof Hin' as Hin2. apply by_rev_sound in Hin2 as [[r' [A [Bv C]]]|[]].
    assert (Et : title_of r' = t) by (subst p'; exact Hp').
    destruct (Hmax r' A Et) as [v'' [D E]]. assert (v'' = v') by congruence. subst v''. assert (v' = v) by lia. subst v'.
    assert (HK : NoDup (map fst B)) by (apply by_rev_keys; constructor).
    pose proof (in_get Z.eqb Zeqb_spec v p' B HK Hin') as G. congruence.
  - exfalso. apply (find_none _ _ Ef) in HinS. unfold ptitle in HinS. cbn in HinS. unfold title_of in Ht. rewrite Ht, str_eqb_refl in HinS. discriminate.
Qed.

(* BY TITLE, page without revision id: the last such record written under the title *)
Theorem index_by_title_norevid rs1 r rs2 t : title_of r = t -> rev_of r = None ->
  (forall r', In r' rs2 -> title_of r' = t -> rev_of r' <> None) ->
  dict_get str_eqb t (by_title (index_of (rs1 ++ r :: rs2))) = Some (page_of r).
Proof.
  intros Ht Hv Hlater. unfold index_of. rewrite add_titles_unfold, fold_first.
  unfold load_recs. rewrite fold_left_app. cbn [fold_left]. fold (load_recs rs2 (load_rec (fold_left load_rec rs1 empty_index) r)).
  rewrite by_title_absent by exact Hlater. unfold load_rec at 1. rewrite Hv. cbn [by_title]. rewrite Ht.
  rewrite (get_set_same str_eqb str_eqb_spec). reflexivity.
Qed.

(* LOOKUPS *)
Section Lookups.
  Variable redirect_of : str -> option str.
  Variable rs : list rec.
  Variable redirects : list (str * str).
  Hypothesis Hnodup : NoDup (revids rs).
  Let ix := index_of rs.

  (* by revision id: the text written with that id (texts that are redirect pages are served by following them) *)
  Theorem get_page_by_revid name r v : In r rs -> rev_of r = Some v -> dict_get str_eqb name redirects = None ->
    (r_text r = [] \/ redirect_of (r_text r) = None) ->
    get_page redirect_of ix redirects name (Some v) = Some (page_of r).
  Proof.
    intros Hin Hv Hred Htxt. unfold get_page. rewrite Hred. unfold ix. rewrite (index_by_revid rs r v Hnodup Hin Hv).
    cbn [p_text page_of]. destruct Htxt as [->| ->]; [reflexivity|]. destruct (r_text r); reflexivity.
  Qed.

  (* by title: the newest revision *)
  Theorem get_page_by_title r v t : In r rs -> title_of r = t -> rev_of r = Some v ->
    (forall r', In r' rs -> title_of r' = t -> exists v', rev_of r' = Some v' /\ (v' <= v)%Z) ->
    dict_get str_eqb t redirects = None ->
    get_page redirect_of ix redirects t None = Some (page_of r).
  Proof.
    intros Hin Ht Hv Hmax Hred. unfold get_page, get_by_title. rewrite Hred. unfold ix.
    rewrite (index_by_title_newest rs r v t Hnodup Hin Ht Hv Hmax). reflexivity.
  Qed.

  (* a redirect recorded at write time resolves to the (newest revision of the) target page, with or without revision *)
  Theorem get_page_redirect src dst r v rev : dict_get str_eqb src redirects = Some dst ->
    In r rs -> title_of r = dst -> rev_of r = Some v ->
    (forall r', In r' rs -> title_of r' = dst -> exists v', rev_of r' = Some v' /\ (v' <= v)%Z) ->
    get_page redirect_of ix redirects src rev = Some (page_of r).
  Proof.
    intros Hred Hin Ht Hv Hmax. unfold get_page. rewrite Hred.
    assert (G : get_by_title ix redirects src = Some (page_of r)).
    { unfold get_by_title. rewrite Hred. unfold ix. rewrite (index_by_title_newest rs r v dst Hnodup Hin Ht Hv Hmax). reflexivity. }
    destruct rev; exact G.
  Qed.
End Lookups.

(* the writer never lets write_pages store one revision id twice *)
Lemma write_ops_nodup ops : forall seen, (forall o, In o ops -> exists r, o = WPage r) ->
  NoDup (revids (write_ops seen ops)) /\ (forall v, In v (revids (write_ops seen ops)) -> ~ In v seen).
Proof.
  induction ops as [|o ops IH]; intros seen H; [split; [constructor | intros v []]|].
  destruct (H o (or_introl eq_refl)) as [r ->]. cbn [write_ops].
  assert (H' : forall o, In o ops -> exists r, o = WPage r) by (intros o Ho; apply H; right; exact Ho).
  destruct (m_revid (r_meta r)) as [v|] eqn:E.
  - destruct (existsb (Z.eqb v) seen) eqn:Es; [apply IH; exact H'|].
    destruct (IH (v :: seen) H') as [A B]. change (revids (r :: write_ops (v :: seen) ops)) with
      ((match rev_of r with Some w => [w] | None => [] end) ++ revids (write_ops (v :: seen) ops)).
    unfold rev_of. rewrite E. cbn [app]. split.
    + constructor; [|exact A]. intros X. apply (B v X). left. reflexivity.
    + intros w [<-|Hw].
      * intros X. assert (Y : existsb (Z.eqb v) seen = true) by (apply existsb_exists; exists v; split; [exact X | apply Z.eqb_refl]). congruence.
      * intros X. apply (B w Hw). right. exact X.
  - destruct (IH seen H') as [A B]. change (revids (r :: write_ops seen ops)) with
      ((match rev_of r with Some w => [w] | None => [] end) ++ revids (write_ops seen ops)).
    unfold rev_of. rewrite E. cbn [app]. split; assumption.
Qed.
