(* C14 — the revisions file: what the reader's chunking returns on what the writer wrote. *)
From Coq Require Import List NArith ZArith Bool Lia.
From MW Require Import Common.Str C12.Model C12.ListLemmas C12.Inst C14.Model C14.Inst C14.ProofsIndex.
Import ListNotations.
Open Scope N_scope.

(* sp occurs in s *)
Fixpoint contains (sp s : str) : bool :=
  match s with
  | [] => prefixb sp []
  | _ :: r => prefixb sp s || contains sp r
  end.

Definition body (r : rec) : str := r_json r ++ [c_lf] ++ r_text r.
Definition tail_sep : str := tl sep.

(* no occurrence of sep starts inside x when x is followed by rest *)
Fixpoint noocc (x rest : str) : bool :=
  match x with
  | [] => true
  | _ :: x' => negb (prefixb sep (x ++ rest)) && noocc x' rest
  end.

Lemma scan_noocc x : forall cur rest, noocc x rest = true -> split_go sep O cur (x ++ rest) = split_go sep O (rev x ++ cur) rest.
Proof.
  induction x as [|c x IH]; intros cur rest H; [reflexivity|].
  cbn [noocc] in H. apply andb_true_iff in H as [H1 H2]. apply negb_true_iff in H1.
  change ((c :: x) ++ rest) with (c :: x ++ rest) in *. cbn [split_go]. rewrite H1. rewrite (IH (c :: cur) rest H2).
  cbn [rev]. rewrite <- app_assoc. reflexivity.
Qed.

Lemma scan_sep cur rest : split_go sep O cur (sep ++ rest) = rev cur :: split_go sep O [] rest.
Proof. reflexivity. Qed.

Lemma prefixb_app_long sp : forall y z, (length sp <= length y)%nat -> prefixb sp (y ++ z) = prefixb sp y.
Proof.
  induction sp as [|a sp IH]; intros y z H; [reflexivity|]. destruct y as [|b y]; [cbn in H; lia|].
  cbn [app prefixb]. rewrite IH by (cbn in H; lia). reflexivity.
Qed.

Ltac crush_short y :=
  repeat (destruct y as [|? y]; [cbn; rewrite ?andb_false_r; try reflexivity|]).

Lemma straddle y X : y <> [] -> (length y < 12)%nat -> prefixb sep (y ++ sep ++ X) = false.
Proof.
  intros Hne Hl. destruct y as [|y0 y]; [congruence|].
  do 11 (destruct y as [|? y]; [cbn; rewrite ?andb_false_r; reflexivity|]). cbn in Hl. lia.
Qed.

Lemma straddle_tail t X : prefixb tail_sep t = false -> prefixb tail_sep (t ++ sep ++ X) = false.
Proof.
  intros H. destruct (Nat.le_gt_cases 11 (length t)) as [Hl|Hl].
  - rewrite prefixb_app_long by exact Hl. exact H.
  - do 11 (destruct t as [|? t]; [cbn; rewrite ?andb_false_r; reflexivity|]). cbn in Hl. lia.
Qed.

Definition rest_ok (rest : str) : Prop := rest = [] \/ exists X, rest = sep ++ X.

Lemma noocc_contains x : forall rest, contains sep x = false -> rest_ok rest -> noocc x rest = true.
Proof.
  induction x as [|c x IH]; intros rest H Hr; [reflexivity|]. cbn [contains] in H. apply orb_false_iff in H as [H1 H2].
  cbn [noocc]. rewrite (IH rest H2 Hr), andb_true_r. apply negb_true_iff.
  destruct Hr as [->|[X ->]]; [rewrite app_nil_r; exact H1|].
  destruct (Nat.le_gt_cases 12 (length (c :: x))) as [Hl|Hl].
  - rewrite prefixb_app_long by exact Hl. exact H1.
  - apply straddle; [discriminate | exact Hl].
Qed.

Lemma noocc_no_lf j : forall Z, ~ In c_lf j -> noocc j Z = true.
Proof.
  induction j as [|c j IH]; intros Z H; [reflexivity|]. cbn [noocc]. rewrite IH by (intros X; apply H; right; exact X).
  rewrite andb_true_r. apply negb_true_iff. change (prefixb sep ((c :: j) ++ Z)) with (N.eqb 10 c && prefixb tail_sep (j ++ Z)).
  destruct (N.eqb_spec 10 c) as [E|_]; [exfalso; apply H; left; symmetry; exact E | reflexivity].
Qed.

Lemma noocc_app a : forall b rest, noocc (a ++ b) rest = noocc a (b ++ rest) && noocc b rest.
Proof.
  induction a as [|c a IH]; intros b rest; [reflexivity|]. cbn [app noocc]. rewrite IH.
  change (c :: a ++ b) with ((c :: a) ++ b). rewrite <- !app_assoc. rewrite andb_assoc. reflexivity.
Qed.

(* the raw chunks one record contributes *)
Definition chunks_of (r : rec) : list str :=
  if prefixb tail_sep (r_text r) then [r_json r; skipn 11 (r_text r)] else [body r].

Lemma prefixb_skipn p : forall s, prefixb p s = true -> s = p ++ skipn (length p) s.
Proof.
  induction p as [|a p IH]; intros s H; [reflexivity|]. destruct s as [|b s]; [discriminate|]. cbn in H.
  apply andb_true_iff in H as [H1 H2]. apply N.eqb_eq in H1. subst b. cbn. f_equal. exact (IH s H2).
Qed.

Lemma contains_suffix sp a : forall b, contains sp (a ++ b) = false -> contains sp b = false.
Proof. induction a as [|c a IH]; intros b H; [exact H|]. cbn in H. apply orb_false_iff in H as [_ H]. exact (IH b H). Qed.

Definition rec_ok (r : rec) : Prop := ~ In c_lf (r_json r) /\ contains sep (r_text r) = false.

Lemma scan_body r rest : rec_ok r -> rest_ok rest ->
  split_go sep O [] (body r ++ rest) = chunks_of r ++ tl (split_go sep O [] rest).
Proof.
  intros [Hj Ht] Hr. unfold chunks_of, body.
  assert (Hend : forall x, split_go sep O (rev x) rest = x :: tl (split_go sep O [] rest)).
  { intros x. destruct Hr as [->|[X ->]]; [cbn; rewrite rev_involutive; reflexivity|]. rewrite !scan_sep. cbn [tl]. rewrite rev_involutive. reflexivity. }
  destruct (prefixb tail_sep (r_text r)) eqn:E.
  - pose proof (prefixb_skipn _ _ E) as Es. set (t' := skipn (length tail_sep) (r_text r)) in *.
    change (skipn 11 (r_text r)) with t'. rewrite Es.
    replace ((r_json r ++ [c_lf] ++ tail_sep ++ t') ++ rest) with (r_json r ++ sep ++ (t' ++ rest)) by (rewrite <- !app_assoc; reflexivity).
    rewrite scan_noocc by (apply noocc_no_lf; exact Hj). rewrite app_nil_r, scan_sep, rev_involutive.
    rewrite scan_noocc by (apply noocc_contains; [rewrite Es in Ht; exact (contains_suffix sep tail_sep t' Ht) | exact Hr]).
    rewrite app_nil_r, Hend. reflexivity.
  - rewrite scan_noocc.
    + rewrite app_nil_r. apply Hend.
    + rewrite noocc_app. rewrite noocc_no_lf by exact Hj. rewrite noocc_app. rewrite (noocc_contains _ rest Ht Hr), andb_true_r.
      cbn [noocc andb]. rewrite andb_true_r. apply negb_true_iff. cbn [app].
      change (prefixb sep (c_lf :: r_text r ++ rest)) with (N.eqb 10 c_lf && prefixb tail_sep (r_text r ++ rest)). cbn [N.eqb c_lf Pos.eqb andb].
      destruct Hr as [->|[X ->]]; [rewrite app_nil_r; exact E | apply straddle_tail; exact E].
Qed.

Lemma file_of_rest_ok rs : rest_ok (file_of rs).
Proof. destruct rs as [|r rs]; [left; reflexivity|]. right. exists (body r ++ file_of rs). unfold file_of. cbn [flat_map]. unfold record_bytes, body. rewrite <- !app_assoc. reflexivity. Qed.

Lemma split_file rs : Forall rec_ok rs -> tl (split_sep sep (file_of rs)) = flat_map chunks_of rs.
Proof.
  induction 1 as [|r rs Hr _ IH]; [reflexivity|]. unfold split_sep in *.
  assert (E : file_of (r :: rs) = sep ++ (body r ++ file_of rs)).
  { unfold file_of. cbn [flat_map]. unfold record_bytes, body. rewrite <- !app_assoc. reflexivity. }
  rewrite E, scan_sep. cbn [tl flat_map]. rewrite (scan_body r _ Hr (file_of_rest_ok rs)). rewrite IH. reflexivity.
Qed.

Lemma has_lf_body r : has_lf (body r) = true.
Proof. unfold has_lf, body. apply existsb_exists. exists c_lf. split; [apply in_or_app; right; left; reflexivity | apply N.eqb_refl]. Qed.

Lemma has_lf_false j : ~ In c_lf j -> has_lf j = false.
Proof.
  intros H. unfold has_lf. destruct (existsb (N.eqb c_lf) j) eqn:E; [|reflexivity]. apply existsb_exists in E as [x [Hx Ex]].
  apply N.eqb_eq in Ex. subst x. contradiction.
Qed.

Lemma rejoin_push acc ch more : Forall (fun b => has_lf b = true) acc -> rejoin acc (ch :: more) = rejoin (ch :: acc) more.
Proof. intros H. cbn [rejoin]. destruct acc as [|l a]; [reflexivity|]. inversion H; subst. rewrite H2. reflexivity. Qed.

Lemma rejoin_chunks rs : Forall rec_ok rs -> forall acc, Forall (fun b => has_lf b = true) acc ->
  rejoin acc (flat_map chunks_of rs) = rev acc ++ map body rs.
Proof.
  induction 1 as [|r rs Hr _ IH]; intros acc Hacc; [cbn; rewrite app_nil_r; reflexivity|].
  cbn [flat_map map]. destruct Hr as [Hj Ht]. unfold chunks_of at 1.
  assert (Hb : Forall (fun b => has_lf b = true) (body r :: acc)) by (constructor; [apply has_lf_body | exact Hacc]).
  destruct (prefixb tail_sep (r_text r)) eqn:E.
  - cbn [app]. rewrite rejoin_push by exact Hacc. cbn [rejoin]. rewrite (has_lf_false _ Hj).
    pose proof (prefixb_skipn _ _ E) as Es.
    assert (Eb : r_json r ++ sep ++ skipn 11 (r_text r) = body r).
    { unfold body. rewrite Es at 2. reflexivity. }
    rewrite Eb. transitivity (rev (body r :: acc) ++ map body rs); [exact (IH (body r :: acc) Hb)|]. cbn [rev]. rewrite <- app_assoc. reflexivity.
  - cbn [app]. rewrite rejoin_push by exact Hacc. transitivity (rev (body r :: acc) ++ map body rs); [exact (IH (body r :: acc) Hb)|]. cbn [rev]. rewrite <- app_assoc. reflexivity.
Qed.

Lemma split_headers_bodies rs : Forall rec_ok rs -> split_headers (map body rs) = Some (hs_of rs).
Proof.
  induction 1 as [|r rs [Hj _] _ IH]; [reflexivity|]. cbn [map split_headers hs_of]. unfold body at 1. cbn [app].
  rewrite split1_app by exact Hj. fold (hs_of rs). rewrite IH. reflexivity.
Qed.

Theorem read_chunks_file rs : Forall rec_ok rs -> read_chunks (file_of rs) = Some (hs_of rs).
Proof.
  intros H. unfold read_chunks. rewrite (split_file rs H). rewrite (rejoin_chunks rs H [] (Forall_nil _)). cbn [rev app].
  apply split_headers_bodies. exact H.
Qed.

(* ---- the whole pipeline ---- *)
Lemma read_revisions_file loads rs : Forall rec_ok rs -> (forall r, In r rs -> loads (r_json r) = Some (r_meta r)) ->
  read_revisions loads (file_of rs) = Some (index_of rs).
Proof.
  intros H Hl. unfold read_revisions. rewrite (read_chunks_file rs H).
  change {| by_rev := []; by_title := [] |} with empty_index. rewrite (load_pages_recs loads rs Hl). reflexivity.
Qed.

Lemma pages_by_revid loads redirect_of ops redirects r v name :
  let rs := write_ops [] ops in
  (forall o, In o ops -> exists r, o = WPage r) ->
  (forall r, In r rs -> loads (r_json r) = Some (r_meta r)) ->
  Forall rec_ok rs ->
  In r rs -> rev_of r = Some v -> dict_get str_eqb name redirects = None ->
  (r_text r = [] \/ redirect_of (r_text r) = None) ->
  exists ix, read_revisions loads (file_of rs) = Some ix /\
             get_page redirect_of ix redirects name (Some v) = Some (page_of r).
Proof.
  intros rs Hops Hl Hok Hin Hv Hred Htxt. exists (index_of rs). split; [apply read_revisions_file; assumption|].
  apply get_page_by_revid; try assumption. exact (proj1 (write_ops_nodup ops [] Hops)).
Qed.

Lemma pages_by_title loads redirect_of ops redirects r v t :
  let rs := write_ops [] ops in
  (forall o, In o ops -> exists r, o = WPage r) ->
  (forall r, In r rs -> loads (r_json r) = Some (r_meta r)) ->
  Forall rec_ok rs ->
  In r rs -> title_of r = t -> rev_of r = Some v ->
  (forall r', In r' rs -> title_of r' = t -> exists v', rev_of r' = Some v' /\ (v' <= v)%Z) ->
  dict_get str_eqb t redirects = None ->
  exists ix, read_revisions loads (file_of rs) = Some ix /\
             get_page redirect_of ix redirects t None = Some (page_of r).
Proof.
  intros rs Hops Hl Hok Hin Ht Hv Hmax Hred. exists (index_of rs). split; [apply read_revisions_file; assumption|].
  apply (get_page_by_title redirect_of rs redirects (proj1 (write_ops_nodup ops [] Hops)) r v t); assumption.
Qed.

Lemma pages_redirect loads redirect_of ops redirects src dst r v rev :
  let rs := write_ops [] ops in
  (forall o, In o ops -> exists r, o = WPage r) ->
  (forall r, In r rs -> loads (r_json r) = Some (r_meta r)) ->
  Forall rec_ok rs ->
  dict_get str_eqb src redirects = Some dst ->
  In r rs -> title_of r = dst -> rev_of r = Some v ->
  (forall r', In r' rs -> title_of r' = dst -> exists v', rev_of r' = Some v' /\ (v' <= v)%Z) ->
  exists ix, read_revisions loads (file_of rs) = Some ix /\
             get_page redirect_of ix redirects src rev = Some (page_of r).
Proof.
  intros rs Hops Hl Hok Hred Hin Ht Hv Hmax. exists (index_of rs). split; [apply read_revisions_file; assumption|].
  apply (get_page_redirect redirect_of rs redirects (proj1 (write_ops_nodup ops [] Hops)) src dst r v rev); assumption.
Qed.

Lemma norm_is_get_of_fqname st rtab ix redirects spelling dns k P t :
  py_splitname st spelling dns = Ok (k, P, t) ->
  q_norm st rtab ix redirects spelling dns = Ok (q_get rtab ix redirects t None).
Proof.
  intros H. unfold q_norm, q_get, py_get_fqname, get_fqname. unfold py_splitname in H. rewrite H. reflexivity.
Qed.
