(* C14 — an image stored under its canonical title is found again under every equivalent spelling. *)
From Coq Require Import List NArith ZArith Bool.
From MW Require Import Common.Str C12.Model C12.ListLemmas C12.Proofs C12.Inst C12.ProofsInst C14.Model C14.Inst.
Import ListNotations.
Open Scope N_scope.

Lemma existsb_str_in n files : In n files -> existsb (str_eqb n) files = true.
Proof. intros H. apply existsb_exists. exists n. split; [exact H | apply str_eqb_refl]. Qed.

(* generic: whatever spelling normalises (default namespace 6) to the stored canonical title is served from its file *)
Lemma image_found splitname_site fqname_en files name P T :
  splitname_site name 6%Z = Ok (6%Z, P, T) -> ~ In 47 T -> In (fs_escape T) files ->
  image_lookup splitname_site fqname_en files name = Ok (Some (fs_escape T)).
Proof.
  intros Hs Hslash Hin. unfold image_lookup. rewrite Hs. cbn [Z.eqb Pos.eqb negb].
  assert (E : existsb (N.eqb 47) T = false).
  { destruct (existsb (N.eqb 47) T) eqn:E; [|reflexivity]. apply existsb_exists in E as [x [Hx Ex]]. apply N.eqb_eq in Ex. subst x. contradiction. }
  rewrite E. unfold exists_file. rewrite (existsb_str_in _ _ Hin). reflexivity.
Qed.

(* with the C12 spelling theorem: every spelling of the grammar of a File-namespace title finds the stored file *)
Lemma image_found_by_spelling nm st en L n s NS' W p P' E1 C E3 E4 stored :
  In (nm, st) all_sites -> In n (names_of st 6%Z) -> n <> [] -> star_of st 6%Z = Some L ->
  cv py_upper_char py_lower_char s n -> expands s NS' ->
  Forall (ws' py_is_ws) W -> Forall (edge' py_is_ws) E1 ->
  Forall (edge' py_is_ws) (match C with Some E2 => E2 | None => [] end) ->
  Forall (edge' py_is_ws) E3 -> Forall (edge' py_is_ws) E4 ->
  tidy py_is_ws p -> expands p P' ->
  let T := prefix_of L ++ maybe_capitalize py_upper_char (s_capitalize st) p in
  ~ In 47 T -> In T stored ->
  q_image st en stored (E1 ++ lead C ++ NS' ++ W ++ c_colon :: E3 ++ P' ++ E4) = Ok (Some (stored_name T)).
Proof.
  intros Hin Hn Hne HL Hcv Hex HW H1 HC H3 H4 Hp Hexp T Hslash Hst.
  unfold q_image, stored_name. apply (image_found _ _ _ _ (maybe_capitalize py_upper_char (s_capitalize st) p) T).
  - exact (py_spelling nm st 6%Z L n s NS' W p P' E1 C E3 E4 6%Z Hin Hn Hne HL Hcv Hex HW H1 HC H3 H4 Hp Hexp).
  - exact Hslash.
  - apply in_map. exact Hst.
Qed.

(* ... and the bare file name, read in default namespace 6 *)
Lemma image_found_plain nm st en L p P' E1 E4 stored :
  In (nm, st) all_sites -> star_of st 6%Z = Some L ->
  Forall (edge' py_is_ws) E1 -> Forall (edge' py_is_ws) E4 ->
  tidy py_is_ws p -> ~ In c_colon p -> expands p P' ->
  let T := prefix_of L ++ maybe_capitalize py_upper_char (s_capitalize st) p in
  ~ In 47 T -> In T stored ->
  q_image st en stored (E1 ++ P' ++ E4) = Ok (Some (stored_name T)).
Proof.
  intros Hin HL H1 H4 Hp Hnc Hexp T Hslash Hst.
  unfold q_image, stored_name. apply (image_found _ _ _ _ (maybe_capitalize py_upper_char (s_capitalize st) p) T).
  - exact (py_spelling_plain nm st p P' E1 None E4 6%Z 6%Z L Hin H1 (Forall_nil _) H4 Hp Hnc Hexp eq_refl HL).
  - exact Hslash.
  - apply in_map. exact Hst.
Qed.
