From Coq Require Import List NArith ZArith Bool Lia DecimalN DecimalFacts.
From MW Require Import Common.Str C12.Model C12.ListLemmas C14.Model.
Import ListNotations. Open Scope N_scope.

(* the property's alphabet: every non-ASCII code point ("letters"), ASCII letters and digits, '-' '.' '_' '~', and space *)
Definition alpha (c : N) : bool := negb (is_ascii c) || keep_char c || N.eqb c 32.
Definition us2sp (c : N) : N := if N.eqb c 95 then 32 else c.          (* '_' and ' ' identified *)
Definition ends_nonspace (s : str) : Prop := ends_ok (fun c => N.eqb c 32) s.   (* canonical titles have no edge spaces *)

(* the code actually produced on the alphabet *)
Definition code (c : N) : str := if N.eqb c 32 then [95] else esc_char c.
Definition sp2us (c : N) : N := if N.eqb c 32 then 95 else c.
Definition isdigit (c : N) : Prop := 48 <= c /\ c <= 57.

Ltac b2p := repeat match goal with
  | H : false = true |- _ => discriminate H
  | H : true = false |- _ => discriminate H
  | H : _ && _ = true |- _ => apply andb_true_iff in H; destruct H
  | H : _ || _ = true |- _ => apply orb_true_iff in H; destruct H
  | H : negb _ = true |- _ => apply negb_true_iff in H
  | H : (_ <=? _) = true |- _ => apply N.leb_le in H
  | H : (_ <? _) = true |- _ => apply N.ltb_lt in H
  | H : (_ =? _) = true |- _ => apply N.eqb_eq in H
  | H : (_ <? _) = false |- _ => apply N.ltb_ge in H
  | H : (_ =? _) = false |- _ => apply N.eqb_neq in H
  | H : (_ <=? _) = false |- _ => apply N.leb_gt in H
  end.

(* ---------- decimal ---------- *)
Lemma uint_digits_inj : forall u v, uint_digits u = uint_digits v -> u = v.
Proof.
  induction u; destruct v; cbn [uint_digits]; intros H; try discriminate H; try reflexivity;
    injection H as H; f_equal; auto.
Qed.

Lemma uint_digits_isdigit : forall u, Forall isdigit (uint_digits u).
Proof.
  induction u; cbn [uint_digits]; constructor; try assumption; unfold isdigit; lia.
Qed.

Lemma decimal_inj a b : decimal a = decimal b -> a = b.
Proof.
  unfold decimal. intros H. apply uint_digits_inj in H.
  rewrite <- (DecimalN.Unsigned.of_to a), <- (DecimalN.Unsigned.of_to b), H. reflexivity.
Qed.

Lemma decimal_isdigit a : Forall isdigit (decimal a).
Proof. apply uint_digits_isdigit. Qed.

Lemma decimal_nonempty a : a <> 0 -> decimal a <> [].
Proof.
  intros Ha H. apply Ha. unfold decimal in H. change (@nil N) with (uint_digits Decimal.Nil) in H.
  apply uint_digits_inj in H. rewrite <- (DecimalN.Unsigned.of_to a), H. reflexivity.
Qed.

Lemma digits_split : forall d1 d2 x y, Forall isdigit d1 -> Forall isdigit d2 ->
  d1 ++ 126 :: x = d2 ++ 126 :: y -> d1 = d2 /\ x = y.
Proof.
  induction d1 as [|a d1 IH]; destruct d2 as [|b d2]; cbn [app]; intros x y H1 H2 E.
  - injection E as E. auto.
  - injection E as E1 E2. inversion H2 as [|? ? Hb _]; subst. unfold isdigit in Hb. lia.
  - injection E as E1 E2. inversion H1 as [|? ? Hb _]; subst. unfold isdigit in Hb. lia.
  - injection E as E1 E2. inversion H1; inversion H2; subst.
    destruct (IH d2 x y) as [-> ->]; auto.
Qed.

(* ---------- shapes of the code words ---------- *)
Lemma keep_not_ws x : keep_char x = true -> is_ascii_ws x = false.
Proof.
  intros H. destruct (is_ascii_ws x) eqn:E; [|reflexivity]. exfalso.
  unfold keep_char, is_ascii_ws, c_tilde in *. b2p; lia.
Qed.

Lemma keep_not_32 x : keep_char x = true -> x <> 32.
Proof. intros H ->. vm_compute in H. discriminate H. Qed.

Lemma digit_keep x : isdigit x -> keep_char x = true.
Proof.
  intros [H1 H2]. unfold keep_char. apply N.leb_le in H1, H2. rewrite H1, H2. reflexivity.
Qed.

Lemma esc_shape c : alpha c = true -> c <> 32 ->
  (esc_char c = [c] /\ keep_char c = true /\ c <> 126)
  \/ (c = 126 /\ esc_char c = [126; 126])
  \/ (128 <= c /\ esc_char c = 126 :: decimal c ++ [126]).
Proof.
  unfold alpha, esc_char, is_ascii, c_tilde. intros H Hn.
  destruct (N.ltb_spec0 c 128) as [L|L]; cbn [negb orb andb] in *.
  - apply orb_true_iff in H. destruct H as [H|H]; [|b2p; contradiction].
    destruct (N.eqb_spec c 126) as [->|N1]; cbn [negb andb].
    + right. left. split; reflexivity.
    + left. destruct (N.eqb_spec c 47) as [->|N2]; [vm_compute in H; discriminate H|].
      destruct (N.eqb_spec c 92) as [->|N3]; [vm_compute in H; discriminate H|].
      cbn [negb andb]. auto.
  - right. right. destruct (N.eqb_spec c 126) as [->|N1]; [lia|]. split; [lia|reflexivity].
Qed.

Lemma code_shape c : alpha c = true ->
  (exists k, code c = [k] /\ k <> 126 /\ us2sp k = us2sp c /\ keep_char k = true)
  \/ (c = 126 /\ code c = [126; 126])
  \/ (128 <= c /\ code c = 126 :: decimal c ++ [126]).
Proof.
  intros H. unfold code. destruct (N.eqb_spec c 32) as [->|Hn].
  - left. exists 95. repeat split; lia.
  - destruct (esc_shape c H Hn) as [[E [K N1]]|[[-> E]|[L E]]].
    + left. exists c. rewrite E. auto.
    + right. left. split; [reflexivity|exact E].
    + right. right. split; assumption.
Qed.

(* ---------- fs_escape on the alphabet ---------- *)
Lemma filter_map_digits l : Forall isdigit l -> filter keep_char (map sp2us l) = l.
Proof.
  induction 1 as [|x l Hx _ IH]; [reflexivity|]. cbn [map filter]. rewrite IH.
  unfold sp2us. destruct (N.eqb_spec x 32) as [->|_]; [unfold isdigit in Hx; lia|].
  rewrite (digit_keep x Hx). reflexivity.
Qed.

Lemma stage23_char c : alpha c = true -> filter keep_char (map sp2us (esc_char c)) = code c.
Proof.
  intros H. unfold code. destruct (N.eqb_spec c 32) as [->|Hn]; [vm_compute; reflexivity|].
  destruct (esc_shape c H Hn) as [[E [K N1]]|[[-> E]|[L E]]]; rewrite E.
  - cbn [map filter]. unfold sp2us. destruct (N.eqb_spec c 32); [contradiction|]. rewrite K. reflexivity.
  - vm_compute. reflexivity.
  - cbn [map]. rewrite map_app. cbn [map].
    change (sp2us 126) with 126. cbn [filter]. change (keep_char 126) with true. cbv iota.
    rewrite filter_app. rewrite filter_map_digits by apply decimal_isdigit. reflexivity.
Qed.

Lemma stage23 s : forallb alpha s = true ->
  filter keep_char (map sp2us (flat_map esc_char s)) = flat_map code s.
Proof.
  induction s as [|c s IH]; [reflexivity|]. cbn [forallb flat_map]. intros H.
  apply andb_true_iff in H as [H1 H2]. rewrite map_app, filter_app, IH by exact H2.
  rewrite stage23_char by exact H1. reflexivity.
Qed.

Lemma esc_first c : alpha c = true -> c <> 32 ->
  exists x r, esc_char c = x :: r /\ is_ascii_ws x = false.
Proof.
  intros H Hn. destruct (esc_shape c H Hn) as [[E [K N1]]|[[-> E]|[L E]]]; rewrite E.
  - exists c, []. split; [reflexivity|apply keep_not_ws; exact K].
  - exists 126, [126]. split; reflexivity.
  - exists 126, (decimal c ++ [126]). split; reflexivity.
Qed.

Lemma esc_last c : alpha c = true -> c <> 32 ->
  exists r x, esc_char c = r ++ [x] /\ is_ascii_ws x = false.
Proof.
  intros H Hn. destruct (esc_shape c H Hn) as [[E [K N1]]|[[-> E]|[L E]]]; rewrite E.
  - exists [], c. split; [reflexivity|apply keep_not_ws; exact K].
  - exists [126], 126. split; reflexivity.
  - exists (126 :: decimal c), 126. split; reflexivity.
Qed.

Lemma forallb_app_inv {A} (p : A -> bool) a b : forallb p (a ++ b) = true -> forallb p a = true /\ forallb p b = true.
Proof. rewrite forallb_app. apply andb_true_iff. Qed.

Lemma esc_ends_ok s : forallb alpha s = true -> ends_nonspace s -> ends_ok is_ascii_ws (flat_map esc_char s).
Proof.
  intros Ha [H1 H2]. split.
  - destruct s as [|h t]; [exact I|]. cbn [forallb] in Ha. apply andb_true_iff in Ha as [Hh _].
    apply N.eqb_neq in H1. destruct (esc_first h Hh H1) as [x [r [E W]]].
    cbn [flat_map]. rewrite E. cbn [app]. exact W.
  - destruct (snoc_cases s) as [->|[a [l ->]]]; [exact I|].
    rewrite List.rev_app_distr in H2. cbn in H2. apply N.eqb_neq in H2.
    apply forallb_app_inv in Ha as [_ Hl]. cbn [forallb] in Hl. apply andb_true_iff in Hl as [Hl _].
    destruct (esc_last l Hl H2) as [r [x [E W]]].
    rewrite flat_map_app. cbn [flat_map]. rewrite List.app_nil_r, E, List.app_assoc, List.rev_app_distr. cbn. exact W.
Qed.

Theorem fs_escape_on_alpha : forall s, forallb alpha s = true -> ends_nonspace s ->
  fs_escape s = flat_map (fun c => if N.eqb c 32 then [95] else esc_char c) s.
Proof.
  intros s Ha He. unfold fs_escape. cbv zeta.
  rewrite strip_id by (apply esc_ends_ok; assumption).
  exact (stage23 s Ha).
Qed.

(* ---------- the code is uniquely decodable (prefix-free) ---------- *)
Lemma code_inj : forall a b, forallb alpha a = true -> forallb alpha b = true ->
  flat_map code a = flat_map code b -> map us2sp a = map us2sp b.
Proof.
  induction a as [|c a IH]; destruct b as [|d b]; cbn [forallb flat_map map]; intros Ha Hb E.
  - reflexivity.
  - exfalso. apply andb_true_iff in Hb as [Hd _].
    destruct (code_shape d Hd) as [[k [Ek _]]|[[-> Ek]|[_ Ek]]]; rewrite Ek in E; discriminate E.
  - exfalso. apply andb_true_iff in Ha as [Hc _].
    destruct (code_shape c Hc) as [[k [Ek _]]|[[-> Ek]|[_ Ek]]]; rewrite Ek in E; discriminate E.
  - apply andb_true_iff in Ha as [Hc Ha]. apply andb_true_iff in Hb as [Hd Hb].
    destruct (code_shape c Hc) as [[k [Ek [Nk [Uk _]]]]|[[-> Ek]|[Lc Ek]]];
    destruct (code_shape d Hd) as [[k' [Ek' [Nk' [Uk' _]]]]|[[-> Ek']|[Ld Ek']]];
    rewrite ?Ek, ?Ek' in E; cbn [app] in E.
    + injection E as E1 E2. subst k'. f_equal; [congruence|auto].
    + injection E as E1 E2. contradiction.
    + injection E as E1 E2. contradiction.
    + injection E as E1 E2. symmetry in E1. contradiction.
    + injection E as E. f_equal. auto.
    + exfalso. injection E as E. rewrite <- List.app_assoc in E. cbn [app] in E.
      pose proof (decimal_isdigit d) as D. pose proof (decimal_nonempty d ltac:(lia)) as NE.
      destruct (decimal d) as [|x r]; [contradiction|]. cbn [app] in E. injection E as E1 E2.
      inversion D as [|? ? Hx _]; subst. unfold isdigit in Hx. lia.
    + injection E as E1 E2. symmetry in E1. contradiction.
    + exfalso. injection E as E. rewrite <- List.app_assoc in E. cbn [app] in E.
      pose proof (decimal_isdigit c) as D. pose proof (decimal_nonempty c ltac:(lia)) as NE.
      destruct (decimal c) as [|x r]; [contradiction|]. cbn [app] in E. injection E as E1 E2.
      inversion D as [|? ? Hx _]; subst. unfold isdigit in Hx. lia.
    + injection E as E. rewrite <- !List.app_assoc in E. cbn [app] in E.
      apply digits_split in E; try apply decimal_isdigit. destruct E as [E1 E2].
      apply decimal_inj in E1. subst d. f_equal. auto.
Qed.

Theorem fs_escape_injective : forall a b,
  forallb alpha a = true -> forallb alpha b = true -> ends_nonspace a -> ends_nonspace b ->
  fs_escape a = fs_escape b -> map us2sp a = map us2sp b.
Proof.
  intros a b Ha Hb Ea Eb E.
  rewrite (fs_escape_on_alpha a Ha Ea), (fs_escape_on_alpha b Hb Eb) in E.
  exact (code_inj a b Ha Hb E).
Qed.

