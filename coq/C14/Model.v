(* C14 — executable model of the collection archive: writer (fetch.py FsOutput.write_pages / write_expanded_page),
   the revisions file, reader (nuwiki.py NuWiki._read_revisions), lookups (_get_page, normalize_and_get_page),
   fs_escape and the image path computation.  Strings are lists of code points.  No proofs here. *)
From Coq Require Import List NArith ZArith Bool DecimalN.
From MW Require Import Common.Str C12.Model.
Import ListNotations.
Open Scope N_scope.

(* ---- records -------------------------------------------------------------------------------------------- *)
(* the dict `rev` written as JSON header: {"title", "ns", optional "revid", optional "expanded": 1} *)
Record meta := { m_title : str; m_ns : Z; m_revid : option Z; m_expanded : bool }.
(* one record of revisions-1.txt: meta, its JSON text (json.dumps(rev, sort_keys=True)), the page text *)
Record rec := { r_meta : meta; r_json : str; r_text : str }.
(* one revision handed to the writer: by write_pages (de-duplicated on revid through `seen`) or write_expanded_page *)
Inductive wop := WPage (r : rec) | WExpanded (r : rec).

(* fetch.py:196-213 write_pages (inner loop body) / fetch.py:186-194 write_expanded_page.
   `seen` also receives titles and is a dict, but it is only ever *queried* with `revid not in self.seen`
   (a str title never equals an int revid; None is never a key), so the model keeps the revids. *)
Fixpoint write_ops (seen : list Z) (ops : list wop) : list rec :=
  match ops with
  | [] => []
  | WPage r :: rest =>
      match m_revid (r_meta r) with
      | Some v => if existsb (Z.eqb v) seen then write_ops seen rest else r :: write_ops (v :: seen) rest
      | None => r :: write_ops seen rest
      end
  | WExpanded r :: rest => r :: write_ops seen rest
  end.

(* "\n\x0c --page-- " *)
Definition sep : str := [10; 12; 32; 45; 45; 112; 97; 103; 101; 45; 45; 32].
Definition c_lf : N := 10.

Definition record_bytes (r : rec) : str := sep ++ r_json r ++ [c_lf] ++ r_text r.
(* the content of revisions-1.txt after close() *)
Definition file_of (rs : list rec) : str := flat_map record_bytes rs.

(* ---- reader ----------------------------------------------------------------------------------------------- *)
(* Python s.split(sp) for a non-empty separator: leftmost non-overlapping occurrences.
   skip = characters of a just-matched separator still to be dropped; cur_rev = current field, reversed *)
Fixpoint split_go (sp : str) (skip : nat) (cur_rev : str) (s : str) : list str :=
  match s with
  | [] => [rev cur_rev]
  | c :: r =>
      match skip with
      | S k => split_go sp k cur_rev r
      | O => if prefixb sp s then rev cur_rev :: split_go sp (Nat.pred (length sp)) [] r
             else split_go sp O (c :: cur_rev) r
      end
  end.
Definition split_sep (sp s : str) : list str := split_go sp O [] s.

Definition has_lf (s : str) : bool := existsb (N.eqb c_lf) s.

(* nuwiki.py:156-162: a chunk following a chunk without newline is glued back with the separator *)
Fixpoint rejoin (pages_rev : list str) (chunks : list str) : list str :=
  match chunks with
  | [] => rev pages_rev
  | ch :: rest =>
      match pages_rev with
      | last :: before => if has_lf last then rejoin (ch :: pages_rev) rest
                          else rejoin ((last ++ sep ++ ch) :: before) rest
      | [] => rejoin [ch] rest
      end
  end.

(* page.split("\n", 1) for every page; None = ValueError (a page without newline) *)
Fixpoint split_headers (pages : list str) : option (list (str * str)) :=
  match pages with
  | [] => Some []
  | p :: rest => match split1 c_lf p, split_headers rest with
                 | Some jt, Some l => Some (jt :: l)
                 | _, _ => None
                 end
  end.

Definition read_chunks (content : str) : option (list (str * str)) :=
  split_headers (rejoin [] (tl (split_sep sep content))).

Record page := { p_meta : meta; p_text : str }.

(* insertion into a dict modelled as association list: replace an existing key in place, else append *)
Fixpoint dict_set {K V} (eqb : K -> K -> bool) (k : K) (v : V) (d : list (K * V)) : list (K * V) :=
  match d with
  | [] => [(k, v)]
  | (k', v') :: r => if eqb k k' then (k, v) :: r else (k', v') :: dict_set eqb k v r
  end.
Fixpoint dict_get {K V} (eqb : K -> K -> bool) (k : K) (d : list (K * V)) : option V :=
  match d with
  | [] => None
  | (k', v') :: r => if eqb k k' then Some v' else dict_get eqb k r
  end.

(* insertion sort by revid, descending: python2sort(tmp, reverse=True) on the int-keyed items.  (The str-keyed items
   form their own group; each of them is (title, page) with page.title = title already a key, so the loop that follows
   does nothing for them.) *)
Fixpoint insert_desc (x : Z * page) (l : list (Z * page)) : list (Z * page) :=
  match l with
  | [] => [x]
  | y :: r => if Z.leb (fst y) (fst x) then x :: l else y :: insert_desc x r
  end.
Definition sort_desc (l : list (Z * page)) : list (Z * page) := fold_right insert_desc [] l.

Record index := { by_rev : list (Z * page); by_title : list (str * page) }.

Section Reader.
  Variable loads : str -> option meta.      (* json.loads of a header line *)

  (* nuwiki.py:164-175 *)
  Fixpoint load_pages (hs : list (str * str)) (ix : index) : option index :=
    match hs with
    | [] => Some ix
    | (j, t) :: rest =>
        match loads j with
        | None => None
        | Some m =>
            let p := {| p_meta := m; p_text := t |} in
            match m_revid m with
            | None => load_pages rest {| by_rev := by_rev ix; by_title := dict_set str_eqb (m_title m) p (by_title ix) |}
            | Some v => load_pages rest {| by_rev := dict_set Z.eqb v p (by_rev ix); by_title := by_title ix |}
            end
        end
    end.

  (* nuwiki.py:177-182 *)
  Definition add_titles (ix : index) : index :=
    {| by_rev := by_rev ix;
       by_title := fold_left (fun bt kp => match dict_get str_eqb (m_title (p_meta (snd kp))) bt with
                                           | Some _ => bt
                                           | None => bt ++ [(m_title (p_meta (snd kp)), snd kp)]
                                           end)
                             (sort_desc (by_rev ix)) (by_title ix) |}.

  Definition read_revisions (content : str) : option index :=
    match read_chunks content with
    | None => None
    | Some hs => match load_pages hs {| by_rev := []; by_title := [] |} with
                 | None => None
                 | Some ix => Some (add_titles ix)
                 end
    end.
End Reader.

(* ---- lookups ---------------------------------------------------------------------------------------------- *)
Section Lookup.
  Variable redirect_of : str -> option str.   (* nshandler.redirect_matcher(text): target (already fully qualified) *)
  Variable ix : index.
  Variable redirects : list (str * str).      (* redirects.json *)

  (* nuwiki.py:206-209: the part of _get_page without revision *)
  Definition get_by_title (name : str) : option page :=
    let name' := match dict_get str_eqb name redirects with Some t => t | None => name end in
    match dict_get str_eqb name' (by_title ix) with
    | Some p => Some p
    | None => dict_get str_eqb name (by_title ix)
    end.

  (* nuwiki.py:193-209 _get_page; revision already converted by int() *)
  Definition get_page (name : str) (revision : option Z) : option page :=
    match revision, dict_get str_eqb name redirects with
    | Some v, None =>
        match dict_get Z.eqb v (by_rev ix) with
        | Some p => match (match p_text p with [] => None | _ => redirect_of (p_text p) end) with
                    | Some target => get_by_title target
                    | None => Some p
                    end
        | None => None
        end
    | _, _ => get_by_title name
    end.
End Lookup.

(* ---- fs_escape (utils/unorganized.py:25-42) ------------------------------------------------------------------ *)
Definition c_tilde : N := 126.
Definition is_ascii (c : N) : bool := N.ltb c 128.

Fixpoint uint_digits (u : Decimal.uint) : str :=
  match u with
  | Decimal.Nil => []
  | Decimal.D0 r => 48 :: uint_digits r | Decimal.D1 r => 49 :: uint_digits r | Decimal.D2 r => 50 :: uint_digits r
  | Decimal.D3 r => 51 :: uint_digits r | Decimal.D4 r => 52 :: uint_digits r | Decimal.D5 r => 53 :: uint_digits r
  | Decimal.D6 r => 54 :: uint_digits r | Decimal.D7 r => 55 :: uint_digits r | Decimal.D8 r => 56 :: uint_digits r
  | Decimal.D9 r => 57 :: uint_digits r
  end.
(* str(ord(char)) *)
Definition decimal (n : N) : str := uint_digits (N.to_uint n).

(* the per-character code of the first stage: ASCII other than ~ / \ kept, "~" -> "~~", anything else -> "~<ord>~" *)
Definition esc_char (c : N) : str :=
  if is_ascii c && negb (N.eqb c c_tilde) && negb (N.eqb c 47) && negb (N.eqb c 92) then [c]
  else if N.eqb c c_tilde then [c_tilde; c_tilde]
  else c_tilde :: decimal c ++ [c_tilde].

(* ASCII white space, what str.strip() can still find after the first stage *)
Definition is_ascii_ws (c : N) : bool :=
  (N.leb 9 c && N.leb c 13) || (N.leb 28 c && N.leb c 32).

(* (?u)[^-\w.~] on an ASCII string: everything except letters, digits, '_', '-', '.', '~' is deleted *)
Definition keep_char (c : N) : bool :=
  (N.leb 48 c && N.leb c 57) || (N.leb 65 c && N.leb c 90) || (N.leb 97 c && N.leb c 122)
  || N.eqb c 95 || N.eqb c 45 || N.eqb c 46 || N.eqb c c_tilde.

Definition fs_escape (s : str) : str :=
  let s1 := flat_map esc_char s in
  let s2 := map (fun c => if N.eqb c 32 then 95 else c) (strip is_ascii_ws s1) in
  filter keep_char s2.

(* ---- image paths (fetch.py:148-151 get_imagepath ; nuwiki.py:219-241 normalize_and_get_image_path) ----------- *)
Section Images.
  Variable splitname_site : str -> Z -> result (Z * str * str).     (* self.nshandler.splitname *)
  Variable fqname_en : str -> Z -> result str.                      (* self.en_nshandler.get_fqname *)
  Variable files : list str.                                         (* names present in <dir>/images *)

  Definition stored_name (title : str) : str := fs_escape title.

  Definition exists_file (n : str) : bool := existsb (str_eqb n) files.

  (* returns the file name under images/ that is served, None when not found; the name was already unquoted *)
  Definition image_lookup (name : str) : result (option str) :=
    match splitname_site name 6%Z with
    | KeyError => KeyError
    | Ok (ns, partial, fqname) =>
        if negb (Z.eqb ns 6) then Ok None
        else if existsb (N.eqb 47) fqname then Ok None
        else if exists_file (fs_escape fqname) then Ok (Some (fs_escape fqname))
        else match fqname_en partial 6%Z with
             | KeyError => KeyError
             | Ok en => if exists_file (fs_escape en) then Ok (Some (fs_escape en)) else Ok None
             end
    end.
End Images.

(* ---- the images directory (fetch.py:148-151 get_imagepath + the caller's open(path, "wb").write(bytes)) ------- *)
(* a directory = association list file name -> content; writing to an existing name replaces the content *)
Definition store_images {D : Type} (imgs : list (str * D)) : list (str * D) :=
  fold_left (fun fs im => dict_set str_eqb (stored_name (fst im)) (snd im) fs) imgs [].
(* the bytes behind the file name that normalize_and_get_image_path serves *)
Definition image_bytes {D : Type} (fs : list (str * D)) (served : result (option str)) : option D :=
  match served with
  | Ok (Some n) => dict_get str_eqb n fs
  | _ => None
  end.
