From Coq Require Import Extraction ExtrOcamlBasic.
From MW Require Import Common.Str C12.Model C12.Inst C14.Model C14.Inst.
Extraction "../ocaml/c14/c14_model.ml" archive_file archive_index q_get q_norm q_image fs_escape site_by_name.
