(* C14 — property theorems only.  Each is closed by `exact <lemma>` and followed by Print Assumptions.
   Model.v: writer, revisions file, reader, index, lookups, fs_escape, image path; title normalisation is the C12 model
   instantiated with the generated tables (C12/Gen_*.v, regenerated on every run). *)
From Coq Require Import List NArith ZArith Bool.
From MW Require Import Common.Str C12.Model C12.ListLemmas C12.Proofs C12.Inst C12.ProofsInst.
From MW Require Import C14.Model C14.Inst C14.ProofsIndex C14.ProofsEscape C14.ProofsImage C14.ProofsFile.
Import ListNotations.
Open Scope N_scope.

(* THE FILE.  For every list of records whose JSON headers contain no newline and whose texts do not contain the record
   separator "\n\x0c --page-- " (texts may START with its tail "\x0c --page-- ", may end with any prefix of it, may be
   empty, may contain "--page--" lines and fake headers), the reader's chunking (split on the separator, re-join of a chunk
   that follows a header without newline, split at the first newline) returns exactly the (header, text) pairs written. *)
Theorem C14_file_roundtrip : forall rs,
  Forall (fun r => ~ In c_lf (r_json r) /\ contains sep (r_text r) = false) rs ->
  read_chunks (file_of rs) = Some (hs_of rs).
Proof. exact read_chunks_file. Qed.
Print Assumptions C14_file_roundtrip.

(* PAGES, BY REVISION ID.  loads/dumps is the JSON codec oracle (loads (dumps m) = m on the headers written).  For all
   write operations through write_pages (any order, any batches, re-deliveries), every stored revision is served with
   its text under its revision id — unless the text is itself a redirect page, which mwlib follows. *)
Theorem C14_pages_roundtrip_by_revid : forall loads redirect_of ops redirects r v name,
  let rs := write_ops [] ops in
  (forall o, In o ops -> exists r, o = WPage r) ->
  (forall r, In r rs -> loads (r_json r) = Some (r_meta r)) ->
  Forall (fun r => ~ In c_lf (r_json r) /\ contains sep (r_text r) = false) rs ->
  In r rs -> rev_of r = Some v -> dict_get str_eqb name redirects = None ->
  (r_text r = [] \/ redirect_of (r_text r) = None) ->
  exists ix, read_revisions loads (file_of rs) = Some ix /\
             get_page redirect_of ix redirects name (Some v) = Some (page_of r).
Proof. exact pages_by_revid. Qed.
Print Assumptions C14_pages_roundtrip_by_revid.

(* PAGES, BY TITLE: THE NEWEST REVISION, whatever the order of writing; the same page is served under every
   equivalent spelling because normalize_and_get_page looks up get_fqname(spelling) = the canonical title
   (C12_spelling_invariant / C12_idempotent). *)
Theorem C14_pages_roundtrip_by_title : forall loads redirect_of ops redirects r v t,
  let rs := write_ops [] ops in
  (forall o, In o ops -> exists r, o = WPage r) ->
  (forall r, In r rs -> loads (r_json r) = Some (r_meta r)) ->
  Forall (fun r => ~ In c_lf (r_json r) /\ contains sep (r_text r) = false) rs ->
  In r rs -> title_of r = t -> rev_of r = Some v ->
  (forall r', In r' rs -> title_of r' = t -> exists v', rev_of r' = Some v' /\ (v' <= v)%Z) ->
  dict_get str_eqb t redirects = None ->
  exists ix, read_revisions loads (file_of rs) = Some ix /\
             get_page redirect_of ix redirects t None = Some (page_of r).
Proof. exact pages_by_title. Qed.
Print Assumptions C14_pages_roundtrip_by_title.

Theorem C14_pages_by_spelling : forall st rtab ix redirects spelling dns k P t,
  py_splitname st spelling dns = Ok (k, P, t) ->
  q_norm st rtab ix redirects spelling dns = Ok (q_get rtab ix redirects t None).
Proof. exact norm_is_get_of_fqname. Qed.
Print Assumptions C14_pages_by_spelling.

(* REDIRECTS recorded at write time resolve to the newest revision of the target page. *)
Theorem C14_redirects_resolve : forall loads redirect_of ops redirects src dst r v rev,
  let rs := write_ops [] ops in
  (forall o, In o ops -> exists r, o = WPage r) ->
  (forall r, In r rs -> loads (r_json r) = Some (r_meta r)) ->
  Forall (fun r => ~ In c_lf (r_json r) /\ contains sep (r_text r) = false) rs ->
  dict_get str_eqb src redirects = Some dst ->
  In r rs -> title_of r = dst -> rev_of r = Some v ->
  (forall r', In r' rs -> title_of r' = dst -> exists v', rev_of r' = Some v' /\ (v' <= v)%Z) ->
  exists ix, read_revisions loads (file_of rs) = Some ix /\
             get_page redirect_of ix redirects src rev = Some (page_of r).
Proof. exact pages_redirect. Qed.
Print Assumptions C14_redirects_resolve.

(* FILE NAMES.  Two titles over the property's alphabet (every non-ASCII code point, ASCII letters and digits,
   '-' '.' '_' '~' and space; no edge spaces) that get the same file name are equal up to '_' versus ' '. *)
Theorem C14_fs_escape_injective : forall a b,
  forallb alpha a = true -> forallb alpha b = true -> ends_nonspace a -> ends_nonspace b ->
  fs_escape a = fs_escape b -> map us2sp a = map us2sp b.
Proof. exact fs_escape_injective. Qed.
Print Assumptions C14_fs_escape_injective.

(* IMAGES.  For every bundled site: an image stored under its canonical title T (local File-namespace name, ':',
   capitalised remainder p) is found — at the very file name the writer used — under every spelling of the C12 grammar
   (any name/alias of namespace 6 in any letter case, '_' or runs of spaces, leading colon, edge white space and marks),
   and under the bare remainder (default namespace 6).  Names are taken after URL-unquoting; %XX is excluded. *)
Theorem C14_image_found_by_spelling : forall nm st en L n s NS' W p P' E1 C E3 E4 stored,
  In (nm, st) all_sites -> In n (names_of st 6%Z) -> n <> [] -> star_of st 6%Z = Some L ->
  cv py_upper_char py_lower_char s n -> expands s NS' ->
  Forall (ws' py_is_ws) W -> Forall (edge' py_is_ws) E1 ->
  Forall (edge' py_is_ws) (match C with Some E2 => E2 | None => [] end) ->
  Forall (edge' py_is_ws) E3 -> Forall (edge' py_is_ws) E4 ->
  tidy py_is_ws p -> expands p P' ->
  let T := prefix_of L ++ maybe_capitalize py_upper_char (s_capitalize st) p in
  ~ In 47 T -> In T stored ->
  q_image st en stored (E1 ++ lead C ++ NS' ++ W ++ c_colon :: E3 ++ P' ++ E4) = Ok (Some (stored_name T)).
Proof. exact image_found_by_spelling. Qed.
Print Assumptions C14_image_found_by_spelling.

Theorem C14_image_found_by_bare_name : forall nm st en L p P' E1 E4 stored,
  In (nm, st) all_sites -> star_of st 6%Z = Some L ->
  Forall (edge' py_is_ws) E1 -> Forall (edge' py_is_ws) E4 ->
  tidy py_is_ws p -> ~ In c_colon p -> expands p P' ->
  let T := prefix_of L ++ maybe_capitalize py_upper_char (s_capitalize st) p in
  ~ In 47 T -> In T stored ->
  q_image st en stored (E1 ++ P' ++ E4) = Ok (Some (stored_name T)).
Proof. exact image_found_plain. Qed.
Print Assumptions C14_image_found_by_bare_name.

(* Non-vacuity: two revisions of "A" written oldest first, the newer text starting with the separator tail; the file is
   read back, title lookup gives revision 9, revision 5 is still served by id. *)
Example C14_example :
  let m5 := {| m_title := [65]; m_ns := 0%Z; m_revid := Some 5%Z; m_expanded := false |} in
  let m9 := {| m_title := [65]; m_ns := 0%Z; m_revid := Some 9%Z; m_expanded := false |} in
  let r5 := {| r_meta := m5; r_json := [123; 53; 125]; r_text := [102; 105; 118; 101] |} in
  let r9 := {| r_meta := m9; r_json := [123; 57; 125]; r_text := tl sep ++ [110; 105; 110; 101] |} in
  let ops := [WPage r5; WPage r9; WPage r5] in
  match archive_index ops with
  | Some ix => q_get [] ix [] [65] None = Some (page_of r9) /\ q_get [] ix [] [65] (Some 5%Z) = Some (page_of r5)
  | None => False
  end.
Proof. vm_compute. split; reflexivity. Qed.
Print Assumptions C14_example.
