(* placeholder until the proofs land *)
From MW Require Import Common.Str C14.Model.
