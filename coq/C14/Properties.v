(* C14 — property theorems only.  Each is closed by `exact <lemma>` and followed by Print Assumptions.
   Model.v: writer, revisions file, reader, index, lookups, fs_escape, image path; title normalisation is the C12 model
   instantiated with the generated tables (C12/Gen_*.v, regenerated on every run). *)
From Coq Require Import List NArith ZArith Bool.
From MW Require Import Common.Str C12.Model C12.ListLemmas C12.Proofs C12.Inst C12.ProofsInst.
From MW Require Import C14.Model C14.Inst C14.ProofsIndex C14.ProofsEscape C14.ProofsImage C14.ProofsFile C14.ProofsExpanded C14.ProofsStore C14.ProofsFallback C14.ProofsHistory.
Import ListNotations.
Open Scope N_scope.

(* THE FILE.  For every list of records whose JSON headers contain no newline and whose texts do not contain the record
   separator "\n\x0c --page-- " (texts may START with its tail "\x0c --page-- ", may end with any prefix of it, may be
   empty, may contain "--page--" lines and fake headers), the reader's chunking (split on the separator, re-join of a chunk
   that follows a header without newline, split at the first newline) returns exactly the (header, text) pairs written. *)
Theorem C14_file_roundtrip : forall rs,
  Forall (fun r => ~ In c_lf (r_json r) /\ contains sep (r_text r) = false) rs ->
  read_chunks (file_of rs) = Some (hs_of rs).
Proof. exact read_chunks_file. Qed.
Print Assumptions C14_file_roundtrip.

(* PAGES, BY REVISION ID.  loads/dumps is the JSON codec oracle (loads (dumps m) = m on the headers written).  For all
   write operations through write_pages (any order, any batches, re-deliveries), every stored revision is served with
   its text under its revision id — unless the text is itself a redirect page, which mwlib follows. *)
Theorem C14_pages_roundtrip_by_revid : forall loads redirect_of ops redirects r v name,
  let rs := write_ops [] ops in
  (forall o, In o ops -> exists r, o = WPage r) ->
  (forall r, In r rs -> loads (r_json r) = Some (r_meta r)) ->
  Forall (fun r => ~ In c_lf (r_json r) /\ contains sep (r_text r) = false) rs ->
  In r rs -> rev_of r = Some v -> dict_get str_eqb name redirects = None ->
  (r_text r = [] \/ redirect_of (r_text r) = None) ->
  exists ix, read_revisions loads (file_of rs) = Some ix /\
             get_page redirect_of ix redirects name (Some v) = Some (page_of r).
Proof. exact pages_by_revid. Qed.
Print Assumptions C14_pages_roundtrip_by_revid.

(* PAGES, BY TITLE: THE NEWEST REVISION, whatever the order of writing; the same page is served under every
   equivalent spelling because normalize_and_get_page looks up get_fqname(spelling) = the canonical title
   (C12_spelling_invariant / C12_idempotent). *)
Theorem C14_pages_roundtrip_by_title : forall loads redirect_of ops redirects r v t,
  let rs := write_ops [] ops in
  (forall o, In o ops -> exists r, o = WPage r) ->
  (forall r, In r rs -> loads (r_json r) = Some (r_meta r)) ->
  Forall (fun r => ~ In c_lf (r_json r) /\ contains sep (r_text r) = false) rs ->
  In r rs -> title_of r = t -> rev_of r = Some v ->
  (forall r', In r' rs -> title_of r' = t -> exists v', rev_of r' = Some v' /\ (v' <= v)%Z) ->
  dict_get str_eqb t redirects = None ->
  exists ix, read_revisions loads (file_of rs) = Some ix /\
             get_page redirect_of ix redirects t None = Some (page_of r).
Proof. exact pages_by_title. Qed.
Print Assumptions C14_pages_roundtrip_by_title.

Theorem C14_pages_by_spelling : forall st rtab ix redirects spelling dns k P t,
  py_splitname st spelling dns = Ok (k, P, t) ->
  q_norm st rtab ix redirects spelling dns = Ok (q_get rtab ix redirects t None).
Proof. exact norm_is_get_of_fqname. Qed.
Print Assumptions C14_pages_by_spelling.

(* REDIRECTS recorded at write time resolve to the newest revision of the target page. *)
Theorem C14_redirects_resolve : forall loads redirect_of ops redirects src dst r v rev,
  let rs := write_ops [] ops in
  (forall o, In o ops -> exists r, o = WPage r) ->
  (forall r, In r rs -> loads (r_json r) = Some (r_meta r)) ->
  Forall (fun r => ~ In c_lf (r_json r) /\ contains sep (r_text r) = false) rs ->
  dict_get str_eqb src redirects = Some dst ->
  In r rs -> title_of r = dst -> rev_of r = Some v ->
  (forall r', In r' rs -> title_of r' = dst -> exists v', rev_of r' = Some v' /\ (v' <= v)%Z) ->
  exists ix, read_revisions loads (file_of rs) = Some ix /\
             get_page redirect_of ix redirects src rev = Some (page_of r).
Proof. exact pages_redirect. Qed.
Print Assumptions C14_redirects_resolve.

(* FILE NAMES.  Two titles over the property's alphabet (every non-ASCII code point, ASCII letters and digits,
   '-' '.' '_' '~' and space; no edge spaces) that get the same file name are equal up to '_' versus ' '. *)
Theorem C14_fs_escape_injective : forall a b,
  forallb alpha a = true -> forallb alpha b = true -> ends_nonspace a -> ends_nonspace b ->
  fs_escape a = fs_escape b -> map us2sp a = map us2sp b.
Proof. exact fs_escape_injective. Qed.
Print Assumptions C14_fs_escape_injective.

(* IMAGES.  For every bundled site: an image stored under its canonical title T (local File-namespace name, ':',
   capitalised remainder p) is found — at the very file name the writer used — under every spelling of the C12 grammar
   (any name/alias of namespace 6 in any letter case, '_' or runs of spaces, leading colon, edge white space and marks),
   and under the bare remainder (default namespace 6).  Names are taken after URL-unquoting; %XX is excluded. *)
Theorem C14_image_found_by_spelling : forall nm st en L n s NS' W p P' E1 C E3 E4 stored,
  In (nm, st) all_sites -> In n (names_of st 6%Z) -> n <> [] -> star_of st 6%Z = Some L ->
  cv py_upper_char py_lower_char s n -> expands s NS' ->
  Forall (ws' py_is_ws) W -> Forall (edge' py_is_ws) E1 ->
  Forall (edge' py_is_ws) (match C with Some E2 => E2 | None => [] end) ->
  Forall (edge' py_is_ws) E3 -> Forall (edge' py_is_ws) E4 ->
  tidy py_is_ws p -> expands p P' ->
  let T := prefix_of L ++ maybe_capitalize py_upper_char (s_capitalize st) p in
  ~ In 47 T -> In T stored ->
  q_image st en stored (E1 ++ lead C ++ NS' ++ W ++ c_colon :: E3 ++ P' ++ E4) = Ok (Some (stored_name T)).
Proof. exact image_found_by_spelling. Qed.
Print Assumptions C14_image_found_by_spelling.

Theorem C14_image_found_by_bare_name : forall nm st en L p P' E1 E4 stored,
  In (nm, st) all_sites -> star_of st 6%Z = Some L ->
  Forall (edge' py_is_ws) E1 -> Forall (edge' py_is_ws) E4 ->
  tidy py_is_ws p -> ~ In c_colon p -> expands p P' ->
  let T := prefix_of L ++ maybe_capitalize py_upper_char (s_capitalize st) p in
  ~ In 47 T -> In T stored ->
  q_image st en stored (E1 ++ P' ++ E4) = Ok (Some (stored_name T)).
Proof. exact image_found_plain. Qed.
Print Assumptions C14_image_found_by_bare_name.

(* EXPANDED PAGES (write_expanded_page) in ANY mix with write_pages deliveries (no restriction on the operations before
   or after).  An expanded page written without revision id is served under its title with the text written, as long as no
   LATER operation writes the same title without revision id (raw revisions of the title that carry ids, older expansions,
   other titles do not matter) ... *)
Theorem C14_expanded_page_by_title : forall loads redirect_of ops1 r ops2 redirects t,
  let rs := write_ops [] (ops1 ++ WExpanded r :: ops2) in
  (forall r, In r rs -> loads (r_json r) = Some (r_meta r)) ->
  Forall (fun r => ~ In c_lf (r_json r) /\ contains sep (r_text r) = false) rs ->
  title_of r = t -> rev_of r = None ->
  (forall r', In r' (recs_of ops2) -> title_of r' = t -> rev_of r' <> None) ->
  dict_get str_eqb t redirects = None ->
  exists ix, read_revisions loads (file_of rs) = Some ix /\
             get_page redirect_of ix redirects t None = Some (page_of r).
Proof. exact expanded_by_title. Qed.
Print Assumptions C14_expanded_page_by_title.

(* ... through a redirects.json entry pointing to its title ... *)
Theorem C14_expanded_page_through_redirect : forall loads redirect_of ops1 r ops2 redirects src t rev,
  let rs := write_ops [] (ops1 ++ WExpanded r :: ops2) in
  (forall r, In r rs -> loads (r_json r) = Some (r_meta r)) ->
  Forall (fun r => ~ In c_lf (r_json r) /\ contains sep (r_text r) = false) rs ->
  title_of r = t -> rev_of r = None ->
  (forall r', In r' (recs_of ops2) -> title_of r' = t -> rev_of r' <> None) ->
  dict_get str_eqb src redirects = Some t ->
  exists ix, read_revisions loads (file_of rs) = Some ix /\
             get_page redirect_of ix redirects src rev = Some (page_of r).
Proof. exact expanded_by_redirect. Qed.
Print Assumptions C14_expanded_page_through_redirect.

(* ... and an expanded page written WITH a revision id is served under that id unless a later operation writes the id again
   (write_expanded_page does not mark revision ids as seen). *)
Theorem C14_expanded_page_by_revid : forall loads redirect_of ops1 r ops2 redirects v name,
  let rs := write_ops [] (ops1 ++ WExpanded r :: ops2) in
  (forall r, In r rs -> loads (r_json r) = Some (r_meta r)) ->
  Forall (fun r => ~ In c_lf (r_json r) /\ contains sep (r_text r) = false) rs ->
  rev_of r = Some v ->
  (forall r', In r' (recs_of ops2) -> rev_of r' <> Some v) ->
  dict_get str_eqb name redirects = None ->
  (r_text r = [] \/ redirect_of (r_text r) = None) ->
  exists ix, read_revisions loads (file_of rs) = Some ix /\
             get_page redirect_of ix redirects name (Some v) = Some (page_of r).
Proof. exact expanded_by_revid. Qed.
Print Assumptions C14_expanded_page_by_revid.

(* NO LENGTH RESTRICTION.  C14_fs_escape_injective above quantifies over titles of every length; the next two theorems say
   so explicitly: the file name is never shorter than the title (nothing is cut off), and two titles that share a prefix
   of ANY length and differ afterwards get different file names. *)
Theorem C14_fs_escape_no_truncation : forall s, forallb alpha s = true -> ends_nonspace s ->
  (length s <= length (fs_escape s))%nat.
Proof. exact fs_escape_no_truncation. Qed.
Print Assumptions C14_fs_escape_no_truncation.

Theorem C14_long_titles_kept_apart : forall p x y,
  forallb alpha (p ++ x) = true -> forallb alpha (p ++ y) = true ->
  ends_nonspace (p ++ x) -> ends_nonspace (p ++ y) ->
  map us2sp x <> map us2sp y ->
  fs_escape (p ++ x) <> fs_escape (p ++ y).
Proof. exact long_titles_kept_apart. Qed.
Print Assumptions C14_long_titles_kept_apart.

(* EVERY IMAGE ITS OWN BYTES.  Any number of images written into one directory (store_images: a later write to the same
   file name replaces the content), titles over the property's alphabet of any length, different titles possibly with
   different bytes: asked under any spelling of its title (C12 grammar), an image comes back with the bytes stored under
   THAT title. *)
Theorem C14_image_own_bytes_by_spelling : forall (D : Type) nm st en L n s NS' W p P' E1 C E3 E4 (imgs : list (str * D)) d,
  In (nm, st) all_sites -> In n (names_of st 6%Z) -> n <> [] -> star_of st 6%Z = Some L ->
  cv py_upper_char py_lower_char s n -> expands s NS' ->
  Forall (ws' py_is_ws) W -> Forall (edge' py_is_ws) E1 ->
  Forall (edge' py_is_ws) (match C with Some E2 => E2 | None => [] end) ->
  Forall (edge' py_is_ws) E3 -> Forall (edge' py_is_ws) E4 ->
  tidy py_is_ws p -> expands p P' ->
  let T := prefix_of L ++ maybe_capitalize py_upper_char (s_capitalize st) p in
  ~ In 47 T -> In (T, d) imgs ->
  (forall T' d', In (T', d') imgs -> forallb alpha T' = true /\ ends_nonspace T') ->
  (forall T' d', In (T', d') imgs -> map us2sp T' = map us2sp T -> d' = d) ->
  image_bytes (store_images imgs) (q_image st en (map fst imgs) (E1 ++ lead C ++ NS' ++ W ++ c_colon :: E3 ++ P' ++ E4)) = Some d.
Proof. exact (@image_own_bytes_by_spelling). Qed.
Print Assumptions C14_image_own_bytes_by_spelling.

Theorem C14_image_own_bytes_by_bare_name : forall (D : Type) nm st en L p P' E1 E4 (imgs : list (str * D)) d,
  In (nm, st) all_sites -> star_of st 6%Z = Some L ->
  Forall (edge' py_is_ws) E1 -> Forall (edge' py_is_ws) E4 ->
  tidy py_is_ws p -> ~ In c_colon p -> expands p P' ->
  let T := prefix_of L ++ maybe_capitalize py_upper_char (s_capitalize st) p in
  ~ In 47 T -> In (T, d) imgs ->
  (forall T' d', In (T', d') imgs -> forallb alpha T' = true /\ ends_nonspace T') ->
  (forall T' d', In (T', d') imgs -> map us2sp T' = map us2sp T -> d' = d) ->
  image_bytes (store_images imgs) (q_image st en (map fst imgs) (E1 ++ P' ++ E4)) = Some d.
Proof. exact (@image_own_bytes_by_bare_name). Qed.
Print Assumptions C14_image_own_bytes_by_bare_name.

(* Non-vacuity of the length claims: 250 and 2000 shared characters (ASCII, and non-ASCII that is escaped to 5 characters
   each), different last character before the extension: different file names; a 251-character title keeps 251 characters. *)
Example C14_long_titles_example :
  fs_escape (repeat 97 250 ++ [49]) <> fs_escape (repeat 97 250 ++ [50]) /\
  fs_escape (65 :: repeat 233 2000 ++ [49; 46; 112; 110; 103]) <> fs_escape (65 :: repeat 233 2000 ++ [50; 46; 112; 110; 103]) /\
  length (fs_escape (repeat 97 250 ++ [49])) = 251%nat.
Proof. exact long_titles_example. Qed.
Print Assumptions C14_long_titles_example.

(* THE ENGLISH FALLBACK (nuwiki.py:231-236).  For every bundled site st and the bundled English site en: an image stored
   under the ENGLISH File-namespace name Len ++ ":" ++ P (P = the capitalised remainder) while no file exists under the
   site's local name L ++ ":" ++ P is found — at the file written for the English name — under every spelling of the C12
   grammar a page of the site may use (local / canonical / alias name of namespace 6 in any case, decorations), and under
   the bare remainder. *)
Theorem C14_image_found_by_english_name : forall nm st nm_en en L Len n s NS' W p P' E1 C E3 E4 stored,
  In (nm, st) all_sites -> In (nm_en, en) all_sites -> star_of en 6%Z = Some Len -> s_capitalize en = s_capitalize st ->
  In n (names_of st 6%Z) -> n <> [] -> star_of st 6%Z = Some L ->
  cv py_upper_char py_lower_char s n -> expands s NS' ->
  Forall (ws' py_is_ws) W -> Forall (edge' py_is_ws) E1 ->
  Forall (edge' py_is_ws) (match C with Some E2 => E2 | None => [] end) ->
  Forall (edge' py_is_ws) E3 -> Forall (edge' py_is_ws) E4 ->
  tidy py_is_ws p -> ~ In c_colon p -> expands p P' ->
  let P := maybe_capitalize py_upper_char (s_capitalize st) p in
  let T := prefix_of L ++ P in
  let Ten := prefix_of Len ++ P in
  ~ In 47 T -> ~ In (stored_name T) (map stored_name stored) -> In Ten stored ->
  q_image st en stored (E1 ++ lead C ++ NS' ++ W ++ c_colon :: E3 ++ P' ++ E4) = Ok (Some (stored_name Ten)).
Proof. exact image_found_by_english_name. Qed.
Print Assumptions C14_image_found_by_english_name.

Theorem C14_image_found_by_bare_name_english : forall nm st nm_en en L Len p P' E1 E4 stored,
  In (nm, st) all_sites -> In (nm_en, en) all_sites -> star_of en 6%Z = Some Len -> s_capitalize en = s_capitalize st ->
  star_of st 6%Z = Some L ->
  Forall (edge' py_is_ws) E1 -> Forall (edge' py_is_ws) E4 ->
  tidy py_is_ws p -> ~ In c_colon p -> expands p P' ->
  let P := maybe_capitalize py_upper_char (s_capitalize st) p in
  let T := prefix_of L ++ P in
  let Ten := prefix_of Len ++ P in
  ~ In 47 T -> ~ In (stored_name T) (map stored_name stored) -> In Ten stored ->
  q_image st en stored (E1 ++ P' ++ E4) = Ok (Some (stored_name Ten)).
Proof. exact image_found_plain_by_english_name. Qed.
Print Assumptions C14_image_found_by_bare_name_english.

(* Non-vacuity: German site, "File:X.png" stored (file "FileX.png"), nothing under "Datei:X.png"; "bild:x.png" finds it. *)
Example C14_fallback_example :
  exists st en, In ([100; 101], st) all_sites /\ In ([101; 110], en) all_sites /\
  q_image st en [[70; 105; 108; 101; 58; 88; 46; 112; 110; 103]] [98; 105; 108; 100; 58; 120; 46; 112; 110; 103]
  = Ok (Some [70; 105; 108; 101; 88; 46; 112; 110; 103]).
Proof. exact fallback_example. Qed.
Print Assumptions C14_fallback_example.

(* Non-vacuity: two revisions of "A" written oldest first, the newer text starting with the separator tail; the file is
   read back, title lookup gives revision 9, revision 5 is still served by id. *)
Example C14_example :
  let m5 := {| m_title := [65]; m_ns := 0%Z; m_revid := Some 5%Z; m_expanded := false |} in
  let m9 := {| m_title := [65]; m_ns := 0%Z; m_revid := Some 9%Z; m_expanded := false |} in
  let r5 := {| r_meta := m5; r_json := [123; 53; 125]; r_text := [102; 105; 118; 101] |} in
  let r9 := {| r_meta := m9; r_json := [123; 57; 125]; r_text := tl sep ++ [110; 105; 110; 101] |} in
  let ops := [WPage r5; WPage r9; WPage r5] in
  match archive_index ops with
  | Some ix => q_get [] ix [] [65] None = Some (page_of r9) /\ q_get [] ix [] [65] (Some 5%Z) = Some (page_of r5)
  | None => False
  end.
Proof. vm_compute. split; reflexivity. Qed.
Print Assumptions C14_example.

(* HISTORY INDEPENDENCE OF THE LOOKUPS ON ONE OPENED ARCHIVE.  A session = the answers to a list of queries
   (normalize_and_get_page with any default namespace, get_page, get_fqname) asked one after the other on the one opened
   archive.  Whatever was asked before and after, the answer to a query is the answer it gets as the only query on the fresh
   archive.  (The model has no handler state, so this holds by construction; it is stated because the real NsHandler/NuWiki
   objects live across lookups: the correspondence run asks the lookups of one archive in random order on the one object.) *)
Theorem C14_lookup_history_independent : forall st rtab ix redirects before q after,
  nth_error (session st rtab ix redirects (before ++ q :: after)) (length before)
    = nth_error (session st rtab ix redirects [q]) 0
  /\ nth_error (session st rtab ix redirects [q]) 0 = Some (answer_of st rtab ix redirects q).
Proof. exact session_history_independent. Qed.
Print Assumptions C14_lookup_history_independent.
