(* C14 — history independence of the lookups on one opened archive.
   The model of the opened archive (Inst.v: q_get / q_norm, C12.Inst.py_get_fqname) carries NO handler state: an answer is a
   function of (site tables, index, redirects, query).  The real NsHandler/NuWiki objects live across lookups
   (nuwiki.py:120 one NsHandler per opened archive; nshandling.py:102-117 _find_namespace is called by every lookup), so this
   is a property the code must have for the model to be faithful: the tie issues the lookups of one archive in random order on
   the one object and compares every answer with the model's.  Stated here over sessions = lists of queries. *)
From Coq Require Import List NArith ZArith Bool.
From MW Require Import Common.Str C12.Model C12.Inst C14.Model C14.Inst.
Import ListNotations.

Inductive query :=
| QNorm (name : str) (dns : Z)            (* NuWiki.normalize_and_get_page(name, dns): articles, templates (dns 10), ... *)
| QGet (name : str) (rev : option Z)      (* NuWiki.get_page(name, revision) *)
| QFq (name : str) (dns : Z).             (* nshandler.get_fqname(name, dns) *)

Inductive answer :=
| APage (r : result (option page))
| AFq (r : result str).

Section Session.
  Variable st : site.
  Variable rtab : list (str * str).
  Variable ix : index.
  Variable redirects : list (str * str).

  Definition answer_of (q : query) : answer :=
    match q with
    | QNorm name dns => APage (q_norm st rtab ix redirects name dns)
    | QGet name rev => APage (Ok (q_get rtab ix redirects name rev))
    | QFq name dns => AFq (py_get_fqname st name dns)
    end.

  (* the answers given to a list of queries asked one after the other on the one opened archive *)
  Definition session (qs : list query) : list answer :=
    fold_left (fun acc q => acc ++ [answer_of q]) qs [].

  Lemma session_from : forall qs acc,
    fold_left (fun acc q => acc ++ [answer_of q]) qs acc = acc ++ map answer_of qs.
  Proof.
    induction qs as [|q qs IH]; intros acc; cbn [fold_left map].
    - now rewrite app_nil_r.
    - rewrite IH, <- app_assoc. reflexivity.
  Qed.

  Lemma session_map : forall qs, session qs = map answer_of qs.
  Proof. intros qs. unfold session. now rewrite session_from. Qed.

  (* whatever was asked before (and after), the answer to q is the answer q gets as the only query on the fresh archive *)
  Lemma session_history_independent : forall before q after,
    nth_error (session (before ++ q :: after)) (length before) = nth_error (session [q]) 0
    /\ nth_error (session [q]) 0 = Some (answer_of q).
  Proof.
    intros before q after. rewrite !session_map. split; [|reflexivity].
    rewrite map_app. cbn [map nth_error].
    rewrite nth_error_app2 by (rewrite map_length; apply le_n).
    rewrite map_length, PeanoNat.Nat.sub_diag. reflexivity.
  Qed.

  (* the order of two earlier lookups does not matter either *)
  Lemma session_permutation_last : forall before before' q,
    length before = length before' ->
    nth_error (session (before ++ [q])) (length before) = nth_error (session (before' ++ [q])) (length before').
  Proof.
    intros before before' q _.
    destruct (session_history_independent before q []) as [H1 _].
    destruct (session_history_independent before' q []) as [H2 _].
    now rewrite H1, H2.
  Qed.
End Session.
