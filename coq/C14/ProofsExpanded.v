(* C14 — expanded-page records (fetch.py:177-187 write_expanded_page) and, generally, ANY mix of write_pages /
   write_expanded_page operations: the LAST record written under a key is the one served.
   write_expanded_page never consults or feeds the revision-id part of `seen`, so nothing is de-duplicated: the proofs
   below do not need NoDup (revids rs). *)
From Coq Require Import List NArith ZArith Bool Lia.
From MW Require Import Common.Str C12.Model C14.Model C14.ProofsIndex C14.ProofsFile.
Import ListNotations.

Definition rec_of_op (o : wop) : rec := match o with WPage r => r | WExpanded r => r end.
Definition recs_of (ops : list wop) : list rec := map rec_of_op ops.

Lemma write_ops_sub ops : forall seen r, In r (write_ops seen ops) -> In r (recs_of ops).
Proof.
  induction ops as [|o ops IH]; intros seen r H; [exact H|]. destruct o as [x|x]; cbn [write_ops] in H; cbn [recs_of map rec_of_op].
  - destruct (m_revid (r_meta x)) as [v|].
    + destruct (existsb (Z.eqb v) seen); [right; exact (IH _ _ H)|]. destruct H as [H|H]; [left; exact H | right; exact (IH _ _ H)].
    + destruct H as [H|H]; [left; exact H | right; exact (IH _ _ H)].
  - destruct H as [H|H]; [left; exact H | right; exact (IH _ _ H)].
Qed.

Lemma write_ops_app a : forall seen b, exists seen', write_ops seen (a ++ b) = write_ops seen a ++ write_ops seen' b.
Proof.
  induction a as [|o a IH]; intros seen b; [exists seen; reflexivity|]. destruct o as [x|x]; cbn [app write_ops].
  - destruct (m_revid (r_meta x)) as [v|].
    + destruct (existsb (Z.eqb v) seen).
      * apply IH.
      * destruct (IH (v :: seen) b) as [s' E]. exists s'. rewrite E. reflexivity.
    + destruct (IH seen b) as [s' E]. exists s'. rewrite E. reflexivity.
  - destruct (IH seen b) as [s' E]. exists s'. rewrite E. reflexivity.
Qed.

(* an expanded page is always written, and the records after it are among the later operations *)
Lemma write_ops_expanded ops1 r ops2 : exists rs2,
  write_ops [] (ops1 ++ WExpanded r :: ops2) = write_ops [] ops1 ++ r :: rs2 /\ (forall r', In r' rs2 -> In r' (recs_of ops2)).
Proof.
  destruct (write_ops_app ops1 [] (WExpanded r :: ops2)) as [s' E]. exists (write_ops s' ops2). split.
  - rewrite E. reflexivity.
  - intros r' H. exact (write_ops_sub ops2 s' r' H).
Qed.

(* BY REVISION ID: the last record written with the id *)
Lemma by_rev_last rs1 r rs2 v : rev_of r = Some v -> (forall r', In r' rs2 -> rev_of r' <> Some v) ->
  dict_get Z.eqb v (by_rev (index_of (rs1 ++ r :: rs2))) = Some (page_of r).
Proof.
  intros Hv Hl. unfold index_of. cbn [add_titles by_rev]. unfold load_recs. rewrite fold_left_app. cbn [fold_left].
  fold (load_recs rs2 (load_rec (fold_left load_rec rs1 empty_index) r)).
  rewrite by_rev_absent by exact Hl. unfold load_rec at 1. rewrite Hv. cbn [by_rev]. apply (get_set_same Z.eqb Zeqb_spec).
Qed.

(* EXPANDED PAGE WITHOUT REVISION ID (the usual case: write_expanded_page(title, ns, text)): served under its title with the
   text written, whatever else the archive holds (other titles, older expansions of the same title, raw revisions of the
   same title with revision ids, written before or after), as long as no LATER record of the title lacks a revision id. *)
Lemma expanded_by_title loads redirect_of ops1 r ops2 redirects t :
  let rs := write_ops [] (ops1 ++ WExpanded r :: ops2) in
  (forall r, In r rs -> loads (r_json r) = Some (r_meta r)) ->
  Forall rec_ok rs ->
  title_of r = t -> rev_of r = None ->
  (forall r', In r' (recs_of ops2) -> title_of r' = t -> rev_of r' <> None) ->
  dict_get str_eqb t redirects = None ->
  exists ix, read_revisions loads (file_of rs) = Some ix /\
             get_page redirect_of ix redirects t None = Some (page_of r).
Proof.
  intros rs Hl Hok Ht Hv Hlater Hred. exists (index_of rs). split; [apply read_revisions_file; assumption|].
  destruct (write_ops_expanded ops1 r ops2) as [rs2 [E Hsub]]. unfold rs. rewrite E.
  unfold get_page, get_by_title. rewrite Hred.
  rewrite (index_by_title_norevid (write_ops [] ops1) r rs2 t Ht Hv) by (intros r' Hr'; apply Hlater; apply Hsub; exact Hr').
  reflexivity.
Qed.

(* EXPANDED PAGE WITH A REVISION ID: served under that id with the text written, unless a later operation writes the
   same id again (write_expanded_page does not mark the id as seen, so a later write_pages delivery of it is stored too
   and, being later in the file, wins). *)
Lemma expanded_by_revid loads redirect_of ops1 r ops2 redirects v name :
  let rs := write_ops [] (ops1 ++ WExpanded r :: ops2) in
  (forall r, In r rs -> loads (r_json r) = Some (r_meta r)) ->
  Forall rec_ok rs ->
  rev_of r = Some v ->
  (forall r', In r' (recs_of ops2) -> rev_of r' <> Some v) ->
  dict_get str_eqb name redirects = None ->
  (r_text r = [] \/ redirect_of (r_text r) = None) ->
  exists ix, read_revisions loads (file_of rs) = Some ix /\
             get_page redirect_of ix redirects name (Some v) = Some (page_of r).
Proof.
  intros rs Hl Hok Hv Hlater Hred Htxt. exists (index_of rs). split; [apply read_revisions_file; assumption|].
  destruct (write_ops_expanded ops1 r ops2) as [rs2 [E Hsub]]. unfold rs. rewrite E.
  unfold get_page. rewrite Hred.
  rewrite (by_rev_last (write_ops [] ops1) r rs2 v Hv) by (intros r' Hr'; apply Hlater; apply Hsub; exact Hr').
  cbn [p_text page_of]. destruct Htxt as [->| ->]; [reflexivity|]. destruct (r_text r); reflexivity.
Qed.

(* ... and through a redirects.json entry src -> t *)
Lemma expanded_by_redirect loads redirect_of ops1 r ops2 redirects src t rev :
  let rs := write_ops [] (ops1 ++ WExpanded r :: ops2) in
  (forall r, In r rs -> loads (r_json r) = Some (r_meta r)) ->
  Forall rec_ok rs ->
  title_of r = t -> rev_of r = None ->
  (forall r', In r' (recs_of ops2) -> title_of r' = t -> rev_of r' <> None) ->
  dict_get str_eqb src redirects = Some t ->
  exists ix, read_revisions loads (file_of rs) = Some ix /\
             get_page redirect_of ix redirects src rev = Some (page_of r).
Proof.
  intros rs Hl Hok Ht Hv Hlater Hred. exists (index_of rs). split; [apply read_revisions_file; assumption|].
  destruct (write_ops_expanded ops1 r ops2) as [rs2 [E Hsub]]. unfold rs. rewrite E.
  assert (G : get_by_title (index_of (write_ops [] ops1 ++ r :: rs2)) redirects src = Some (page_of r)).
  { unfold get_by_title. rewrite Hred.
    rewrite (index_by_title_norevid (write_ops [] ops1) r rs2 t Ht Hv) by (intros r' Hr'; apply Hlater; apply Hsub; exact Hr').
    reflexivity. }
  unfold get_page. rewrite Hred. destruct rev; exact G.
Qed.
