(* C14 — the English fallback of normalize_and_get_image_path (nuwiki.py:231-236): when no file exists under the site's
   local File-namespace name, the name is rebuilt with the ENGLISH handler (en_nshandler.get_fqname(partial, NS_FILE)) and
   tried again.  An image stored under "File:<remainder>" in the archive of a non-English wiki is therefore found under
   every spelling a page of that wiki may use ("Datei:...", "Bild:...", "image:...", bare name, ...). *)
From Coq Require Import List NArith ZArith Bool.
From MW Require Import Common.Str C12.Model C12.ListLemmas C12.Proofs C12.Inst C12.ProofsInst C14.Model C14.Inst C14.ProofsImage.
Import ListNotations.
Open Scope N_scope.

Lemma expands_refl s : no_us s -> expands s s.
Proof.
  induction s as [|c s IH]; intros H; [constructor|]. inversion H as [|? ? Hc Hs]; subst.
  destruct (N.eq_dec c c_space) as [->|Hn].
  - apply (ex_space s s [c_space]); [discriminate | constructor; [left; reflexivity | constructor] | exact (IH Hs)].
  - apply ex_char; [exact Hn | exact Hc | exact (IH Hs)].
Qed.

Lemma existsb_str_notin n files : ~ In n files -> existsb (str_eqb n) files = false.
Proof.
  intros H. destruct (existsb (str_eqb n) files) eqn:E; [|reflexivity].
  apply existsb_exists in E as [x [Hx Ex]]. apply str_eqb_spec in Ex. subst x. contradiction.
Qed.

(* the English handler reads a canonical remainder P (tidy, no colon, already capitalised) in namespace 6 as Len ++ ":" ++ P *)
Lemma english_name nm_en en Len P : In (nm_en, en) all_sites -> star_of en 6%Z = Some Len ->
  tidy py_is_ws P -> ~ In c_colon P -> maybe_capitalize py_upper_char (s_capitalize en) P = P ->
  py_get_fqname en P 6%Z = Ok (prefix_of Len ++ P).
Proof.
  intros Hin HL Ht Hnc Hcap. unfold py_get_fqname, get_fqname. fold (py_splitname en P 6%Z).
  pose proof (py_spelling_plain nm_en en P P [] None [] 6%Z 6%Z Len Hin (Forall_nil _) (Forall_nil _) (Forall_nil _) Ht Hnc
                (expands_refl P (proj1 Ht)) eq_refl HL) as E.
  cbn [lead app] in E. rewrite app_nil_r in E. rewrite E, Hcap. reflexivity.
Qed.

(* generic: the local name has no file, the English name has *)
Lemma image_found_fallback splitname_site fqname_en files name P T Ten :
  splitname_site name 6%Z = Ok (6%Z, P, T) -> ~ In 47 T -> ~ In (fs_escape T) files ->
  fqname_en P 6%Z = Ok Ten -> In (fs_escape Ten) files ->
  image_lookup splitname_site fqname_en files name = Ok (Some (fs_escape Ten)).
Proof.
  intros Hs Hslash Hno Hen Hin. unfold image_lookup. rewrite Hs. cbn [Z.eqb Pos.eqb negb].
  assert (E : existsb (N.eqb 47) T = false).
  { destruct (existsb (N.eqb 47) T) eqn:E; [|reflexivity]. apply existsb_exists in E as [x [Hx Ex]]. apply N.eqb_eq in Ex. subst x. contradiction. }
  rewrite E. unfold exists_file. rewrite (existsb_str_notin _ _ Hno), Hen, (existsb_str_in _ _ Hin). reflexivity.
Qed.

Lemma canonical_remainder cap p : tidy py_is_ws p -> ~ In c_colon p ->
  let P := maybe_capitalize py_upper_char cap p in
  tidy py_is_ws P /\ ~ In c_colon P /\ maybe_capitalize py_upper_char cap P = P.
Proof.
  intros Ht Hnc P.
  destruct (cap_tidy py_is_ws py_upper_char py_cased py_ignorable py_ws_space py_ws_sigmas py_upper_plain py_upper_head_fixed cap p Ht)
    as [A [B _]].
  split; [exact A|]. split; [exact (no_colon_cap py_is_ws py_upper_char py_upper_plain cap p Ht Hnc)|].
  destruct cap; [exact (B eq_refl) | reflexivity].
Qed.

(* every spelling of the C12 grammar (namespace 6 of the site, any name/alias/case, decorations) *)
Lemma image_found_by_english_name nm st nm_en en L Len n s NS' W p P' E1 C E3 E4 stored :
  In (nm, st) all_sites -> In (nm_en, en) all_sites -> star_of en 6%Z = Some Len -> s_capitalize en = s_capitalize st ->
  In n (names_of st 6%Z) -> n <> [] -> star_of st 6%Z = Some L ->
  cv py_upper_char py_lower_char s n -> expands s NS' ->
  Forall (ws' py_is_ws) W -> Forall (edge' py_is_ws) E1 ->
  Forall (edge' py_is_ws) (match C with Some E2 => E2 | None => [] end) ->
  Forall (edge' py_is_ws) E3 -> Forall (edge' py_is_ws) E4 ->
  tidy py_is_ws p -> ~ In c_colon p -> expands p P' ->
  let P := maybe_capitalize py_upper_char (s_capitalize st) p in
  let T := prefix_of L ++ P in
  let Ten := prefix_of Len ++ P in
  ~ In 47 T -> ~ In (stored_name T) (map stored_name stored) -> In Ten stored ->
  q_image st en stored (E1 ++ lead C ++ NS' ++ W ++ c_colon :: E3 ++ P' ++ E4) = Ok (Some (stored_name Ten)).
Proof.
  intros Hin Hen HLen Hcap Hn Hne HL Hcv Hex HW H1 HC H3 H4 Hp Hnc Hexp P T Ten Hslash Hno Hst.
  destruct (canonical_remainder (s_capitalize st) p Hp Hnc) as [A [B Cf]].
  unfold q_image, stored_name. apply (image_found_fallback _ _ _ _ P T Ten).
  - exact (py_spelling nm st 6%Z L n s NS' W p P' E1 C E3 E4 6%Z Hin Hn Hne HL Hcv Hex HW H1 HC H3 H4 Hp Hexp).
  - exact Hslash.
  - exact Hno.
  - apply (english_name nm_en en Len P Hen HLen A B). rewrite Hcap. exact Cf.
  - apply in_map. exact Hst.
Qed.

(* ... and the bare file name, read in default namespace 6 *)
Lemma image_found_plain_by_english_name nm st nm_en en L Len p P' E1 E4 stored :
  In (nm, st) all_sites -> In (nm_en, en) all_sites -> star_of en 6%Z = Some Len -> s_capitalize en = s_capitalize st ->
  star_of st 6%Z = Some L ->
  Forall (edge' py_is_ws) E1 -> Forall (edge' py_is_ws) E4 ->
  tidy py_is_ws p -> ~ In c_colon p -> expands p P' ->
  let P := maybe_capitalize py_upper_char (s_capitalize st) p in
  let T := prefix_of L ++ P in
  let Ten := prefix_of Len ++ P in
  ~ In 47 T -> ~ In (stored_name T) (map stored_name stored) -> In Ten stored ->
  q_image st en stored (E1 ++ P' ++ E4) = Ok (Some (stored_name Ten)).
Proof.
  intros Hin Hen HLen Hcap HL H1 H4 Hp Hnc Hexp P T Ten Hslash Hno Hst.
  destruct (canonical_remainder (s_capitalize st) p Hp Hnc) as [A [B Cf]].
  unfold q_image, stored_name. apply (image_found_fallback _ _ _ _ P T Ten).
  - exact (py_spelling_plain nm st p P' E1 None E4 6%Z 6%Z L Hin H1 (Forall_nil _) H4 Hp Hnc Hexp eq_refl HL).
  - exact Hslash.
  - exact Hno.
  - apply (english_name nm_en en Len P Hen HLen A B). rewrite Hcap. exact Cf.
  - apply in_map. exact Hst.
Qed.

(* non-vacuity on the German site: "File:X.png" is stored, "Datei:X.png" is not; "bild:x.png" finds it *)
Example fallback_example :
  exists st en, In ([100; 101], st) all_sites /\ In ([101; 110], en) all_sites /\
  q_image st en [[70; 105; 108; 101; 58; 88; 46; 112; 110; 103]] [98; 105; 108; 100; 58; 120; 46; 112; 110; 103]
  = Ok (Some [70; 105; 108; 101; 88; 46; 112; 110; 103]).
Proof.
  destruct (site_by_name [100; 101]) as [st|] eqn:E1; [|vm_compute in E1; discriminate E1].
  destruct (site_by_name [101; 110]) as [en|] eqn:E2; [|vm_compute in E2; discriminate E2].
  exists st, en. unfold site_by_name in E1, E2.
  destruct (find (fun p => str_eqb (fst p) [100; 101]) all_sites) as [[n1 s1]|] eqn:F1; [|discriminate E1].
  destruct (find (fun p => str_eqb (fst p) [101; 110]) all_sites) as [[n2 s2]|] eqn:F2; [|discriminate E2].
  cbn [snd] in E1, E2. inversion E1; inversion E2; subst s1 s2.
  pose proof (find_some _ _ F1) as [I1 N1]. pose proof (find_some _ _ F2) as [I2 N2].
  cbn [fst] in N1, N2. apply str_eqb_spec in N1, N2. subst n1 n2.
  split; [exact I1|]. split; [exact I2|].
  vm_compute in F1. vm_compute in F2. inversion F1; inversion F2; subst. vm_compute. reflexivity.
Qed.
