(* C07 — passes that only use the proved idioms keep the tree proper and the visible words, end to end,
   on the generic pass model of C07/ModelPasses.v; composition of any list of such passes.

   REAL PASSES (treecleaner.py) that are instances of `edit_pass act ret`
   (copy iteration `for child in node.children[:]`, `and node.parent` guard, edit of the visited node):
     remove_list_only_paragraphs 437-454   ADissolve, ret=false; act = Paragraph whose children are all ItemLists
                                           (Paragraph carries no words of its own: hypothesis Hdis)
     remove_textless_styles     1176-1195  ADissolve if children else APrune, `return`; act = style node whose
                                           display text is blank (=> no words below it: Hdis and Hprune hold)
     remove_invisible_links     1197-1211  APrune + return; CategoryLink/LangLink without colon (Hprune holds iff
                                           the harness does not count their target as visible words)
     remove_empty_sections      1533-1545  APrune + return: instance of the MODEL (termination, WF), but Hprune
                                           fails for a Section that has only its caption (len(children)==1 is
                                           removed even when the caption has text): lossy by design
     remove_no_print_nodes      1081-1097  only its else-branch (no named refs) is APrune + return; lossy by design
   fix_paragraphs 747-771 (adjacent move_to) is covered by C06.Proofs (fix_paragraphs_safe below), and the
   `while changed` loop of remove_breaking_returns 722-738 by br_loop_keeps_words below.
   NOT instances, and why:
     remove_empty_text_nodes 412-435, simplify_block_nodes 1159-1174, fix_sub_sup 1755-1764,
     remove_broken_children 574-594, remove_edit_links 1766-1772, remove_see_also 1774-1793,
     remove_critical_tables 489-507, remove_train_templates 1840-:  iterate over the LIVE list
       (`for child in node.children:` / `for child in node:`) while the child removes or dissolves itself
       (the element that moves into the freed index is skipped);
     remove_childless_nodes 470-485: removes an ANCESTOR of the visited node, then keeps iterating;
     remove_leading_para_in_list 1474-1483, restrict_children 1148-1157, remove_empty_training_table_rows:
       edit a CHILD of the visited node; restrict_children drops children with words (lossy by design);
     remove_scroll_elements 1722-1744: continues from the parent after the dissolve;
     clean_section_captions, fix_preformatted, fix_list_nesting, fix_item_lists, build_def_lists, ...:
       create new nodes. *)
From Coq Require Import List NArith Bool Arith Lia.
From MW Require Import C05.Heap C05.TreeOps C06.Model C06.ModelNav C07.ModelPasses.
From MW Require Import C07.Proofs C06.Proofs C06.ProofsNav.
From MW Require C05.ProofsApi.
Import ListNotations.

(* ================================================================ 0. helpers *)
Lemma find_by_repr : forall h t x q, repr h None t -> In (tid x) (ids t) -> repr h q x ->
  t_find (tid x) t = Some x.
Proof.
  intros h t x q Hr Hin Hx.
  destruct (ProofsApi.t_find_ex _ _ Hin) as [s Hs].
  destruct (ProofsApi.t_find_repr _ _ _ _ _ Hr Hs) as [q' Hq'].
  destruct (t_find_some _ _ _ Hs) as [E _].
  rewrite Hs. f_equal. eapply ProofsApi.repr_inj; eassumption.
Qed.

(* a heap represents at most one tree below a node, even across heaps with the same children lists *)
Lemma repr_inj2 : forall h h1 x q x1 q1, repr h q x -> repr h1 q1 x1 -> tid x = tid x1 ->
  (forall j, In j (ids x) -> kids h1 j = kids h j) -> x = x1.
Proof.
  intros h h1. induction x as [i ts IH] using tree_ind'. intros q [i' ts'] q1 H1 H2 E Hk.
  simpl in E. subst i'.
  pose proof (kids_repr _ _ _ _ H1) as K1. pose proof (kids_repr _ _ _ _ H2) as K2.
  rewrite (Hk i (or_introl eq_refl)), K1 in K2.
  apply repr_inv in H1. apply repr_inv in H2.
  destruct H1 as (nd & _ & _ & _ & _ & Hf). destruct H2 as (nd' & _ & _ & _ & _ & Hf').
  f_equal.
  assert (Hk' : forall j, In j (idsl ts) -> kids h1 j = kids h j).
  { intros j Hj. apply Hk. rewrite ids_eq. right. exact Hj. }
  clear Hk K1. revert ts' K2 Hf'.
  induction ts as [|x r IHr]; intros [|x' r'] Hm Hf'; simpl in Hm; try discriminate; auto.
  inversion Hm. inversion IH; subst. inversion Hf; subst. inversion Hf'; subst.
  rewrite idsl_cons in Hk'. f_equal.
  - eapply H3; eauto. intros j Hj. apply Hk'. apply in_or_app. left. exact Hj.
  - apply IHr; auto. intros j Hj. apply Hk'. apply in_or_app. right. exact Hj.
Qed.

Lemma kids_fold_set_parent : forall q news h x,
  kids (fold_left (fun hh n => set_parent hh n q) news h) x = kids h x.
Proof.
  intros q news. induction news as [|a l IH]; intros h x; simpl; [reflexivity|].
  rewrite IH. apply kids_set_parent.
Qed.

Lemma kids_replace_child_other : forall h p c news h1 x, replace_child h p c news = Ok h1 ->
  x <> p -> kids h1 x = kids h x.
Proof.
  intros h p c news h1 x H Hn. unfold replace_child in H.
  destruct (index_of c (kids h p)); [|discriminate]. inversion H; subst h1.
  rewrite kids_fold_set_parent, kids_set_parent. apply kids_set_kids_other. exact Hn.
Qed.

Lemma tsize_child_le : forall x ts, In x ts -> tsize x <= fsize ts.
Proof.
  intros x ts. induction ts as [|y r IH]; intros H; [contradiction|].
  rewrite fsize_cons. destruct H as [->|H]; [lia|]. specialize (IH H). lia.
Qed.

Lemma in_idsl : forall x ts j, In x ts -> In j (ids x) -> In j (idsl ts).
Proof. intros x ts j Hx Hj. unfold idsl. apply in_flat_map. exists x. auto. Qed.

Lemma words_eq_t : forall h t, repr h None t -> NoDup (ids t) -> words h (tid t) = words_t h t.
Proof. intros h t Hr Hnd. unfold words. rewrite (build_complete h t Hr Hnd). reflexivity. Qed.

(* ================================================================ 1. the generic pass *)
Definition tc_closed (I : heap -> Prop) : Prop := forall h h', same_tc h h' -> I h -> I h'.

Section PassOk.
  Variable act : heap -> N -> action.
  Variable ret : bool.
  Variable I : heap -> Prop.                       (* facts about classes / own words, e.g. "Paragraphs have no own words" *)
  Hypothesis I_closed : tc_closed I.
  (* a dissolved node has no words of its own; a pruned node has no words below it *)
  Hypothesis Hdis : forall h n, I h -> act h n = ADissolve -> textof h n = [].
  Hypothesis Hprune : forall h n, I h -> act h n = APrune -> words h n = [].

  (* result of visiting node n (subtree s) of the tree t *)
  Definition vres (h : heap) (t : tree) (sub : list N) (m : option N) (h' : heap) : Prop :=
    exists t', repr h' None t' /\ NoDup (ids t') /\ tid t' = tid t /\ same_tc h h' /\
               words_t h t' = words_t h t /\
               (forall x, In x (ids t) -> ~ In x sub -> In x (ids t')) /\
               (forall i, ~ In i sub -> m <> Some i -> get h' i = get h i).

  Definition visit_ok (f : nat) : Prop := forall h t n s,
    I h -> repr h None t -> NoDup (ids t) -> t_find n t = Some s -> tsize s <= f ->
    exists h', visit act ret f h n = Done h' /\ I h' /\ vres h t (ids s) (par h n) h'.

  (* the loop over a snapshot of consecutive subtrees ss hanging under m *)
  Lemma vloop_ok : forall f, visit_ok f -> forall ss h t m,
    I h -> repr h None t -> NoDup (ids t) -> NoDup (idsl ss) -> ~ In m (idsl ss) ->
    Forall (fun s => t_find (tid s) t = Some s /\ tsize s <= f /\ par h (tid s) = Some m) ss ->
    exists h', vloop (visit act ret f) h (map tid ss) = Done h' /\ I h' /\
               vres h t (idsl ss) (Some m) h'.
  Proof.
    intros f IHf. induction ss as [|s1 rest IH]; intros h t m HI Hr Hnd Hnds Hm Hall.
    - exists h. split; [reflexivity|]. split; [exact HI|].
      exists t. split; [exact Hr|]. split; [exact Hnd|]. split; [reflexivity|].
      split; [apply same_tc_refl|]. split; [reflexivity|].
      split; [intros x Hx _; exact Hx | intros; reflexivity].
    - inversion Hall as [|? ? (F1 & Sz1 & P1) Hrest]; subst.
      rewrite idsl_cons in Hnds, Hm.
      destruct (IHf h t (tid s1) s1 HI Hr Hnd F1 Sz1)
        as (h1 & V1 & HI1 & t1 & R1 & N1 & T1 & S1 & W1 & Sv1 & Fr1).
      rewrite P1 in Fr1.
      assert (Hrest1 : Forall (fun s => t_find (tid s) t1 = Some s /\ tsize s <= f /\
                                        par h1 (tid s) = Some m) rest).
      { rewrite Forall_forall in *. intros s Hs. destruct (Hrest s Hs) as (F & Sz & P).
        assert (Hfr : forall i, In i (ids s) -> get h1 i = get h i).
        { intros i Hi. apply Fr1.
          - intro K. eapply NoDup_app_disj; [exact Hnds | exact K |]. eapply in_idsl; eassumption.
          - intro K. inversion K; subst i. apply Hm. apply in_or_app. right.
            eapply in_idsl; eassumption. }
        destruct (ProofsApi.t_find_repr _ _ _ _ _ Hr F) as [q Hq].
        assert (Hq1 : repr h1 q s) by (eapply repr_frame; eassumption).
        split; [|split; [exact Sz|]].
        - eapply find_by_repr; [exact R1 | | exact Hq1].
          apply Sv1; [eapply t_find_in; eassumption|].
          intro K. eapply NoDup_app_disj; [exact Hnds | exact K |].
          eapply in_idsl; [eassumption | apply tid_in_ids].
        - unfold par. rewrite (Hfr (tid s) (tid_in_ids s)). exact P. }
      destruct (IH h1 t1 m HI1 R1 N1 (NoDup_app_r _ _ Hnds)
                   (fun K => Hm (in_or_app _ _ _ (or_intror K))) Hrest1)
        as (h' & V2 & HI2 & t' & R2 & N2 & T2 & S2 & W2 & Sv2 & Fr2).
      exists h'. split; [simpl; rewrite V1; exact V2|]. split; [exact HI2|].
      exists t'. split; [exact R2|]. split; [exact N2|]. split; [congruence|].
      split; [eapply same_tc_trans; eassumption|]. split; [|split].
      + rewrite <- W1, <- (words_t_same_tc h h1 t1 S1), <- W2. symmetry.
        apply words_t_same_tc. exact S1.
      + intros x Hx Hn. apply Sv2.
        * apply Sv1; [exact Hx|]. intro K. apply Hn. rewrite idsl_cons. apply in_or_app. left. exact K.
        * intro K. apply Hn. rewrite idsl_cons. apply in_or_app. right. exact K.
      + intros i Hn Hmi. rewrite idsl_cons in Hn. rewrite Fr2.
        * apply Fr1; [|exact Hmi]. intro K. apply Hn. apply in_or_app. left. exact K.
        * intro K. apply Hn. apply in_or_app. right. exact K.
        * exact Hmi.
  Qed.

  (* facts about the children ts of the found subtree T n ts *)
  Lemma children_facts : forall h t n ts f q,
    repr h None t -> NoDup (ids t) -> t_find n t = Some (T n ts) -> repr h q (T n ts) ->
    fsize ts <= f ->
    Forall (fun s => t_find (tid s) t = Some s /\ tsize s <= f /\ par h (tid s) = Some n) ts.
  Proof.
    intros h t n ts f q Hr Hnd F Hq Hf. rewrite Forall_forall. intros x Hx.
    pose proof (ProofsApi.repr_child _ _ _ _ _ Hq Hx) as Hrx.
    split; [|split].
    - eapply find_by_repr; [exact Hr | | exact Hrx].
      eapply ProofsApi.t_find_incl; [exact F|]. rewrite ids_eq. right.
      eapply in_idsl; [exact Hx | apply tid_in_ids].
    - pose proof (tsize_child_le _ _ Hx). lia.
    - apply (repr_root_par h (Some n) x). exact Hrx.
  Qed.

  Lemma visit_ok_all : forall f, visit_ok f.
  Proof.
    induction f as [|f IHf]; intros h t n s HI Hr Hnd F Hsz.
    { pose proof (tsize_pos s). lia. }
    destruct (t_find_some _ _ _ F) as [Etid Hincl].
    destruct s as [n' ts]. simpl in Etid. subst n'.
    destruct (ProofsApi.t_find_repr _ _ _ _ _ Hr F) as [q Hq].
    pose proof (kids_repr _ _ _ _ Hq) as Hk.
    pose proof (ProofsApi.t_find_NoDup _ _ _ Hnd F) as Hnds.
    rewrite ids_eq in Hnds. inversion Hnds as [|? ? Hn_ts Hnd_ts]; subst.
    rewrite tsize_eq in Hsz. assert (Hfs : fsize ts <= f) by lia.
    pose proof (children_facts h t n ts f q Hr Hnd F Hq Hfs) as Hch.
    (* the plain loop over the children of a kept node *)
    assert (Keep : exists h', vloop (visit act ret f) h (kids h n) = Done h' /\ I h' /\
                              vres h t (ids (T n ts)) (par h n) h').
    { destruct (vloop_ok f IHf ts h t n HI Hr Hnd Hnd_ts Hn_ts Hch)
        as (h' & V & HI' & t' & R & N' & T' & S' & W & Sv & Fr).
      exists h'. rewrite Hk. split; [exact V|]. split; [exact HI'|].
      exists t'. repeat (split; [assumption|]). split.
      - intros x Hx Hn. apply Sv; [exact Hx|]. intro K. apply Hn. rewrite ids_eq. right. exact K.
      - intros i Hn _. apply Fr.
        + intro K. apply Hn. rewrite ids_eq. right. exact K.
        + intro K. inversion K; subst i. apply Hn. rewrite ids_eq. left. reflexivity. }
    simpl visit. destruct (par h n) as [p|] eqn:Hp; [|exact Keep].
    destruct (act h n) eqn:Ha; [exact Keep| |].
    - (* dissolve *)
      destruct (par_in_tree _ _ _ _ Hr (t_find_in _ _ _ F) Hp) as [Hpt Hc].
      destruct (ProofsApi.child_setup h t p n Hr Hnd Hpt Hc)
        as (s0 & idx & Hidx & _ & _ & Hfs0 & Hrs0 & _ & _ & Hpn & Hps & Htn & _ & _).
      rewrite F in Hfs0. inversion Hfs0; subst s0. clear Hfs0.
      destruct (ProofsApi.dissolve_repr h t p n ts Hr Hnd Hpt Hc F) as (h1 & D1 & D2 & D3).
      rewrite D1.
      pose proof (same_tc_replace_child _ _ _ _ _ D1) as S1.
      pose proof (I_closed _ _ S1 HI) as HI1.
      assert (Hne : n <> tid t) by (intro K; apply Htn; symmetry; exact K).
      pose proof (words_dissolve h t n ts Hnd Hne F (Hdis h n HI Ha)) as W1.
      pose proof (ids_dissolve t n ts Hnd Hne F) as Eids.
      assert (Hpnews : ~ In p (map tid ts)).
      { intro K. apply Hps. rewrite ids_eq. right. rewrite in_map_iff in K.
        destruct K as (x & <- & Hx). eapply in_idsl; [exact Hx | apply tid_in_ids]. }
      assert (Hnnews : ~ In n (map tid ts)).
      { intro K. apply Hn_ts. rewrite in_map_iff in K.
        destruct K as (x & <- & Hx). eapply in_idsl; [exact Hx | apply tid_in_ids]. }
      destruct (ProofsApi.replace_child_spec h p n (map tid ts) idx Hidx Hpn Hpnews Hnnews)
        as (h1' & E1 & Gp & Gc & Gn & Go).
      rewrite Hk in D1. rewrite D1 in E1. inversion E1; subst h1'. clear E1.
      assert (Sv0 : forall x, In x (ids t) -> x <> n -> In x (ids (t_replace n ts t))).
      { intros x Hx Hn. rewrite Eids. apply in_in_remove; assumption. }
      assert (Sv1 : forall x, In x (ids t) -> ~ In x (ids (T n ts)) ->
                              In x (ids (t_replace n ts t))).
      { intros x Hx Hn. apply Sv0; [exact Hx|].
        intro K. subst x. apply Hn. rewrite ids_eq. left. reflexivity. }
      assert (Fr1 : forall i, ~ In i (ids (T n ts)) -> Some p <> Some i -> get h1 i = get h i).
      { intros i Hn Hpi. apply Go.
        - intro K. subst i. apply Hpi. reflexivity.
        - intro K. subst i. apply Hn. rewrite ids_eq. left. reflexivity.
        - intro K. apply Hn. rewrite ids_eq. right. rewrite in_map_iff in K.
          destruct K as (x & <- & Hx). eapply in_idsl; [exact Hx | apply tid_in_ids]. }
      assert (IfT : forall (b : bool) (X Y : outcome), b = true -> (if b then X else Y) = X)
        by (intros b X Y ->; reflexivity).
      assert (IfF : forall (b : bool) (X Y : outcome), b = false -> (if b then X else Y) = Y)
        by (intros b X Y ->; reflexivity).
      destruct (Bool.bool_dec ret true) as [Er|Er].
      + rewrite (IfT ret _ _ Er).
        exists h1. split; [reflexivity|]. split; [exact HI1|].
        exists (t_replace n ts t). split; [exact D2|]. split; [exact D3|].
        split; [apply tid_replace|]. split; [exact S1|]. split; [exact W1|].
        split; [exact Sv1 | exact Fr1].
      + apply not_true_is_false in Er. rewrite (IfF ret _ _ Er).
        assert (Hk1 : kids h1 n = map tid ts).
        { unfold kids. rewrite Gc. unfold kids in Hk. destruct (get h n); exact Hk. }
        rewrite Hk1.
        assert (Hch1 : Forall (fun s => t_find (tid s) (t_replace n ts t) = Some s /\
                                        tsize s <= f /\ par h1 (tid s) = Some p) ts).
        { rewrite Forall_forall in *. intros x Hx. destruct (Hch x Hx) as (Fx & Szx & Px).
          pose proof (ProofsApi.repr_child _ _ _ _ _ Hq Hx) as Hrx.
          assert (Hxs : In (tid x) (idsl ts)) by (eapply in_idsl; [exact Hx | apply tid_in_ids]).
          assert (Hxn : tid x <> n) by (intro K; apply Hn_ts; rewrite <- K; exact Hxs).
          assert (Hxt1 : In (tid x) (ids (t_replace n ts t))).
          { apply Sv0; [eapply t_find_in; eassumption | exact Hxn]. }
          destruct (ProofsApi.t_find_ex _ _ Hxt1) as [x1 Hx1].
          destruct (ProofsApi.t_find_repr _ _ _ _ _ D2 Hx1) as [q1 Hq1].
          destruct (t_find_some _ _ _ Hx1) as [Ex1 _].
          assert (x = x1).
          { eapply (repr_inj2 h h1); [exact Hrx | exact Hq1 | congruence |].
            intros j Hj. eapply kids_replace_child_other; [exact D1|].
            intro K. subst j. apply Hps. rewrite ids_eq. right. eapply in_idsl; eassumption. }
          subst x1. split; [exact Hx1|]. split; [exact Szx|].
          assert (Hin : In (tid x) (map tid ts)) by (apply in_map; exact Hx).
          unfold par. rewrite (Gn _ Hin).
          destruct (ProofsApi.repr_get _ _ _ _ Hrx (tid_in_ids x)) as [nd Hnd']. rewrite Hnd'.
          reflexivity. }
        assert (Hp_ts : ~ In p (idsl ts)).
        { intro K. apply Hps. rewrite ids_eq. right. exact K. }
        destruct (vloop_ok f IHf ts h1 (t_replace n ts t) p HI1 D2 D3 Hnd_ts Hp_ts Hch1)
          as (h' & V & HI' & t' & R & N' & T' & S' & W & Sv & Fr).
        exists h'. split; [exact V|]. split; [exact HI'|].
        exists t'. split; [exact R|]. split; [exact N'|].
        split; [rewrite T'; apply tid_replace|].
        split; [eapply same_tc_trans; eassumption|]. split; [|split].
        * rewrite <- W1, <- (words_t_same_tc h h1 (t_replace n ts t) S1), <- W. symmetry.
          apply words_t_same_tc. exact S1.
        * intros x Hx Hn. apply Sv; [apply Sv1; assumption|].
          intro K. apply Hn. rewrite ids_eq. right. exact K.
        * intros i Hn Hpi. rewrite Fr.
          -- apply Fr1; assumption.
          -- intro K. apply Hn. rewrite ids_eq. right. exact K.
          -- exact Hpi.
    - (* prune *)
      destruct (par_in_tree _ _ _ _ Hr (t_find_in _ _ _ F) Hp) as [Hpt Hc].
      assert (Hne : n <> tid t).
      { intro K. subst n. rewrite (repr_root_par _ _ _ Hr) in Hp. discriminate. }
      destruct (ProofsApi.remove_child_repr h t p n Hr Hnd Hpt Hc) as (h1 & R1 & R2 & R3 & _).
      rewrite R1.
      pose proof (same_tc_remove_child _ _ _ _ R1) as S1.
      destruct (ids_remove_block t n (T n ts) Hnd Hne F) as (A & B & E1 & E2).
      exists h1. split; [reflexivity|]. split; [eapply I_closed; eassumption|].
      exists (t_replace n [] t). split; [exact R2|]. split; [exact R3|].
      split; [apply tid_replace|]. split; [exact S1|]. split; [|split].
      + pose proof (Hprune h n HI Ha) as Hw. unfold words in Hw.
        change n with (tid (T n ts)) in Hw.
        rewrite (ProofsApi.build_complete h q (T n ts) Hq) in Hw
          by (rewrite ids_eq; constructor; assumption).
        rewrite words_t_ids in Hw.
        rewrite !words_t_ids, E1, E2, !flat_map_app, Hw. reflexivity.
      + intros x Hx Hn. rewrite E2. rewrite E1 in Hx.
        apply in_app_or in Hx. destruct Hx as [Hx|Hx]; [apply in_or_app; left; exact Hx|].
        apply in_app_or in Hx. destruct Hx as [Hx|Hx]; [contradiction|].
        apply in_or_app. right. exact Hx.
      + intros i Hn Hpi. destruct (remove_child_frame_get _ _ _ _ R1) as [_ Hfr]. apply Hfr.
        * intro K. subst i. apply Hpi. reflexivity.
        * intro K. subst i. apply Hn. rewrite ids_eq. left. reflexivity.
  Qed.

  (* THE GENERIC PASS THEOREM: on a proper tree the pass terminates with fuel = number of nodes, raises
     nothing, leaves a proper tree with the same root and the same visible words *)
  Theorem edit_pass_ok : forall h r, I h -> WF h r ->
    exists h', edit_pass act ret h r = Done h' /\ I h' /\ WF h' r /\ words h' r = words h r /\ same_tc h h'.
  Proof.
    intros h r HI (t & Ht & Hr & Hnd). subst r.
    unfold edit_pass, pass_fuel. rewrite (build_complete h t Hr Hnd).
    destruct (visit_ok_all (tsize t) h t (tid t) t HI Hr Hnd (t_find_root t) (le_n _))
      as (h' & V & HI' & t' & R & N' & T' & S' & W & _ & _).
    exists h'. split; [exact V|]. split; [exact HI'|]. split; [|split; [|exact S']].
    - exists t'. auto.
    - rewrite <- T' at 1. rewrite (words_eq_t h' t' R N'), (words_eq_t h t Hr Hnd).
      rewrite (words_t_same_tc h h' t' S'). exact W.
  Qed.
End PassOk.

(* ================================================================ 2. composition of passes *)
(* a pass is SAFE for the invariant I: on a proper tree it stops (returns or raises), and a normal return
   leaves the invariant, a proper tree with the same root, and the same visible words *)
Definition safe_pass (I : heap -> Prop) (f : heap -> N -> outcome) : Prop :=
  forall h r, I h -> WF h r ->
    f h r <> OutOfFuel /\
    (forall h', f h r = Done h' -> I h' /\ WF h' r /\ words h' r = words h r).

Lemma run_passes_gen : forall (I : heap -> Prop) r (W : list N) ps o,
  Forall (safe_pass I) ps ->
  (o <> OutOfFuel /\ (forall h1, o = Done h1 -> I h1 /\ WF h1 r /\ words h1 r = W)) ->
  let res := fold_left (fun o f => match o with Done h1 => f h1 r | _ => o end) ps o in
  res <> OutOfFuel /\ (forall h1, res = Done h1 -> I h1 /\ WF h1 r /\ words h1 r = W).
Proof.
  intros I r W ps. induction ps as [|f ps IH]; intros o Hall Ho; simpl; [exact Ho|].
  inversion Hall as [|? ? Hf Hps]; subst. apply IH; [exact Hps|].
  destruct Ho as [Ho1 Ho2]. destruct o as [h1| |]; [|split; [discriminate|intros ? K; discriminate]|congruence].
  destruct (Ho2 h1 eq_refl) as (A & B & C). destruct (Hf h1 r A B) as [F1 F2].
  split; [exact F1|]. intros h2 K. destruct (F2 h2 K) as (A2 & B2 & C2).
  split; [exact A2|]. split; [exact B2|]. congruence.
Qed.

(* ANY list of safe passes, run one after the other on the same root, stops, and a normal return leaves a
   proper tree with the same visible words (induction over the list) *)
Theorem run_passes_safe : forall (I : heap -> Prop) ps, Forall (safe_pass I) ps ->
  forall h r, I h -> WF h r ->
    run_passes ps h r <> OutOfFuel /\
    (forall h', run_passes ps h r = Done h' -> I h' /\ WF h' r /\ words h' r = words h r).
Proof.
  intros I ps Hall h r HI Hwf. unfold run_passes.
  apply (run_passes_gen I r (words h r) ps (Done h) Hall).
  split; [discriminate|]. intros h1 K. inversion K; subst h1. auto.
Qed.

(* instance 1: every generic edit pass *)
Theorem edit_pass_safe : forall act ret (I : heap -> Prop), tc_closed I ->
  (forall h n, I h -> act h n = ADissolve -> textof h n = []) ->
  (forall h n, I h -> act h n = APrune -> words h n = []) ->
  safe_pass I (edit_pass act ret).
Proof.
  intros act ret I Hc Hd Hp h r HI Hwf.
  destruct (edit_pass_ok act ret I Hc Hd Hp h r HI Hwf) as (h' & E & A & B & C & _).
  rewrite E. split; [discriminate|]. intros h2 K. inversion K; subst h2. auto.
Qed.

Theorem dissolve_pass_ok : forall sel ret (I : heap -> Prop), tc_closed I ->
  (forall h n, I h -> sel h n = true -> textof h n = []) ->
  forall h r, I h -> WF h r ->
  exists h', dissolve_pass sel ret h r = Done h' /\ I h' /\ WF h' r /\ words h' r = words h r.
Proof.
  intros sel ret I Hc Hs h r HI Hwf. unfold dissolve_pass.
  destruct (edit_pass_ok (fun h n => if sel h n then ADissolve else AKeep) ret I Hc) with (h := h) (r := r)
    as (h' & E & A & B & C & _); auto.
  - intros h0 n HI0 Ha. apply Hs; [exact HI0|]. destruct (sel h0 n); [reflexivity|discriminate].
  - intros h0 n _ Ha. destruct (sel h0 n); discriminate.
  - exists h'. auto.
Qed.

Theorem prune_pass_ok : forall sel (I : heap -> Prop), tc_closed I ->
  (forall h n, I h -> sel h n = true -> words h n = []) ->
  forall h r, I h -> WF h r ->
  exists h', prune_pass sel h r = Done h' /\ I h' /\ WF h' r /\ words h' r = words h r.
Proof.
  intros sel I Hc Hs h r HI Hwf. unfold prune_pass.
  destruct (edit_pass_ok (fun h n => if sel h n then APrune else AKeep) true I Hc) with (h := h) (r := r)
    as (h' & E & A & B & C & _); auto.
  - intros h0 n _ Ha. destruct (sel h0 n); discriminate.
  - intros h0 n HI0 Ha. apply Hs; [exact HI0|]. destruct (sel h0 n); [reflexivity|discriminate].
  - exists h'. auto.
Qed.

(* instance 2: fix_paragraphs (C06.Model), any invariant about classes / own words *)
Lemma fix_paragraphs_same_tc : forall k h r h', fix_paragraphs k h r = Done h' -> same_tc h h'.
Proof.
  induction k as [|k IH]; intros h r h' H; [discriminate|].
  simpl in H. unfold fix_step in H.
  destruct (build (S (length h)) h r) as [t|]; [|discriminate].
  destruct (find_trig h None t) as [[p s]|].
  - destruct (last_opt (kids h s)) as [l|]; [|discriminate].
    destruct (move_to h p l false) as [h1|] eqn:M; [|discriminate].
    eapply same_tc_trans; [eapply same_tc_move_to; exact M | eapply IH; exact H].
  - inversion H; subst. apply same_tc_refl.
Qed.

Theorem fix_paragraphs_safe : forall (I : heap -> Prop), tc_closed I ->
  safe_pass I (fun h r => fix_paragraphs (fp_fuel h r) h r).
Proof.
  intros I Hc h r HI Hwf.
  destruct (C06_fix_paragraphs_terminates h r Hwf) as [T1 T2].
  split; [exact T1|]. intros h' K. destruct (T2 h' K) as [W _].
  split; [eapply Hc; [eapply fix_paragraphs_same_tc; exact K | exact HI]|].
  split; [exact W|]. eapply fix_paragraphs_keeps_words; eassumption.
Qed.

(* ================================================================ 3. remove_breaking_returns' loop:
   removal of wordless leaves.  For ANY way of computing the candidates: if BreakingReturn nodes are
   childless and carry no words, a finished loop has kept the tree proper and the visible words. *)
Lemma br_leaf_remove : forall h p c h1, remove_child h p c = Ok h1 -> br_leaf h -> br_leaf h1.
Proof.
  intros h p c h1 Hrm Hl x Hx.
  destruct (same_tc_remove_child _ _ _ _ Hrm x) as [Et Ec]. rewrite Ec in Hx.
  destruct (Hl x Hx) as [A B]. split; [congruence|].
  destruct (remove_child_frame_get _ _ _ _ Hrm) as [Hck _].
  rewrite (kids_remove_child_other _ _ _ _ x Hrm); [exact B|].
  intro K. subst x. rewrite B in Hck. contradiction.
Qed.

Lemma br_cands_words : forall cs h t changed,
  repr h None t -> NoDup (ids t) -> br_leaf h ->
  match br_cands h changed cs with
  | PRaised => True
  | POk h' _ => exists t', repr h' None t' /\ NoDup (ids t') /\ tid t' = tid t /\ same_tc h h' /\
                           br_leaf h' /\ words_t h t' = words_t h t
  end.
Proof.
  induction cs as [|c cs IH]; intros h t changed Hr Hnd Hl.
  - simpl. exists t. repeat (split; [assumption|]). split; [reflexivity|].
    split; [apply same_tc_refl|]. split; [exact Hl | reflexivity].
  - simpl. destruct (N.eqb (clsof h c) c_BR) eqn:E.
    + apply N.eqb_eq in E. destruct (par h c) as [p|] eqn:Hp.
      * destruct (remove_child h p c) as [h1|] eqn:Hrm; [|exact I].
        destruct (remove_step2 h t p c h1 Hr Hnd Hp Hrm) as (t1 & R1 & R2 & R3 & _ & _ & _ & R7).
        pose proof (same_tc_remove_child _ _ _ _ Hrm) as S1.
        destruct (Hl c E) as [Lt Lk].
        specialize (R7 (words_leaf h c Lk Lt)).
        specialize (IH h1 t1 true R1 R2 (br_leaf_remove _ _ _ _ Hrm Hl)).
        destruct (br_cands h1 true cs) as [|h' ch']; [exact I|].
        destruct IH as (t' & Q1 & Q2 & Q3 & Q4 & Q5 & Q6).
        exists t'. split; [exact Q1|]. split; [exact Q2|]. split; [congruence|].
        split; [eapply same_tc_trans; eassumption|]. split; [exact Q5|].
        rewrite <- R7, <- (words_t_same_tc h h1 t1 S1), <- Q6. symmetry.
        apply words_t_same_tc. exact S1.
      * apply IH; assumption.
    + apply IH; assumption.
Qed.

Theorem br_loop_keeps_words : forall (cand : heap -> N -> list N) r k h node h',
  WF h r -> br_leaf h -> br_loop cand k h node = Done h' ->
  WF h' r /\ br_leaf h' /\ words h' r = words h r.
Proof.
  intros cand r. induction k as [|k IH]; intros h node h' Hwf Hl H; [discriminate|].
  destruct Hwf as (t & Ht & Hr & Hnd). subst r.
  simpl in H. unfold br_pass in H.
  pose proof (br_cands_words (cand h node) h t false Hr Hnd Hl) as Inv.
  destruct (br_cands h false (cand h node)) as [|h1 ch]; [discriminate|].
  destruct Inv as (t1 & Q1 & Q2 & Q3 & Q4 & Q5 & Q6).
  assert (Hwf1 : WF h1 (tid t)) by (exists t1; auto).
  assert (Hw1 : words h1 (tid t) = words h (tid t)).
  { rewrite <- Q3 at 1. rewrite (words_eq_t h1 t1 Q1 Q2), (words_eq_t h t Hr Hnd).
    rewrite (words_t_same_tc h h1 t1 Q4). exact Q6. }
  destruct ch.
  - destruct (IH h1 node h' Hwf1 Q5 H) as (A & B & C). split; [exact A|]. split; [exact B|]. congruence.
  - inversion H; subst h'. auto.
Qed.

(* instance 3 of safe_pass: the loop started at the ROOT with the real navigation functions
   (C06/ModelNav.v); invariant: BreakingReturns are wordless leaves and the root is none *)
Theorem br_root_loop_safe : forall is_block blank,
  safe_pass br_leaf
    (fun h r => if N.eqb (clsof h r) c_BR then Done h
                else br_loop (cand_real is_block blank) (S (count_br h r)) h r).
Proof.
  intros is_block blank h r Hl Hwf. destruct (N.eqb (clsof h r) c_BR) eqn:E.
  - split; [discriminate|]. intros h' K. inversion K; subst h'. auto.
  - apply N.eqb_neq in E.
    destruct (breaking_returns_terminates_real_leaf is_block blank h r r Hwf) as [T1 T2].
    + intros t Ht _. rewrite <- Ht. apply tid_in_ids.
    + intros c Hc. apply (Hl c Hc).
    + exact E.
    + split; [exact T1|]. intros h' K.
      destruct (br_loop_keeps_words _ r _ h r h' Hwf Hl K) as (A & B & C). auto.
Qed.
