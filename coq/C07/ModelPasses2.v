(* C07 — second generic pass shape of the tree cleaner: "edit selected CHILDREN of the visited node"
   (definitions only; lemmas in C07/ProofsPasses2.v).

   Shape modelled (treecleaner.py):

       def some_pass(self, node):
           if <test on node>:
               for c in <children of node selected by the test, fixed when the test is made>:
                   node.replace_child(c, c.children)        # dis = true   (dissolve the child)
                 # or:  node.remove_child(c)                 # dis = false  (drop the child)
               [return]                                      # stop
           for child in node.children:                       # the list AFTER the edits
               self.some_pass(child)

   Instances: remove_leading_para_in_list 1479-1488 (Item/Reference whose first child is a Paragraph: that
   child is dissolved; no return), restrict_children 1153-1162 (children of a class that is not allowed are
   removed while iterating over a COPY, then `return`), remove_empty_training_table_rows 1508-1515 (trailing
   empty rows of a Table are removed, last one first; no return).

   `tgt h n` = the children edited by the visited node n, in the order of the edits, computed on the heap at
   the time n is visited (1485: children[0]; 1155-1157: the class test does not depend on the earlier
   removals; 1510-1511: emptiness of a row does not depend on the removal of later rows).  The edit is a
   call on the VISITED node (node.replace_child / node.remove_child), so it needs no `node.parent`: the
   root is edited like any other node.  A target that is not a child raises ValueError (Raised).
   The loop `for child in node.children:` runs over the live list, but no call made during the loop
   changes it: a visited child only edits its own children list (replace_child changes the children list of
   the receiver only, C07.ProofsPasses.kids_replace_child_other), so it is the list after the edits. *)
From Coq Require Import List NArith Bool Arith.
From MW Require Import C05.Heap C05.TreeOps C06.Model C07.ModelPasses.
Import ListNotations.

(* one edit of the child c of node p:  p.replace_child(c, c.children)  /  p.remove_child(c) *)
Definition edit1 (d : bool) (p : N) (h : heap) (c : N) : outcome :=
  match (if d then replace_child h p c (kids h c) else remove_child h p c) with
  | Ok h1 => Done h1
  | Err => Raised
  end.

Section ChildPass.
  Variable tgt : heap -> N -> list N.      (* the children the visited node edits, in order *)
  Variable dis : heap -> N -> bool.        (* true: dissolve them; false: remove them *)
  Variable stop : heap -> N -> bool.       (* `return` after the edits (no descent)? *)

  Fixpoint cvisit (fuel : nat) (h : heap) (n : N) : outcome :=
    match fuel with
    | O => OutOfFuel
    | S f =>
        match vloop (edit1 (dis h n) n) h (tgt h n) with
        | Done h1 => if stop h n then Done h1 else vloop (cvisit f) h1 (kids h1 n)
        | o => o
        end
    end.

  (* fuel = number of nodes of the tree below r, as for edit_pass *)
  Definition child_pass (h : heap) (r : N) : outcome := cvisit (pass_fuel h r) h r.
End ChildPass.

(* ---------------------------------------------------------------- concrete selections (real passes) *)
Definition is_cls (k : N) (h : heap) (n : N) : bool := N.eqb (clsof h n) k.

(* remove_leading_para_in_list 1479-1488:
     if node.__class__ in [Item, Reference] and node.children and node.children[0].__class__ == Paragraph:
         node.replace_child(node.children[0], node.children[0].children) *)
Definition lp_tgt (h : heap) (n : N) : list N :=
  if is_cls c_Item h n || is_cls c_Reference h n
  then match kids h n with
       | c :: _ => if is_cls c_Paragraph h c then [c] else []
       | [] => []
       end
  else [].
Definition remove_leading_para_in_list : heap -> N -> outcome :=
  child_pass lp_tgt (fun _ _ => true) (fun _ _ => false).

(* restrict_children 1153-1162; restricted k = (k in self.allowed_children.keys()),
   allowed k kc = (kc in self.allowed_children[k]) are parameters (tables of TreeCleaner.__init__) *)
Definition rc_tgt (restricted : N -> bool) (allowed : N -> N -> bool) (h : heap) (n : N) : list N :=
  if restricted (clsof h n)
  then filter (fun c => negb (allowed (clsof h n) (clsof h c))) (kids h n)
  else [].
Definition restrict_children (restricted : N -> bool) (allowed : N -> N -> bool) : heap -> N -> outcome :=
  child_pass (rc_tgt restricted allowed) (fun _ _ => false) (fun h n => restricted (clsof h n)).

(* remove_empty_training_table_rows 1508-1515:
     if node.__class__ == Table:
         while node.children and self._is_empty_row(node.children[-1]): node.remove_child(node.children[-1])
   _is_empty_row(row) = all(not cell.children for cell in row.children)  (1505-1506) *)
Definition empty_row (h : heap) (r : N) : bool := forallb (fun c => is_nil (kids h c)) (kids h r).
(* the longest prefix whose elements satisfy p *)
Fixpoint take_while (p : N -> bool) (l : list N) : list N :=
  match l with
  | [] => []
  | x :: r => if p x then x :: take_while p r else []
  end.
(* the trailing empty rows, last one first *)
Definition er_tgt (h : heap) (n : N) : list N :=
  if is_cls c_Table h n then take_while (empty_row h) (rev (kids h n)) else [].
Definition remove_empty_trailing_rows : heap -> N -> outcome :=
  child_pass er_tgt (fun _ _ => false) (fun _ _ => false).

(* ---------------------------------------------------------------- concrete instances of C07.ModelPasses.edit_pass *)
(* remove_list_only_paragraphs 437-454: Paragraph all of whose children are ItemLists, dissolved, no return *)
Definition lop_act (h : heap) (n : N) : action :=
  if is_cls c_Paragraph h n && forallb (is_cls c_ItemList h) (kids h n) then ADissolve else AKeep.
Definition remove_list_only_paragraphs : heap -> N -> outcome := edit_pass lop_act false.

(* remove_textless_styles 1181-1200: is_style k = (k in self.style_nodes); blank h n = (not
   node.get_all_display_text().strip()): parameters.  children -> dissolve, no children -> remove; return *)
Definition ts_act (is_style : N -> bool) (blank : heap -> N -> bool) (h : heap) (n : N) : action :=
  if is_style (clsof h n) && blank h n
  then (if is_nil (kids h n) then APrune else ADissolve)
  else AKeep.
Definition remove_textless_styles (is_style : N -> bool) (blank : heap -> N -> bool) : heap -> N -> outcome :=
  edit_pass (ts_act is_style blank) true.

(* remove_invisible_links 1202-1216, remove_absolute_positioned_node 1663-1675 (no parent: get_parents() is
   empty, nothing is removed), remove_empty_sections 1538-1550, else-branch of remove_no_print_nodes
   1081-1097, _filter_tree 837-842 (root never marked): `if sel: node.parent.remove_child(node); return`
   with a parameter sel *)
Definition remove_selected (sel : heap -> N -> bool) : heap -> N -> outcome := prune_pass sel.

(* clean_vlist 1800-1807, mark_infoboxes 1642-1661, mark_short_paragraph 1609-1621, fix_math_dir 1816-1823:
   only attributes are written, no tree edit: the traversal with the test that is never true *)
Definition attr_only_pass : heap -> N -> outcome := edit_pass (fun _ _ => AKeep) false.
