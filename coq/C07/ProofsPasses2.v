(* C07 — the second generic pass shape (C07/ModelPasses2.v: the visited node edits selected CHILDREN, then
   returns or descends into its children list as it is after the edits) keeps the tree proper and the visible
   words; it is a safe_pass, so run_passes_safe composes it with the passes of C07/ProofsPasses.v.
   Concrete real passes as corollaries (selection over class codes; what is not in the heap model - display
   text, style tables - is a Section Variable with its assumption stated as a Section Hypothesis).

   CLASSIFICATION of all cleaner methods of treecleaner.py (TreeCleaner.cleaner_methods 87-146):
   (a) instances of edit_pass named in ProofsPasses.v, concrete act now in ModelPasses2.v:
       remove_list_only_paragraphs 437-454, remove_textless_styles 1181-1200, remove_invisible_links 1202-1216,
       remove_empty_sections 1538-1550 and the else-branch of remove_no_print_nodes 1081-1097 (drop words by design)
   (b) instances of edit_pass as it is:
       remove_absolute_positioned_node 1663-1675: prune_pass, sel = positioned node with a positioned ancestor
         (no parent => get_parents() empty => nothing removed; copy iteration 1674; `return` 1672); drops words
         by design;  _filter_tree 837-842 (helper of fix_nesting): prune_pass, sel = nesting mark in the filter;
       clean_vlist 1800-1807, mark_infoboxes 1642-1661, mark_short_paragraph 1609-1621, fix_math_dir 1816-1823:
         write attributes only: attr_only_pass (the identity on the heap, attr_only_pass_id)
   (c) instances of the NEW shape child_pass (this file):
       remove_leading_para_in_list 1479-1488, restrict_children 1153-1162 (drops words by design: safe only when
       the dropped children are wordless), remove_empty_training_table_rows 1508-1515
   (c') would need a further generalisation (NOT done): descendants instead of children as targets
       (limit_image_caption_size 1466-1477, remove_dup_links_in_refs 1434-1451, the last loop of
       fix_reference_nodes 1408-1412, fix_table_colspans 544-572: cells of the only row); an ANCESTOR as
       target (remove_childless_nodes 470-485, remove_empty_ref_lists 1414-1432, remove_train_templates
       1845-1856)
   (d) not instances: iteration over the LIVE list while the visited child removes/dissolves itself
       (remove_empty_text_nodes 412-435, remove_critical_tables 489-507, remove_broken_children 574-594,
       simplify_block_nodes 1164-1179, remove_invalid_file_types 1453-1464, handle_only_in_print 1623-1640,
       fix_sub_sup 1760-1769, remove_edit_links 1771-1777, remove_see_also 1779-1798, second half of
       remove_breaking_returns 741-747); continues from the parent (remove_scroll_elements 1727-1749); creates
       nodes (clean_section_captions 1106-1126, build_def_lists 1128-1151, fix_preformatted 1218-1239,
       fix_list_nesting 1241-1252, fix_item_lists 1490-1503, fix_region_list_tables 1826-1843,
       split_big_table_cells 1032-1059, split_table_lists 1576-1607, transform_single_col_tables 667-696,
       unnest_ending_cell_content 1695-1709); moves / reorders nodes or table logic (swap_nodes 912-947,
       remove_big_sections_from_cells 949-963, transform_nested_tables 999-1030, linearize_wide_nested_tables
       1268-1280, split_table_to_columns 1352-1372, gallery_fix 1751-1758, fix_reference_nodes 1390-1412:
       shares children between Reference nodes); own models: fix_paragraphs, fix_nesting,
       remove_breaking_returns (first half), remove_new_lines (advtree). *)
From Coq Require Import List NArith Bool Arith Lia.
From MW Require Import C05.Heap C05.TreeOps C06.Model C06.ModelNav C07.ModelPasses C07.ModelPasses2.
From MW Require Import C07.Proofs C06.Proofs C06.ProofsNav C07.ProofsPasses.
From MW Require C05.ProofsApi C05.ProofsWf.
Import ListNotations.

(* ================================================================ 0. helpers *)
Lemma in_firstn' {A} : forall k (l : list A) x, In x (firstn k l) -> In x l.
Proof.
  induction k as [|k IH]; intros [|a l] x H; simpl in *; try contradiction.
  destruct H as [H|H]; [left; exact H | right; apply IH; exact H].
Qed.

Lemma in_skipn' {A} : forall k (l : list A) x, In x (skipn k l) -> In x l.
Proof.
  induction k as [|k IH]; intros [|a l] x H; simpl in *; try contradiction; try exact H.
  right. apply IH. exact H.
Qed.

Lemma kids_set_kids_same : forall h p l x, In x (kids (set_kids h p l) p) -> In x l \/ In x (kids h p).
Proof.
  intros h p l x. unfold set_kids. destruct (get h p) as [nd|] eqn:G.
  - unfold kids at 1. unfold set. simpl. rewrite N.eqb_refl. simpl. auto.
  - auto.
Qed.

(* replace_child only adds the new children to the children list of the receiver *)
Lemma kids_replace_child_self : forall h p c news h1 x, replace_child h p c news = Ok h1 ->
  In x (kids h1 p) -> In x (kids h p) \/ In x news.
Proof.
  intros h p c news h1 x H Hx. unfold replace_child in H.
  destruct (index_of c (kids h p)) as [idx|] eqn:E; [|discriminate]. inversion H; subst h1. clear H.
  rewrite kids_fold_set_parent, kids_set_parent in Hx.
  apply kids_set_kids_same in Hx. destruct Hx as [Hx|Hx]; [|left; exact Hx].
  unfold splice in Hx. apply in_app_or in Hx. destruct Hx as [Hx|Hx].
  - left. eapply in_firstn'; exact Hx.
  - apply in_app_or in Hx. destruct Hx as [Hx|Hx]; [right; exact Hx|].
    left. eapply in_skipn'; exact Hx.
Qed.

(* what the edits of node n do to the children lists *)
Lemma pre_kids : forall d n l h h1, (forall c, In c l -> c <> n) ->
  vloop (edit1 d n) h l = Done h1 ->
  (forall b, b <> n -> kids h1 b = kids h b) /\
  (forall x, In x (kids h1 n) -> In x (kids h n) \/ exists c, In c l /\ In x (kids h c)).
Proof.
  intros d n. induction l as [|c l IH]; intros h h1 Hne H.
  - simpl in H. inversion H; subst. split; [intros; reflexivity | intros x Hx; left; exact Hx].
  - simpl in H. destruct (edit1 d n h c) as [h'| |] eqn:E; try discriminate.
    assert (Hrc : exists news, replace_child h n c news = Ok h' /\ (news = kids h c \/ news = [])).
    { unfold edit1 in E. destruct d.
      - destruct (replace_child h n c (kids h c)) as [hh|] eqn:R; [|discriminate].
        inversion E; subst. eauto.
      - unfold remove_child in E. destruct (replace_child h n c []) as [hh|] eqn:R; [|discriminate].
        inversion E; subst. eauto. }
    destruct Hrc as (news & R & Hnews).
    destruct (IH h' h1 (fun c' Hc' => Hne c' (or_intror Hc')) H) as [K1 K2].
    split.
    + intros b Hb. rewrite (K1 b Hb). eapply kids_replace_child_other; eassumption.
    + intros x Hx. destruct (K2 x Hx) as [Hx'|(c' & Hc' & Hx')].
      * destruct (kids_replace_child_self _ _ _ _ _ _ R Hx') as [A|A]; [left; exact A|].
        destruct Hnews as [Hn|Hn]; rewrite Hn in A; [|contradiction].
        right. exists c. split; [left; reflexivity | exact A].
      * right. exists c'. split; [right; exact Hc'|].
        rewrite <- (kids_replace_child_other _ _ _ _ _ c' R (Hne c' (or_intror Hc'))). exact Hx'.
Qed.

Lemma pick_subtrees : forall (l : list N) (ts : list tree), incl l (map tid ts) ->
  exists ss, map tid ss = l /\ incl ss ts.
Proof.
  induction l as [|c l IH]; intros ts H.
  - exists []. split; [reflexivity | intros x []].
  - destruct (IH ts (fun x Hx => H x (or_intror Hx))) as (ss & E & Hi).
    assert (Hc : In c (map tid ts)) by (apply H; left; reflexivity).
    apply in_map_iff in Hc. destruct Hc as (x & Ex & Hx).
    exists (x :: ss). split; [simpl; rewrite Ex, E; reflexivity|].
    intros y [Hy|Hy]; [subst y; exact Hx | apply Hi; exact Hy].
Qed.

Lemma idsl_unique : forall ts x y j, NoDup (idsl ts) -> In x ts -> In y ts ->
  In j (ids x) -> In j (ids y) -> x = y.
Proof.
  induction ts as [|a r IH]; intros x y j Hnd Hx Hy Jx Jy; [contradiction|].
  rewrite idsl_cons in Hnd. destruct Hx as [Hx|Hx]; destruct Hy as [Hy|Hy].
  - congruence.
  - subst a. exfalso. eapply NoDup_app_disj; [exact Hnd | exact Jx | eapply in_idsl; eassumption].
  - subst a. exfalso. eapply NoDup_app_disj; [exact Hnd | exact Jy | eapply in_idsl; eassumption].
  - eapply IH; eauto. eapply NoDup_app_r; eassumption.
Qed.

Lemma NoDup_idsl_sub : forall ts ss, NoDup (idsl ts) -> incl ss ts -> NoDup (map tid ss) ->
  NoDup (idsl ss).
Proof.
  intros ts. induction ss as [|x r IH]; intros Hnd Hi Hm; [constructor|].
  rewrite idsl_cons. simpl in Hm. apply NoDup_cons_iff in Hm. destruct Hm as [Hx Hr].
  apply ProofsWf.NoDup_app_iff. split; [|split].
  - apply (ProofsApi.NoDup_flat_map_in ts x Hnd). apply Hi. left. reflexivity.
  - apply IH; [exact Hnd | intros y Hy; apply Hi; right; exact Hy | exact Hr].
  - intros j Jx Jr. unfold idsl in Jr. apply in_flat_map in Jr. destruct Jr as (y & Hy & Jy).
    assert (x = y).
    { eapply idsl_unique; [exact Hnd | apply Hi; left; reflexivity | apply Hi; right; exact Hy
                          | exact Jx | exact Jy]. }
    subst y. apply Hx. apply in_map. exact Hy.
Qed.

Lemma reach_closed : forall h (S : N -> Prop),
  (forall b c, S b -> In c (kids h b) -> S c) -> forall a x, reach h a x -> S a -> S x.
Proof.
  intros h S Hs a x H. induction H as [a|a b c Hab IH Hc]; intro Ha; [exact Ha|].
  apply (Hs b c); [apply IH; exact Ha | exact Hc].
Qed.

(* ================================================================ 1. a loop over consecutive subtrees, any visitor *)
Section Gloop.
  Variable I : heap -> Prop.
  Variable v : heap -> N -> outcome.
  Variable Q : heap -> tree -> Prop.          (* what the visitor needs to know about the subtree *)
  Variable m : N.                             (* the node the subtrees hang under *)
  Hypothesis Q_tc : forall h h' s, same_tc h h' -> Q h s -> Q h' s.
  Hypothesis v_ok : forall h t s, I h -> repr h None t -> NoDup (ids t) ->
    t_find (tid s) t = Some s -> par h (tid s) = Some m -> Q h s ->
    exists h', v h (tid s) = Done h' /\ I h' /\ vres h t (ids s) (Some m) h'.

  Lemma gloop_ok : forall ss h t,
    I h -> repr h None t -> NoDup (ids t) -> NoDup (idsl ss) -> ~ In m (idsl ss) ->
    Forall (fun s => t_find (tid s) t = Some s /\ par h (tid s) = Some m /\ Q h s) ss ->
    exists h', vloop v h (map tid ss) = Done h' /\ I h' /\ vres h t (idsl ss) (Some m) h'.
  Proof.
    induction ss as [|s1 rest IH]; intros h t HI Hr Hnd Hnds Hm Hall.
    - exists h. split; [reflexivity|]. split; [exact HI|].
      exists t. split; [exact Hr|]. split; [exact Hnd|]. split; [reflexivity|].
      split; [apply same_tc_refl|]. split; [reflexivity|].
      split; [intros x Hx _; exact Hx | intros; reflexivity].
    - inversion Hall as [|? ? (F1 & P1 & Q1) Hrest]; subst.
      rewrite idsl_cons in Hnds, Hm.
      destruct (v_ok h t s1 HI Hr Hnd F1 P1 Q1)
        as (h1 & V1 & HI1 & t1 & R1 & N1 & T1 & S1 & W1 & Sv1 & Fr1).
      assert (Hrest1 : Forall (fun s => t_find (tid s) t1 = Some s /\ par h1 (tid s) = Some m /\
                                        Q h1 s) rest).
      { rewrite Forall_forall in *. intros s Hs. destruct (Hrest s Hs) as (F & P & Qs).
        assert (Hfr : forall i, In i (ids s) -> get h1 i = get h i).
        { intros i Hi. apply Fr1.
          - intro K. eapply NoDup_app_disj; [exact Hnds | exact K |]. eapply in_idsl; eassumption.
          - intro K. inversion K; subst i. apply Hm. apply in_or_app. right.
            eapply in_idsl; eassumption. }
        destruct (ProofsApi.t_find_repr _ _ _ _ _ Hr F) as [q Hq].
        assert (Hq1 : repr h1 q s) by (eapply repr_frame; eassumption).
        split; [|split].
        - eapply find_by_repr; [exact R1 | | exact Hq1].
          apply Sv1; [eapply t_find_in; eassumption|].
          intro K. eapply NoDup_app_disj; [exact Hnds | exact K |].
          eapply in_idsl; [eassumption | apply tid_in_ids].
        - unfold par. rewrite (Hfr (tid s) (tid_in_ids s)). exact P.
        - eapply Q_tc; eassumption. }
      destruct (IH h1 t1 HI1 R1 N1 (NoDup_app_r _ _ Hnds)
                   (fun K => Hm (in_or_app _ _ _ (or_intror K))) Hrest1)
        as (h' & V2 & HI2 & t' & R2 & N2 & T2 & S2 & W2 & Sv2 & Fr2).
      exists h'. split; [simpl; rewrite V1; exact V2|]. split; [exact HI2|].
      exists t'. split; [exact R2|]. split; [exact N2|]. split; [congruence|].
      split; [eapply same_tc_trans; eassumption|]. split; [|split].
      + rewrite <- W1, <- (words_t_same_tc h h1 t1 S1), <- W2. symmetry.
        apply words_t_same_tc. exact S1.
      + intros x Hx Hn. apply Sv2.
        * apply Sv1; [exact Hx|]. intro K. apply Hn. rewrite idsl_cons. apply in_or_app. left. exact K.
        * intro K. apply Hn. rewrite idsl_cons. apply in_or_app. right. exact K.
      + intros i Hn Hmi. rewrite idsl_cons in Hn. rewrite Fr2.
        * apply Fr1; [|exact Hmi]. intro K. apply Hn. apply in_or_app. left. exact K.
        * intro K. apply Hn. apply in_or_app. right. exact K.
        * exact Hmi.
  Qed.
End Gloop.

(* ================================================================ 2. one edit of a child *)
(* what one edit needs: a dissolved child has no words of its own, a removed child no words below it *)
Definition eQ (d : bool) (h : heap) (s : tree) : Prop :=
  if d then textof h (tid s) = [] else words_t h s = [].

Lemma eQ_tc : forall d h h' s, same_tc h h' -> eQ d h s -> eQ d h' s.
Proof.
  intros d h h' s S H. unfold eQ in *. destruct d.
  - destruct (S (tid s)) as [Et _]. rewrite Et. exact H.
  - rewrite (words_t_same_tc h h' s S). exact H.
Qed.

Lemma edit1_ok : forall (I : heap -> Prop), tc_closed I -> forall d n h t s,
  I h -> repr h None t -> NoDup (ids t) -> t_find (tid s) t = Some s -> par h (tid s) = Some n ->
  eQ d h s ->
  exists h', edit1 d n h (tid s) = Done h' /\ I h' /\ vres h t (ids s) (Some n) h'.
Proof.
  intros I Ic d n h t s HI Hr Hnd F Hp HQ.
  destruct s as [c ts]. cbn [tid] in *.
  destruct (par_in_tree _ _ _ _ Hr (t_find_in _ _ _ F) Hp) as [Hpt Hc].
  assert (Hne : c <> tid t).
  { intro K. subst c. rewrite (repr_root_par _ _ _ Hr) in Hp. discriminate. }
  destruct (ProofsApi.t_find_repr _ _ _ _ _ Hr F) as [q Hq].
  pose proof (kids_repr _ _ _ _ Hq) as Hk.
  pose proof (ProofsApi.t_find_NoDup _ _ _ Hnd F) as Hnds.
  rewrite ids_eq in Hnds. apply NoDup_cons_iff in Hnds. destruct Hnds as [Hn_ts Hnd_ts].
  unfold edit1, eQ in *. cbn [tid] in HQ. destruct d.
  - (* dissolve *)
    destruct (ProofsApi.child_setup h t n c Hr Hnd Hpt Hc)
      as (s0 & idx & Hidx & _ & _ & Hfs0 & Hrs0 & _ & _ & Hpn & Hps & Htn & _ & _).
    rewrite F in Hfs0. inversion Hfs0; subst s0. clear Hfs0.
    destruct (ProofsApi.dissolve_repr h t n c ts Hr Hnd Hpt Hc F) as (h1 & D1 & D2 & D3).
    rewrite D1.
    pose proof (same_tc_replace_child _ _ _ _ _ D1) as S1.
    pose proof (Ic _ _ S1 HI) as HI1.
    pose proof (words_dissolve h t c ts Hnd Hne F HQ) as W1.
    pose proof (ids_dissolve t c ts Hnd Hne F) as Eids.
    assert (Hpnews : ~ In n (map tid ts)).
    { intro K. apply Hps. rewrite ids_eq. right. rewrite in_map_iff in K.
      destruct K as (x & <- & Hx). eapply in_idsl; [exact Hx | apply tid_in_ids]. }
    assert (Hnnews : ~ In c (map tid ts)).
    { intro K. apply Hn_ts. rewrite in_map_iff in K.
      destruct K as (x & <- & Hx). eapply in_idsl; [exact Hx | apply tid_in_ids]. }
    destruct (ProofsApi.replace_child_spec h n c (map tid ts) idx Hidx Hpn Hpnews Hnnews)
      as (h1' & E1 & Gp & Gc & Gn & Go).
    rewrite Hk in D1. rewrite D1 in E1. inversion E1; subst h1'. clear E1.
    exists h1. split; [reflexivity|]. split; [exact HI1|].
    exists (t_replace c ts t). split; [exact D2|]. split; [exact D3|].
    split; [apply tid_replace|]. split; [exact S1|]. split; [exact W1|]. split.
    + intros x Hx Hn. rewrite Eids. apply in_in_remove; [|exact Hx].
      intro K. subst x. apply Hn. rewrite ids_eq. left. reflexivity.
    + intros i Hn Hpi. apply Go.
      * intro K. subst i. apply Hpi. reflexivity.
      * intro K. subst i. apply Hn. rewrite ids_eq. left. reflexivity.
      * intro K. apply Hn. rewrite ids_eq. right. rewrite in_map_iff in K.
        destruct K as (x & <- & Hx). eapply in_idsl; [exact Hx | apply tid_in_ids].
  - (* remove *)
    destruct (ProofsApi.remove_child_repr h t n c Hr Hnd Hpt Hc) as (h1 & R1 & R2 & R3 & _).
    rewrite R1.
    pose proof (same_tc_remove_child _ _ _ _ R1) as S1.
    destruct (ids_remove_block t c (T c ts) Hnd Hne F) as (A & B & E1 & E2).
    exists h1. split; [reflexivity|]. split; [eapply Ic; eassumption|].
    exists (t_replace c [] t). split; [exact R2|]. split; [exact R3|].
    split; [apply tid_replace|]. split; [exact S1|]. split; [|split].
    + rewrite words_t_ids in HQ.
      rewrite !words_t_ids, E1, E2, !flat_map_app, HQ. reflexivity.
    + intros x Hx Hn. rewrite E2. rewrite E1 in Hx.
      apply in_app_or in Hx. destruct Hx as [Hx|Hx]; [apply in_or_app; left; exact Hx|].
      apply in_app_or in Hx. destruct Hx as [Hx|Hx]; [contradiction|].
      apply in_or_app. right. exact Hx.
    + intros i Hn Hpi. destruct (remove_child_frame_get _ _ _ _ R1) as [_ Hfr]. apply Hfr.
      * intro K. subst i. apply Hpi. reflexivity.
      * intro K. subst i. apply Hn. rewrite ids_eq. left. reflexivity.
Qed.

(* ================================================================ 3. the generic child-edit pass *)
Section ChildPassOk.
  Variable tgt : heap -> N -> list N.
  Variable dis stop : heap -> N -> bool.
  Variable I : heap -> Prop.                 (* facts about classes / own words *)
  Hypothesis I_closed : tc_closed I.
  (* the targets are children of the visited node, each at most once *)
  Hypothesis Htgt : forall h n, I h -> incl (tgt h n) (kids h n).
  Hypothesis Hnodup : forall h n, I h -> NoDup (kids h n) -> NoDup (tgt h n).
  (* a dissolved child has no words of its own; a removed child has no words below it *)
  Hypothesis Hdis : forall h n c, I h -> dis h n = true -> In c (tgt h n) -> textof h c = [].
  Hypothesis Hprune : forall h n c, I h -> dis h n = false -> In c (tgt h n) -> words h c = [].

  Definition cvisit_ok (f : nat) : Prop := forall h t n s,
    I h -> repr h None t -> NoDup (ids t) -> t_find n t = Some s -> tsize s <= f ->
    exists h', cvisit tgt dis stop f h n = Done h' /\ I h' /\ vres h t (ids s) (par h n) h'.

  Lemma cvisit_ok_all : forall f, cvisit_ok f.
  Proof.
    induction f as [|f IHf]; intros h t n s HI Hr Hnd F Hsz.
    { pose proof (tsize_pos s). lia. }
    destruct (t_find_some _ _ _ F) as [Etid Hincl].
    destruct s as [n' ts]. simpl in Etid. subst n'.
    destruct (ProofsApi.t_find_repr _ _ _ _ _ Hr F) as [q Hq].
    pose proof (kids_repr _ _ _ _ Hq) as Hk.
    pose proof (ProofsApi.t_find_NoDup _ _ _ Hnd F) as Hnds.
    rewrite ids_eq in Hnds. apply NoDup_cons_iff in Hnds. destruct Hnds as [Hn_ts Hnd_ts].
    rewrite tsize_eq in Hsz. assert (Hfs : fsize ts <= f) by lia.
    pose proof (children_facts h t n ts f q Hr Hnd F Hq Hfs) as Hch.
    (* the targets are subtrees hanging under n *)
    assert (Hti : incl (tgt h n) (map tid ts)) by (rewrite <- Hk; apply Htgt; exact HI).
    destruct (pick_subtrees _ _ Hti) as (tss & Etss & Hsub).
    assert (Hkn : NoDup (kids h n)).
    { rewrite Hk. apply ProofsApi.NoDup_tids. exact Hnd_ts. }
    assert (Hnd_tss : NoDup (idsl tss)).
    { eapply NoDup_idsl_sub; [exact Hnd_ts | exact Hsub |]. rewrite Etss. apply Hnodup; assumption. }
    assert (Hsub_ids : incl (idsl tss) (idsl ts)).
    { intros j Hj. unfold idsl in Hj. apply in_flat_map in Hj. destruct Hj as (x & Hx & Hj).
      eapply in_idsl; [apply Hsub; exact Hx | exact Hj]. }
    assert (Hn_tss : ~ In n (idsl tss)) by (intro K; apply Hn_ts; apply Hsub_ids; exact K).
    assert (Hpre : Forall (fun s => t_find (tid s) t = Some s /\ par h (tid s) = Some n /\
                                    eQ (dis h n) h s) tss).
    { rewrite Forall_forall in *. intros x Hx. destruct (Hch x (Hsub x Hx)) as (Fx & _ & Px).
      split; [exact Fx|]. split; [exact Px|].
      assert (Hxt : In (tid x) (tgt h n)) by (rewrite <- Etss; apply in_map; exact Hx).
      unfold eQ. destruct (dis h n) eqn:Ed.
      - eapply Hdis; eassumption.
      - pose proof (Hprune h n (tid x) HI Ed Hxt) as Hw. unfold words in Hw.
        pose proof (ProofsApi.repr_child _ _ _ _ _ Hq (Hsub x Hx)) as Hrx.
        rewrite (ProofsApi.build_complete h (Some n) x Hrx) in Hw; [exact Hw|].
        apply (ProofsApi.NoDup_flat_map_in ts x Hnd_ts). apply Hsub. exact Hx. }
    destruct (gloop_ok I (edit1 (dis h n) n) (eQ (dis h n)) n (eQ_tc (dis h n))
                       (fun h0 t0 s0 => edit1_ok I I_closed (dis h n) n h0 t0 s0)
                       tss h t HI Hr Hnd Hnd_tss Hn_tss Hpre)
      as (h1 & V1 & HI1 & t1 & R1 & N1 & T1 & S1 & W1 & Sv1 & Fr1).
    rewrite Etss in V1.
    assert (Hne_t : forall c, In c (tgt h n) -> c <> n).
    { intros c Hc K. subst c. apply Hn_ts. unfold idsl. apply ProofsApi.tids_incl. apply Hti. exact Hc. }
    destruct (pre_kids (dis h n) n (tgt h n) h h1 Hne_t V1) as [K1 K2].
    cbn [cvisit]. rewrite V1.
    assert (Sv1' : forall x, In x (ids t) -> ~ In x (ids (T n ts)) -> In x (ids t1)).
    { intros x Hx Hn. apply Sv1; [exact Hx|]. intro K. apply Hn. rewrite ids_eq. right.
      apply Hsub_ids. exact K. }
    assert (Fr1' : forall i, ~ In i (ids (T n ts)) -> get h1 i = get h i).
    { intros i Hn. apply Fr1.
      - intro K. apply Hn. rewrite ids_eq. right. apply Hsub_ids. exact K.
      - intro K. inversion K; subst i. apply Hn. rewrite ids_eq. left. reflexivity. }
    destruct (stop h n).
    - (* return after the edits *)
      exists h1. split; [reflexivity|]. split; [exact HI1|].
      exists t1. split; [exact R1|]. split; [exact N1|]. split; [exact T1|].
      split; [exact S1|]. split; [exact W1|]. split; [exact Sv1'|].
      intros i Hn _. apply Fr1'. exact Hn.
    - (* descend into the children list as it is now *)
      assert (Hn_t1 : In n (ids t1)).
      { apply Sv1; [eapply t_find_in; exact F | exact Hn_tss]. }
      destruct (ProofsApi.t_find_ex _ _ Hn_t1) as [s1 F1].
      destruct (t_find_some _ _ _ F1) as [Etid1 _].
      destruct s1 as [n1 ts1]. simpl in Etid1. subst n1.
      destruct (ProofsApi.t_find_repr _ _ _ _ _ R1 F1) as [q1 Hq1].
      pose proof (kids_repr _ _ _ _ Hq1) as Hk1.
      pose proof (ProofsApi.t_find_NoDup _ _ _ N1 F1) as Hnds1.
      (* the subtree below n has not grown: it only contains nodes that were below n *)
      assert (Hin1 : incl (ids (T n ts1)) (ids (T n ts))).
      { intros x Hx.
        destruct (ProofsWf.reach_iff_ids h1 q1 (T n ts1) Hq1 x) as [_ Hre]. specialize (Hre Hx).
        cbn [tid] in Hre.
        apply (reach_closed h1 (fun y => In y (ids (T n ts)))) with (a := n);
          [|exact Hre | rewrite ids_eq; left; reflexivity].
        intros b c Hb Hc0. destruct (N.eq_dec b n) as [Hbn|Hbn].
        - subst b. destruct (K2 c Hc0) as [A|(c' & Hc' & A)].
          + eapply ProofsWf.ids_closed; [exact Hq | rewrite ids_eq; left; reflexivity | exact A].
          + eapply ProofsWf.ids_closed; [exact Hq | | exact A].
            eapply ProofsWf.ids_closed; [exact Hq | rewrite ids_eq; left; reflexivity |].
            apply Htgt; assumption.
        - rewrite (K1 b Hbn) in Hc0. eapply ProofsWf.ids_closed; [exact Hq | exact Hb | exact Hc0]. }
      assert (Hsz1 : fsize ts1 <= f).
      { pose proof (NoDup_incl_length Hnds1 Hin1) as L. rewrite <- !tsize_ids in L.
        rewrite !tsize_eq in L. lia. }
      rewrite ids_eq in Hnds1. apply NoDup_cons_iff in Hnds1. destruct Hnds1 as [Hn_ts1 Hnd_ts1].
      pose proof (children_facts h1 t1 n ts1 f q1 R1 N1 F1 Hq1 Hsz1) as Hch1.
      assert (Hch1' : Forall (fun s => t_find (tid s) t1 = Some s /\ par h1 (tid s) = Some n /\
                                       tsize s <= f) ts1).
      { rewrite Forall_forall in *. intros x Hx. destruct (Hch1 x Hx) as (A & B & C). auto. }
      assert (Vok : forall h0 t0 s0, I h0 -> repr h0 None t0 -> NoDup (ids t0) ->
                      t_find (tid s0) t0 = Some s0 -> par h0 (tid s0) = Some n -> tsize s0 <= f ->
                      exists h', cvisit tgt dis stop f h0 (tid s0) = Done h' /\ I h' /\
                                 vres h0 t0 (ids s0) (Some n) h').
      { intros h0 t0 s0 A B C D E G. destruct (IHf h0 t0 (tid s0) s0 A B C D G) as (h' & X & Y & Z).
        rewrite E in Z. exists h'. auto. }
      destruct (gloop_ok I (cvisit tgt dis stop f) (fun _ s => tsize s <= f) n
                         (fun _ _ _ _ H => H) Vok ts1 h1 t1 HI1 R1 N1 Hnd_ts1 Hn_ts1 Hch1')
        as (h2 & V2 & HI2 & t2 & R2 & N2 & T2 & S2 & W2 & Sv2 & Fr2).
      exists h2. split; [rewrite Hk1; exact V2|]. split; [exact HI2|].
      exists t2. split; [exact R2|]. split; [exact N2|]. split; [congruence|].
      split; [eapply same_tc_trans; eassumption|]. split; [|split].
      + rewrite <- W1, <- (words_t_same_tc h h1 t1 S1), <- W2. symmetry.
        apply words_t_same_tc. exact S1.
      + intros x Hx Hn. apply Sv2; [apply Sv1'; assumption|].
        intro K. apply Hn. apply Hin1. rewrite ids_eq. right. exact K.
      + intros i Hn _. rewrite Fr2.
        * apply Fr1'. exact Hn.
        * intro K. apply Hn. apply Hin1. rewrite ids_eq. right. exact K.
        * intro K. inversion K; subst i. apply Hn. rewrite ids_eq. left. reflexivity.
  Qed.

  (* THE GENERIC CHILD-EDIT PASS THEOREM: on a proper tree the pass terminates with fuel = number of nodes,
     raises nothing, leaves a proper tree with the same root and the same visible words *)
  Theorem child_pass_ok : forall h r, I h -> WF h r ->
    exists h', child_pass tgt dis stop h r = Done h' /\ I h' /\ WF h' r /\ words h' r = words h r /\
               same_tc h h'.
  Proof.
    intros h r HI (t & Ht & Hr & Hnd). subst r.
    unfold child_pass, pass_fuel. rewrite (build_complete h t Hr Hnd).
    destruct (cvisit_ok_all (tsize t) h t (tid t) t HI Hr Hnd (t_find_root t) (le_n _))
      as (h' & V & HI' & t' & R & N' & T' & S' & W & _ & _).
    exists h'. split; [exact V|]. split; [exact HI'|]. split; [|split; [|exact S']].
    - exists t'. auto.
    - rewrite <- T' at 1. rewrite (words_eq_t h' t' R N'), (words_eq_t h t Hr Hnd).
      rewrite (words_t_same_tc h h' t' S'). exact W.
  Qed.

  Theorem child_pass_safe : safe_pass I (child_pass tgt dis stop).
  Proof.
    intros h r HI Hwf. destruct (child_pass_ok h r HI Hwf) as (h' & E & A & B & C & _).
    rewrite E. split; [discriminate|]. intros h2 K. inversion K; subst h2. auto.
  Qed.
End ChildPassOk.

(* ================================================================ 4. real passes: the new shape *)
(* "Paragraphs carry no words of their own" (the harness puts words on Text-like leaves) *)
Definition para_textless (h : heap) : Prop := forall n, clsof h n = c_Paragraph -> textof h n = [].

Lemma para_textless_closed : tc_closed para_textless.
Proof.
  intros h h' S Hi n Hc. destruct (S n) as [Et Ec]. rewrite Et. apply Hi. rewrite <- Ec. exact Hc.
Qed.

Lemma lp_tgt_spec : forall h n c, In c (lp_tgt h n) ->
  In c (kids h n) /\ clsof h c = c_Paragraph /\ lp_tgt h n = [c].
Proof.
  intros h n c H. unfold lp_tgt in *.
  destruct (is_cls c_Item h n || is_cls c_Reference h n); [|contradiction].
  destruct (kids h n) as [|c0 r]; [contradiction|].
  destruct (is_cls c_Paragraph h c0) eqn:E; [|contradiction].
  destruct H as [H|[]]. subst c0. split; [left; reflexivity|]. split; [|reflexivity].
  apply N.eqb_eq. exact E.
Qed.

(* remove_leading_para_in_list (treecleaner.py:1479-1488), for every heap in which Paragraphs have no own words *)
Theorem remove_leading_para_in_list_safe : safe_pass para_textless remove_leading_para_in_list.
Proof.
  unfold remove_leading_para_in_list. apply child_pass_safe.
  - exact para_textless_closed.
  - intros h n _ c Hc. destruct (lp_tgt_spec h n c Hc) as (A & _ & _). exact A.
  - intros h n _ _. destruct (lp_tgt h n) as [|c l] eqn:E; [constructor|].
    destruct (lp_tgt_spec h n c) as (_ & _ & E'); [rewrite E; left; reflexivity|].
    rewrite E in E'. inversion E'; subst. constructor; [intros []|constructor].
  - intros h n c Hi _ Hc. apply Hi. destruct (lp_tgt_spec h n c Hc) as (_ & B & _). exact B.
  - intros h n c _ K. discriminate.
Qed.

(* restrict_children (1153-1162) drops the children of a class that is not allowed below Gallery WITH their
   words (by design): it is safe exactly when those children are wordless *)
Section Restrict.
  Variable restricted : N -> bool.
  Variable allowed : N -> N -> bool.
  Variable I : heap -> Prop.
  Hypothesis I_closed : tc_closed I.
  Hypothesis dropped_wordless : forall h n c, I h -> restricted (clsof h n) = true -> In c (kids h n) ->
    allowed (clsof h n) (clsof h c) = false -> words h c = [].

  Theorem restrict_children_safe : safe_pass I (restrict_children restricted allowed).
  Proof.
    unfold restrict_children. apply child_pass_safe.
    - exact I_closed.
    - intros h n _ c Hc. unfold rc_tgt in Hc. destruct (restricted (clsof h n)); [|contradiction].
      apply filter_In in Hc. apply Hc.
    - intros h n _ Hnd. unfold rc_tgt. destruct (restricted (clsof h n)); [|constructor].
      apply NoDup_filter. exact Hnd.
    - intros h n c _ K. discriminate.
    - intros h n c Hi _ Hc. unfold rc_tgt in Hc. destruct (restricted (clsof h n)) eqn:R; [|contradiction].
      apply filter_In in Hc. destruct Hc as [Hc Ha]. apply negb_true_iff in Ha.
      eapply dropped_wordless; eassumption.
  Qed.
End Restrict.

Lemma take_while_incl : forall p l x, In x (take_while p l) -> In x l /\ p x = true.
Proof.
  intros p. induction l as [|a l IH]; intros x H; [contradiction|].
  simpl in H. destruct (p a) eqn:E; [|contradiction].
  destruct H as [H|H]; [subst a; split; [left; reflexivity | exact E]|].
  destruct (IH x H) as [A B]. split; [right; exact A | exact B].
Qed.

Lemma take_while_NoDup : forall p l, NoDup l -> NoDup (take_while p l).
Proof.
  intros p. induction l as [|a l IH]; intros H; [constructor|].
  simpl. apply NoDup_cons_iff in H. destruct H as [Ha Hl].
  destruct (p a); [|constructor]. constructor; [|apply IH; exact Hl].
  intro K. apply Ha. apply (take_while_incl p l a K).
Qed.

(* remove_empty_training_table_rows (1508-1515): safe when a trailing child of a Table all of whose children
   are childless has no words (true when tables contain rows, rows contain cells and rows/cells have no own
   words; NOT true for a trailing Caption whose children are Text leaves) *)
Section EmptyRows.
  Variable I : heap -> Prop.
  Hypothesis I_closed : tc_closed I.
  Hypothesis empty_row_wordless : forall h n c, I h -> clsof h n = c_Table -> In c (kids h n) ->
    empty_row h c = true -> words h c = [].

  Theorem remove_empty_trailing_rows_safe : safe_pass I remove_empty_trailing_rows.
  Proof.
    unfold remove_empty_trailing_rows. apply child_pass_safe.
    - exact I_closed.
    - intros h n _ c Hc. unfold er_tgt in Hc. destruct (is_cls c_Table h n); [|contradiction].
      apply take_while_incl in Hc. apply in_rev. apply Hc.
    - intros h n _ Hnd. unfold er_tgt. destruct (is_cls c_Table h n); [|constructor].
      apply take_while_NoDup. apply NoDup_rev. exact Hnd.
    - intros h n c _ K. discriminate.
    - intros h n c Hi _ Hc. unfold er_tgt in Hc. destruct (is_cls c_Table h n) eqn:E; [|contradiction].
      apply take_while_incl in Hc. destruct Hc as [Hc He].
      apply (empty_row_wordless h n c Hi); [apply N.eqb_eq; exact E | apply in_rev; exact Hc | exact He].
  Qed.
End EmptyRows.

(* ================================================================ 5. real passes: instances of edit_pass *)
(* remove_list_only_paragraphs (437-454) *)
Theorem remove_list_only_paragraphs_safe : safe_pass para_textless remove_list_only_paragraphs.
Proof.
  unfold remove_list_only_paragraphs. apply edit_pass_safe.
  - exact para_textless_closed.
  - intros h n Hi Ha. apply Hi. unfold lop_act in Ha.
    destruct (is_cls c_Paragraph h n) eqn:E; [apply N.eqb_eq; exact E | discriminate].
  - intros h n _ Ha. unfold lop_act in Ha.
    destruct (is_cls c_Paragraph h n && forallb (is_cls c_ItemList h) (kids h n)); discriminate.
Qed.

(* remove_textless_styles (1181-1200); assumption about the display text: a node whose display text is blank
   has no visible words (own or below) *)
Section Styles.
  Variable is_style : N -> bool.
  Variable blank : heap -> N -> bool.
  Variable I : heap -> Prop.
  Hypothesis I_closed : tc_closed I.
  Hypothesis blank_sound : forall h n, I h -> blank h n = true -> textof h n = [] /\ words h n = [].

  Theorem remove_textless_styles_safe : safe_pass I (remove_textless_styles is_style blank).
  Proof.
    unfold remove_textless_styles. apply edit_pass_safe.
    - exact I_closed.
    - intros h n Hi Ha. unfold ts_act in Ha.
      destruct (is_style (clsof h n)); [|discriminate]. destruct (blank h n) eqn:B; [|discriminate].
      apply (blank_sound h n Hi B).
    - intros h n Hi Ha. unfold ts_act in Ha.
      destruct (is_style (clsof h n)); [|discriminate]. destruct (blank h n) eqn:B; [|discriminate].
      apply (blank_sound h n Hi B).
  Qed.
End Styles.

(* remove_invisible_links (1202-1216) with sel = CategoryLink/LangLink without colon: safe when the harness does
   not count their target as visible words; remove_absolute_positioned_node, remove_empty_sections, the
   else-branch of remove_no_print_nodes, _filter_tree: safe only where the selected subtrees are wordless *)
Theorem remove_selected_safe : forall sel (I : heap -> Prop), tc_closed I ->
  (forall h n, I h -> sel h n = true -> words h n = []) ->
  safe_pass I (remove_selected sel).
Proof.
  intros sel I Hc Hs. unfold remove_selected, prune_pass. apply edit_pass_safe; [exact Hc | |].
  - intros h n _ Ha. destruct (sel h n); discriminate.
  - intros h n Hi Ha. apply Hs; [exact Hi|]. destruct (sel h n); [reflexivity|discriminate].
Qed.

(* clean_vlist, mark_infoboxes, mark_short_paragraph, fix_math_dir: no tree edit *)
Theorem attr_only_pass_safe : forall (I : heap -> Prop), tc_closed I -> safe_pass I attr_only_pass.
Proof.
  intros I Hc. unfold attr_only_pass. apply edit_pass_safe; [exact Hc | |]; intros; discriminate.
Qed.

Lemma keep_visit_id : forall ret f h q s, repr h q s -> tsize s <= f ->
  visit (fun _ _ => AKeep) ret f h (tid s) = Done h.
Proof.
  intros ret. induction f as [|f IH]; intros h q s Hr Hs.
  { pose proof (tsize_pos s). lia. }
  destruct s as [n ts]. cbn [tid]. pose proof (kids_repr _ _ _ _ Hr) as Hk.
  assert (L : vloop (visit (fun _ _ => AKeep) ret f) h (kids h n) = Done h).
  { rewrite Hk. rewrite tsize_eq in Hs. assert (Hf : fsize ts <= f) by lia.
    assert (Hall : forall x, In x ts -> repr h (Some n) x).
    { intros x Hx. eapply ProofsApi.repr_child; eassumption. }
    clear Hk Hr Hs. induction ts as [|x r IHr]; [reflexivity|].
    rewrite fsize_cons in Hf. simpl. rewrite (IH h (Some n) x); [|apply Hall; left; reflexivity|lia].
    apply IHr; [lia | intros y Hy; apply Hall; right; exact Hy]. }
  simpl visit. destruct (par h n); exact L.
Qed.

Theorem attr_only_pass_id : forall h r, WF h r -> attr_only_pass h r = Done h.
Proof.
  intros h r (t & Ht & Hr & Hnd). subst r. unfold attr_only_pass, edit_pass, pass_fuel.
  rewrite (build_complete h t Hr Hnd). eapply keep_visit_id; [exact Hr | apply le_n].
Qed.

(* ================================================================ 6. concrete runs (non-vacuity) *)
(* Article[ ItemList[ Item[ Paragraph[Text 5, Text 6], Text 7 ] ] ]   (20 Article) *)
Definition hy : heap :=
  [(1, mkNode 20 None [2] []); (2, mkNode 6 (Some 1) [3] []); (3, mkNode 7 (Some 2) [4; 7] []);
   (4, mkNode 10 (Some 3) [5; 6] []); (5, mkNode 1 (Some 4) [] [5]); (6, mkNode 1 (Some 4) [] [6]);
   (7, mkNode 1 (Some 3) [] [7])]%N.

Lemma para_textless_hy : para_textless hy.
Proof.
  intros n Hc. unfold textof, clsof in *. simpl in *.
  repeat match goal with
         | |- context [N.eqb n ?k] => destruct (N.eqb n k) eqn:?; simpl in *
         end; try reflexivity; discriminate.
Qed.

Lemma leading_para_example :
  WF hy 1 /\ para_textless hy /\
  exists h', remove_leading_para_in_list hy 1 = Done h' /\ kids h' 3 = [5; 6; 7]%N /\
             wfb h' 1 = true /\ words h' 1 = [5; 6; 7]%N /\ words hy 1 = [5; 6; 7]%N.
Proof.
  split; [apply ProofsWf.wfb_spec; vm_compute; reflexivity|]. split; [exact para_textless_hy|].
  eexists. vm_compute. repeat split.
Qed.

(* Article[ Table[ Row[Cell[Text 5]], Row[Cell[]], Row[] ] ]: the two trailing empty rows go, last one first *)
Definition hz : heap :=
  [(1, mkNode 20 None [2] []); (2, mkNode 2 (Some 1) [3; 6; 8] []); (3, mkNode 3 (Some 2) [4] []);
   (4, mkNode 4 (Some 3) [5] []); (5, mkNode 1 (Some 4) [] [5]); (6, mkNode 3 (Some 2) [7] []);
   (7, mkNode 4 (Some 6) [] []); (8, mkNode 3 (Some 2) [] [])]%N.

Lemma empty_rows_example :
  WF hz 1 /\ er_tgt hz 2 = [8; 6]%N /\
  exists h', remove_empty_trailing_rows hz 1 = Done h' /\ kids h' 2 = [3]%N /\
             wfb h' 1 = true /\ words h' 1 = [5]%N /\ words hz 1 = [5]%N.
Proof.
  split; [apply ProofsWf.wfb_spec; vm_compute; reflexivity|]. split; [vm_compute; reflexivity|].
  eexists. vm_compute. repeat split.
Qed.

(* Article[ Gallery(30)[ ImageLink(31), BR, ImageLink[Text 9] ] ], allowed_children = {Gallery: [ImageLink]}:
   the BR is dropped, then `return`: nothing below the Gallery is visited *)
Definition hw : heap :=
  [(1, mkNode 20 None [2] []); (2, mkNode 30 (Some 1) [3; 4; 5] []); (3, mkNode 31 (Some 2) [] []);
   (4, mkNode 11 (Some 2) [] []); (5, mkNode 31 (Some 2) [6] []); (6, mkNode 1 (Some 5) [] [9])]%N.
Definition restricted_real (k : N) : bool := N.eqb k 30.
Definition allowed_real (k kc : N) : bool := N.eqb k 30 && N.eqb kc 31.

Lemma restrict_children_example :
  WF hw 1 /\
  exists h', restrict_children restricted_real allowed_real hw 1 = Done h' /\ kids h' 2 = [3; 5]%N /\
             wfb h' 1 = true /\ words h' 1 = [9]%N /\ words hw 1 = [9]%N.
Proof.
  split; [apply ProofsWf.wfb_spec; vm_compute; reflexivity|]. eexists. vm_compute. repeat split.
Qed.

(* the three child-edit passes and two edit passes in one list, under one invariant *)
Lemma run_passes2_example_safe :
  Forall (safe_pass para_textless)
         [remove_list_only_paragraphs; remove_leading_para_in_list; attr_only_pass].
Proof.
  constructor; [exact remove_list_only_paragraphs_safe|].
  constructor; [exact remove_leading_para_in_list_safe|].
  constructor; [apply attr_only_pass_safe; exact para_textless_closed | constructor].
Qed.

Lemma run_passes2_example :
  exists h', run_passes [remove_list_only_paragraphs; remove_leading_para_in_list; attr_only_pass] hy 1
             = Done h' /\ kids h' 3 = [5; 6; 7]%N /\ wfb h' 1 = true /\ words h' 1 = words hy 1.
Proof. eexists. vm_compute. repeat split. Qed.
