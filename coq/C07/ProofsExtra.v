(* C07 — concrete instances (non-vacuity) *)
From Coq Require Import List NArith Bool.
From MW Require Import C05.Heap C05.TreeOps.
From MW Require C05.ProofsWf.
Import ListNotations.

(* Article[ Paragraph[ Div[Text 5, Text 6] , Text 7 ] ] : dissolving the Div keeps 5 6 7 *)
Definition hd : heap :=
  [(1, mkNode 20 None [2] []); (2, mkNode 10 (Some 1) [3; 6] []); (3, mkNode 24 (Some 2) [4; 5] []);
   (4, mkNode 1 (Some 3) [] [5]); (5, mkNode 1 (Some 3) [] [6]); (6, mkNode 1 (Some 2) [] [7])]%N.

Lemma dissolve_example :
  WF hd 1 /\ exists h', replace_child hd 2 3 (kids hd 3) = Ok h' /\ kids h' 2 = [4; 5; 6]%N /\
                        wfb h' 1 = true /\ words h' 1 = [5; 6; 7]%N /\ words hd 1 = [5; 6; 7]%N.
Proof.
  split; [apply ProofsWf.wfb_spec; vm_compute; reflexivity|]. eexists. vm_compute. repeat split.
Qed.

(* a pass that DROPS the children instead (remove_child): the words are lost - what the monitor detects *)
Lemma drop_example : exists h', remove_child hd 2 3 = Ok h' /\ wfb h' 1 = true /\ words h' 1 = [7]%N.
Proof. eexists. vm_compute. repeat split. Qed.
