(* C07 — a generic executable model of the tree cleaner's "edit the visited node" passes
   (definitions only; lemmas in C07/ProofsPasses.v).

   Shape modelled (treecleaner.py, e.g. remove_list_only_paragraphs 437-454, remove_textless_styles
   1176-1195, remove_invisible_links 1197-1211, remove_empty_sections 1533-1545):

       def some_pass(self, node):
           if <test on node> and node.parent:
               node.parent.replace_child(node, node.children)      # ADissolve
               [return]                                            # ret = true
           # or:  node.parent.remove_child(node); return           # APrune (always returns)
           for child in node.children[:]:                          # iteration over a COPY
               self.some_pass(child)

   `act h n` is the test, evaluated on the heap at the time node n is visited (preorder).  When
   node.parent is None (`and node.parent` is false) nothing is edited and the children are visited.
   After a dissolve without `return` the loop runs over node.children of the (now detached) node: its
   list is unchanged, the children are now children of node.parent.
   NOT modelled: iteration over the LIVE list (`for child in node.children:` while children remove or
   dissolve themselves: the element that moves into the freed index is skipped); see the list of passes
   in ProofsPasses.v. *)
From Coq Require Import List NArith Bool Arith.
From MW Require Import C05.Heap C05.TreeOps C06.Model.
Import ListNotations.

Inductive action := AKeep | ADissolve | APrune.

(* for child in <snapshot l>: visit(child) *)
Fixpoint vloop (v : heap -> N -> outcome) (h : heap) (l : list N) : outcome :=
  match l with
  | [] => Done h
  | c :: r => match v h c with
              | Done h1 => vloop v h1 r
              | o => o
              end
  end.

Section Pass.
  Variable act : heap -> N -> action.
  Variable ret : bool.                 (* is there a `return` right after the dissolve? *)

  Fixpoint visit (fuel : nat) (h : heap) (n : N) : outcome :=
    match fuel with
    | O => OutOfFuel
    | S f =>
        match par h n with
        | None => vloop (visit f) h (kids h n)
        | Some p =>
            match act h n with
            | AKeep => vloop (visit f) h (kids h n)
            | ADissolve =>
                match replace_child h p n (kids h n) with
                | Err => Raised
                | Ok h1 => if ret then Done h1 else vloop (visit f) h1 (kids h1 n)
                end
            | APrune =>
                match remove_child h p n with
                | Err => Raised
                | Ok h1 => Done h1
                end
            end
        end
    end.

  (* fuel = number of nodes of the tree below r *)
  Definition pass_fuel (h : heap) (r : N) : nat :=
    match build (S (length h)) h r with Some t => tsize t | None => O end.

  Definition edit_pass (h : heap) (r : N) : outcome := visit (pass_fuel h r) h r.
End Pass.

(* the two special cases asked for: a selection predicate *)
Definition dissolve_pass (sel : heap -> N -> bool) (ret : bool) : heap -> N -> outcome :=
  edit_pass (fun h n => if sel h n then ADissolve else AKeep) ret.
Definition prune_pass (sel : heap -> N -> bool) : heap -> N -> outcome :=
  edit_pass (fun h n => if sel h n then APrune else AKeep) true.

(* clean(): the passes one after the other on the same root; an exception ends the run *)
Definition run_passes (ps : list (heap -> N -> outcome)) (h : heap) (r : N) : outcome :=
  fold_left (fun o f => match o with Done h1 => f h1 r | _ => o end) ps (Done h).
